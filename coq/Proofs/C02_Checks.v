(* Proofs/C02_Checks.v — the registered checks of every inspector in every reachable state;
   the gate at the interface level; the constructor rule; null-check formats. *)
Require Import OV.Base.Bytes OV.Base.Py OV.Base.Insp_Struct OV.Gen.Insp_Consts OV.Model.Insp_Engine.
Require Import OV.Model.Insp_Raw OV.Model.Insp_Qcow2 OV.Model.Insp_Qed OV.Model.Insp_Vhd OV.Model.Insp_Vdi
               OV.Model.Insp_Iso OV.Model.Insp_Gpt OV.Model.Insp_Luks OV.Model.Insp_Vhdx OV.Model.Insp_Vmdk OV.Model.Insp_All.
Require Import OV.Model.C02 OV.Proofs.C02_Engine OV.Proofs.C02_Static.
Open Scope N_scope.

(* ---------- the primitives ---------- *)
Lemma new_region_checks {X} n sp (s : ist X) : i_checks (fst (new_region n sp s)) = i_checks s.
Proof. unfold new_region. destruct (has_region n s); reflexivity. Qed.
Lemma delete_region_checks {X} n (s : ist X) : i_checks (fst (delete_region n s)) = i_checks s.
Proof. unfold delete_region. destruct (has_region n s); reflexivity. Qed.
Lemma add_check_extends {X} c (s : ist X) : extends (i_checks s) (i_checks (fst (add_check c s))).
Proof. unfold add_check. destruct (mem_cname c (i_checks s)); [apply extends_refl|]. exists [c]. reflexivity. Qed.

(* ---------- post_process / region_complete of the ten formats ---------- *)
Lemma qcow_rcomplete_checks n s : i_checks (fst (qcow_rcomplete n s)) = i_checks s.
Proof.
  unfold qcow_rcomplete. destruct (get_region R_header s); [|reflexivity].
  destruct (unpack _ _); [|reflexivity].
  match goal with |- context [qcow_match ?x] => destruct (qcow_match x) as [[|]|] end; reflexivity.
Qed.

Lemma vhdx_find_meta_entry_checks g s : i_checks (fst (vhdx_find_meta_entry g s)) = i_checks s.
Proof.
  unfold vhdx_find_meta_entry. destruct (get_region R_metadata s); [|reflexivity].
  destruct (flen _ <? _); [reflexivity|]. destruct (unpack _ _); [|reflexivity].
  destruct (negb _); [reflexivity|]. destruct (flen _ <? _); [reflexivity|]. destruct (_ <=? _); [reflexivity|].
  destruct (vhdx_mt_loop _ _ _) as [[[? ?]|]|]; reflexivity.
Qed.

Lemma vhdx_post_checks s : i_checks (fst (vhdx_post s)) = i_checks s.
Proof.
  unfold vhdx_post. destruct (get_region R_header s); [|reflexivity].
  destruct (rcomplete _ && _).
  - destruct (vhdx_find_meta_region s) as [[sp|]|]; try reflexivity. apply new_region_checks.
  - destruct (has_region R_metadata s && _); [|reflexivity].
    pose proof (vhdx_find_meta_entry_checks VHDX_GUID_VIRTUAL_DISK_SIZE s) as H.
    destruct (vhdx_find_meta_entry VHDX_GUID_VIRTUAL_DISK_SIZE s) as [s' [[sp|]|]]; cbn [fst] in *; try exact H.
    rewrite new_region_checks. exact H.
Qed.

Lemma vmdk_post_extends s : extends (i_checks s) (i_checks (fst (vmdk_post s))).
Proof.
  unfold vmdk_post. destruct (rget R_header (i_regs s)); [|apply extends_refl].
  destruct (negb (rcomplete r)); [apply extends_refl|].
  destruct (vmdk_parse_sparse s R_header 0) as [[[[[sig ver] dsec] dnum] gd]|]; [|apply extends_refl].
  destruct (negb (beq sig VMDK_MAGIC_PP)).
  { destruct (forallb ascii_text (r_data r)); [|apply extends_refl]. rewrite delete_region_checks. apply extends_refl. }
  destruct (negb _); [apply extends_refl|].
  (* the footer step *)
  assert (Hstep : forall s1 e1,
            (if (gd =? VMDK_GD_AT_END) && negb (has_region R_footer s)
             then match new_region R_footer (mkRspec true VMDK_FOOTER_LEN VMDK_FOOTER_LEN None) s with
                  | (s', Some e) => (s', Some e) | (s', None) => add_check K_footer s' end
             else (s, None)) = (s1, e1) -> extends (i_checks s) (i_checks s1)).
  { intros s1 e1. destruct ((gd =? VMDK_GD_AT_END) && negb (has_region R_footer s)).
    - pose proof (new_region_checks R_footer (mkRspec true VMDK_FOOTER_LEN VMDK_FOOTER_LEN None) s) as Hn.
      destruct (new_region R_footer _ s) as [s' [e|]]; cbn [fst] in Hn.
      + intros H. injection H as <- _. rewrite Hn. apply extends_refl.
      + intros H. pose proof (add_check_extends K_footer s') as Ha. rewrite H in Ha. cbn [fst] in Ha. rewrite <- Hn. exact Ha.
    - intros H. injection H as <- _. apply extends_refl. }
  destruct (if (gd =? VMDK_GD_AT_END) && negb (has_region R_footer s) then _ else _) as [s1 e1] eqn:E.
  specialize (Hstep s1 e1 eq_refl).
  destruct e1 as [e|]; [exact Hstep|].
  destruct (negb (dsec * VMDK_SECTOR_A =? VMDK_DESC_OFFSET)); [exact Hstep|].
  destruct (get_region R_descriptor s1) as [d|]; [|exact Hstep].
  destruct (r_off d =? 0); [|exact Hstep].
  pose proof (delete_region_checks R_descriptor s1) as Hd.
  destruct (delete_region R_descriptor s1) as [s2 [e|]]; cbn [fst] in Hd |- *; [rewrite Hd; exact Hstep|].
  rewrite new_region_checks, Hd. exact Hstep.
Qed.

Lemma vmdk_rcomplete_checks n s : i_checks (fst (vmdk_rcomplete n s)) = i_checks s.
Proof.
  unfold vmdk_rcomplete. destruct n; try reflexivity.
  unfold vmdk_parse_descriptor. destruct (get_region R_descriptor s); [|reflexivity].
  destruct (negb _); reflexivity.
Qed.

(* ---------- every reachable state of every format ---------- *)
Lemma eq_extends a b : a = b -> extends b a -> True. Proof. trivial. Qed.

Lemma ufmt_post_checks f s : i_checks (fst (f_post (ufmt f) s)) = i_checks s.
Proof. destruct f; try reflexivity. apply vhdx_post_checks. Qed.
Lemma ufmt_rcomplete_checks f n s : i_checks (fst (f_rcomplete (ufmt f) n s)) = i_checks s.
Proof. destruct f; reflexivity. Qed.

Theorem checks_of_run f cs : extends (init_checks f) (checks_of (fst (Insp_All.run f cs))).
Proof.
  destruct (is_unit_fmt f) eqn:Hu.
  - rewrite run_unit by exact Hu.
    pose proof (run_fmt_R (ufmt f) extends extends_refl extends_trans
                  (fun s => eq_ind_r (fun l => extends (i_checks s) l) (extends_refl _) (ufmt_post_checks f s))
                  (fun n s => eq_ind_r (fun l => extends (i_checks s) l) (extends_refl _) (ufmt_rcomplete_checks f n s)) cs) as H.
    destruct (run_fmt (ufmt f) cs) as [s e]. cbn [fst checks_of] in *.
    replace (f_id (ufmt f)) with f in H by (destruct f; try discriminate; reflexivity). exact H.
  - destruct f; try discriminate.
    + rewrite run_qcow.
      pose proof (run_fmt_R qcow_fmt extends extends_refl extends_trans
                    (fun s => extends_refl _)
                    (fun n s => eq_ind_r (fun l => extends (i_checks s) l) (extends_refl _) (qcow_rcomplete_checks n s)) cs) as H.
      destruct (run_fmt qcow_fmt cs) as [s e]. exact H.
    + rewrite run_vmdk.
      pose proof (run_fmt_R vmdk_fmt extends extends_refl extends_trans vmdk_post_extends
                    (fun n s => eq_ind_r (fun l => extends (i_checks s) l) (extends_refl _) (vmdk_rcomplete_checks n s)) cs) as H.
      destruct (run_fmt vmdk_fmt cs) as [s e]. exact H.
Qed.

(* the generated table: every inspector class registers at least one check *)
Theorem at_least_one_check_init f : init_checks f <> [].
Proof. destruct f; discriminate. Qed.

Theorem at_least_one_check f cs : checks_of (fst (Insp_All.run f cs)) <> [].
Proof. eapply extends_nonempty; [apply checks_of_run|apply at_least_one_check_init]. Qed.

(* FileInspector.__init__: RuntimeError exactly when _initialize registered nothing; it never fires for the ten classes *)
Theorem construct_rule_spec checks : construct_rule checks = Some RuntimeError <-> checks = [].
Proof. destruct checks; cbn; split; congruence. Qed.
Theorem construct_ok f : construct f = Ok (init f).
Proof. unfold construct. destruct f; reflexivity. Qed.

(* the formats whose checks never change: exactly the initial list *)
Definition fixed_checks (f : fmt_id) : bool := match f with F_vmdk => false | _ => true end.
Theorem checks_fixed f cs : fixed_checks f = true -> checks_of (fst (Insp_All.run f cs)) = init_checks f.
Proof.
  intros Hf. destruct (is_unit_fmt f) eqn:Hu.
  - rewrite run_unit by exact Hu.
    pose proof (run_fmt_R (ufmt f) (fun a b => b = a) (fun l => eq_refl) (fun a b c H1 H2 => eq_trans H2 H1)
                  (ufmt_post_checks f) (ufmt_rcomplete_checks f) cs) as H.
    destruct (run_fmt (ufmt f) cs) as [s e]. cbn [fst checks_of] in *.
    replace (f_id (ufmt f)) with f in H by (destruct f; try discriminate; reflexivity). exact H.
  - destruct f; try discriminate. rewrite run_qcow.
    pose proof (run_fmt_R qcow_fmt (fun a b => b = a) (fun l => eq_refl) (fun a b c H1 H2 => eq_trans H2 H1)
                  (fun s => eq_refl) qcow_rcomplete_checks cs) as H.
    destruct (run_fmt qcow_fmt cs) as [s e]. exact H.
Qed.

(* ---------- the gate, at the interface level (any inspector object, reachable or not) ---------- *)
Theorem safety_pass_implies_gate i :
  safety i = Pass <->
  Insp_All.complete i = true /\ format_match i = Ok true /\ forall c, In c (checks_of i) -> check_of i c = Ok tt.
Proof. destruct i; apply safety_pass_iff. Qed.

Theorem check_exception_is_failure i c e :
  In c (checks_of i) -> check_of i c = Exn e -> safety i <> Pass.
Proof. destruct i; apply check_exception_fails. Qed.

Theorem check_exception_named i c e :
  Insp_All.complete i = true -> format_match i = Ok true -> In c (checks_of i) -> check_of i c = Exn e ->
  exists names, safety i = Fail names /\ In c names.
Proof. destruct i; apply check_exception_reported. Qed.

(* whatever exception class: SafetyCheck.__call__ turns it into SafetyViolation, never into a pass *)
Theorem call_check_never_passes_exception e : call_check (Exn e) = Exn SafetyViolation.
Proof. destruct e; reflexivity. Qed.

Theorem incomplete_never_passes i : Insp_All.complete i = false -> safety i = Refused.
Proof. destruct i; apply safety_incomplete_refused. Qed.
Theorem mismatch_never_passes i : format_match i = Ok false -> safety i = Refused.
Proof. destruct i; apply safety_mismatch_refused. Qed.

(* ---------- null-check formats: vhd, vhdx, vdi, iso, raw ---------- *)
Definition null_fmt (f : fmt_id) : bool := match f with F_vhd | F_vhdx | F_vdi | F_iso | F_raw => true | _ => false end.

Theorem null_check_formats_pass_iff f cs : null_fmt f = true ->
  let i := fst (Insp_All.run f cs) in
  safety i = Pass <-> Insp_All.complete i = true /\ format_match i = Ok true.
Proof.
  intros Hf i. rewrite safety_pass_implies_gate.
  assert (Hc : checks_of i = [K_null]).
  { subst i. rewrite checks_fixed by (destruct f; try discriminate; reflexivity). destruct f; try discriminate; reflexivity. }
  split; [intros [H1 [H2 _]]; split; assumption|]. intros [H1 H2]. split; [exact H1|]. split; [exact H2|].
  intros c Hin. rewrite Hc in Hin. destruct Hin as [<-|[]].
  assert (Hu : is_unit_fmt f = true) by (destruct f; try discriminate; reflexivity).
  subst i. rewrite run_unit by exact Hu. destruct (run_fmt (ufmt f) cs) as [s e]. cbn [fst check_of].
  destruct f; try discriminate; reflexivity.
Qed.
