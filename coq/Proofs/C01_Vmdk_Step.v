(* Proofs/C01_Vmdk_Step.v — what one eat_chunk does to a VMDKInspector, phase by phase:
   phase 0: fewer than 64 bytes seen (header incomplete);
   the chunk that completes the header (post_process decides: ImageFormatError / text mode / relocate the descriptor);
   phase 1: valid sparse header, descriptor region at 512, optional footer region. *)
Require Import OV.Base.Bytes OV.Base.Py OV.Base.PyInt OV.Base.Str OV.Base.Insp_Struct OV.Gen.Insp_Consts.
Require Import OV.Model.Insp_Engine OV.Model.Insp_Vmdk OV.Model.Insp_All OV.Model.C01_Vmdk.
Require Import OV.Proofs.Insp_Engine OV.Proofs.Insp_Static OV.Proofs.C01_Vmdk_Base.
Open Scope N_scope.

(* ---------------------------------------------------------------- the inspector's private attributes *)
Definition x0 : vx := mkVx None VMDK_NOTFOUND.
(* no createType has been found (yet): desc_text may or may not be set *)
Definition early (x : vx) : Prop := v_vmdktype x = VMDK_NOTFOUND.
(* _parse_descriptor on descriptor data d *)
Definition parse_ext (d : bytes) (x : vx) : vx :=
  match parse_desc d with Some (t, ty) => mkVx (Some t) ty | None => x end.

Lemma set_ext_same (s : ist vx) : set_ext s (i_ext s) = s.
Proof. destruct s; reflexivity. Qed.

Lemma parse_descriptor_eq (s : ist vx) r :
  rget R_descriptor (i_regs s) = Some r ->
  vmdk_parse_descriptor s = (set_ext s (parse_ext (r_data r) (i_ext s)), None).
Proof.
  intros H. unfold vmdk_parse_descriptor, get_region, parse_ext, parse_desc, upto_nul. rewrite H.
  destruct (forallb is_ascii _); cbn [negb]; [reflexivity | rewrite set_ext_same; reflexivity].
Qed.

Lemma parse_ext_early d x : noct d -> early x -> early (parse_ext d x).
Proof.
  intros Hn Hx. unfold parse_ext, parse_desc. destruct (forallb is_ascii (upto_nul d)); [|exact Hx].
  unfold early. cbn [v_vmdktype]. apply noct_type. exact Hn.
Qed.

(* ---------------------------------------------------------------- capture at offset 0 *)
Lemma cap_fixed_prefix id len mn st c :
  cap_fixed (mkRegion id false 0 len mn st false) c (blen st + flen c)
  = mkRegion id false 0 len mn (btake len (st ++ c)) false.
Proof.
  unfold cap_fixed. cbn [r_off r_data r_len]. rewrite !flen_blen.
  replace (blen st + blen c - blen c) with (blen st) by lia. rewrite N.add_0_l.
  replace ((blen st <=? blen st) && (blen st <=? blen st + blen c)) with true by lia.
  unfold set_data. cbn [r_id r_end r_off r_len r_min r_fin r_data].
  rewrite ntake_btake, nskip_bskip. replace (blen st - blen st) with 0 by lia. rewrite bskip_0. reflexivity.
Qed.

(* ---------------------------------------------------------------- phase 0: header incomplete *)
Definition hreg (d : bytes) : region := mkRegion 0 false 0 512 (Some 64) d false.
Definition d0reg (d : bytes) : region := mkRegion 1 false 0 1048575 (Some 4) d false.
Definition S0 (st d : bytes) (x : vx) : ist vx :=
  mkIst (blen st) [(R_header, hreg st); (R_descriptor, d0reg d)] 2 false [K_descriptor] x.

Lemma init_S0 : init_ist vmdk_fmt = S0 [] [] x0.
Proof. reflexivity. Qed.

(* the offset-0 descriptor region (min_length 4) stops growing once it holds 4 bytes *)
Definition d0_next (st d c : bytes) : bytes := if 4 <=? blen d then d else btake 1048575 (st ++ c).

Lemma rcomplete_hreg d : rcomplete (hreg d) = (64 <=? blen d).
Proof. unfold rcomplete, base_complete, hreg. cbn [r_end r_min r_data]. rewrite flen_blen. reflexivity. Qed.
Lemma rcomplete_d0reg d : rcomplete (d0reg d) = (4 <=? blen d).
Proof. unfold rcomplete, base_complete, d0reg. cbn [r_end r_min r_data]. rewrite flen_blen. reflexivity. Qed.

Lemma capture0 st d c : blen st < 64 -> (blen d < 4 -> d = st) ->
  capture_regs [] c (blen st + flen c) [(R_header, hreg st); (R_descriptor, d0reg d)]
  = [(R_header, hreg (btake 512 (st ++ c))); (R_descriptor, d0reg (d0_next st d c))].
Proof.
  intros Hst Hd. unfold capture_regs. cbn [map].
  rewrite rcomplete_hreg, rcomplete_d0reg.
  replace (64 <=? blen st) with false by lia.
  change (r_end (hreg st)) with false. change (r_end (d0reg d)) with false. cbn [orb negb].
  unfold rcapture. change (r_end (hreg st)) with false. change (r_end (d0reg d)) with false. cbn iota.
  unfold hreg at 1. rewrite cap_fixed_prefix. fold (hreg (btake 512 (st ++ c))).
  unfold d0_next. destruct (4 <=? blen d) eqn:H4; cbn [negb]; [reflexivity|].
  rewrite (Hd ltac:(lia)). unfold d0reg at 1. rewrite cap_fixed_prefix. reflexivity.
Qed.

(* the callback of the offset-0 descriptor region when it becomes complete *)
Definition x_next (d d' : bytes) (x : vx) : vx :=
  if negb (4 <=? blen d) && (4 <=? blen d') then parse_ext d' x else x.

Lemma post_incomplete (s : ist vx) h :
  rget R_header (i_regs s) = Some h -> rcomplete h = false -> vmdk_post s = (s, None).
Proof. intros Hg Hc. unfold vmdk_post. rewrite Hg, Hc. reflexivity. Qed.

Lemma step0 st d x c :
  blen st < 64 -> (blen d < 4 -> d = st) -> blen st + blen c < 64 ->
  eat_chunk vmdk_fmt (S0 st d x) c = (S0 (st ++ c) (d0_next st d c) (x_next d (d0_next st d c) x), None).
Proof.
  intros Hst Hd Hc. unfold eat_chunk, do_capture, S0, set_pos, set_regs.
  cbn [i_pos i_regs i_fin i_next i_checks i_ext].
  rewrite (capture0 st d c Hst Hd).
  assert (Hh : btake 512 (st ++ c) = st ++ c) by (apply btake_all; rewrite blen_app; lia).
  rewrite Hh.
  cbn [f_post vmdk_fmt].
  rewrite (post_incomplete _ (hreg (st ++ c))); [|reflexivity|rewrite rcomplete_hreg, blen_app; lia].
  unfold eat_fuel. cbn [settle i_regs new_names ids map filter snd fst hreg d0reg r_id mem_nat Nat.eqb orb negb].
  unfold newly_complete, complete_ids. cbn [filter snd fst ids map].
  rewrite !rcomplete_hreg, !rcomplete_d0reg.
  replace (64 <=? blen st) with false by lia. replace (64 <=? blen (st ++ c)) with false by (rewrite blen_app; lia).
  cbn [andb]. unfold x_next. rewrite flen_blen, <- blen_app.
  destruct (4 <=? blen d) eqn:H4; cbn [map ids r_id d0reg snd fst mem_nat Nat.eqb orb negb andb filter].
  - rewrite andb_false_r. cbn [map run_callbacks]. reflexivity.
  - destruct (4 <=? blen (d0_next st d c)) eqn:H4'; cbn [andb map filter fst run_callbacks]; [|reflexivity].
    cbn [f_rcomplete vmdk_fmt vmdk_rcomplete].
    erewrite parse_descriptor_eq by (cbn [i_regs rget rname_beq]; reflexivity).
    reflexivity.
Qed.

(* ---------------------------------------------------------------- post_process once the header region is complete *)
(* the five values _parse_sparse_header returns, from the 64 bytes u *)
Definition fields (u : bytes) : bytes * N * N * N * N :=
  (sraw sf_vmdk_sparse 0 u, sint sf_vmdk_sparse 1 u, sint sf_vmdk_sparse 5 u, sint sf_vmdk_sparse 6 u, sint sf_vmdk_sparse 9 u).

Lemma parse64_ok u : blen u = 64 -> parse64 u = Ok (fields u).
Proof. intros H. unfold parse64, unpack. rewrite flen_blen, H. reflexivity. Qed.

Lemma parse_sparse_at (s : ist vx) n r off :
  rget n (i_regs s) = Some r ->
  vmdk_parse_sparse s n off = parse64 (bslice off 64 (r_data r)).
Proof.
  intros Hg. unfold vmdk_parse_sparse, get_region, parse64. rewrite Hg. cbn [bind].
  rewrite nsub_bsub. unfold bsub, bslice. replace (off + VMDK_MIN_SPARSE_HEADER - off) with 64 by (unfold VMDK_MIN_SPARSE_HEADER; lia).
  reflexivity.
Qed.

Lemma parse_sparse_header (s : ist vx) r :
  rget R_header (i_regs s) = Some r -> 64 <= blen (r_data r) ->
  vmdk_parse_sparse s R_header 0 = Ok (fields (btake 64 (r_data r))).
Proof.
  intros Hg Hl. rewrite (parse_sparse_at s R_header r 0 Hg). unfold bslice. rewrite bskip_0.
  apply parse64_ok. rewrite blen_btake. lia.
Qed.

(* header facts, all about u = the first 64 bytes *)
Definition hdr_sig_ok (u : bytes) : bool := beq (sraw sf_vmdk_sparse 0 u) VMDK_MAGIC_PP.
Definition hdr_ver_ok (u : bytes) : bool := ver_ok (sint sf_vmdk_sparse 1 u).
Definition hdr_loc_ok (u : bytes) : bool := sint sf_vmdk_sparse 5 u * VMDK_SECTOR_A =? VMDK_DESC_OFFSET.
Definition hdr_foot (u : bytes) : bool := sint sf_vmdk_sparse 9 u =? VMDK_GD_AT_END.
Definition hdr_dsz (u : bytes) : N := N.min (sint sf_vmdk_sparse 6 u * VMDK_SECTOR_B) VMDK_DESC_MAX_SIZE.

(* ImageFormatError: signature (when the captured header is not text) or version *)
Lemma post_bad (s : ist vx) h :
  rget R_header (i_regs s) = Some h -> 64 <= blen (r_data h) -> rcomplete h = true ->
  let u := btake 64 (r_data h) in
  (hdr_sig_ok u = false /\ forallb ascii_text (r_data h) = false) \/ (hdr_sig_ok u = true /\ hdr_ver_ok u = false) ->
  vmdk_post s = (s, Some ImageFormatError).
Proof.
  intros Hg Hl Hc u Hcase. unfold vmdk_post. rewrite Hg, Hc. cbn [negb].
  rewrite (parse_sparse_header s h Hg Hl). unfold fields. fold u.
  unfold hdr_sig_ok, hdr_ver_ok, ver_ok in Hcase.
  destruct Hcase as [[H1 H2]|[H1 H2]]; rewrite H1; cbn [negb]; [rewrite H2; reflexivity|].
  rewrite H2. reflexivity.
Qed.

(* ---------------------------------------------------------------- phase 1 shapes *)
Definition freg (off : N) (fd : bytes) : region := mkRegion 2 true off 1536 None fd false.
Definition dreg (id : nat) (dsz : N) (dd : bytes) : region := mkRegion id false 512 dsz None dd false.

(* valid sparse header seen: header region frozen, descriptor region at 512, footer region iff gdOffset = GD_AT_END *)
Definition S1 (foot : option (N * bytes)) (dsz : N) (st h dd : bytes) (x : vx) : ist vx :=
  match foot with
  | Some (off, fd) =>
    mkIst (blen st) [(R_header, hreg h); (R_footer, freg off fd); (R_descriptor, dreg 3 dsz dd)] 4 false [K_descriptor; K_footer] x
  | None =>
    mkIst (blen st) [(R_header, hreg h); (R_descriptor, dreg 2 dsz dd)] 3 false [K_descriptor] x
  end.

(* the state right after the capture of the chunk that completes the header *)
Definition T0 (st h d : bytes) (x : vx) : ist vx :=
  mkIst (blen st) [(R_header, hreg h); (R_descriptor, d0reg d)] 2 false [K_descriptor] x.
(* ... and after "Wrong descriptor location" with a footer announced *)
Definition T0f (st h d : bytes) (x : vx) : ist vx :=
  mkIst (blen st) [(R_header, hreg h); (R_descriptor, d0reg d); (R_footer, freg 1536 [])] 3 false [K_descriptor; K_footer] x.

Ltac post_start Hl :=
  unfold vmdk_post; cbn [i_regs rget rname_beq]; rewrite rcomplete_hreg;
  replace (64 <=? blen _) with true by lia; cbn [negb];
  (erewrite parse_sparse_header; [ | cbn [i_regs rget rname_beq]; reflexivity | cbn [hreg r_data]; exact Hl]);
  unfold fields; cbn [hreg r_data].

Lemma post_T0_wrongloc st h d x :
  64 <= blen h -> let u := btake 64 h in
  hdr_sig_ok u = true -> hdr_ver_ok u = true -> hdr_loc_ok u = false ->
  vmdk_post (T0 st h d x) = (if hdr_foot u then T0f st h d x else T0 st h d x, Some ImageFormatError).
Proof.
  intros Hl u Hs Hv Ho. unfold T0. post_start Hl. fold u.
  unfold hdr_sig_ok, hdr_ver_ok, ver_ok, hdr_loc_ok, hdr_foot in *. rewrite Hs, Hv, Ho. cbn [negb].
  destruct (sint sf_vmdk_sparse 9 u =? VMDK_GD_AT_END); cbn [andb]; [|reflexivity].
  unfold has_region, rhas, new_region, add_check, has_region, rhas. cbn [i_regs rget rname_beq negb i_checks mem_cname cname_beq orb i_pos i_next i_fin i_ext app].
  reflexivity.
Qed.

Lemma post_T0_valid st h d x :
  64 <= blen h -> let u := btake 64 h in
  hdr_sig_ok u = true -> hdr_ver_ok u = true -> hdr_loc_ok u = true ->
  vmdk_post (T0 st h d x) = (S1 (if hdr_foot u then Some (1536, []) else None) (hdr_dsz u) st h [] x, None).
Proof.
  intros Hl u Hs Hv Ho. unfold T0. post_start Hl. fold u.
  unfold hdr_sig_ok, hdr_ver_ok, ver_ok, hdr_loc_ok, hdr_foot, hdr_dsz in *. rewrite Hs, Hv, Ho. cbn [negb].
  apply N.eqb_eq in Ho.
  destruct (sint sf_vmdk_sparse 9 u =? VMDK_GD_AT_END); cbn [andb].
  - unfold has_region, rhas, new_region, add_check, has_region, rhas, get_region, delete_region, has_region, rhas.
    cbn [i_regs rget rname_beq negb i_checks mem_cname cname_beq orb i_pos i_next i_fin i_ext app d0reg r_off N.eqb set_regs rdel].
    unfold set_regs. cbn [i_regs rget rname_beq negb i_checks mem_cname cname_beq orb i_pos i_next i_fin i_ext app d0reg r_off N.eqb rdel].
    unfold S1, freg, dreg, region_of_spec. cbn [rs_end rs_off rs_len rs_min]. rewrite Ho. reflexivity.
  - unfold has_region, rhas, new_region, add_check, has_region, rhas, get_region, delete_region, has_region, rhas.
    cbn [i_regs rget rname_beq negb i_checks mem_cname cname_beq orb i_pos i_next i_fin i_ext app d0reg r_off N.eqb set_regs rdel].
    unfold set_regs. cbn [i_regs rget rname_beq negb i_checks mem_cname cname_beq orb i_pos i_next i_fin i_ext app d0reg r_off N.eqb rdel].
    unfold S1, freg, dreg, region_of_spec. cbn [rs_end rs_off rs_len rs_min]. rewrite Ho. reflexivity.
Qed.

Definition has_foot (foot : option (N * bytes)) : bool := match foot with Some _ => true | None => false end.

(* post_process has nothing left to do once the descriptor region has been relocated *)
Lemma post_S1 foot dsz st h dd x :
  64 <= blen h -> let u := btake 64 h in
  hdr_sig_ok u = true -> hdr_ver_ok u = true -> hdr_loc_ok u = true -> hdr_foot u = has_foot foot ->
  vmdk_post (S1 foot dsz st h dd x) = (S1 foot dsz st h dd x, None).
Proof.
  intros Hl u Hs Hv Ho Hf. destruct foot as [[off fd]|]; unfold S1; post_start Hl; fold u;
    unfold hdr_sig_ok, hdr_ver_ok, ver_ok, hdr_loc_ok, hdr_foot, has_foot in *; rewrite Hs, Hv, Ho, Hf; cbn [negb andb];
    unfold has_region, rhas, get_region; cbn [i_regs rget rname_beq negb andb dreg r_off N.eqb]; reflexivity.
Qed.

(* ---------------------------------------------------------------- capture in phase 1 *)
Lemma cap_end_freg off fd c pos :
  cap_end (freg off fd) c pos = freg (pos - blen (btail 1536 (fd ++ c))) (btail 1536 (fd ++ c)).
Proof.
  unfold cap_end, freg, nlast. cbn [r_len r_data N.eqb]. rewrite flen_blen, nskip_bskip.
  unfold set_off, set_data. cbn [r_id r_end r_off r_len r_min r_data r_fin]. rewrite flen_blen. reflexivity.
Qed.

Lemma cap1_dreg id dsz st c :
  (if r_end (dreg id dsz (bslice 512 dsz st)) || negb (rcomplete (dreg id dsz (bslice 512 dsz st)))
   then rcapture (dreg id dsz (bslice 512 dsz st)) c (blen st + flen c) else dreg id dsz (bslice 512 dsz st))
  = dreg id dsz (bslice 512 dsz (st ++ c)).
Proof. rewrite flen_blen. apply (OV.Proofs.Insp_Static.capture_step_mk id 512 dsz st c). Qed.

Lemma rcomplete_freg off fd : rcomplete (freg off fd) = false.
Proof. unfold rcomplete, freg. cbn [r_end r_fin]. apply andb_false_r. Qed.
Lemma rcomplete_dreg id dsz dd : rcomplete (dreg id dsz dd) = (dsz =? blen dd).
Proof. unfold rcomplete, base_complete, dreg. cbn [r_end r_min r_len r_data]. rewrite flen_blen. reflexivity. Qed.

Definition foot_next (foot : option (N * bytes)) (st c : bytes) : option (N * bytes) :=
  match foot with
  | Some (off, fd) => Some (blen (st ++ c) - blen (btail 1536 (fd ++ c)), btail 1536 (fd ++ c))
  | None => None
  end.
(* the callback of the relocated descriptor region when it becomes complete *)
Definition x1_next (dsz : N) (dd dd' : bytes) (x : vx) : vx :=
  if negb (dsz =? blen dd) && (dsz =? blen dd') then parse_ext dd' x else x.

Lemma capture1 foot dsz st h x c : 64 <= blen h ->
  capture_regs [] c (blen st + flen c) (i_regs (S1 foot dsz st h (bslice 512 dsz st) x))
  = i_regs (S1 (foot_next foot st c) dsz (st ++ c) h (bslice 512 dsz (st ++ c)) x).
Proof.
  intros Hl. destruct foot as [[off fd]|]; unfold S1, foot_next; cbn [i_regs]; rewrite capture_regs_map; cbn [map];
    rewrite !cap1_all; rewrite rcomplete_hreg; replace (64 <=? blen h) with true by lia; change (r_end (hreg h)) with false; cbn [orb negb];
    rewrite cap1_dreg; [|reflexivity].
  change (r_end (freg off fd)) with true. cbn [orb]. unfold rcapture. change (r_end (freg off fd)) with true. cbn iota.
  rewrite cap_end_freg, flen_blen, <- blen_app. reflexivity.
Qed.

Lemma step1 foot dsz st h x c :
  64 <= blen h -> let u := btake 64 h in
  hdr_sig_ok u = true -> hdr_ver_ok u = true -> hdr_loc_ok u = true -> hdr_foot u = has_foot foot ->
  eat_chunk vmdk_fmt (S1 foot dsz st h (bslice 512 dsz st) x) c
  = (S1 (foot_next foot st c) dsz (st ++ c) h (bslice 512 dsz (st ++ c))
        (x1_next dsz (bslice 512 dsz st) (bslice 512 dsz (st ++ c)) x), None).
Proof.
  intros Hl u Hs Hv Ho Hf. unfold eat_chunk, do_capture.
  assert (Hfin : i_fin (S1 foot dsz st h (bslice 512 dsz st) x) = false) by (destruct foot as [[? ?]|]; reflexivity).
  unfold set_pos at 1. cbn [i_fin]. rewrite Hfin.
  unfold set_regs, set_pos. cbn [i_pos i_regs i_next i_fin i_checks i_ext].
  assert (Hpos : i_pos (S1 foot dsz st h (bslice 512 dsz st) x) = blen st) by (destruct foot as [[? ?]|]; reflexivity).
  rewrite Hpos, (capture1 foot dsz st h x c Hl).
  set (foot' := foot_next foot st c). set (dd' := bslice 512 dsz (st ++ c)).
  assert (Hf' : has_foot foot' = has_foot foot) by (subst foot'; destruct foot as [[? ?]|]; reflexivity).
  assert (Hs1 : {| i_pos := blen st + flen c; i_regs := i_regs (S1 foot' dsz (st ++ c) h dd' x);
                   i_next := i_next (S1 foot dsz st h (bslice 512 dsz st) x); i_fin := false;
                   i_checks := i_checks (S1 foot dsz st h (bslice 512 dsz st) x);
                   i_ext := i_ext (S1 foot dsz st h (bslice 512 dsz st) x) |} = S1 foot' dsz (st ++ c) h dd' x).
  { rewrite flen_blen, <- blen_app. subst foot'. destruct foot as [[? ?]|]; reflexivity. }
  rewrite Hfin, Hs1. cbn [f_post vmdk_fmt].
  rewrite (post_S1 foot' dsz (st ++ c) h dd' x Hl Hs Hv Ho (eq_trans Hf (eq_sym Hf'))).
  unfold x1_next. fold dd'.
  subst foot'. destruct foot as [[off fd]|]; unfold foot_next, S1, eat_fuel;
    cbn [settle i_regs new_names ids map filter snd fst hreg freg dreg r_id mem_nat Nat.eqb orb negb];
    unfold newly_complete, complete_ids; cbn [filter snd fst i_regs];
    rewrite ?rcomplete_hreg, ?rcomplete_freg, ?rcomplete_dreg;
    replace (64 <=? blen h) with true by lia; cbn [andb ids map snd r_id hreg];
    destruct (dsz =? blen (bslice 512 dsz st)) eqn:Hd0; cbn [ids map snd r_id dreg mem_nat Nat.eqb orb negb andb filter fst];
    try (rewrite andb_false_r; cbn [map run_callbacks]; reflexivity);
    (destruct (dsz =? blen dd') eqn:Hd1; cbn [andb map filter fst run_callbacks]; [|reflexivity]);
    cbn [f_rcomplete vmdk_fmt vmdk_rcomplete];
    (erewrite parse_descriptor_eq by (cbn [i_regs rget rname_beq]; reflexivity)); reflexivity.
Qed.

(* ---------------------------------------------------------------- the chunk that completes the header *)
Lemma eat_T0 st d x c :
  blen st < 64 -> (blen d < 4 -> d = st) ->
  eat_chunk vmdk_fmt (S0 st d x) c =
  let s1 := T0 (st ++ c) (btake 512 (st ++ c)) (d0_next st d c) x in
  match vmdk_post s1 with
  | (s2, Some e) => (s2, Some e)
  | (s2, None) =>
    match settle eat_fuel vmdk_fmt c [0%nat; 1%nat] s2 with
    | (s3, Some e) => (s3, Some e)
    | (s3, None) => run_callbacks vmdk_fmt (newly_complete (if 4 <=? blen d then [1%nat] else []) (i_regs s3)) s3
    end
  end.
Proof.
  intros Hst Hd. unfold eat_chunk, do_capture, S0, set_pos, set_regs.
  cbn [i_pos i_regs i_fin i_next i_checks i_ext].
  rewrite (capture0 st d c Hst Hd). rewrite flen_blen, <- blen_app.
  cbn [f_post vmdk_fmt]. unfold T0. cbv zeta.
  unfold complete_ids. cbn [filter snd fst ids map].
  rewrite rcomplete_hreg, rcomplete_d0reg. replace (64 <=? blen st) with false by lia.
  destruct (4 <=? blen d); reflexivity.
Qed.

Lemma stepT_bad st d x c :
  blen st < 64 -> (blen d < 4 -> d = st) -> 64 <= blen st + blen c ->
  let h := btake 512 (st ++ c) in let u := btake 64 h in
  (hdr_sig_ok u = false /\ forallb ascii_text h = false) \/ (hdr_sig_ok u = true /\ hdr_ver_ok u = false) ->
  eat_chunk vmdk_fmt (S0 st d x) c = (T0 (st ++ c) h (d0_next st d c) x, Some ImageFormatError).
Proof.
  intros Hst Hd Hc h u Hcase. rewrite (eat_T0 st d x c Hst Hd). cbv zeta. fold h.
  assert (Hl : 64 <= blen h) by (subst h; rewrite blen_btake, blen_app; lia).
  rewrite (post_bad (T0 (st ++ c) h (d0_next st d c) x) (hreg h)); [reflexivity|reflexivity|exact Hl| |exact Hcase].
  rewrite rcomplete_hreg. lia.
Qed.

Lemma stepT_wrongloc st d x c :
  blen st < 64 -> (blen d < 4 -> d = st) -> 64 <= blen st + blen c ->
  let h := btake 512 (st ++ c) in let u := btake 64 h in
  hdr_sig_ok u = true -> hdr_ver_ok u = true -> hdr_loc_ok u = false ->
  eat_chunk vmdk_fmt (S0 st d x) c =
  (if hdr_foot u then T0f (st ++ c) h (d0_next st d c) x else T0 (st ++ c) h (d0_next st d c) x, Some ImageFormatError).
Proof.
  intros Hst Hd Hc h u Hs Hv Ho. rewrite (eat_T0 st d x c Hst Hd). cbv zeta. fold h.
  assert (Hl : 64 <= blen h) by (subst h; rewrite blen_btake, blen_app; lia).
  rewrite (post_T0_wrongloc (st ++ c) h (d0_next st d c) x Hl Hs Hv Ho). reflexivity.
Qed.

Lemma bslice_beyond off len st : blen st <= off -> bslice off len st = [].
Proof. intros H. unfold bslice. rewrite bskip_all by exact H. apply btake_nil. Qed.

Lemma settle_S fuel (F : fmt vx) c known s :
  settle (S fuel) F c known s =
  match new_names known (i_regs s) with
  | [] => (s, None)
  | new =>
    match do_capture new c s with
    | (s1, Some e) => (s1, Some e)
    | (s1, None) =>
      match f_post F s1 with
      | (s2, Some e) => (s2, Some e)
      | (s2, None) => settle fuel F c (ids (i_regs s1)) s2
      end
    end
  end.
Proof. reflexivity. Qed.

Lemma cap1_in only c pos n r :
  mem_rname n only = true -> cap1 only c pos (n, r) = (n, if r_end r || negb (rcomplete r) then rcapture r c pos else r).
Proof.
  intros H. unfold cap1. destruct only as [|k t]; [discriminate|]. rewrite H. cbn [negb].
  destruct (r_end r || negb (rcomplete r)); reflexivity.
Qed.
Lemma cap1_out only c pos n r : only <> [] -> mem_rname n only = false -> cap1 only c pos (n, r) = (n, r).
Proof. intros Hne H. unfold cap1. destruct only as [|k t]; [contradiction|]. rewrite H. reflexivity. Qed.

Lemma cap1_dreg_new only id dsz st c :
  mem_rname R_descriptor only = true -> blen st <= 512 ->
  cap1 only c (blen (st ++ c)) (R_descriptor, dreg id dsz []) = (R_descriptor, dreg id dsz (bslice 512 dsz (st ++ c))).
Proof.
  intros Hm Hst. rewrite (cap1_in _ _ _ _ _ Hm).
  replace (@nil N) with (bslice 512 dsz st) by (apply bslice_beyond; lia).
  rewrite blen_app, <- (flen_blen c), cap1_dreg. reflexivity.
Qed.
Lemma cap1_freg_new only c pos :
  mem_rname R_footer only = true ->
  cap1 only c pos (R_footer, freg 1536 []) = (R_footer, freg (pos - blen (btail 1536 c)) (btail 1536 c)).
Proof.
  intros Hm. rewrite (cap1_in _ _ _ _ _ Hm). change (r_end (freg 1536 [])) with true. cbn [orb].
  unfold rcapture. change (r_end (freg 1536 [])) with true. cbn iota. rewrite cap_end_freg. reflexivity.
Qed.

(* the chunk is presented again to the regions post_process has just created *)
Lemma settle_fresh foot0 st c h x dsz :
  blen st <= 512 -> 64 <= blen h -> let u := btake 64 h in
  hdr_sig_ok u = true -> hdr_ver_ok u = true -> hdr_loc_ok u = true -> hdr_foot u = has_foot foot0 ->
  (foot0 = None \/ foot0 = Some (1536, [])) ->
  settle eat_fuel vmdk_fmt c [0%nat; 1%nat] (S1 foot0 dsz (st ++ c) h [] x) =
  (S1 (match foot0 with Some _ => Some (blen (st ++ c) - blen (btail 1536 c), btail 1536 c) | None => None end)
      dsz (st ++ c) h (bslice 512 dsz (st ++ c)) x, None).
Proof.
  intros Hst Hl u Hs Hv Ho Hf Hfoot0.
  change eat_fuel with (S (S 6)). rewrite settle_S.
  destruct Hfoot0 as [-> | ->].
  - unfold S1. cbn [i_regs new_names ids map filter snd fst hreg dreg r_id mem_nat Nat.eqb orb negb].
    unfold do_capture. cbn [i_fin i_pos i_regs]. unfold set_regs. cbn [i_fin i_pos i_regs i_next i_checks i_ext].
    rewrite capture_regs_map. cbn [map].
    rewrite cap1_out by (try discriminate; reflexivity). rewrite cap1_dreg_new by (try reflexivity; exact Hst).
    change {| i_pos := blen (st ++ c); i_regs := [(R_header, hreg h); (R_descriptor, dreg 2 dsz (bslice 512 dsz (st ++ c)))];
              i_next := 3; i_fin := false; i_checks := [K_descriptor]; i_ext := x |}
      with (S1 None dsz (st ++ c) h (bslice 512 dsz (st ++ c)) x).
    cbn [f_post vmdk_fmt]. rewrite (post_S1 None dsz (st ++ c) h _ x Hl Hs Hv Ho Hf).
    rewrite settle_S. reflexivity.
  - unfold S1. cbn [i_regs new_names ids map filter snd fst hreg freg dreg r_id mem_nat Nat.eqb orb negb].
    unfold do_capture. cbn [i_fin i_pos i_regs]. unfold set_regs. cbn [i_fin i_pos i_regs i_next i_checks i_ext].
    rewrite capture_regs_map. cbn [map].
    rewrite cap1_out by (try discriminate; reflexivity). rewrite cap1_dreg_new by (try reflexivity; exact Hst).
    rewrite cap1_freg_new by reflexivity.
    change {| i_pos := blen (st ++ c); i_regs := [(R_header, hreg h); (R_footer, freg (blen (st ++ c) - blen (btail 1536 c)) (btail 1536 c));
                                                   (R_descriptor, dreg 3 dsz (bslice 512 dsz (st ++ c)))];
              i_next := 4; i_fin := false; i_checks := [K_descriptor; K_footer]; i_ext := x |}
      with (S1 (Some (blen (st ++ c) - blen (btail 1536 c), btail 1536 c)) dsz (st ++ c) h (bslice 512 dsz (st ++ c)) x).
    cbn [f_post vmdk_fmt]. rewrite (post_S1 (Some (blen (st ++ c) - blen (btail 1536 c), btail 1536 c)) dsz (st ++ c) h _ x Hl Hs Hv Ho Hf).
    rewrite settle_S. reflexivity.
Qed.

Lemma stepT_valid st d x c :
  blen st < 64 -> (blen d < 4 -> d = st) -> 64 <= blen st + blen c ->
  let h := btake 512 (st ++ c) in let u := btake 64 h in
  hdr_sig_ok u = true -> hdr_ver_ok u = true -> hdr_loc_ok u = true ->
  let dsz := hdr_dsz u in let dd := bslice 512 dsz (st ++ c) in
  eat_chunk vmdk_fmt (S0 st d x) c =
  (S1 (if hdr_foot u then Some (blen (st ++ c) - blen (btail 1536 c), btail 1536 c) else None) dsz (st ++ c) h dd
      (if dsz =? blen dd then parse_ext dd x else x), None).
Proof.
  intros Hst Hd Hc h u Hs Hv Ho dsz dd. rewrite (eat_T0 st d x c Hst Hd). cbv zeta. fold h.
  assert (Hl : 64 <= blen h) by (subst h; rewrite blen_btake, blen_app; lia).
  rewrite (post_T0_valid (st ++ c) h (d0_next st d c) x Hl Hs Hv Ho). fold u. fold dsz.
  pose (foot0 := if hdr_foot u then Some (1536, @nil N) else @None (N * bytes)).
  change (S1 (if hdr_foot u then Some (1536, []) else None) dsz (st ++ c) h [] x) with (S1 foot0 dsz (st ++ c) h [] x).
  assert (Hf0 : hdr_foot u = has_foot foot0) by (subst foot0; destruct (hdr_foot u); reflexivity).
  assert (Hc0 : foot0 = None \/ foot0 = Some (1536, [])) by (subst foot0; destruct (hdr_foot u); auto).
  rewrite (settle_fresh foot0 st c h x dsz ltac:(lia) Hl Hs Hv Ho Hf0 Hc0). fold dd.
  assert (Hm : forall l id, l = [1%nat] \/ l = [] -> (id = 2%nat \/ id = 3%nat) ->
                negb (mem_nat 0%nat l) = true /\ negb (mem_nat id l) = true).
  { intros l id [->| ->] [->| ->]; split; reflexivity. }
  assert (Hl4 : (if 4 <=? blen d then [1%nat] else []) = [1%nat] \/ (if 4 <=? blen d then [1%nat] else []) = [])
    by (destruct (4 <=? blen d); auto).
  subst foot0. destruct (hdr_foot u); unfold S1, newly_complete; cbn [filter snd fst i_regs];
    rewrite ?rcomplete_hreg, ?rcomplete_freg, ?rcomplete_dreg; replace (64 <=? blen h) with true by lia;
    cbn [hreg dreg r_id andb].
  - destruct (Hm _ 3%nat Hl4 ltac:(auto)) as [Hm1 Hm2]. rewrite Hm1, Hm2. cbn [andb].
    destruct (dsz =? blen dd); cbn [andb map filter fst run_callbacks f_rcomplete vmdk_fmt vmdk_rcomplete]; [|reflexivity].
    (erewrite parse_descriptor_eq by (cbn [i_regs rget rname_beq]; reflexivity)); reflexivity.
  - destruct (Hm _ 2%nat Hl4 ltac:(auto)) as [Hm1 Hm2]. rewrite Hm1, Hm2. cbn [andb].
    destruct (dsz =? blen dd); cbn [andb map filter fst run_callbacks f_rcomplete vmdk_fmt vmdk_rcomplete]; [|reflexivity].
    (erewrite parse_descriptor_eq by (cbn [i_regs rget rname_beq]; reflexivity)); reflexivity.
Qed.
