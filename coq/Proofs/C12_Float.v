(* Proofs/C12_Float.v — timedelta(seconds=x) for a Python int or binary64 float x (Model/C12_Prim.v: td_of_seconds),
   as CPython computes it: exact for ints and integral floats; for other floats the integer part exactly plus the
   nearest integer (ties to even) of the binary64 product fraction * 1e6. *)
From Coq Require Import String SpecFloat.
Require Import OV.Base.Bytes OV.Base.Py OV.Base.PyFloat.
Require Import OV.Model.C12_Calendar OV.Model.C12_Prim.
Open Scope Z_scope.

Lemma pow2_pos k : 0 <= k -> 0 < f_pow2 k.
Proof. intros H. unfold f_pow2. apply Z.pow_pos_nonneg; lia. Qed.

(* round_half_even m (-k) is a nearest integer of m / 2^k, and on a tie it is the even one *)
Theorem round_half_even_nearest m k : 0 <= m -> 0 < k ->
  let r := round_half_even m (- k) in
  2 * Z.abs (r * f_pow2 k - m) <= f_pow2 k /\
  (2 * Z.abs (r * f_pow2 k - m) = f_pow2 k -> Z.even r = true).
Proof.
  intros Hm Hk. unfold round_half_even.
  destruct (0 <=? - k) eqn:E; [lia|]. replace (- - k) with k by lia.
  pose proof (pow2_pos k ltac:(lia)) as Hd. set (d := f_pow2 k) in *.
  pose proof (Z.div_mod m d ltac:(lia)) as Hdm. pose proof (Z.mod_pos_bound m d Hd) as Hr.
  set (q := m / d) in *. set (r := m mod d) in *.
  destruct (2 * r ?= d) eqn:C.
  - apply Z.compare_eq in C. destruct (Z.even q) eqn:Ev; cbv zeta.
    + split; [nia|intros _; exact Ev].
    + split; [nia|]. intros _. rewrite Z.even_add, Ev. reflexivity.
  - apply -> Z.compare_lt_iff in C. cbv zeta. split; [nia|]. intros H. exfalso. nia.
  - apply -> Z.compare_gt_iff in C. cbv zeta. split; [nia|]. intros H. exfalso. nia.
Qed.

Lemma round_half_even_int m e : 0 <= e -> round_half_even m e = m * f_pow2 e.
Proof. intros H. unfold round_half_even. destruct (0 <=? e) eqn:E; [reflexivity|lia]. Qed.

(* ---- ints: exact ---- *)
Theorem td_of_seconds_int z : TD_MIN_US <= z * US_PER_SEC <= TD_MAX_US -> td_of_seconds (PInt z) = Ok (z * US_PER_SEC).
Proof.
  intros H. unfold td_of_seconds, secs_us_raw, td_check.
  destruct ((TD_MIN_US <=? z * US_PER_SEC) && (z * US_PER_SEC <=? TD_MAX_US)) eqn:E; [reflexivity|lia].
Qed.
Theorem td_of_seconds_int_overflow z : ~ (TD_MIN_US <= z * US_PER_SEC <= TD_MAX_US) -> td_of_seconds (PInt z) = Exn OverflowError.
Proof.
  intros H. unfold td_of_seconds, secs_us_raw, td_check.
  destruct ((TD_MIN_US <=? z * US_PER_SEC) && (z * US_PER_SEC <=? TD_MAX_US)) eqn:E; [lia|reflexivity].
Qed.

(* ---- floats ---- *)
(* the value of a finite float: (-1)^s * m * 2^e *)
Definition signed (s : bool) (z : Z) : Z := if s then - z else z.

(* integral floats (e >= 0, or the low -e bits of the mantissa are zero): exact *)
Theorem float_us_integral s m e : f_is_integer (S754_finite s m e) = true ->
  float_us (S754_finite s m e) = Ok (signed s (fst (modf_abs m e)) * 1000000).
Proof.
  unfold f_is_integer, float_us, modf_abs. destruct (0 <=? e) eqn:E.
  - intros _. assert (X : f_mul (f_normalize 0 e) f_1e6 = S754_zero false \/ f_mul (f_normalize 0 e) f_1e6 = S754_zero true).
    { left. reflexivity. }
    destruct X as [-> | ->]; cbn [rhe_abs fst]; destruct s; unfold signed; f_equal; lia.
  - intros H. apply Z.eqb_eq in H. rewrite H.
    change (f_mul (f_normalize 0 e) f_1e6) with (S754_zero false). cbn [rhe_abs fst]. destruct s; unfold signed; f_equal; lia.
Qed.

(* the general case, as CPython defines it: integer part * 10^6 + round-half-even(binary64(fraction * 1e6)), with the sign *)
Theorem float_us_spec s m e :
  let '(ip, fm) := modf_abs m e in
  float_us (S754_finite s m e) = Ok (signed s (ip * 1000000 + rhe_abs (f_mul (f_normalize fm e) f_1e6))) /\
  (* ip + fm * 2^e is the magnitude, split exactly, 0 <= fraction < 1 *)
  (0 <= e -> ip = Zpos m * f_pow2 e /\ fm = 0) /\
  (e < 0 -> ip * f_pow2 (- e) + fm = Zpos m /\ 0 <= fm < f_pow2 (- e)).
Proof.
  unfold float_us, modf_abs. destruct (0 <=? e) eqn:E.
  - split; [destruct s; reflexivity|]. split; [auto|lia].
  - split; [destruct s; reflexivity|]. split; [lia|]. intros _.
    pose proof (pow2_pos (- e) ltac:(lia)) as Hd.
    pose proof (Z.div_mod (Zpos m) (f_pow2 (- e)) ltac:(lia)). pose proof (Z.mod_pos_bound (Zpos m) (f_pow2 (- e)) Hd). lia.
Qed.

Theorem float_us_special : float_us S754_nan = Exn ValueError /\ (forall s, float_us (S754_infinity s) = Exn OverflowError) /\
                           (forall s, float_us (S754_zero s) = Ok 0).
Proof. repeat split. Qed.

(* timedelta(seconds=x) = timedelta(0, x) *)
Theorem td_days0 x : td_of_days_seconds 0 x = td_of_seconds x.
Proof. unfold td_of_days_seconds, td_of_seconds. destruct (secs_us_raw x); [f_equal; lia|reflexivity]. Qed.

(* a successful conversion is inside timedelta's range *)
Theorem td_of_seconds_range x u : td_of_seconds x = Ok u -> TD_MIN_US <= u <= TD_MAX_US.
Proof.
  unfold td_of_seconds, td_check. destruct (secs_us_raw x) as [v|e]; [|discriminate].
  destruct ((TD_MIN_US <=? v) && (v <=? TD_MAX_US)) eqn:E; [|discriminate]. intros H. injection H as <-. lia.
Qed.

Example float_us_ex :
  float_us (f_normalize 4508103226997866 (-52)) = Ok 1001000 /\        (* 1.001 *)
  float_us (f_normalize 1 (-1)) = Ok 500000 /\                          (* 0.5 *)
  float_us (f_normalize 5 (-1)) = Ok 2500000 /\                         (* 2.5 *)
  float_us (f_normalize (-4722366482869645) (-73)) = Ok 0 /\            (* -0.5e-6: tie to even *)
  float_us (f_normalize 7083549724304468 (-72)) = Ok 2 /\               (* 1.5e-6: tie to even *)
  f_is_integer (f_normalize 5 0) = true /\ float_us (f_normalize 5 0) = Ok 5000000.
Proof. repeat split; vm_compute; reflexivity. Qed.
