(* Proofs/C04_Abs.v — a verified "cannot match" checker.  The subject is described abstractly as
   a list of segments (one character of a class / a run over a class / the key in some casing);
   [am] over-approximates the backtracking matcher on every string the description covers:
   when it answers false, no such string has a match of the regex starting at its first
   character.  Occurrences of the key are handled exactly: the description records that the key
   (in the case-insensitive sense of the patterns) starts at the [AKey] segments and nowhere else. *)
Require Import OV.Base.Bytes OV.Base.PyInt OV.Base.Regex OV.Base.C04_Tmpl.
Require Import OV.Proofs.C11_Regex OV.Proofs.C04_Regex OV.Proofs.C04_Quote.
Open Scope N_scope.

Inductive aseg := AOne (cs : cset) | ARun (cs : cset) (ne : bool) | AKey (l : list cset).
Definition asub := list aseg.

Fixpoint cset_eqb (a b : cset) : bool :=
  match a, b with
  | [], [] => true
  | (l1, h1) :: a', (l2, h2) :: b' => (l1 =? l2) && (h1 =? h2) && cset_eqb a' b'
  | _, _ => false
  end.

(* r = (Chr c1)(Chr c2)…(Chr cn) rest  for the key's sets c1…cn *)
Fixpoint strip_key (l : list cset) (r : re) : option re :=
  match l with
  | [] => Some r
  | c :: l' => match r with
               | Seq (Chr cs) r' => if cset_eqb cs c then strip_key l' r' else None
               | _ => None
               end
  end.

Section Abs.
Variable kcs : list cset.        (* the IGNORECASE sets of the key's characters *)

Definition overlaps (a b : cset) : bool := negb (cset_disj a b).

(* NB: written with if-then-else, not && / ||: under the call-by-value VM both arguments of a
   boolean operator are evaluated, which would explore the whole backtracking tree *)
Fixpoint achr (cs : cset) (A : asub) (k : asub -> bool) : bool :=
  match A with
  | [] => false
  | AOne c :: A' => if overlaps cs c then k A' else false
  | AKey [] :: A' => achr cs A' k
  | AKey (c :: l) :: A' => if overlaps cs c then k (map AOne l ++ A') else false
  | ARun c ne :: A' =>
      if (if overlaps cs c then k (ARun c false :: A') else false) then true
      else if ne then false else achr cs A' k
  end.

Fixpoint arep (cs : cset) (A : asub) (k : asub -> bool) : bool :=
  if k A then true else
  match A with
  | [] => false
  | AOne c :: A' => if overlaps cs c then arep cs A' k else false
  | AKey l :: A' =>
      (fix go (l : list cset) : bool :=
         match l with
         | [] => arep cs A' k
         | c :: l' => if overlaps cs c then (if k (map AOne l' ++ A') then true else go l') else false
         end) l
  | ARun c ne :: A' =>
      if (if overlaps cs c then k (ARun c false :: A') else false) then true
      else if (if overlaps cs c then true else negb ne) then arep cs A' k else false
  end.

Fixpoint akeyop (A : asub) (k : asub -> bool) : bool :=
  match A with
  | AKey _ :: A' => k A'
  | ARun _ false :: A' => akeyop A' k
  | _ => false
  end.

Fixpoint am (f : nat) (r : re) (A : asub) (k : asub -> bool) : bool :=
  match f with
  | O => true
  | S f' =>
    match (match kcs with [] => None | _ => strip_key kcs r end) with
    | Some rest => akeyop A (fun A' => am f' rest A' k)
    | None =>
      match r with
      | Eps => k A
      | Chr cs => achr cs A k
      | Seq a b => am f' a A (fun A' => am f' b A' k)
      | Rep cs mn mx =>
          match mn with
          | O => arep cs A k
          | S n => achr cs A (fun A' => am f' (Rep cs n (option_map pred mx)) A' k)
          end
      | Group _ a => am f' a A k
      | _ => true
      end
    end
  end.

Fixpoint tails {X} (l : list X) : list (list X) := match l with [] => [] | _ :: l' => l' :: tails l' end.
Definition key_interiors (l : list cset) (A' : asub) : list asub := map (fun l2 => map AOne l2 ++ A') (tails l).

(* an abstract description of every suffix of the subject *)
Fixpoint positions (A : asub) : list asub :=
  match A with
  | [] => [[]]
  | seg :: A' =>
      match seg with
      | AOne _ => [A]
      | ARun c ne => [A; ARun c false :: A']
      | AKey l => A :: key_interiors l A'
      end ++ positions A'
  end.

Fixpoint any_pos (f : nat) (r : re) (l : list asub) : bool :=
  match l with [] => false | A' :: t => if am f r A' (fun _ => true) then true else any_pos f r t end.
Definition may_match_somewhere (f : nat) (r : re) (A : asub) : bool := any_pos f r (positions A).
End Abs.

(* ====================================================================== *)
(* Soundness                                                              *)
(* ====================================================================== *)
Lemma cset_eqb_eq a : forall b, cset_eqb a b = true -> a = b.
Proof.
  induction a as [|[l1 h1] a IH]; intros [|[l2 h2] b] H; cbn in H; try discriminate; [reflexivity|].
  apply andb_true_iff in H. destruct H as [H H3]. apply andb_true_iff in H. destruct H as [H1 H2].
  apply N.eqb_eq in H1, H2. subst. f_equal. apply IH. exact H3.
Qed.

Lemma overlaps_true a b c : cmem c a = true -> cmem c b = true -> overlaps a b = true.
Proof.
  intros Ha Hb. unfold overlaps. destruct (cset_disj a b) eqn:D; [|reflexivity].
  rewrite (cset_disj_sound _ _ _ D Ha) in Hb. discriminate.
Qed.

Definition fits_cs (l : list cset) (K : str) : Prop := Forall2 (fun cs c => cmem c cs = true) l K.

Lemma strip_key_sound l : forall r rest, strip_key l r = Some rest ->
  forall s p s' p', mt r s p s' p' -> exists K s1 p1, s = K ++ s1 /\ fits_cs l K /\ mt rest s1 p1 s' p'.
Proof.
  induction l as [|c l IH]; intros r rest H s p s' p' M; cbn [strip_key] in H.
  - inversion H; subst. exists [], s, p. repeat split; [constructor|exact M].
  - destruct r as [| |a b| | | | | |]; try discriminate. destruct a as [|cs| | | | | | |]; try discriminate.
    destruct (cset_eqb cs c) eqn:E; [|discriminate]. apply cset_eqb_eq in E. subst cs.
    destruct (mt_seq_inv _ _ _ _ _ _ M) as (s1 & p1 & Ma & Mb).
    destruct (mt_chr_inv _ _ _ _ _ Ma) as (x & -> & Hx & ->).
    destruct (IH _ _ H _ _ _ _ Mb) as (K & s2 & p2 & -> & HK & Mr).
    exists (x :: K), s2, p2. repeat split; [constructor; assumption|exact Mr].
Qed.

Lemma casing_fits_gen tbl k0 K : casing_ok tbl k0 K <-> fits_cs (map (ci_lookup tbl) k0) K.
Proof.
  unfold casing_ok, fits_cs. split; intros H.
  - induction H; cbn [map]; constructor; assumption.
  - revert K H. induction k0 as [|c k' IH]; intros K H; cbn [map] in H; inversion H; subst; constructor; auto.
Qed.

Section Sound.
Variable tbl : list (N * cset).
Variable k : str.
Hypothesis k_ne : k <> [].
Let kcs := map (ci_lookup tbl) k.

Lemma casing_fits K : casing_ok tbl k K <-> fits_cs kcs K.
Proof. apply casing_fits_gen. Qed.

(* the key, in the case-insensitive sense of the patterns, starts here *)
Definition ci_prefix (s : str) : Prop := exists K s', s = K ++ s' /\ casing_ok tbl k K.
Definition noocc (s : str) : Prop := ~ ci_prefix s.

(* concretisation: the string has this shape, and the key starts exactly at the AKey segments *)
Inductive conc : asub -> str -> Prop :=
| conc_nil : conc [] []
| conc_one cs c A s : cmem c cs = true -> noocc (c :: s) -> conc A s -> conc (AOne cs :: A) (c :: s)
| conc_run cs ne run A s : all_in cs run = true -> (ne = true -> run <> []) ->
    (forall a b, run = a ++ b -> b <> [] -> noocc (b ++ s)) -> conc A s -> conc (ARun cs ne :: A) (run ++ s)
| conc_key l K A s : l = kcs -> casing_ok tbl k K ->
    (forall a b, K = a ++ b -> a <> [] -> b <> [] -> noocc (b ++ s)) -> conc A s -> conc (AKey l :: A) (K ++ s).

Lemma kcs_ne : kcs <> [].
Proof. unfold kcs. intros E. apply map_eq_nil in E. exact (k_ne E). Qed.

Lemma conc_ones l b A s : fits_cs l b ->
  (forall a' b', b = a' ++ b' -> b' <> [] -> noocc (b' ++ s)) -> conc A s -> conc (map AOne l ++ A) (b ++ s).
Proof.
  intros H. induction H as [|cs c l b Hc _ IH]; intros Hn HA; [exact HA|].
  cbn [map app]. constructor; [exact Hc| |].
  - apply (Hn [] (c :: b)); [reflexivity|discriminate].
  - apply IH; [|exact HA]. intros a' b' E Hb. apply (Hn (c :: a') b'); [rewrite E; reflexivity|exact Hb].
Qed.

Lemma achr_sound cs kont : forall A s0, conc A s0 -> forall c s, s0 = c :: s -> cmem c cs = true ->
  (forall A', conc A' s -> kont A' = true) -> achr cs A kont = true.
Proof.
  induction 1 as [|cs0 c0 A s0 Hc0 Hn HA IH|cs0 ne run A s0 Hr Hne Hn HA IH|l K A s0 El HK Hn HA IH]; intros c s E Hc Hk.
  - discriminate.
  - inversion E; subst. cbn [achr]. rewrite (overlaps_true _ _ _ Hc Hc0). apply Hk. exact HA.
  - cbn [achr]. destruct run as [|x run'].
    + cbn [app] in E. destruct ne; [exfalso; apply Hne; reflexivity|].
      rewrite (IH _ _ E Hc Hk). destruct (if overlaps cs cs0 then kont (ARun cs0 false :: A) else false); reflexivity.
    + cbn [app] in E. inversion E; subst x s. cbn [all_in forallb] in Hr. apply andb_true_iff in Hr. destruct Hr as [Hx Hr].
      rewrite (overlaps_true _ _ _ Hc Hx).
      rewrite Hk; [reflexivity|]. constructor; [exact Hr|discriminate| |exact HA].
      intros a b Eab Hb. apply (Hn (c :: a) b); [rewrite Eab; reflexivity|exact Hb].
  - apply casing_fits in HK. rewrite <- El in HK. destruct l as [|kc l']; [exfalso; apply kcs_ne; symmetry; exact El|].
    inversion HK as [|? x ? K' Hx HK']; subst kc l' K. cbn [app] in E. inversion E; subst x s.
    cbn [achr]. rewrite (overlaps_true _ _ _ Hc Hx). apply Hk.
    apply conc_ones; [exact HK'| |exact HA].
    intros a' b' Eab Hb. destruct a' as [|y a'].
    + cbn [app] in Eab. subst b'. apply (Hn [c] K'); [reflexivity|discriminate|exact Hb].
    + apply (Hn (c :: y :: a') b'); [rewrite Eab; reflexivity|discriminate|exact Hb].
Qed.

Lemma arep_k cs kont A : kont A = true -> arep cs A kont = true.
Proof. intros H. destruct A as [|[c|c ne|l] A]; cbn [arep]; rewrite H; reflexivity. Qed.

Lemma all_in_app cs a b : all_in cs (a ++ b) = true -> all_in cs a = true /\ all_in cs b = true.
Proof. unfold all_in. rewrite forallb_app. apply andb_true_iff. Qed.

Lemma arep_sound cs kont : forall A s, conc A s -> forall pre s', s = pre ++ s' -> all_in cs pre = true ->
  (forall A', conc A' s' -> kont A' = true) -> arep cs A kont = true.
Proof.
  induction 1 as [|cs0 c0 A s0 Hc0 Hn HA IH|cs0 ne run A s0 Hr Hne Hn HA IH|l K A s0 El HK Hn HA IH]; intros pre s' E Hp Hk.
  - destruct pre; [|discriminate]. cbn [app] in E. subst s'. apply arep_k. apply Hk. constructor.
  - destruct pre as [|c pre'].
    + cbn [app] in E. subst s'. apply arep_k. apply Hk. constructor; assumption.
    + cbn [app] in E. inversion E; subst c0 s0. cbn [all_in forallb] in Hp. apply andb_true_iff in Hp. destruct Hp as [Hc Hp].
      cbn [arep]. destruct (kont (AOne cs0 :: A)); [reflexivity|].
      rewrite (overlaps_true _ _ _ Hc Hc0). apply (IH pre' s' eq_refl Hp Hk).
  - destruct pre as [|c pre'].
    + cbn [app] in E. subst s'. apply arep_k. apply Hk. constructor; assumption.
    + cbn [arep]. destruct (kont (ARun cs0 ne :: A)); [reflexivity|].
      apply app_eq_app in E. destruct E as (l & [[E1 E2]|[E1 E2]]).
      * (* the consumed text ends inside the run *)
        rewrite E1 in Hr. apply all_in_app in Hr. destruct Hr as [Hpr Hl].
        cbn [all_in forallb] in Hpr, Hp. apply andb_true_iff in Hpr. apply andb_true_iff in Hp.
        destruct Hpr as [Hx _]. destruct Hp as [Hc _]. rewrite (overlaps_true _ _ _ Hc Hx).
        rewrite Hk; [reflexivity|]. rewrite E2. constructor; [exact Hl|discriminate| |exact HA].
        intros a b Eab Hb. apply (Hn ((c :: pre') ++ a) b); [rewrite E1, Eab, app_assoc; reflexivity|exact Hb].
      * (* the consumed text goes beyond the run *)
        assert (Hov : (if overlaps cs cs0 then true else negb ne) = true).
        { destruct run as [|x run'].
          - destruct ne; [exfalso; apply Hne; reflexivity|]. destruct (overlaps cs cs0); reflexivity.
          - cbn [app] in E1. inversion E1; subst x. cbn [all_in forallb] in Hr, Hp.
            apply andb_true_iff in Hr. apply andb_true_iff in Hp. destruct Hr as [Hx _]. destruct Hp as [Hc _].
            rewrite (overlaps_true _ _ _ Hc Hx). reflexivity. }
        rewrite Hov. rewrite E1 in Hp. apply all_in_app in Hp. destruct Hp as [_ Hl].
        rewrite (IH l s' E2 Hl Hk).
        destruct (if overlaps cs cs0 then kont (ARun cs0 false :: A) else false); reflexivity.
  - destruct pre as [|c pre'].
    + cbn [app] in E. subst s'. apply arep_k. apply Hk. econstructor; eassumption.
    + cbn [arep]. destruct (kont (AKey l :: A)); [reflexivity|].
      match goal with |- ?g l = true => set (go := g) end.
      apply casing_fits in HK. rewrite <- El in HK.
      assert (G : forall l b, fits_cs l b ->
                  (forall a' b', b = a' ++ b' -> a' <> [] -> b' <> [] -> noocc (b' ++ s0)) ->
                  forall pre, (pre <> [] \/ b = []) -> b ++ s0 = pre ++ s' -> all_in cs pre = true -> go l = true).
      { clear E Hp HK Hn. intros l0 b Hf. induction Hf as [|c0 x l' b' Hx Hf' IHf]; intros Hi pre Hd Eb Hp.
        - cbn [app] in Eb. change (go []) with (arep cs A kont). apply (IH pre s' Eb Hp Hk).
        - destruct pre as [|y pre2]; [destruct Hd as [Hd|Hd]; [congruence|discriminate]|].
          cbn [app] in Eb. inversion Eb as [[Ey Eb']]. subst y.
          cbn [all_in forallb] in Hp. apply andb_true_iff in Hp. destruct Hp as [Hy Hp].
          change (go (c0 :: l')) with (if overlaps cs c0 then (if kont (map AOne l' ++ A) then true else go l') else false).
          rewrite (overlaps_true _ _ _ Hy Hx).
          assert (Hi' : forall a' b'', b' = a' ++ b'' -> b'' <> [] -> noocc (b'' ++ s0)).
          { intros a' b'' Eab Hb. apply (Hi (x :: a') b''); [rewrite Eab; reflexivity|discriminate|exact Hb]. }
          destruct pre2 as [|z pre3].
          + cbn [app] in Eb'. rewrite Hk; [reflexivity|]. rewrite <- Eb'. apply conc_ones; assumption.
          + assert (Hgo : go l' = true).
            { apply IHf with (pre := z :: pre3);
                [intros a' b'' E1 _ H2; exact (Hi' a' b'' E1 H2)|left; discriminate|exact Eb'|exact Hp]. }
            rewrite Hgo. destruct (kont (map AOne l' ++ A)); reflexivity. }
      apply G with (b := K) (pre := c :: pre'); [exact HK|exact Hn|left; discriminate|exact E|exact Hp].
Qed.

Lemma fl2_len {A B} (R : A -> B -> Prop) a b : Forall2 R a b -> length a = length b.
Proof. induction 1; cbn; congruence. Qed.

Lemma app_eq_len {A} (a b x y : list A) : length a = length b -> a ++ x = b ++ y -> a = b /\ x = y.
Proof.
  revert b. induction a as [|c a IH]; intros [|d b] L E; cbn in L; try discriminate.
  - split; [reflexivity|exact E].
  - cbn [app] in E. inversion E; subst. destruct (IH b ltac:(lia) H1) as [-> ->]. split; reflexivity.
Qed.

Lemma akeyop_sound kont : forall A s, conc A s -> forall K s1, s = K ++ s1 -> casing_ok tbl k K ->
  (forall A', conc A' s1 -> kont A' = true) -> akeyop A kont = true.
Proof.
  induction 1 as [|cs0 c0 A s0 Hc0 Hn HA IH|cs0 ne run A s0 Hr Hne Hn HA IH|l K0 A s0 El HK0 Hn HA IH]; intros K s1 E HK Hk.
  - exfalso. destruct K; [|discriminate]. inversion HK. apply k_ne. congruence.
  - exfalso. apply Hn. exists K, s1. split; assumption.
  - destruct run as [|x run'].
    + destruct ne; [exfalso; apply Hne; reflexivity|]. cbn [akeyop]. apply (IH K s1 E HK Hk).
    + exfalso. apply (Hn [] (x :: run')); [reflexivity|discriminate|]. exists K, s1. split; assumption.
  - cbn [akeyop]. apply Hk.
    assert (L : length K0 = length K).
    { unfold casing_ok in *. rewrite <- (fl2_len _ _ _ HK0), <- (fl2_len _ _ _ HK). reflexivity. }
    destruct (app_eq_len _ _ _ _ L E) as [_ <-]. exact HA.
Qed.

Lemma run_len_S cs s mx j : (S j <= run_len cs s mx)%nat ->
  exists c t, s = c :: t /\ cmem c cs = true /\ (j <= run_len cs t (option_map pred mx))%nat.
Proof.
  destruct s as [|c t]; cbn [run_len]; [lia|]. intros H. exists c, t.
  destruct mx as [[|m]|]; try lia; destruct (cmem c cs); try lia; repeat split; lia.
Qed.

Lemma am_sound : forall f r A s p s' p' kont, conc A s -> mt r s p s' p' ->
  (forall A', conc A' s' -> kont A' = true) -> am kcs f r A kont = true.
Proof.
  induction f as [|f IH]; intros r A s p s' p' kont HA M Hk; [reflexivity|].
  cbn [am]. pose proof kcs_ne as Hne. remember kcs as l0 eqn:El0.
  assert (Hs : (match l0 with [] => None | _ :: _ => strip_key l0 r end) = strip_key l0 r) by (destruct l0; [congruence|reflexivity]).
  rewrite Hs. clear Hs. destruct (strip_key l0 r) as [rest|] eqn:S.
  - destruct (strip_key_sound _ _ _ S _ _ _ _ M) as (K & s1 & p1 & -> & HK & Mr).
    rewrite El0 in HK. apply casing_fits in HK.
    apply (akeyop_sound _ A (K ++ s1) HA K s1 eq_refl HK).
    intros A' HA'. apply (IH rest A' s1 p1 s' p' kont HA' Mr Hk).
  - destruct r as [|cs|a b|a b|cs mn mx|a|i a| |]; try reflexivity.
    + inversion M; subst. apply Hk. exact HA.
    + destruct (mt_chr_inv _ _ _ _ _ M) as (c & -> & Hc & _). apply (achr_sound cs kont A _ HA c s' eq_refl Hc Hk).
    + destruct (mt_seq_inv _ _ _ _ _ _ M) as (s1 & p1 & Ma & Mb).
      apply (IH a A s p s1 p1 _ HA Ma). intros A' HA'. apply (IH b A' s1 p1 s' p' kont HA' Mb Hk).
    + destruct (mt_rep_inv _ _ _ _ _ _ _ M) as (j & Hj & -> & _). destruct mn as [|n].
      * apply (arep_sound cs kont A s HA (firstn j s) (skipn j s)); [symmetry; apply firstn_skipn| |exact Hk].
        apply (firstn_all_in cs s mx). lia.
      * destruct j as [|j]; [lia|]. destruct (run_len_S cs s mx j ltac:(lia)) as (c & t & -> & Hc & Hj').
        apply (achr_sound cs _ A _ HA c t eq_refl Hc). intros A' HA'.
        apply (IH (Rep cs n (option_map pred mx)) A' t (p + 1) (skipn j t) (p + 1 + N.of_nat j) kont HA'); [|exact Hk].
        constructor. lia.
    + apply (IH a A s p s' p' kont HA (mt_group_inv _ _ _ _ _ _ M) Hk).
Qed.

Lemma tails_fits (l0 : list cset) : forall a l, fits_cs l0 (a ++ l) -> a <> [] -> exists l2, In l2 (tails l0) /\ fits_cs l2 l.
Proof.
  induction l0 as [|c l0 IH]; intros a l H Ha.
  - inversion H. destruct a; [congruence|discriminate].
  - destruct a as [|x a]; [congruence|]. cbn [app] in H. inversion H; subst. cbn [tails].
    destruct a as [|y a].
    + exists l0. split; [left; reflexivity|assumption].
    + destruct (IH (y :: a) l ltac:(assumption) ltac:(discriminate)) as (l2 & Hin & Hf).
      exists l2. split; [right; exact Hin|exact Hf].
Qed.

Lemma positions_sound : forall A s, conc A s -> forall a b, s = a ++ b -> exists A', In A' (positions A) /\ conc A' b.
Proof.
  induction 1 as [|cs0 c0 A s0 Hc0 Hn HA IH|cs0 ne run A s0 Hr Hne Hn HA IH|l K A s0 El HK Hn HA IH]; intros a b E.
  - destruct a; [|discriminate]. cbn [app] in E. subst b. exists []. split; [left; reflexivity|constructor].
  - destruct a as [|x a].
    + cbn [app] in E. subst b. exists (AOne cs0 :: A). split; [left; reflexivity|constructor; assumption].
    + cbn [app] in E. inversion E; subst x s0. destruct (IH a b eq_refl) as (A' & Hin & Hc).
      exists A'. split; [cbn [positions]; apply in_or_app; right; exact Hin|exact Hc].
  - apply app_eq_app in E. destruct E as (l & [[E1 E2]|[E1 E2]]).
    + destruct a as [|x a].
      * cbn [app] in E1. subst l b. exists (ARun cs0 ne :: A). split; [left; reflexivity|constructor; assumption].
      * exists (ARun cs0 false :: A). split; [cbn [positions app]; right; left; reflexivity|].
        rewrite E2. rewrite E1 in Hr. apply all_in_app in Hr. destruct Hr as [_ Hl].
        constructor; [exact Hl|discriminate| |exact HA].
        intros a' b' Eab Hb. apply (Hn ((x :: a) ++ a') b'); [rewrite E1, Eab, app_assoc; reflexivity|exact Hb].
    + destruct (IH l b E2) as (A' & Hin & Hc). exists A'. split; [cbn [positions]; apply in_or_app; right; exact Hin|exact Hc].
  - apply app_eq_app in E. destruct E as (l2 & [[E1 E2]|[E1 E2]]).
    + destruct a as [|x a].
      * cbn [app] in E1. subst l2 b. exists (AKey l :: A). split; [left; reflexivity|econstructor; eassumption].
      * destruct l2 as [|y l2].
        -- rewrite app_nil_r in E1. cbn [app] in E2. subst b. destruct (IH [] s0 eq_refl) as (A' & Hin & Hc).
           exists A'. split; [cbn [positions]; apply in_or_app; right; exact Hin|exact Hc].
        -- apply casing_fits in HK. rewrite <- El in HK. rewrite E1 in HK.
           destruct (tails_fits l (x :: a) (y :: l2) HK ltac:(discriminate)) as (l3 & Hin & Hf).
           exists (map AOne l3 ++ A). split.
           ++ cbn [positions]. apply in_or_app. left. right. unfold key_interiors. apply in_map_iff. exists l3. split; [reflexivity|exact Hin].
           ++ rewrite E2. apply conc_ones; [exact Hf| |exact HA].
              intros a' b' Eab Hb. destruct a' as [|z a'].
              ** cbn [app] in Eab. subst b'. apply (Hn (x :: a) (y :: l2)); [exact E1|discriminate|discriminate].
              ** apply (Hn ((x :: a) ++ z :: a') b'); [rewrite E1, Eab, app_assoc; reflexivity|discriminate|exact Hb].
    + destruct (IH l2 b E2) as (A' & Hin & Hc). exists A'. split; [cbn [positions]; apply in_or_app; right; exact Hin|exact Hc].
Qed.

Lemma any_pos_false f r : forall L, any_pos kcs f r L = false -> forall A', In A' L -> am kcs f r A' (fun _ => true) = false.
Proof.
  induction L as [|A0 L IH]; intros H A' Hin; [destruct Hin|]. cbn [any_pos] in H.
  destruct (am kcs f r A0 (fun _ => true)) eqn:E; [discriminate|]. destruct Hin as [<-|Hin]; [exact E|apply IH; assumption].
Qed.

(* the checker says "cannot match anywhere" => no suffix of any string of that shape has a match *)
Theorem abs_no_match f r A s : may_match_somewhere kcs f r A = false -> conc A s ->
  forall a b p, s = a ++ b -> match_at r b p = None.
Proof.
  intros H HA a b p E. destruct (match_at r b p) as [[e g]|] eqn:Em; [exfalso|reflexivity].
  unfold match_at in Em. apply m_sound in Em. destruct Em as (s' & p' & g' & M & _).
  destruct (positions_sound A s HA a b E) as (A' & Hin & Hc).
  pose proof (any_pos_false f r _ H A' Hin) as Hf.
  rewrite (am_sound f r A' b p s' p' (fun _ => true) Hc M (fun _ _ => eq_refl)) in Hf. discriminate.
Qed.
End Sound.

(* no match at any position => re_sub changes nothing *)
Lemma sub_go_none r t whole : forall s p, (forall a b q, s = a ++ b -> match_at r b q = None) ->
  sub_go r t whole s p 0 = s.
Proof.
  induction s as [|c rest IH]; intros p H; [reflexivity|]. cbn [sub_go].
  rewrite (H [] (c :: rest) p eq_refl). f_equal. apply IH. intros a b q E. apply (H (c :: a) b q). rewrite E. reflexivity.
Qed.

Theorem re_sub_none r t s : (forall a b q, s = a ++ b -> match_at r b q = None) -> re_sub r t s = s.
Proof. intros H. unfold re_sub. apply sub_go_none. exact H. Qed.
