(* Proofs/C04_Abs.v — a verified "cannot match" checker.  The subject is described abstractly as
   a list of segments (one character of a class / a run over a class / the key in some casing);
   [am] over-approximates the backtracking matcher on every string the description covers:
   when it answers false, no such string has a match of the regex starting at its first
   character.  Occurrences of the key are handled exactly: the description records that the key
   (in the case-insensitive sense of the patterns) starts at the [AKey] segments and nowhere else. *)
Require Import OV.Base.Bytes OV.Base.PyInt OV.Base.Regex OV.Base.C04_Tmpl.
Require Import OV.Proofs.C11_Regex OV.Proofs.C04_Regex OV.Proofs.C04_Quote.
Open Scope N_scope.

Inductive aseg := AOne (cs : cset) | ARun (cs : cset) (ne : bool) | AKey (l : list cset).
Definition asub := list aseg.

Fixpoint cset_eqb (a b : cset) : bool :=
  match a, b with
  | [], [] => true
  | (l1, h1) :: a', (l2, h2) :: b' => (l1 =? l2) && (h1 =? h2) && cset_eqb a' b'
  | _, _ => false
  end.

(* r = (Chr c1)(Chr c2)…(Chr cn) rest  for the key's sets c1…cn *)
Fixpoint strip_key (l : list cset) (r : re) : option re :=
  match l with
  | [] => Some r
  | c :: l' => match r with
               | Seq (Chr cs) r' => if cset_eqb cs c then strip_key l' r' else None
               | _ => None
               end
  end.

Section Abs.
Variable kcs : list cset.        (* the IGNORECASE sets of the key's characters *)

Definition overlaps (a b : cset) : bool := negb (cset_disj a b).

Fixpoint achr (cs : cset) (A : asub) (k : asub -> bool) : bool :=
  match A with
  | [] => false
  | AOne c :: A' => overlaps cs c && k A'
  | AKey [] :: A' => achr cs A' k
  | AKey (c :: l) :: A' => overlaps cs c && k (map AOne l ++ A')
  | ARun c ne :: A' => (overlaps cs c && k (ARun c false :: A')) || (negb ne && achr cs A' k)
  end.

Fixpoint arep (cs : cset) (A : asub) (k : asub -> bool) : bool :=
  k A ||
  match A with
  | [] => false
  | AOne c :: A' => overlaps cs c && arep cs A' k
  | AKey l :: A' =>
      (fix go (l : list cset) : bool :=
         match l with
         | [] => arep cs A' k
         | c :: l' => overlaps cs c && (k (map AOne l' ++ A') || go l')
         end) l
  | ARun c ne :: A' => (overlaps cs c && k (ARun c false :: A')) || ((overlaps cs c || negb ne) && arep cs A' k)
  end.

Fixpoint akeyop (A : asub) (k : asub -> bool) : bool :=
  match A with
  | AKey _ :: A' => k A'
  | ARun _ false :: A' => akeyop A' k
  | _ => false
  end.

Fixpoint am (f : nat) (r : re) (A : asub) (k : asub -> bool) : bool :=
  match f with
  | O => true
  | S f' =>
    match (match kcs with [] => None | _ => strip_key kcs r end) with
    | Some rest => akeyop A (fun A' => am f' rest A' k)
    | None =>
      match r with
      | Eps => k A
      | Chr cs => achr cs A k
      | Seq a b => am f' a A (fun A' => am f' b A' k)
      | Rep cs mn mx =>
          match mn with
          | O => arep cs A k
          | S n => achr cs A (fun A' => am f' (Rep cs n mx) A' k)
          end
      | Group _ a => am f' a A k
      | _ => true
      end
    end
  end.

Fixpoint key_interiors (l : list cset) (A' : asub) : list asub :=
  match l with
  | [] => []
  | _ :: l' => match l' with [] => [] | _ => (map AOne l' ++ A') :: key_interiors l' A' end
  end.

(* an abstract description of every suffix of the subject *)
Fixpoint positions (A : asub) : list asub :=
  match A with
  | [] => [[]]
  | seg :: A' =>
      match seg with
      | AOne _ => [A]
      | ARun c ne => [A; ARun c false :: A']
      | AKey l => A :: key_interiors l A'
      end ++ positions A'
  end.

Definition may_match_somewhere (f : nat) (r : re) (A : asub) : bool :=
  existsb (fun A' => am f r A' (fun _ => true)) (positions A).
End Abs.
