(* Proofs/C12.v — lemmas about the model of the time helpers (Model/C12.v) *)
From Coq Require Import String.
Require Import OV.Base.Bytes OV.Base.Py OV.Base.PyFloat.
Require Import OV.Model.C12_Calendar OV.Model.C12_Prim OV.Model.C12 OV.Proofs.C12_Calendar.
Open Scope Z_scope.

(* ------------------------------------------------------------------ time of day and fields *)

Lemma tod_split D H Mi S u :
  0 <= H <= 23 -> 0 <= Mi <= 59 -> 0 <= S <= 59 -> 0 <= u <= 999999 ->
  let x := (((D * 24 + H) * 60 + Mi) * 60 + S) * US_PER_SEC + u in
  x / US_PER_DAY = D /\
  (x mod US_PER_DAY) / US_PER_SEC / 3600 = H /\
  ((x mod US_PER_DAY) / US_PER_SEC / 60) mod 60 = Mi /\
  ((x mod US_PER_DAY) / US_PER_SEC) mod 60 = S /\
  (x mod US_PER_DAY) mod US_PER_SEC = u.
Proof.
  intros HH HM HS Hu x. unfold US_PER_DAY, US_PER_SEC in *.
  assert (E1 : x / (86400 * 1000000) = D) by (subst x; zdm; lia).
  assert (E2 : x mod (86400 * 1000000) = ((H * 60 + Mi) * 60 + S) * 1000000 + u) by (subst x; zdm; lia).
  rewrite E1, E2. clear E1 E2 x.
  assert (E3 : (((H * 60 + Mi) * 60 + S) * 1000000 + u) / 1000000 = (H * 60 + Mi) * 60 + S) by (zdm; lia).
  assert (E4 : (((H * 60 + Mi) * 60 + S) * 1000000 + u) mod 1000000 = u) by (zdm; lia).
  rewrite E3, E4.
  repeat split; zdm; lia.
Qed.

Lemma tod_join x : 0 <= x ->
  let r := x mod US_PER_DAY in
  let secs := r / US_PER_SEC in
  0 <= secs / 3600 <= 23 /\ 0 <= (secs / 60) mod 60 <= 59 /\ 0 <= secs mod 60 <= 59 /\ 0 <= r mod US_PER_SEC <= 999999 /\
  ((((x / US_PER_DAY) * 24 + secs / 3600) * 60 + (secs / 60) mod 60) * 60 + secs mod 60) * US_PER_SEC + r mod US_PER_SEC = x.
Proof.
  intros Hx r secs. subst secs r. unfold US_PER_DAY, US_PER_SEC.
  zdm. lia.
Qed.

Lemma valid_fields_spec f : valid_fields f = true <->
  valid_ymd (f_year f) (f_month f) (f_day f) = true /\ f_year f <= MAXYEAR /\
  0 <= f_hour f <= 23 /\ 0 <= f_minute f <= 59 /\ 0 <= f_second f <= 59 /\ 0 <= f_us f <= 999999.
Proof. unfold valid_fields. destruct (valid_ymd (f_year f) (f_month f) (f_day f)); cbn [andb]; lia. Qed.

(* every valid field record is the field record of its microsecond count *)
Theorem fields_of_us_of_fields f : valid_fields f = true -> fields_of_us (us_of_fields f) = f.
Proof.
  intros V. apply valid_fields_spec in V. destruct V as (Vd & Vy & VH & VM & VS & Vu).
  destruct f as [y m d H Mi S u]. cbn [f_year f_month f_day f_hour f_minute f_second f_us] in *.
  unfold fields_of_us, us_of_fields. cbn [f_year f_month f_day f_hour f_minute f_second f_us].
  destruct (tod_split (days_of_ymd y m d) H Mi S u VH VM VS Vu) as (E1 & E2 & E3 & E4 & E5).
  cbv zeta in E1, E2, E3, E4, E5. rewrite E1, E2, E3, E4, E5.
  rewrite (ymd_of_days_of_ymd y m d Vd). reflexivity.
Qed.

Lemma us_of_fields_nonneg f : valid_fields f = true -> 0 <= us_of_fields f.
Proof.
  intros V. apply valid_fields_spec in V. destruct V as (Vd & Vy & VH & VM & VS & Vu).
  pose proof (days_of_ymd_nonneg _ _ _ Vd). unfold us_of_fields, US_PER_SEC. nia.
Qed.

Lemma us_of_fields_in_range f : valid_fields f = true -> in_range (us_of_fields f) = true.
Proof.
  intros V. pose proof (us_of_fields_nonneg f V) as Hn.
  apply valid_fields_spec in V. destruct V as (Vd & Vy & VH & VM & VS & Vu).
  pose proof (days_of_ymd_upper _ _ _ Vd) as Hu.
  assert (Hm : days_before_year (f_year f + 1) <= days_before_year (MAXYEAR + 1)).
  { pose proof (dby_mono_le (f_year f + 1) (MAXYEAR - f_year f) ltac:(lia)) as Hm.
    replace (f_year f + 1 + (MAXYEAR - f_year f)) with (MAXYEAR + 1) in Hm by lia. lia. }
  unfold in_range, MAX_US. unfold us_of_fields in *. unfold US_PER_DAY, US_PER_SEC in *.
  apply andb_true_intro. split; [lia|]. apply Z.leb_le.
  set (D := days_of_ymd (f_year f) (f_month f) (f_day f)) in *.
  set (B := days_before_year (MAXYEAR + 1)) in *. nia.
Qed.

(* and every in-range count is the count of its (valid) field record *)
Theorem us_of_fields_of_us u : in_range u = true ->
  valid_fields (fields_of_us u) = true /\ us_of_fields (fields_of_us u) = u.
Proof.
  intros R. unfold in_range in R. apply andb_prop in R. destruct R as [R0 R1].
  apply Z.leb_le in R0. apply Z.leb_le in R1.
  pose proof (tod_join u R0) as J. cbv zeta in J. destruct J as (JH & JM & JS & Ju & JE).
  assert (Hd : 0 <= u / US_PER_DAY) by (unfold US_PER_DAY, US_PER_SEC; zdm; lia).
  pose proof (days_of_ymd_of_days _ Hd) as C.
  pose proof (yd_of_days_year_bound (u / US_PER_DAY) MAXYEAR) as YB.
  assert (Hlt : u / US_PER_DAY < days_before_year (MAXYEAR + 1)).
  { unfold MAX_US in R1. unfold US_PER_DAY, US_PER_SEC in *. zdm. nia. }
  specialize (YB ltac:(lia) ltac:(unfold MAXYEAR; lia)).
  unfold fields_of_us. unfold ymd_of_days in *.
  destruct (yd_of_days (u / US_PER_DAY)) as [y doy]. cbn [fst] in YB.
  destruct (md_of_doy (is_leap y) doy) as [m d]. destruct C as [Cv Ce].
  split.
  - apply valid_fields_spec. cbn [f_year f_month f_day f_hour f_minute f_second f_us]. repeat split; try lia; assumption.
  - unfold us_of_fields. cbn [f_year f_month f_day f_hour f_minute f_second f_us]. rewrite Ce. exact JE.
Qed.

Lemma EPOCH_S_value : EPOCH_S = 62135596800.
Proof. reflexivity. Qed.
Lemma MAX_US_value : MAX_US = 315537897599999999.
Proof. reflexivity. Qed.

(* ------------------------------------------------------------------ normalize_time *)

Theorem normalize_naive_id d : tz d = None -> normalize_time d = Ok d.
Proof. intros H. unfold normalize_time, dt_utcoffset. rewrite H. reflexivity. Qed.

(* an aware datetime goes to the naive reading of the UTC instant it denotes; when that
   instant is outside datetime's range CPython raises OverflowError *)
Theorem normalize_preserves_instant d z : tz d = Some z ->
  normalize_time d = if in_range (instant d) then Ok (naive (instant d)) else Exn OverflowError.
Proof.
  intros H. unfold normalize_time, dt_utcoffset, instant. rewrite H.
  unfold dt_sub_td, dt_add_td, dt_replace_tz_none. cbn [wall tz].
  replace (wall d + - tz_off z) with (wall d - tz_off z) by lia. reflexivity.
Qed.

Definition normalizable (d : dt) : bool := match tz d with None => true | Some _ => in_range (instant d) end.

Lemma normalize_ok d : normalizable d = true -> normalize_time d = Ok (naive (instant d)) \/ (tz d = None /\ normalize_time d = Ok d).
Proof.
  unfold normalizable. destruct (tz d) as [z|] eqn:E; intros H.
  - left. rewrite (normalize_preserves_instant d z E), H. reflexivity.
  - right. split; [reflexivity|]. apply normalize_naive_id. exact E.
Qed.

Lemma normalize_result d : normalizable d = true ->
  exists n, normalize_time d = Ok n /\ tz n = None /\ wall n = instant d.
Proof.
  intros H. destruct (normalize_ok d H) as [E|[Et E]].
  - exists (naive (instant d)). auto.
  - exists d. repeat split; auto. unfold instant. rewrite Et. reflexivity.
Qed.

(* ------------------------------------------------------------------ the override slot *)

Theorem override_returns_instant w t b : ov w = One t -> utcnow b w = (Ok t, w).
Proof. intros H. unfold utcnow. rewrite H. reflexivity. Qed.

Theorem set_then_utcnow w t b :
  let w1 := snd (set_time_override (One t) w) in
  ov w1 = One t /\ utcnow b w1 = (Ok t, w1) /\ real w1 = real w.
Proof. cbn. repeat split. Qed.

Theorem clear_then_real w b : utcnow b (snd (clear_time_override w)) = real_now b (snd (clear_time_override w)).
Proof. reflexivity. Qed.

(* one advance: exact, or OverflowError with the slot untouched *)
Theorem advance_one w t delta : ov w = One t ->
  advance_time_delta delta w =
    if in_range (wall t + delta) then (Ok tt, set_ov w (One (mkDt (wall t + delta) (tz t)))) else (Exn OverflowError, w).
Proof.
  intros H. unfold advance_time_delta. rewrite H. unfold dt_add_td.
  destruct (in_range (wall t + delta)); reflexivity.
Qed.

(* advance_time_seconds(x) = advance_time_delta(timedelta(0, x)); a conversion error leaves the slot alone *)
Theorem advance_seconds_is_delta x u w : td_of_days_seconds 0 x = Ok u -> advance_time_seconds x w = advance_time_delta u w.
Proof. intros H. unfold advance_time_seconds, bindM, lift. rewrite H. reflexivity. Qed.
Theorem advance_seconds_error x e w : td_of_days_seconds 0 x = Exn e -> advance_time_seconds x w = (Exn e, w).
Proof. intros H. unfold advance_time_seconds, bindM, lift. rewrite H. reflexivity. Qed.

(* any sequence of advances: by a timedelta (microseconds) or by a Python number of seconds, through the module
   functions or through the TimeFixture methods *)
Inductive adv := ByDelta (us : Z) | BySeconds (x : pynum) | FxByDelta (us : Z) | FxBySeconds (x : pynum).
Definition adv_us (a : adv) : res Z :=
  match a with ByDelta u | FxByDelta u => Ok u | BySeconds x | FxBySeconds x => td_of_days_seconds 0 x end.
Definition run_adv (a : adv) : M unit :=
  match a with
  | ByDelta u => advance_time_delta u | BySeconds x => advance_time_seconds x
  | FxByDelta u => fixture_advance_time_delta u | FxBySeconds x => fixture_advance_time_seconds x
  end.
Fixpoint run_advs (l : list adv) : M unit :=
  match l with [] => ret tt | a :: r => bindM (run_adv a) (fun _ => run_advs r) end.
Definition adv_us0 (a : adv) : Z := match adv_us a with Ok u => u | Exn _ => 0 end.
Definition sum_us (l : list adv) : Z := fold_right (fun a s => adv_us0 a + s) 0 l.
(* every amount converts and every intermediate instant is representable *)
Fixpoint prefixes_ok (t : Z) (l : list adv) : bool :=
  match l with
  | [] => true
  | a :: r => match adv_us a with
              | Ok u => in_range (t + u) && prefixes_ok (t + u) r
              | Exn _ => false
              end
  end.

Lemma run_adv_us a u w : adv_us a = Ok u -> run_adv a w = advance_time_delta u w.
Proof.
  destruct a as [d|x|d|x]; cbn [adv_us run_adv]; intros H;
    unfold fixture_advance_time_delta, fixture_advance_time_seconds;
    try (injection H as ->; reflexivity); apply advance_seconds_is_delta; exact H.
Qed.

Theorem advance_exact l : forall w t, ov w = One t -> prefixes_ok (wall t) l = true ->
  run_advs l w = (Ok tt, set_ov w (One (mkDt (wall t + sum_us l) (tz t)))).
Proof.
  induction l as [|a r IH]; intros w t Hov Hp.
  - cbn. replace (wall t + 0) with (wall t) by lia. unfold ret. f_equal.
    destruct w as [o rl p z]. cbn in *. subst. destruct t; reflexivity.
  - cbn [prefixes_ok] in Hp. destruct (adv_us a) as [u|e] eqn:Eu; [|discriminate].
    apply andb_prop in Hp. destruct Hp as [H1 H2].
    cbn [run_advs]. unfold bindM.
    rewrite (run_adv_us a u w Eu), (advance_one w t u Hov), H1.
    rewrite (IH (set_ov w (One (mkDt (wall t + u) (tz t)))) (mkDt (wall t + u) (tz t)) eq_refl H2).
    cbn [wall tz sum_us fold_right]. f_equal. unfold set_ov. cbn [ov real lib_parse lib_zone].
    f_equal. f_equal. f_equal. fold (sum_us r). unfold adv_us0. rewrite Eu. lia.
Qed.

(* and utcnow afterwards returns exactly the moved instant *)
Corollary advance_then_utcnow l w t b : ov w = One t -> prefixes_ok (wall t) l = true ->
  bindM (run_advs l) (fun _ => utcnow b) w =
    (Ok (mkDt (wall t + sum_us l) (tz t)), set_ov w (One (mkDt (wall t + sum_us l) (tz t)))).
Proof. intros H P. unfold bindM. rewrite (advance_exact l w t H P). reflexivity. Qed.

(* the first advance leaving the range raises OverflowError and nothing moves *)
Theorem advance_overflow w t delta : ov w = One t -> in_range (wall t + delta) = false ->
  advance_time_delta delta w = (Exn OverflowError, w).
Proof. intros H R. rewrite (advance_one w t delta H), R. reflexivity. Qed.

(* ---- list overrides: utcnow pops from the front, in order; advance_time_* changes NOTHING (the loop rebinds a
        local), it only raises OverflowError when some element + delta is not representable ---- *)
Fixpoint utcnow_n (n : nat) : M (list dt) :=
  match n with O => ret [] | S k => bindM (utcnow false) (fun d => bindM (utcnow_n k) (fun r => ret (d :: r))) end.

Theorem utcnow_pops_in_order : forall n l w, ov w = Many l -> (n <= length l)%nat ->
  utcnow_n n w = (Ok (firstn n l), set_ov w (Many (skipn n l))).
Proof.
  induction n as [|k IH]; intros l w Hov Hn.
  - cbn. unfold ret. f_equal. destruct w; cbn in *; subst; reflexivity.
  - destruct l as [|d r]; [cbn in Hn; lia|].
    cbn [utcnow_n]. unfold bindM at 1. unfold utcnow at 1. rewrite Hov.
    unfold bindM. rewrite (IH r (set_ov w (Many r)) eq_refl ltac:(cbn in Hn; lia)).
    cbn [firstn skipn]. unfold ret, set_ov. reflexivity.
Qed.

(* an exhausted list (or none) falls through to the OS clock *)
Theorem utcnow_list_exhausted w b : ov w = Many [] -> utcnow b w = real_now b w.
Proof. intros H. unfold utcnow. rewrite H. reflexivity. Qed.

Theorem advance_list_noop w l delta : ov w = Many l ->
  advance_time_delta delta w =
    (if forallb (fun t => in_range (wall t + delta)) l then Ok tt else Exn OverflowError, w).
Proof.
  intros H. unfold advance_time_delta. rewrite H.
  destruct (forallb (fun t => in_range (wall t + delta)) l); reflexivity.
Qed.

(* ------------------------------------------------------------------ utcnow_ts *)

Theorem utcnow_ts_seconds w t : ov w = One t ->
  utcnow_ts false w = (Ok (FInt (wall t / US_PER_SEC - EPOCH_S)), w).
Proof. intros H. unfold utcnow_ts, bindM. rewrite H. rewrite (override_returns_instant w t false H). reflexivity. Qed.

(* with microsecond=True the value is the exact fraction (wall - epoch) / 10^6 seconds *)
Theorem utcnow_ts_micro w t : ov w = One t -> in_range (wall t) = true ->
  exists e n d, utcnow_ts true w = (Ok e, w) /\ fval e = Some (n, d) /\ 0 < d /\
                n * US_PER_SEC = (wall t - EPOCH_S * US_PER_SEC) * d.
Proof.
  intros H R. unfold utcnow_ts, bindM. rewrite H. rewrite (override_returns_instant w t false H).
  unfold ret. eexists. eexists. eexists. split; [reflexivity|]. cbn [fval].
  cbn [Z.eqb]. split; [reflexivity|]. split; [lia|].
  unfold timegm_of, dt_microsecond, dt_fields, fields_of_us.
  destruct (ymd_of_days (wall t / US_PER_DAY)) as [[y m] d]. cbn [f_us].
  unfold US_PER_DAY, US_PER_SEC. rewrite EPOCH_S_value.
  unfold in_range in R. apply andb_prop in R. destruct R as [R0 _]. apply Z.leb_le in R0.
  zdm. lia.
Qed.

(* ------------------------------------------------------------------ comparisons under a scalar override *)

(* what a time argument denotes: a datetime, or the datetime the ISO parser returns *)
Definition resolves (w : world) (t : targ) (d : dt) : Prop :=
  match t with TDt d' => d' = d | TStr s => lib_parse w s = Ok d end.

Lemma targ_to_dt_resolves w t d : resolves w t d -> targ_to_dt t w = (Ok d, w).
Proof.
  destruct t as [d'|s]; cbn [resolves targ_to_dt]; intros H.
  - subst. reflexivity.
  - unfold parse_isotime. rewrite H. reflexivity.
Qed.

Section Compare.
  Variables (w : world) (now : dt) (t : targ) (d : dt) (s : pynum) (su : Z).
  Hypothesis Hov : ov w = One now.
  Hypothesis Hnaive : tz now = None.                  (* the clock is naive UTC *)
  Hypothesis Hres : resolves w t d.
  Hypothesis Hnorm : normalizable d = true.
  Hypothesis Hs : td_of_seconds s = Ok su.            (* timedelta(seconds=s) is su microseconds *)

  Theorem older_iff : exists b, is_older_than t s w = (Ok b, w) /\ (b = true <-> wall now - instant d > su).
  Proof.
    destruct (normalize_result d Hnorm) as (n & En & Tn & Wn).
    exists (wall now - instant d >? su). split; [|lia].
    unfold is_older_than, bindM. rewrite (targ_to_dt_resolves w t d Hres).
    unfold lift at 1. rewrite En. rewrite (override_returns_instant w now false Hov).
    unfold lift, dt_sub. rewrite Hnaive, Tn, Wn, Hs. reflexivity.
  Qed.

  Theorem newer_iff : exists b, is_newer_than t s w = (Ok b, w) /\ (b = true <-> instant d - wall now > su).
  Proof.
    destruct (normalize_result d Hnorm) as (n & En & Tn & Wn).
    exists (instant d - wall now >? su). split; [|lia].
    unfold is_newer_than, bindM. rewrite (targ_to_dt_resolves w t d Hres).
    unfold lift at 1. rewrite En. rewrite (override_returns_instant w now false Hov).
    unfold lift, dt_sub. rewrite Hnaive, Tn, Wn, Hs. reflexivity.
  Qed.

  (* [now + window] must be representable *)
  Theorem soon_iff : in_range (wall now + su) = true ->
    exists b, is_soon t s w = (Ok b, w) /\ (b = true <-> instant d <= wall now + su).
  Proof.
    intros Hr. destruct (normalize_result d Hnorm) as (n & En & Tn & Wn).
    exists (instant d <=? wall now + su). split; [|lia].
    unfold is_soon, bindM. rewrite (targ_to_dt_resolves w t d Hres).
    rewrite (override_returns_instant w now false Hov).
    unfold lift at 1. rewrite Hs.
    unfold lift at 1. unfold dt_add_td. rewrite Hr.
    unfold lift at 1. rewrite En.
    unfold lift, dt_le, dt_cmp. cbn [tz wall]. rewrite Hnaive, Tn, Wn. reflexivity.
  Qed.
End Compare.

(* an aware override: the clock value is returned as is, and the comparisons raise TypeError (naive - aware) *)
Theorem older_aware_override_raises w now z t d s :
  ov w = One now -> tz now = Some z -> resolves w t d -> normalizable d = true ->
  is_older_than t s w = (Exn TypeError, w) /\ is_newer_than t s w = (Exn TypeError, w).
Proof.
  intros Hov Hz Hres Hnorm. destruct (normalize_result d Hnorm) as (n & En & Tn & Wn).
  split; unfold is_older_than, is_newer_than, bindM; rewrite (targ_to_dt_resolves w t d Hres);
    unfold lift at 1; rewrite En; rewrite (override_returns_instant w now false Hov);
    unfold lift, dt_sub; rewrite Hz, Tn; reflexivity.
Qed.

(* ------------------------------------------------------------------ marshalling *)

Lemma dt_fields_valid d : in_range (wall d) = true ->
  valid_fields (dt_fields d) = true /\ us_of_fields (dt_fields d) = wall d.
Proof. intros R. exact (us_of_fields_of_us (wall d) R). Qed.

Lemma mk_datetime_fields d : in_range (wall d) = true ->
  mk_datetime (mkF (dt_year d) (dt_month d) (dt_day d) (dt_hour d) (dt_minute d) (dt_second d) (dt_microsecond d))
  = Ok (naive (wall d)).
Proof.
  intros R. destruct (dt_fields_valid d R) as [V E].
  unfold dt_year, dt_month, dt_day, dt_hour, dt_minute, dt_second, dt_microsecond.
  replace (mkF _ _ _ _ _ _ _) with (dt_fields d) by (destruct (dt_fields d); reflexivity).
  unfold mk_datetime. rewrite V, E. reflexivity.
Qed.

Lemma second_le_59 d : in_range (wall d) = true -> Z.min (dt_second d) MAX_DATETIME_SEC = dt_second d.
Proof.
  intros R. destruct (dt_fields_valid d R) as [V _]. apply valid_fields_spec in V.
  unfold dt_second, MAX_DATETIME_SEC. lia.
Qed.

(* naive datetimes survive marshall_now / unmarshall_time unchanged *)
Theorem unmarshall_marshall_naive w d : tz d = None -> in_range (wall d) = true ->
  bindM (marshall_now (Some d)) unmarshall_time w = (Ok d, w).
Proof.
  intros Ht R. unfold bindM, marshall_now, bindM, ret.
  unfold dt_has_tzinfo. rewrite Ht.
  unfold unmarshall_time, bindM. cbn [m_second m_year m_month m_day m_hour m_minute m_microsecond].
  rewrite (second_le_59 d R). unfold lift. rewrite (mk_datetime_fields d R).
  cbn [mrec_get_tzname m_tzname optstr_truthy]. unfold ret, naive. destruct d; cbn in *; subst; reflexivity.
Qed.

Definition is_utc_name (n : str) : bool := beq n utc_name || beq n utc_long_name.

(* UTC datetimes (offset 0, tzname 'UTC' or 'UTC+00:00') come back with the same wall reading
   and the UTC zone of the zoneinfo database; the contract on the database is that its 'UTC'
   entry has offset 0 *)
Lemma beq_true_eq : forall a b : bytes, beq a b = true -> a = b.
Proof.
  induction a as [|x a IH]; destruct b as [|y b]; cbn; try congruence.
  intros H. apply andb_prop in H. destruct H as [H1 H2]. apply N.eqb_eq in H1. f_equal; auto.
Qed.

Theorem unmarshall_marshall_utc w d n z :
  tz d = Some (mkTz 0 (Some n)) -> is_utc_name n = true -> in_range (wall d) = true ->
  lib_zone w utc_name = Ok z -> z_utcoffset z (wall d) = 0 ->
  exists d', bindM (marshall_now (Some d)) unmarshall_time w = (Ok d', w) /\
             wall d' = wall d /\ dt_utcoffset d' = Some 0 /\ instant d' = instant d.
Proof.
  intros Ht Hn R Hz Hz0. exists (dt_replace_zone (naive (wall d)) z). split.
  - assert (Em : marshall_now (Some d) w =
                 (Ok (mkM (dt_day d) (dt_month d) (dt_year d) (dt_hour d) (dt_minute d) (dt_second d) (dt_microsecond d)
                          (Some (Some utc_name))), w)).
    { unfold marshall_now, bindM, ret. unfold dt_has_tzinfo, dt_tzname_none. rewrite Ht. cbn [tz_name].
      unfold is_utc_name in Hn. apply orb_prop in Hn.
      destruct Hn as [Hn|Hn]; apply beq_true_eq in Hn; subst n; reflexivity. }
    unfold bindM. rewrite Em.
    unfold unmarshall_time, bindM. cbn [m_second m_year m_month m_day m_hour m_minute m_microsecond].
    rewrite (second_le_59 d R). unfold lift. rewrite (mk_datetime_fields d R).
    cbn [mrec_get_tzname m_tzname].
    change (optstr_truthy (Some utc_name)) with (Some utc_name).
    unfold call_zone. cbv beta.
    assert (Eb : beq utc_name utc_long_name = false) by reflexivity. rewrite Eb, Hz. reflexivity.
  - unfold dt_replace_zone, naive, dt_utcoffset, instant. cbn [wall tz tz_off]. rewrite Hz0, Ht. cbn [tz_off]. repeat split; lia.
Qed.

(* a leap second (or anything above 59) is read as second 59 *)
Definition with_second (m : mrec) (s : Z) : mrec :=
  mkM (m_day m) (m_month m) (m_year m) (m_hour m) (m_minute m) s (m_microsecond m) (m_tzname m).

Theorem unmarshall_leap_capped m w : 59 <= m_second m -> unmarshall_time m w = unmarshall_time (with_second m 59) w.
Proof.
  intros H. unfold unmarshall_time, with_second, MAX_DATETIME_SEC.
  cbn [m_day m_month m_year m_hour m_minute m_second m_microsecond m_tzname mrec_get_tzname].
  replace (Z.min (m_second m) 59) with 59 by lia. reflexivity.
Qed.

(* marshall_now() without argument marshals the overridden clock *)
Theorem marshall_now_override w t : ov w = One t -> marshall_now None w = marshall_now (Some t) w.
Proof. intros H. unfold marshall_now, bindM. rewrite (override_returns_instant w t false H). reflexivity. Qed.

(* the seven fields marshall_now writes are those of the wall reading, microseconds included *)
Theorem marshall_fields w d : in_range (wall d) = true ->
  exists m, marshall_now (Some d) w = (Ok m, w) /\
    us_of_fields (mkF (m_year m) (m_month m) (m_day m) (m_hour m) (m_minute m) (m_second m) (m_microsecond m)) = wall d.
Proof.
  intros R. destruct (dt_fields_valid d R) as [V E].
  unfold marshall_now, bindM, ret.
  destruct (dt_has_tzinfo d); eexists; (split; [reflexivity|]);
    cbn [mrec_set_tzname m_year m_month m_day m_hour m_minute m_second m_microsecond];
    unfold dt_year, dt_month, dt_day, dt_hour, dt_minute, dt_second, dt_microsecond;
    (replace (mkF _ _ _ _ _ _ _) with (dt_fields d) by (destruct (dt_fields d); reflexivity)); exact E.
Qed.

(* ------------------------------------------------------------------ delta_seconds *)
Theorem delta_seconds_value a b : tz a = None -> tz b = None ->
  exists e, delta_seconds a b = Ok e /\ fval e = Some (wall b - wall a, US_PER_SEC).
Proof.
  intros Ha Hb. unfold delta_seconds, dt_sub. rewrite Ha, Hb. eexists. split; [reflexivity|].
  cbn. f_equal. f_equal. lia.
Qed.

(* ------------------------------------------------------------------ examples *)
(* non-vacuity: a concrete world.  Clock overridden to 2020-01-01T00:00:00; the parser
   oracle answers 2020-01-01T00:00:00+01:00; the zone database knows UTC *)
Definition ex_now : dt := naive 63713433600000000.
Definition ex_d : dt := mkDt 63713433600000000 (Some (mkTz 3600000000 (Some (lit "+01:00")))).
Definition ex_w : world := mkW (One ex_now) 5 (fun _ => Ok ex_d) (fun _ => Ok (mkZone (fun _ => 0) (Some utc_name))).
Definition ex_s : str := lit "2020-01-01T00:00:00+01:00".

(* ex_d is one hour before the clock: older than the float 3599.999999 s, not older than the int 3600 s *)
Definition ex_f : float64 := f_normalize 7916483717788177 (-41).          (* 3599.999999 *)
Definition ex_fneg : float64 := f_normalize (-7916483717788177) (-41).
Example td_float_ex : td_of_seconds (PFloat ex_f) = Ok 3599999999 /\ td_of_seconds (PInt 3600) = Ok 3600000000 /\
                      td_of_seconds (PFloat (f_normalize 4508103226997866 (-52))) = Ok 1001000 /\   (* 1.001: 1.001*1e6 < 1001000 in binary64 *)
                      td_of_seconds (PFloat (f_normalize 4593239274353678 (-64))) = Ok 249.          (* 0.000249 *)
Proof. repeat split; vm_compute; reflexivity. Qed.
Example older_ex : is_older_than (TStr ex_s) (PFloat ex_f) ex_w = (Ok true, ex_w) /\ is_older_than (TDt ex_d) (PInt 3600) ex_w = (Ok false, ex_w).
Proof. split; vm_compute; reflexivity. Qed.
Example newer_ex : is_newer_than (TStr ex_s) (PInt (-3601)) ex_w = (Ok true, ex_w) /\ is_newer_than (TDt ex_d) (PInt (-3600)) ex_w = (Ok false, ex_w).
Proof. split; vm_compute; reflexivity. Qed.
Example soon_ex : is_soon (TStr ex_s) (PInt (-3600)) ex_w = (Ok true, ex_w) /\ is_soon (TDt ex_d) (PFloat (f_normalize (-7916483722186223) (-41))) ex_w = (Ok false, ex_w).
Proof. split; vm_compute; reflexivity. Qed.
Example compare_hyps_ex : ov ex_w = One ex_now /\ tz ex_now = None /\ resolves ex_w (TStr ex_s) ex_d /\ resolves ex_w (TDt ex_d) ex_d /\
                          normalizable ex_d = true /\ in_range (wall ex_now + (-3600000000)) = true.
Proof. repeat split. Qed.
Example normalize_ex : normalize_time ex_d = Ok (naive 63713430000000000) /\ normalize_time ex_now = Ok ex_now.
Proof. split; reflexivity. Qed.
Example advance_ex :
  prefixes_ok (wall ex_now) [ByDelta 1; BySeconds (PInt (-2)); FxByDelta 86400000000; FxBySeconds (PFloat (f_normalize 4508103226997866 (-52)))] = true /\
  bindM (run_advs [ByDelta 1; BySeconds (PInt (-2)); FxByDelta 86400000000; FxBySeconds (PFloat (f_normalize 4508103226997866 (-52)))]) (fun _ => utcnow false) ex_w
  = (Ok (naive 63713519999001001), set_ov ex_w (One (naive 63713519999001001))).
Proof. split; vm_compute; reflexivity. Qed.
Example ts_ex : utcnow_ts false ex_w = (Ok (FInt 1577836800), ex_w) /\ in_range (wall ex_now) = true.
Proof. split; vm_compute; reflexivity. Qed.
Definition ex_utc : dt := mkDt 63713433600000001 (Some (mkTz 0 (Some utc_long_name))).
Example marshall_utc_ex :
  bindM (marshall_now (Some ex_utc)) unmarshall_time ex_w = (Ok (mkDt 63713433600000001 (Some utc_tz)), ex_w) /\
  is_utc_name utc_long_name = true /\ in_range (wall ex_utc) = true /\
  lib_zone ex_w utc_name = Ok (mkZone (fun _ => 0) (Some utc_name)).
Proof. repeat split; vm_compute; reflexivity. Qed.
Example marshall_naive_ex : bindM (marshall_now (Some ex_now)) unmarshall_time ex_w = (Ok ex_now, ex_w).
Proof. vm_compute. reflexivity. Qed.
Example leap_ex :
  unmarshall_time (mkM 30 6 2015 23 59 60 0 None) ex_w = (Ok (naive (us_of_fields (mkF 2015 6 30 23 59 59 0))), ex_w).
Proof. vm_compute. reflexivity. Qed.
Example fields_ex : valid_fields (mkF 2024 2 29 23 59 59 999999) = true /\ in_range 63844847999999999 = true /\
                    fields_of_us 63844847999999999 = mkF 2024 2 29 23 59 59 999999.
Proof. repeat split; vm_compute; reflexivity. Qed.
Example calendar_ex : valid_ymd 2024 2 29 = true /\ ymd_of_days (days_of_ymd 2024 2 29) = (2024, 2, 29) /\ valid_ymd 2023 2 29 = false.
Proof. repeat split; vm_compute; reflexivity. Qed.
Example advance_overflow_ex : in_range (wall (naive MAX_US) + 1) = false /\
  advance_time_delta 1 (mkW (One (naive MAX_US)) 0 (fun _ => Exn ValueError) (fun _ => Exn KeyError)) =
  (Exn OverflowError, mkW (One (naive MAX_US)) 0 (fun _ => Exn ValueError) (fun _ => Exn KeyError)).
Proof. split; vm_compute; reflexivity. Qed.
Example normalize_overflow_ex : normalize_time (mkDt 0 (Some (mkTz 60000000 None))) = Exn OverflowError.
Proof. reflexivity. Qed.
