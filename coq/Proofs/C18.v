(* Proofs/C18.v — the spec-matcher grammar and operator table.

   Part 1  facts about the GENERATED values, each decided by computation
           (they are what the property needs of the source: literals are words,
           longer operators come first, the alternatives are in a workable order,
           the operator table is the documented one);
   Part 2  the elements: whitespace, Literal, MatchFirst of literals, Regex, atom;
   Part 3  the grammar: operator + word, disjunction, <all-in>, <range-in>, bare word;
   Part 4  match against the documented meaning. *)
From Coq Require Import String.
Require Import OV.Base.Bytes OV.Base.Py OV.Base.PyInt OV.Base.Str OV.Base.Regex OV.Base.PyFloat.
Require Import OV.Gen.Unicode OV.Gen.C18_SpecsMatcher OV.Model.C18.
Open Scope N_scope.

Arguments is_pp_ws : simpl never.
Arguments cmem : simpl never.

(* ================================================================ Part 1 *)

Definition lit_wf (l : str) : bool := negb (is_nil l) && forallb (fun c => cmem c atom_cs) l.

(* no earlier literal of a MatchFirst is a prefix of a later one: "longer operators win" *)
Fixpoint order_ok (ls : list str) : bool :=
  match ls with
  | [] => true
  | l :: t => forallb (fun m => negb (prefixb l m)) t && order_ok t
  end.

Definition mem_str (l : str) (ls : list str) : bool := existsb (beq l) ls.

Definition alt_eqb (a b : alt) : bool :=
  match a, b with
  | ADisj, ADisj | ANary, ANary | ARange, ARange | AUnary, AUnary | AAtom, AAtom => true
  | _, _ => false
  end.
Definition mem_alt (a : alt) (l : list alt) : bool := existsb (alt_eqb a) l.
(* [a] occurs in [alts] and no element of [bad] occurs before its first occurrence *)
Fixpoint pick_ok (alts : list alt) (a : alt) (bad : list alt) : bool :=
  match alts with
  | [] => false
  | b :: t => if alt_eqb b a then true else negb (mem_alt b bad) && pick_ok t a bad
  end.

(* the skipped characters are not word characters *)
Lemma gen_white_not_word : forallb (fun c => negb (cmem c atom_cs)) pp_white = true.
Proof. vm_compute. reflexivity. Qed.
(* every operator literal is a non-empty run of word characters *)
Lemma gen_lits_wf : forallb lit_wf all_lits = true.
Proof. vm_compute. reflexivity. Qed.
(* the unary operators are listed so that no operator hides a longer one *)
Lemma gen_unary_order : order_ok unary_lits = true.
Proof. vm_compute. reflexivity. Qed.
(* the look-ahead of an atom refuses exactly the operator literals *)
Lemma gen_stop_incl : forallb (fun l => mem_str l all_lits) atom_stop_lits = true.
Proof. vm_compute. reflexivity. Qed.
Lemma gen_all_incl_stop : forallb (fun l => mem_str l atom_stop_lits) all_lits = true.
Proof. vm_compute. reflexivity. Qed.
(* the three n-ary operators are not prefixes of one another nor of a unary operator *)
Lemma gen_nary_distinct :
  forallb (fun l => forallb (fun m => beq l m || negb (prefixb l m)) all_lits) [all_in_lit; or_lit; range_in_lit] = true.
Proof. vm_compute. reflexivity. Qed.
(* no unary operator is a prefix-or-equal of ... (only needed the other way: a unary
   operator MAY be a prefix of an n-ary one, '<' of '<or>'; hence the order of expr) *)
Lemma gen_alts_unary : pick_ok expr_alts AUnary [] = true.
Proof. vm_compute. reflexivity. Qed.
Lemma gen_alts_atom : pick_ok expr_alts AAtom [] = true.
Proof. vm_compute. reflexivity. Qed.
Lemma gen_alts_disj : pick_ok expr_alts ADisj [AUnary] = true.
Proof. vm_compute. reflexivity. Qed.
Lemma gen_alts_nary : pick_ok expr_alts ANary [AUnary] = true.
Proof. vm_compute. reflexivity. Qed.
Lemma gen_alts_range : pick_ok expr_alts ARange [AUnary] = true.
Proof. vm_compute. reflexivity. Qed.
(* Regex(r"\S+"): one or more *)
Lemma gen_atom_min : atom_min = 1%nat.
Proof. reflexivity. Qed.
(* the parse action of the disjunction: [or_] + t[1::2] *)
Lemma gen_disj_action : disj_head = or_lit /\ disj_start = 1%nat /\ disj_step = 2%nat.
Proof. repeat split. Qed.
(* range_op = literal + four atoms, and _range_in wants four arguments at indices 0..3 *)
Lemma gen_range_shape :
  range_arity = range_nargs /\ (range_iy < range_nargs)%nat /\ (range_iz < range_nargs)%nat
  /\ (range_il < range_nargs)%nat /\ (range_iu < range_nargs)%nat.
Proof. vm_compute. repeat split; repeat constructor. Qed.

(* the documented operator table (docstring of make_grammar) *)
Definition documented : list (str * meth) :=
  [ (lit "=", MNum CGe); (lit "==", MNum CEq); (lit "!=", MNum CNe);
    (lit "<", MNum CLt); (lit "<=", MNum CLe); (lit ">", MNum CGt); (lit ">=", MNum CGe);
    (lit "s==", MStr CEq); (lit "s!=", MStr CNe); (lit "s<", MStr CLt); (lit "s<=", MStr CLe);
    (lit "s>", MStr CGt); (lit "s>=", MStr CGe);
    (lit "<in>", MIn); (lit "<all-in>", MAllIn); (lit "<or>", MOr); (lit "<range-in>", MRangeIn) ].

Definition meth_eqb (a b : meth) : bool :=
  let ceq (x y : cmp) := match x, y with
                         | CLt, CLt | CLe, CLe | CEq, CEq | CNe, CNe | CGe, CGe | CGt, CGt => true
                         | _, _ => false end in
  match a, b with
  | MNum x, MNum y | MStr x, MStr y => ceq x y
  | MIn, MIn | MOr, MOr | MAllIn, MAllIn | MRangeIn, MRangeIn => true
  | _, _ => false
  end.
Lemma meth_eqb_eq a b : meth_eqb a b = true -> a = b.
Proof. destruct a as [[]|[]| | | |], b as [[]|[]| | | |]; cbn; intros H; try discriminate; reflexivity. Qed.

Definition is_unary_meth (m : meth) : bool :=
  match m with MNum _ | MStr _ | MIn => true | _ => false end.

(* op_methods gives every documented operator its documented method *)
Lemma gen_table_documented :
  forallb (fun km => match lookup (fst km) op_methods with Some m => meth_eqb m (snd km) | None => false end) documented = true.
Proof. vm_compute. reflexivity. Qed.
(* the grammar knows every documented operator, in the right role *)
Lemma gen_grammar_documented :
  forallb (fun km => match snd km with
                     | MAllIn => beq (fst km) all_in_lit
                     | MOr => beq (fst km) or_lit
                     | MRangeIn => beq (fst km) range_in_lit
                     | _ => mem_str (fst km) unary_lits
                     end) documented = true.
Proof. vm_compute. reflexivity. Qed.
(* every literal of the grammar is a key of op_methods: the dispatch cannot raise KeyError *)
Lemma gen_lits_have_methods :
  forallb (fun l => match lookup l op_methods with Some _ => true | None => false end) (disj_head :: all_lits) = true.
Proof. vm_compute. reflexivity. Qed.
(* and the role in the grammar agrees with the arity of the method *)
Lemma gen_unary_methods :
  forallb (fun l => match lookup l op_methods with Some m => is_unary_meth m | None => false end) unary_lits = true.
Proof. vm_compute. reflexivity. Qed.

(* ---------- generic list helpers ---------- *)

Lemma mem_str_In l ls : mem_str l ls = true <-> In l ls.
Proof.
  unfold mem_str. rewrite existsb_exists. split.
  - intros [x [Hin Hx]]. apply beq_eq in Hx. subst. exact Hin.
  - intros H. exists l. split; [exact H|apply beq_refl].
Qed.

Lemma forallb_In {A} (f : A -> bool) l x : forallb f l = true -> In x l -> f x = true.
Proof. intros H Hin. rewrite forallb_forall in H. apply H, Hin. Qed.

Lemma stop_in_all l : In l atom_stop_lits -> In l all_lits.
Proof. intros H. apply mem_str_In. exact (forallb_In _ _ _ gen_stop_incl H). Qed.
Lemma all_in_stop l : In l all_lits -> In l atom_stop_lits.
Proof. intros H. apply mem_str_In. exact (forallb_In _ _ _ gen_all_incl_stop H). Qed.
Lemma unary_in_all l : In l unary_lits -> In l all_lits.
Proof. intros H. unfold all_lits. apply in_or_app. left. exact H. Qed.
Lemma all_in_in_all : In all_in_lit all_lits.
Proof. unfold all_lits. apply in_or_app. right. cbn. auto. Qed.
Lemma or_in_all : In or_lit all_lits.
Proof. unfold all_lits. apply in_or_app. right. cbn. auto. Qed.
Lemma range_in_all : In range_in_lit all_lits.
Proof. unfold all_lits. apply in_or_app. right. cbn. auto. Qed.

Lemma lit_wf_all l : In l all_lits -> lit_wf l = true.
Proof. intros H. exact (forallb_In _ _ _ gen_lits_wf H). Qed.

Lemma ws_not_word c : is_pp_ws c = true -> cmem c atom_cs = false.
Proof.
  unfold is_pp_ws. intros H.
  assert (Hin : In c pp_white).
  { revert H. generalize pp_white. induction l as [|x l IH]; cbn; [discriminate|].
    intros H. apply orb_true_iff in H. destruct H as [H|H]; [left; apply N.eqb_eq; exact H|right; auto]. }
  pose proof (forallb_In _ _ _ gen_white_not_word Hin) as H1. cbv beta in H1.
  destruct (cmem c atom_cs); [discriminate|reflexivity].
Qed.
Lemma word_not_ws c : cmem c atom_cs = true -> is_pp_ws c = false.
Proof. intros H. destruct (is_pp_ws c) eqn:E; [|reflexivity]. apply ws_not_word in E. congruence. Qed.

(* ================================================================ Part 2 *)

(* ---------- whitespace ---------- *)

Definition nows_head (x : str) : bool :=
  match x with [] => true | c :: _ => negb (is_pp_ws c) end.

Lemma skip_ws_app w x : all_ws w = true -> skip_ws (w ++ x) = skip_ws x.
Proof.
  induction w as [|c w IH]; intros H; [reflexivity|].
  cbn in H. apply andb_true_iff in H. destruct H as [Hc Hw].
  cbn [app skip_ws]. rewrite Hc. auto.
Qed.
Lemma skip_ws_nows x : nows_head x = true -> skip_ws x = x.
Proof. destruct x as [|c x]; [reflexivity|]. cbn. intros H. destruct (is_pp_ws c); [discriminate|reflexivity]. Qed.
Lemma skip_ws_ws_nows w x : all_ws w = true -> nows_head x = true -> skip_ws (w ++ x) = x.
Proof. intros Hw Hx. rewrite skip_ws_app by exact Hw. apply skip_ws_nows, Hx. Qed.
Lemma skip_ws_all w : all_ws w = true -> skip_ws w = [].
Proof. intros H. rewrite <- (app_nil_r w). rewrite skip_ws_app by exact H. reflexivity. Qed.
Lemma skip_ws_length s : (length (skip_ws s) <= length s)%nat.
Proof. induction s as [|c s IH]; cbn; [lia|]. destruct (is_pp_ws c); cbn; lia. Qed.

Lemma all_ws_app a b : all_ws (a ++ b) = all_ws a && all_ws b.
Proof. unfold all_ws. apply forallb_app. Qed.

Lemma lit_wf_cons l : lit_wf l = true -> exists c l', l = c :: l' /\ cmem c atom_cs = true.
Proof.
  unfold lit_wf. destruct l as [|c l']; cbn; [discriminate|]. intros H.
  apply andb_true_iff in H. exists c, l'. tauto.
Qed.
Lemma lit_wf_nows l t : lit_wf l = true -> nows_head (l ++ t) = true.
Proof.
  intros H. destruct (lit_wf_cons l H) as [c [l' [-> Hc]]]. cbn. rewrite (word_not_ws c Hc). reflexivity.
Qed.
Lemma lit_wf_chars l c : lit_wf l = true -> In c l -> cmem c atom_cs = true.
Proof.
  unfold lit_wf. intros H Hin. apply andb_true_iff in H. destruct H as [_ H].
  exact (forallb_In _ _ _ H Hin).
Qed.

(* ---------- prefixes ---------- *)

Lemma drop_prefix_app p s : drop_prefix p (p ++ s) = Some s.
Proof. induction p as [|x p IH]; cbn; [reflexivity|]. rewrite N.eqb_refl. exact IH. Qed.

Lemma drop_prefix_some p s r : drop_prefix p s = Some r -> s = p ++ r.
Proof.
  revert s. induction p as [|x p IH]; intros s H; cbn in H.
  - inversion H. reflexivity.
  - destruct s as [|y s]; [discriminate|]. destruct (x =? y) eqn:E; [|discriminate].
    apply N.eqb_eq in E. subst. cbn. f_equal. auto.
Qed.

Lemma drop_prefix_none p s : prefixb p s = false -> drop_prefix p s = None.
Proof.
  revert s. induction p as [|x p IH]; intros s H; cbn in *; [discriminate|].
  destruct s as [|y s]; [reflexivity|]. destruct (x =? y); cbn in H; [auto|reflexivity].
Qed.

Lemma drop_prefix_prefixb p s r : drop_prefix p s = Some r -> prefixb p s = true.
Proof. intros H. apply drop_prefix_some in H. subst. apply prefixb_app. Qed.

(* a prefix of [a ++ x] is a prefix of [a], or runs over into [x] *)
Lemma prefix_split l a x :
  prefixb l (a ++ x) = true ->
  prefixb l a = true \/ exists c l', l = a ++ c :: l' /\ prefixb (c :: l') x = true.
Proof.
  revert a. induction l as [|y l IH]; intros a H; [left; reflexivity|].
  destruct a as [|z a].
  - right. exists y, l. split; [reflexivity|exact H].
  - cbn in H. apply andb_true_iff in H. destruct H as [E H]. apply N.eqb_eq in E. subst z.
    destruct (IH a H) as [H1|[c [l' [-> H2]]]].
    + left. cbn. rewrite N.eqb_refl. exact H1.
    + right. exists c, l'. split; [reflexivity|exact H2].
Qed.

(* a literal (a run of word characters) cannot run over a character that is not one *)
Lemma lit_no_overrun l a x :
  lit_wf l = true -> stops x = true -> prefixb l (a ++ x) = true -> prefixb l a = true.
Proof.
  intros Hwf Hx H. destruct (prefix_split l a x H) as [H1|[c [l' [-> H2]]]]; [exact H1|].
  destruct x as [|d x]; cbn in H2; [discriminate|].
  apply andb_true_iff in H2. destruct H2 as [E _]. apply N.eqb_eq in E. subst d.
  cbn in Hx. assert (Hc : cmem c atom_cs = true).
  { apply (lit_wf_chars _ c Hwf). apply in_or_app. right. left. reflexivity. }
  rewrite Hc in Hx. discriminate.
Qed.

Lemma stops_ws_head w x : all_ws w = true -> w <> [] -> stops (w ++ x) = true.
Proof.
  destruct w as [|c w]; [congruence|]. intros H _. cbn in H. apply andb_true_iff in H.
  cbn. rewrite (ws_not_word c (proj1 H)). reflexivity.
Qed.

(* ---------- Literal and MatchFirst of literals ---------- *)

Lemma p_lit_hit op ws t : lit_wf op = true -> all_ws ws = true -> p_lit op (ws ++ op ++ t) = Some t.
Proof.
  intros Hop Hws. unfold p_lit. rewrite skip_ws_ws_nows by (auto using lit_wf_nows). apply drop_prefix_app.
Qed.

Lemma p_lit_miss l ws x :
  all_ws ws = true -> nows_head x = true -> prefixb l x = false -> p_lit l (ws ++ x) = None.
Proof. intros Hws Hx H. unfold p_lit. rewrite skip_ws_ws_nows by assumption. apply drop_prefix_none, H. Qed.

Lemma p_lit_length l s r : p_lit l s = Some r -> (length r <= length s)%nat.
Proof.
  unfold p_lit. intros H. apply drop_prefix_some in H. pose proof (skip_ws_length s) as L.
  rewrite H in L. rewrite app_length in L. lia.
Qed.

Lemma first_lit_none ls ws x :
  all_ws ws = true -> nows_head x = true -> (forall l, In l ls -> prefixb l x = false) ->
  first_lit ls (ws ++ x) = None.
Proof.
  intros Hws Hx. induction ls as [|l ls IH]; intros H; [reflexivity|].
  cbn [first_lit]. rewrite p_lit_miss; auto using in_eq.
  apply IH. intros m Hm. apply H. right. exact Hm.
Qed.

Lemma first_lit_hit pre op post ws t :
  lit_wf op = true -> all_ws ws = true ->
  (forall l, In l pre -> prefixb l (op ++ t) = false) ->
  first_lit (pre ++ op :: post) (ws ++ op ++ t) = Some (op, t).
Proof.
  intros Hop Hws. induction pre as [|l pre IH]; intros H.
  - cbn [app first_lit]. rewrite p_lit_hit by assumption. reflexivity.
  - cbn [app first_lit]. rewrite p_lit_miss; auto using in_eq, lit_wf_nows.
    apply IH. intros m Hm. apply H. right. exact Hm.
Qed.

Lemma first_lit_In ls s l r : first_lit ls s = Some (l, r) -> In l ls /\ p_lit l s = Some r.
Proof.
  induction ls as [|m ls IH]; cbn; [discriminate|].
  destruct (p_lit m s) eqn:E.
  - intros H. inversion H; subst. split; [left; reflexivity|exact E].
  - intros H. destruct (IH H). split; [right|]; assumption.
Qed.

Lemma first_lit_some_of ls s l r : In l ls -> p_lit l s = Some r -> first_lit ls s <> None.
Proof.
  induction ls as [|m ls IH]; [contradiction|]. intros [->|Hin] H; cbn.
  - rewrite H. discriminate.
  - destruct (p_lit m s); [discriminate|]. auto.
Qed.

Lemma order_ok_split pre op post :
  order_ok (pre ++ op :: post) = true -> forall l, In l pre -> prefixb l op = false.
Proof.
  induction pre as [|m pre IH]; intros H l Hin; [contradiction|].
  cbn in H. apply andb_true_iff in H. destruct H as [H1 H2].
  destruct Hin as [->|Hin]; [|eauto].
  rewrite forallb_forall in H1. specialize (H1 op).
  assert (In op (pre ++ op :: post)) by (apply in_or_app; right; left; reflexivity).
  apply H1 in H. destruct (prefixb l op); [discriminate|reflexivity].
Qed.

(* [op] followed by [t]: no operator literal matches there except prefixes of [op] itself *)
Definition clean (op t : str) : Prop :=
  forall l, In l all_lits -> prefixb l (op ++ t) = true -> prefixb l op = true.

Lemma clean_of_join op w a rest :
  clean_join op w a = true -> all_ws w = true -> stops rest = true -> clean op (w ++ a ++ rest).
Proof.
  intros Hj Hw Hrest l Hl H. pose proof (lit_wf_all l Hl) as Hwf.
  destruct w as [|c w].
  - cbn [app] in *. unfold clean_join in Hj. cbn [is_nil negb orb] in Hj. rewrite forallb_forall in Hj. specialize (Hj l Hl).
    rewrite app_assoc in H. apply (lit_no_overrun l (op ++ a) rest Hwf Hrest) in H.
    rewrite H in Hj. exact Hj.
  - apply (lit_no_overrun l op ((c :: w) ++ a ++ rest) Hwf); [|exact H].
    apply stops_ws_head; [exact Hw|discriminate].
Qed.

Lemma first_lit_op ls op ws t :
  In op ls -> order_ok ls = true -> (forall l, In l ls -> In l all_lits) ->
  all_ws ws = true -> clean op t ->
  first_lit ls (ws ++ op ++ t) = Some (op, t).
Proof.
  intros Hin Hord Hsub Hws Hc. destruct (in_split _ _ Hin) as [pre [post ->]].
  apply first_lit_hit; [apply lit_wf_all, Hsub, Hin|exact Hws|].
  intros l Hl. destruct (prefixb l (op ++ t)) eqn:E; [|reflexivity].
  apply Hc in E; [|apply Hsub, in_or_app; left; exact Hl].
  rewrite (order_ok_split _ _ _ Hord l Hl) in E. discriminate.
Qed.

(* a literal that is not a prefix of [op] does not match at [op ++ t] when the junction is clean *)
Lemma p_lit_other l op ws t :
  In l all_lits -> In op all_lits -> all_ws ws = true -> clean op t -> prefixb l op = false ->
  p_lit l (ws ++ op ++ t) = None.
Proof.
  intros Hl Hop Hws Hc Hn. apply p_lit_miss; [exact Hws|apply lit_wf_nows, lit_wf_all, Hop|].
  destruct (prefixb l (op ++ t)) eqn:E; [|reflexivity]. apply Hc in E; [congruence|exact Hl].
Qed.

(* ---------- Regex and atom ---------- *)

Lemma try_counts_some {R} s p g (k : cont R) mn n x :
  k (skipn n s) (p + N.of_nat n) g = Some x -> try_counts R s p g k mn n = Some x.
Proof. intros H. destruct n; cbn [try_counts]; rewrite H; reflexivity. Qed.

Lemma re_match_rep cs mn s :
  re_match (Rep cs mn None) s =
  if Nat.ltb (run_len cs s None) mn then None else Some (N.of_nat (run_len cs s None), []).
Proof.
  unfold re_match, match_at. cbn [m]. destruct (Nat.ltb _ mn); [reflexivity|].
  apply try_counts_some. reflexivity.
Qed.

Lemma run_len_word cs a rest :
  forallb (fun c => cmem c cs) a = true ->
  match rest with [] => true | c :: _ => negb (cmem c cs) end = true ->
  run_len cs (a ++ rest) None = length a.
Proof.
  intros Ha Hr. induction a as [|c a IH].
  - destruct rest as [|d rest]; [reflexivity|]. cbn [app run_len length].
    destruct (cmem d cs); [discriminate|reflexivity].
  - cbn [forallb] in Ha. apply andb_true_iff in Ha. destruct Ha as [Hc Ha].
    cbn [app run_len length option_map]. rewrite Hc. f_equal. auto.
Qed.

Lemma run_len_le cs s : (run_len cs s None <= length s)%nat.
Proof.
  induction s as [|c s IH]; cbn [run_len length option_map]; [lia|]. destruct (cmem c cs); lia.
Qed.

Lemma btake_len_app (x y : str) : btake (N.of_nat (length x)) (x ++ y) = x.
Proof.
  unfold btake. rewrite Nat2N.id, firstn_app, Nat.sub_diag, firstn_all. cbn. apply app_nil_r.
Qed.
Lemma bskip_len_app (x y : str) : bskip (N.of_nat (length x)) (x ++ y) = y.
Proof.
  unfold bskip. rewrite Nat2N.id, skipn_app, Nat.sub_diag, skipn_all. reflexivity.
Qed.

Lemma word_ok_cons a : word_ok a = true ->
  exists c a', a = c :: a' /\ cmem c atom_cs = true /\ forallb (fun c => cmem c atom_cs) a = true.
Proof.
  unfold word_ok. destruct a as [|c a']; cbn [is_nil negb andb]; [discriminate|].
  intros H. exists c, a'. cbn [forallb] in *. apply andb_true_iff in H. destruct H as [H1 H2].
  rewrite H1, H2. auto.
Qed.

Lemma word_nows a t : word_ok a = true -> nows_head (a ++ t) = true.
Proof.
  intros H. destruct (word_ok_cons a H) as [c [a' [-> [Hc _]]]]. cbn. rewrite (word_not_ws c Hc). reflexivity.
Qed.

Lemma p_regex_word w a rest :
  all_ws w = true -> word_ok a = true -> stops rest = true ->
  p_regex (w ++ a ++ rest) = Some ([a], rest).
Proof.
  intros Hw Ha Hr. destruct (word_ok_cons a Ha) as [c [a' [Ea [Hc Hall]]]].
  unfold p_regex. rewrite skip_ws_ws_nows by (auto using word_nows).
  unfold atom_re. rewrite re_match_rep.
  rewrite run_len_word by (try exact Hall; exact Hr).
  rewrite gen_atom_min.
  assert (Hlen : Nat.ltb (length a) 1 = false) by (subst a; reflexivity).
  rewrite Hlen, btake_len_app, bskip_len_app. reflexivity.
Qed.

Lemma p_regex_consumes s t r :
  p_regex s = Some (t, r) -> (exists x, t = [x]) /\ (length r < length s)%nat.
Proof.
  unfold p_regex, atom_re. rewrite re_match_rep, gen_atom_min.
  pose proof (run_len_le atom_cs (skip_ws s)) as L. pose proof (skip_ws_length s) as L2.
  set (rl := run_len atom_cs (skip_ws s) None) in *.
  destruct (Nat.ltb rl 1) eqn:E; [discriminate|]. apply Nat.ltb_ge in E.
  intros H. inversion H; subst; clear H. split; [eexists; reflexivity|].
  pose proof (blen_bskip (N.of_nat rl) (skip_ws s)) as B. unfold blen in B. lia.
Qed.

Lemma p_atom_consumes s t r :
  p_atom s = Some (t, r) -> (exists x, t = [x]) /\ (length r < length s)%nat.
Proof. unfold p_atom. destruct (first_lit atom_stop_lits s); [discriminate|]. apply p_regex_consumes. Qed.

(* a word that does not start with an operator is one atom *)
Lemma p_atom_word w a rest :
  all_ws w = true -> atom_ok a = true -> stops rest = true ->
  p_atom (w ++ a ++ rest) = Some ([a], rest).
Proof.
  intros Hw Ha Hr. unfold atom_ok in Ha. apply andb_true_iff in Ha. destruct Ha as [Hword Hnop].
  unfold p_atom. rewrite first_lit_none; [apply p_regex_word; assumption|exact Hw|apply word_nows, Hword|].
  intros l Hl. apply stop_in_all in Hl.
  destruct (prefixb l (a ++ rest)) eqn:E; [|reflexivity].
  apply (lit_no_overrun l a rest (lit_wf_all l Hl) Hr) in E.
  unfold no_op_prefix in Hnop. rewrite forallb_forall in Hnop. specialize (Hnop l Hl).
  rewrite E in Hnop. discriminate.
Qed.

(* an atom cannot start with an operator *)
Lemma p_atom_at_op op ws t : In op all_lits -> all_ws ws = true -> p_atom (ws ++ op ++ t) = None.
Proof.
  intros Hop Hws. unfold p_atom.
  destruct (first_lit atom_stop_lits (ws ++ op ++ t)) eqn:E; [reflexivity|].
  exfalso. revert E. apply (first_lit_some_of _ _ op t); [apply all_in_stop, Hop|].
  apply p_lit_hit; [apply lit_wf_all, Hop|exact Hws].
Qed.

Lemma p_atom_nil : p_atom [] = None.
Proof.
  destruct (p_atom []) as [[t r]|] eqn:E; [|reflexivity].
  apply p_atom_consumes in E. cbn in E. lia.
Qed.
Lemma p_atom_ws w : all_ws w = true -> p_atom w = None.
Proof.
  intros H. destruct (p_atom w) as [[t r]|] eqn:E; [|reflexivity]. exfalso.
  unfold p_atom in E. destruct (first_lit atom_stop_lits w); [discriminate|].
  unfold p_regex in E. rewrite (skip_ws_all w H) in E. unfold atom_re in E. rewrite re_match_rep, gen_atom_min in E.
  cbn in E. discriminate.
Qed.

(* ================================================================ Part 3 *)

(* ---------- repetition ---------- *)

Definition consuming (p : str -> tokres) : Prop :=
  forall s t r, p s = Some (t, r) -> (length r < length s)%nat.

Lemma p_atom_consuming : consuming p_atom.
Proof. intros s t r H. apply p_atom_consumes in H. tauto. Qed.

Lemma p_or_item_consuming : consuming p_or_item.
Proof.
  intros s t r. unfold p_or_item, then_, p_lit_tok.
  destruct (p_lit or_lit s) as [r1|] eqn:E1; [|discriminate].
  destruct (p_atom r1) as [[t2 r2]|] eqn:E2; [|discriminate].
  intros H. inversion H; subst. apply p_lit_length in E1. apply p_atom_consumes in E2. lia.
Qed.

(* the fuel of [many] is never exhausted: any two sufficient amounts give the same result *)
Lemma many_fuel_enough p : consuming p ->
  forall f f' s, (length s <= f)%nat -> (length s <= f')%nat -> many f p s = many f' p s.
Proof.
  intros Hp. induction f as [|f IH]; intros f' s L L'.
  - destruct s; [|cbn in L; lia]. destruct f'; [reflexivity|]. cbn [many].
    destruct (p []) as [[t r]|] eqn:E; [apply Hp in E; cbn in E; lia|reflexivity].
  - destruct f' as [|f'].
    + destruct s; [|cbn in L'; lia]. cbn [many].
      destruct (p []) as [[t r]|] eqn:E; [apply Hp in E; cbn in E; lia|reflexivity].
    + cbn [many]. destruct (p s) as [[t r]|] eqn:E; [|reflexivity].
      apply Hp in E. rewrite (IH f' r) by lia. reflexivity.
Qed.

Lemma stops_items items rest :
  forallb item_ok items = true -> stops rest = true -> stops (flat_map seg items ++ rest) = true.
Proof.
  destruct items as [|[w a] items]; intros Hi Hr; [exact Hr|].
  cbn [forallb] in Hi. apply andb_true_iff in Hi. destruct Hi as [Hi _].
  unfold item_ok in Hi. cbn [fst snd] in Hi. apply andb_true_iff in Hi. destruct Hi as [Hi _].
  apply andb_true_iff in Hi. destruct Hi as [Hne Hw].
  cbn [flat_map]. unfold seg. cbn [fst snd]. rewrite <- !app_assoc. apply stops_ws_head; [exact Hw|].
  destruct w; [discriminate|discriminate].
Qed.

Lemma many_atoms items : forall rest f,
  forallb item_ok items = true -> ends_atoms rest = true ->
  (length (flat_map seg items ++ rest) <= f)%nat ->
  many f p_atom (flat_map seg items ++ rest) = (map snd items, rest).
Proof.
  induction items as [|[w a] items IH]; intros rest f Hi He L.
  - unfold ends_atoms in He. apply andb_true_iff in He. destruct He as [_ He].
    cbn [flat_map app map]. destruct f; [reflexivity|]. cbn [many].
    destruct (p_atom rest); [discriminate|reflexivity].
  - pose proof Hi as Hi0. cbn [forallb] in Hi. apply andb_true_iff in Hi. destruct Hi as [Hwa Hi].
    unfold item_ok in Hwa. cbn [fst snd] in Hwa. apply andb_true_iff in Hwa. destruct Hwa as [Hwa Ha].
    apply andb_true_iff in Hwa. destruct Hwa as [Hne Hw].
    assert (Hst : stops (flat_map seg items ++ rest) = true).
    { apply stops_items; [exact Hi|]. unfold ends_atoms in He. apply andb_true_iff in He. tauto. }
    cbn [flat_map map] in *. unfold seg in *. cbn [fst snd] in *. rewrite <- !app_assoc in *.
    destruct f as [|f].
    { destruct w; [discriminate|]. cbn in L. lia. }
    cbn [many]. rewrite (p_atom_word w a _ Hw Ha Hst).
    rewrite (IH rest f Hi He).
    + reflexivity.
    + repeat rewrite app_length in L. repeat rewrite app_length. destruct w; [discriminate|]. cbn [length] in L. lia.
Qed.

Lemma one_or_more_atoms w a items rest :
  all_ws w = true -> atom_ok a = true -> forallb item_ok items = true -> ends_atoms rest = true ->
  one_or_more p_atom (w ++ a ++ flat_map seg items ++ rest) = Some (a :: map snd items, rest).
Proof.
  intros Hw Ha Hi He. unfold one_or_more.
  assert (Hst : stops (flat_map seg items ++ rest) = true).
  { apply stops_items; [exact Hi|]. unfold ends_atoms in He. apply andb_true_iff in He. tauto. }
  rewrite (p_atom_word w a _ Hw Ha Hst). rewrite many_atoms by (auto; lia). reflexivity.
Qed.

(* ---------- one "<or> word" ---------- *)

Lemma lit_wf_or : lit_wf or_lit = true.
Proof. apply lit_wf_all, or_in_all. Qed.

Lemma p_or_item_word sep w a R :
  all_ws sep = true -> all_ws w = true -> atom_ok a = true -> stops R = true ->
  p_or_item (sep ++ or_lit ++ w ++ a ++ R) = Some ([or_lit; a], R).
Proof.
  intros Hs Hw Ha HR. unfold p_or_item, then_, p_lit_tok.
  rewrite (p_lit_hit or_lit sep _ lit_wf_or Hs). rewrite (p_atom_word w a R Hw Ha HR). reflexivity.
Qed.

Lemma stops_oitems items rest :
  forallb oitem_ok items = true -> stops rest = true -> stops (flat_map oseg items ++ rest) = true.
Proof.
  destruct items as [|[[sep w] a] items]; intros Hi Hr; [exact Hr|].
  cbn [forallb] in Hi. apply andb_true_iff in Hi. destruct Hi as [Hi _].
  unfold oitem_ok in Hi. cbn [fst snd] in Hi.
  apply andb_true_iff in Hi. destruct Hi as [Hi _]. apply andb_true_iff in Hi. destruct Hi as [Hi _].
  apply andb_true_iff in Hi. destruct Hi as [Hne Hs].
  cbn [flat_map]. unfold oseg. cbn [fst snd]. rewrite <- !app_assoc. apply stops_ws_head; [exact Hs|].
  destruct sep; discriminate.
Qed.

Lemma many_or items : forall rest f,
  forallb oitem_ok items = true -> ends_disj rest = true ->
  (length (flat_map oseg items ++ rest) <= f)%nat ->
  many f p_or_item (flat_map oseg items ++ rest) = (flat_map (fun a => [or_lit; a]) (map snd items), rest).
Proof.
  induction items as [|[[sep w] a] items IH]; intros rest f Hi He L.
  - unfold ends_disj in He. apply andb_true_iff in He. destruct He as [_ He].
    cbn [flat_map app map]. destruct f; [reflexivity|]. cbn [many].
    destruct (p_or_item rest); [discriminate|reflexivity].
  - cbn [forallb] in Hi. apply andb_true_iff in Hi. destruct Hi as [Hx Hi].
    unfold oitem_ok in Hx. cbn [fst snd] in Hx.
    apply andb_true_iff in Hx. destruct Hx as [Hx Ha]. apply andb_true_iff in Hx. destruct Hx as [Hx Hw].
    apply andb_true_iff in Hx. destruct Hx as [Hne Hs].
    assert (Hst : stops (flat_map oseg items ++ rest) = true).
    { apply stops_oitems; [exact Hi|]. unfold ends_disj in He. apply andb_true_iff in He. tauto. }
    cbn [flat_map map] in *. unfold oseg in *. cbn [fst snd] in *. rewrite <- !app_assoc in *.
    destruct f as [|f].
    { destruct sep; [discriminate|]. cbn in L. lia. }
    cbn [many]. rewrite (p_or_item_word sep w a _ Hs Hw Ha Hst).
    rewrite (IH rest f Hi He).
    + reflexivity.
    + repeat rewrite app_length in L. repeat rewrite app_length. destruct sep; [discriminate|]. cbn [length] in L. lia.
Qed.

Lemma every_nth_pairs (x : str) l : every_nth 1 2 (flat_map (fun a => [x; a]) l) = l.
Proof. induction l as [|a l IH]; cbn; [reflexivity|]. f_equal. exact IH. Qed.

Lemma p_disj_words ws w a items rest :
  all_ws ws = true -> all_ws w = true -> atom_ok a = true ->
  forallb oitem_ok items = true -> ends_disj rest = true ->
  p_disj (ws ++ or_lit ++ w ++ a ++ flat_map oseg items ++ rest) = Some (or_lit :: a :: map snd items, rest).
Proof.
  intros Hws Hw Ha Hi He. unfold p_disj, one_or_more.
  assert (Hst : stops (flat_map oseg items ++ rest) = true).
  { apply stops_oitems; [exact Hi|]. unfold ends_disj in He. apply andb_true_iff in He. tauto. }
  rewrite (p_or_item_word ws w a _ Hws Hw Ha Hst). rewrite many_or by (auto; lia).
  unfold disj_action. destruct gen_disj_action as [-> [-> ->]].
  change ([or_lit; a] ++ flat_map (fun a0 => [or_lit; a0]) (map snd items))
    with (flat_map (fun a0 => [or_lit; a0]) (a :: map snd items)).
  rewrite every_nth_pairs. reflexivity.
Qed.

(* ---------- the alternatives of expr ---------- *)

Lemma alt_eqb_eq a b : alt_eqb a b = true <-> a = b.
Proof. destruct a, b; cbn; split; intros H; try discriminate; reflexivity. Qed.

Lemma first_alt_pick alts a bad s x :
  pick_ok alts a bad = true -> parse_alt a s = Some x ->
  (forall b, b <> a -> mem_alt b bad = false -> parse_alt b s = None) ->
  first_alt alts s = Some x.
Proof.
  intros Hp Hx Hn. induction alts as [|b alts IH]; cbn in Hp; [discriminate|].
  cbn [first_alt]. destruct (alt_eqb b a) eqn:E.
  - apply alt_eqb_eq in E. subst b. rewrite Hx. reflexivity.
  - apply andb_true_iff in Hp. destruct Hp as [Hb Hp].
    rewrite Hn; [auto| |].
    + intros ->. destruct a; discriminate.
    + destruct (mem_alt b bad); [discriminate|reflexivity].
Qed.

Lemma gen_nary_vs_unary :
  forallb (fun l => forallb (fun u => negb (prefixb l u)) unary_lits) [all_in_lit; or_lit; range_in_lit] = true.
Proof. vm_compute. reflexivity. Qed.
Lemma gen_nary_pairwise :
  negb (prefixb all_in_lit or_lit) && negb (prefixb all_in_lit range_in_lit) &&
  negb (prefixb or_lit all_in_lit) && negb (prefixb or_lit range_in_lit) &&
  negb (prefixb range_in_lit all_in_lit) && negb (prefixb range_in_lit or_lit) = true.
Proof. vm_compute. reflexivity. Qed.

Lemma nary_not_prefix_unary l u :
  In l [all_in_lit; or_lit; range_in_lit] -> In u unary_lits -> prefixb l u = false.
Proof.
  intros Hl Hu. pose proof (forallb_In _ _ _ (forallb_In _ _ _ gen_nary_vs_unary Hl) Hu) as H.
  cbv beta in H. destruct (prefixb l u); [discriminate|reflexivity].
Qed.

Section AtOperator.
(* the text starts (after whitespace) with operator [op], cleanly followed by [t] *)
Variables (op ws t : str).
Hypothesis Hop : In op all_lits.
Hypothesis Hws : all_ws ws = true.
Hypothesis Hc : clean op t.

Lemma fail_disj : prefixb or_lit op = false -> p_disj (ws ++ op ++ t) = None.
Proof.
  intros H. unfold p_disj, one_or_more, p_or_item, then_, p_lit_tok.
  rewrite (p_lit_other or_lit op ws t or_in_all Hop Hws Hc H). reflexivity.
Qed.
Lemma fail_nary : prefixb all_in_lit op = false -> p_nary (ws ++ op ++ t) = None.
Proof.
  intros H. unfold p_nary, then_, p_lit_tok.
  rewrite (p_lit_other all_in_lit op ws t all_in_in_all Hop Hws Hc H). reflexivity.
Qed.
Lemma fail_range : prefixb range_in_lit op = false -> p_range (ws ++ op ++ t) = None.
Proof.
  intros H. unfold p_range, then_, p_lit_tok.
  rewrite (p_lit_other range_in_lit op ws t range_in_all Hop Hws Hc H). reflexivity.
Qed.
Lemma fail_atom : p_atom (ws ++ op ++ t) = None.
Proof. apply p_atom_at_op; assumption. Qed.
End AtOperator.

(* ---------- operator + word ---------- *)

Theorem parse_op_atom op ws w a rest :
  In op unary_lits -> all_ws ws = true -> all_ws w = true -> atom_ok a = true ->
  stops rest = true -> clean_join op w a = true ->
  parse (ws ++ op ++ w ++ a ++ rest) = Some [op; a].
Proof.
  intros Hop Hws Hw Ha Hr Hj.
  pose proof (clean_of_join op w a rest Hj Hw Hr) as Hc.
  pose proof (unary_in_all op Hop) as Hall.
  assert (Hu : p_unary (ws ++ op ++ w ++ a ++ rest) = Some ([op; a], rest)).
  { unfold p_unary, then_, p_first.
    rewrite (first_lit_op unary_lits op ws _ Hop gen_unary_order unary_in_all Hws Hc).
    rewrite (p_atom_word w a rest Hw Ha Hr). reflexivity. }
  unfold parse. rewrite (first_alt_pick expr_alts AUnary [] _ _ gen_alts_unary Hu); [reflexivity|].
  intros b Hb _. destruct b; cbn [parse_alt]; try congruence.
  - apply fail_disj; auto. apply nary_not_prefix_unary; cbn; auto.
  - apply fail_nary; auto. apply nary_not_prefix_unary; cbn; auto.
  - apply fail_range; auto. apply nary_not_prefix_unary; cbn; auto.
  - apply fail_atom; auto.
Qed.

(* ---------- <or> ---------- *)

Lemma nary_pairwise :
  prefixb all_in_lit or_lit = false /\ prefixb all_in_lit range_in_lit = false /\
  prefixb or_lit all_in_lit = false /\ prefixb or_lit range_in_lit = false /\
  prefixb range_in_lit all_in_lit = false /\ prefixb range_in_lit or_lit = false.
Proof.
  pose proof gen_nary_pairwise as H.
  repeat (apply andb_true_iff in H; destruct H as [H ?]).
  repeat split; match goal with |- ?x = false => destruct x; [discriminate|reflexivity] end.
Qed.

Theorem parse_or ws w a items rest :
  all_ws ws = true -> all_ws w = true -> atom_ok a = true -> clean_join or_lit w a = true ->
  forallb oitem_ok items = true -> ends_disj rest = true ->
  parse (ws ++ or_lit ++ w ++ a ++ flat_map oseg items ++ rest) = Some (or_lit :: a :: map snd items).
Proof.
  intros Hws Hw Ha Hj Hi He.
  assert (Hst : stops (flat_map oseg items ++ rest) = true).
  { apply stops_oitems; [exact Hi|]. unfold ends_disj in He. apply andb_true_iff in He. tauto. }
  pose proof (clean_of_join or_lit w a _ Hj Hw Hst) as Hc.
  pose proof (p_disj_words ws w a items rest Hws Hw Ha Hi He) as Hd.
  destruct nary_pairwise as [_ [_ [_ [_ [P5 P6]]]]]. destruct nary_pairwise as [P1 [_ [_ _]]].
  unfold parse. rewrite (first_alt_pick expr_alts ADisj [AUnary] _ _ gen_alts_disj Hd); [reflexivity|].
  intros b Hb Hbad. destruct b; cbn [parse_alt]; try congruence; try discriminate.
  - apply fail_nary; auto using or_in_all.
  - apply fail_range; auto using or_in_all.
  - apply fail_atom; auto using or_in_all.
Qed.

(* ---------- <all-in> ---------- *)

Theorem parse_all_in ws w a items rest :
  all_ws ws = true -> all_ws w = true -> atom_ok a = true -> clean_join all_in_lit w a = true ->
  forallb item_ok items = true -> ends_atoms rest = true ->
  parse (ws ++ all_in_lit ++ w ++ a ++ flat_map seg items ++ rest) = Some (all_in_lit :: a :: map snd items).
Proof.
  intros Hws Hw Ha Hj Hi He.
  assert (Hst : stops (flat_map seg items ++ rest) = true).
  { apply stops_items; [exact Hi|]. unfold ends_atoms in He. apply andb_true_iff in He. tauto. }
  pose proof (clean_of_join all_in_lit w a _ Hj Hw Hst) as Hc.
  assert (Hn : p_nary (ws ++ all_in_lit ++ w ++ a ++ flat_map seg items ++ rest)
               = Some (all_in_lit :: a :: map snd items, rest)).
  { unfold p_nary, then_, p_lit_tok.
    rewrite (p_lit_hit all_in_lit ws _ (lit_wf_all _ all_in_in_all) Hws).
    rewrite (one_or_more_atoms w a items rest Hw Ha Hi He). reflexivity. }
  destruct nary_pairwise as [_ [_ [P3 [_ [P5 _]]]]].
  unfold parse. rewrite (first_alt_pick expr_alts ANary [AUnary] _ _ gen_alts_nary Hn); [reflexivity|].
  intros b Hb Hbad. destruct b; cbn [parse_alt]; try congruence; try discriminate.
  - apply fail_disj; auto using all_in_in_all.
  - apply fail_range; auto using all_in_in_all.
  - apply fail_atom; auto using all_in_in_all.
Qed.

(* ---------- <range-in> ---------- *)

Lemma gen_range_arity : range_arity = 4%nat.
Proof. reflexivity. Qed.

Theorem parse_range_in ws w1 a1 w2 a2 w3 a3 w4 a4 rest :
  all_ws ws = true -> all_ws w1 = true -> clean_join range_in_lit w1 a1 = true ->
  all_ws w2 = true -> w2 <> [] -> all_ws w3 = true -> w3 <> [] -> all_ws w4 = true -> w4 <> [] ->
  atom_ok a1 = true -> atom_ok a2 = true -> atom_ok a3 = true -> atom_ok a4 = true ->
  stops rest = true ->
  parse (ws ++ range_in_lit ++ w1 ++ a1 ++ w2 ++ a2 ++ w3 ++ a3 ++ w4 ++ a4 ++ rest)
  = Some [range_in_lit; a1; a2; a3; a4].
Proof.
  intros Hws Hw1 Hj Hw2 N2 Hw3 N3 Hw4 N4 Ha1 Ha2 Ha3 Ha4 Hr.
  assert (S2 : stops (w2 ++ a2 ++ w3 ++ a3 ++ w4 ++ a4 ++ rest) = true) by (apply stops_ws_head; assumption).
  assert (S3 : stops (w3 ++ a3 ++ w4 ++ a4 ++ rest) = true) by (apply stops_ws_head; assumption).
  assert (S4 : stops (w4 ++ a4 ++ rest) = true) by (apply stops_ws_head; assumption).
  pose proof (clean_of_join range_in_lit w1 a1 _ Hj Hw1 S2) as Hc.
  assert (Hn : p_range (ws ++ range_in_lit ++ w1 ++ a1 ++ w2 ++ a2 ++ w3 ++ a3 ++ w4 ++ a4 ++ rest)
               = Some ([range_in_lit; a1; a2; a3; a4], rest)).
  { unfold p_range, then_ at 1, p_lit_tok.
    rewrite (p_lit_hit range_in_lit ws _ (lit_wf_all _ range_in_all) Hws).
    rewrite gen_range_arity. cbn [p_times]. unfold then_.
    rewrite (p_atom_word w1 a1 _ Hw1 Ha1 S2), (p_atom_word w2 a2 _ Hw2 Ha2 S3),
            (p_atom_word w3 a3 _ Hw3 Ha3 S4), (p_atom_word w4 a4 _ Hw4 Ha4 Hr). reflexivity. }
  destruct nary_pairwise as [_ [P2 [_ [P4 _]]]].
  unfold parse. rewrite (first_alt_pick expr_alts ARange [AUnary] _ _ gen_alts_range Hn); [reflexivity|].
  intros b Hb Hbad. destruct b; cbn [parse_alt]; try congruence; try discriminate.
  - apply fail_disj; auto using range_in_all.
  - apply fail_nary; auto using range_in_all.
  - apply fail_atom; auto using range_in_all.
Qed.

(* ---------- no operator ---------- *)

Lemma no_lit_at_word l ws a rest :
  In l all_lits -> all_ws ws = true -> atom_ok a = true -> stops rest = true ->
  p_lit l (ws ++ a ++ rest) = None.
Proof.
  intros Hl Hws Ha Hr. unfold atom_ok in Ha. apply andb_true_iff in Ha. destruct Ha as [Hword Hnop].
  apply p_lit_miss; [exact Hws|apply word_nows, Hword|].
  destruct (prefixb l (a ++ rest)) eqn:E; [|reflexivity].
  apply (lit_no_overrun l a rest (lit_wf_all l Hl) Hr) in E.
  unfold no_op_prefix in Hnop. rewrite forallb_forall in Hnop. specialize (Hnop l Hl).
  rewrite E in Hnop. discriminate.
Qed.

Lemma first_lit_none_at_word ls ws a rest :
  (forall l, In l ls -> In l all_lits) -> all_ws ws = true -> atom_ok a = true -> stops rest = true ->
  first_lit ls (ws ++ a ++ rest) = None.
Proof.
  intros Hsub Hws Ha Hr. induction ls as [|u us IH]; [reflexivity|]. cbn [first_lit].
  rewrite (no_lit_at_word u ws a rest (Hsub u (in_eq _ _)) Hws Ha Hr).
  apply IH. intros l Hl. apply Hsub. right. exact Hl.
Qed.

Theorem parse_word ws a rest :
  all_ws ws = true -> atom_ok a = true -> stops rest = true ->
  parse (ws ++ a ++ rest) = Some [a].
Proof.
  intros Hws Ha Hr.
  pose proof (p_atom_word ws a rest Hws Ha Hr) as Hx.
  unfold parse. rewrite (first_alt_pick expr_alts AAtom [] _ _ gen_alts_atom Hx); [reflexivity|].
  intros b Hb _. destruct b; cbn [parse_alt]; try congruence.
  - unfold p_disj, one_or_more, p_or_item, then_, p_lit_tok.
    rewrite (no_lit_at_word or_lit ws a rest or_in_all Hws Ha Hr). reflexivity.
  - unfold p_nary, then_, p_lit_tok.
    rewrite (no_lit_at_word all_in_lit ws a rest all_in_in_all Hws Ha Hr). reflexivity.
  - unfold p_range, then_, p_lit_tok.
    rewrite (no_lit_at_word range_in_lit ws a rest range_in_all Hws Ha Hr). reflexivity.
  - unfold p_unary, then_, p_first.
    rewrite (first_lit_none_at_word unary_lits ws a rest unary_in_all Hws Ha Hr). reflexivity.
Qed.

(* ---------- every parse has one of five shapes ---------- *)

Inductive shape : list str -> Prop :=
| sh_atom a : shape [a]
| sh_unary op a : In op unary_lits -> shape [op; a]
| sh_disj a l : shape (disj_head :: a :: l)
| sh_nary a l : shape (all_in_lit :: a :: l)
| sh_range l : length l = range_arity -> shape (range_in_lit :: l).

Lemma p_times_length n : forall s l r, p_times n p_atom s = Some (l, r) -> length l = n.
Proof.
  induction n as [|n IH]; intros s l r H; cbn [p_times] in H.
  - inversion H. reflexivity.
  - unfold then_ in H. destruct (p_atom s) as [[t1 r1]|] eqn:E1; [|discriminate].
    destruct (p_times n p_atom r1) as [[t2 r2]|] eqn:E2; [|discriminate].
    inversion H; subst. apply p_atom_consumes in E1. destruct E1 as [[x ->] _].
    apply IH in E2. cbn. lia.
Qed.

Lemma parse_alt_shape a s t r : parse_alt a s = Some (t, r) -> shape t.
Proof.
  destruct a; cbn [parse_alt].
  - unfold p_disj, one_or_more. destruct (p_or_item s) as [[t1 r1]|] eqn:E1; [|discriminate].
    destruct (many (S (length r1)) p_or_item r1) as [t' r'].
    intros H. inversion H; subst; clear H.
    unfold p_or_item, then_, p_lit_tok in E1. destruct (p_lit or_lit s) as [r0|]; [|discriminate].
    destruct (p_atom r0) as [[t2 r2]|] eqn:E2; [|discriminate]. inversion E1; subst; clear E1.
    apply p_atom_consumes in E2. destruct E2 as [[x ->] _].
    unfold disj_action. destruct gen_disj_action as [_ [-> ->]]. cbn. apply sh_disj.
  - unfold p_nary, then_, p_lit_tok. destruct (p_lit all_in_lit s) as [r0|]; [|discriminate].
    unfold one_or_more. destruct (p_atom r0) as [[t1 r1]|] eqn:E1; [|discriminate].
    destruct (many (S (length r1)) p_atom r1) as [t' r'].
    intros H. inversion H; subst; clear H. apply p_atom_consumes in E1. destruct E1 as [[x ->] _].
    cbn. apply sh_nary.
  - unfold p_range, then_, p_lit_tok. destruct (p_lit range_in_lit s) as [r0|]; [|discriminate].
    destruct (p_times range_arity p_atom r0) as [[l r1]|] eqn:E; [|discriminate].
    intros H. inversion H; subst; clear H. cbn. apply sh_range. eapply p_times_length, E.
  - unfold p_unary, then_, p_first. destruct (first_lit unary_lits s) as [[op r0]|] eqn:E0; [|discriminate].
    destruct (p_atom r0) as [[t1 r1]|] eqn:E1; [|discriminate].
    intros H. inversion H; subst; clear H. apply p_atom_consumes in E1. destruct E1 as [[x ->] _].
    apply first_lit_In in E0. cbn. apply sh_unary. tauto.
  - intros H. apply p_atom_consumes in H. destruct H as [[x ->] _]. apply sh_atom.
Qed.

Theorem parse_shape spec t : parse spec = Some t -> shape t.
Proof.
  unfold parse. generalize expr_alts. intros alts. induction alts as [|a alts IH]; cbn [first_alt]; [discriminate|].
  destruct (parse_alt a spec) as [[t0 r0]|] eqn:E.
  - cbn. intros H. inversion H; subst. eapply parse_alt_shape, E.
  - exact IH.
Qed.

(* ================================================================ tab expansion is unobservable *)

(* [tabeq s s']: s' is s with every tab replaced by one or more spaces *)
Inductive tabeq : str -> str -> Prop :=
| te_nil : tabeq [] []
| te_same c s s' : tabeq s s' -> tabeq (c :: s) (c :: s')
| te_tab k s s' : tabeq s s' -> tabeq (9 :: s) (repeatN 32 (S k) ++ s').

Lemma tabeq_expand s : forall col, tabeq s (expandtabs_go col s).
Proof.
  induction s as [|c s IH]; intros col; cbn [expandtabs_go]; [constructor|].
  destruct (c =? 9) eqn:E9.
  - apply N.eqb_eq in E9. subst c.
    pose proof (Nat.mod_upper_bound col 8) as Hm.
    destruct (8 - Nat.modulo col 8)%nat as [|k] eqn:Ek; [lia|]. apply te_tab, IH.
  - destruct ((c =? 10) || (c =? 13)); apply te_same, IH.
Qed.

(* tab and space are skipped by pyparsing and are not word characters *)
Lemma gen_tab_space_ws : is_pp_ws 9 = true /\ is_pp_ws 32 = true.
Proof. vm_compute. split; reflexivity. Qed.

Lemma all_ws_spaces k : all_ws (repeatN 32 k) = true.
Proof. induction k as [|k IH]; cbn; [reflexivity|]. rewrite (proj2 gen_tab_space_ws). exact IH. Qed.

Lemma tabeq_nil_l s' : tabeq [] s' -> s' = [].
Proof. inversion 1. reflexivity. Qed.
Lemma tabeq_nil_r s : tabeq s [] -> s = [].
Proof. inversion 1; try reflexivity; discriminate. Qed.

Lemma skip_ws_tabeq s s' : tabeq s s' -> tabeq (skip_ws s) (skip_ws s').
Proof.
  induction 1 as [|c s s' H IH|k s s' H IH].
  - constructor.
  - cbn [skip_ws]. destruct (is_pp_ws c); [exact IH|apply te_same, H].
  - cbn [skip_ws]. rewrite (proj1 gen_tab_space_ws).
    rewrite (skip_ws_app (repeatN 32 (S k)) s' (all_ws_spaces (S k))). exact IH.
Qed.

(* results of two runs of an element on tab-equivalent texts *)
Definition tr_eq (a b : tokres) : Prop :=
  match a, b with
  | Some (t, r), Some (t', r') => t = t' /\ tabeq r r'
  | None, None => True
  | _, _ => False
  end.

Definition or_eq (a b : option str) : Prop :=
  match a, b with
  | Some r, Some r' => tabeq r r'
  | None, None => True
  | _, _ => False
  end.

Lemma drop_prefix_tabeq l : forallb (fun c => cmem c atom_cs) l = true ->
  forall s s', tabeq s s' -> or_eq (drop_prefix l s) (drop_prefix l s').
Proof.
  induction l as [|x l IH]; intros Hl s s' H; [exact H|].
  cbn [forallb] in Hl. apply andb_true_iff in Hl. destruct Hl as [Hx Hl].
  assert (X9 : x =? 9 = false).
  { destruct (x =? 9) eqn:E; [|reflexivity]. apply N.eqb_eq in E. subst.
    rewrite (ws_not_word 9 (proj1 gen_tab_space_ws)) in Hx. discriminate. }
  assert (X32 : x =? 32 = false).
  { destruct (x =? 32) eqn:E; [|reflexivity]. apply N.eqb_eq in E. subst.
    rewrite (ws_not_word 32 (proj2 gen_tab_space_ws)) in Hx. discriminate. }
  destruct H as [|c s s' H|k s s' H]; cbn [drop_prefix repeatN app].
  - exact I.
  - destruct (x =? c); [apply IH; assumption|exact I].
  - rewrite X9, X32. exact I.
Qed.

Lemma p_lit_tabeq l s s' : lit_wf l = true -> tabeq s s' -> or_eq (p_lit l s) (p_lit l s').
Proof.
  intros Hl H. unfold p_lit. apply drop_prefix_tabeq; [|apply skip_ws_tabeq, H].
  unfold lit_wf in Hl. apply andb_true_iff in Hl. tauto.
Qed.

Lemma first_lit_tabeq ls s s' :
  (forall l, In l ls -> lit_wf l = true) -> tabeq s s' ->
  match first_lit ls s, first_lit ls s' with
  | Some (l, r), Some (l', r') => l = l' /\ tabeq r r'
  | None, None => True
  | _, _ => False
  end.
Proof.
  intros Hls H. induction ls as [|l ls IH]; cbn [first_lit]; [exact I|].
  pose proof (p_lit_tabeq l s s' (Hls l (in_eq _ _)) H) as P. unfold or_eq in P.
  destruct (p_lit l s), (p_lit l s'); try contradiction; [split; [reflexivity|exact P]|].
  apply IH. intros m Hm. apply Hls. right. exact Hm.
Qed.

Lemma run_tabeq s s' : tabeq s s' ->
  run_len atom_cs s None = run_len atom_cs s' None /\
  firstn (run_len atom_cs s None) s = firstn (run_len atom_cs s None) s' /\
  tabeq (skipn (run_len atom_cs s None) s) (skipn (run_len atom_cs s None) s').
Proof.
  induction 1 as [|c s s' H IH|k s s' H IH].
  - repeat split; constructor.
  - cbn [run_len option_map]. destruct (cmem c atom_cs).
    + destruct IH as [E [F T]]. cbn [firstn skipn]. rewrite <- E, F. repeat split; assumption.
    + repeat split. cbn [skipn]. apply te_same, H.
  - cbn [run_len option_map repeatN app].
    rewrite (ws_not_word 9 (proj1 gen_tab_space_ws)), (ws_not_word 32 (proj2 gen_tab_space_ws)).
    repeat split. cbn [skipn]. apply (te_tab k), H.
Qed.

Lemma p_regex_tabeq s s' : tabeq s s' -> tr_eq (p_regex s) (p_regex s').
Proof.
  intros H. apply skip_ws_tabeq in H. unfold p_regex, atom_re. rewrite !re_match_rep.
  destruct (run_tabeq _ _ H) as [E [F T]]. rewrite <- E.
  destruct (Nat.ltb (run_len atom_cs (skip_ws s) None) atom_min); [exact I|].
  unfold tr_eq, btake, bskip. rewrite Nat2N.id. split; [rewrite F; reflexivity|exact T].
Qed.

Lemma stop_lits_wf l : In l atom_stop_lits -> lit_wf l = true.
Proof. intros H. apply lit_wf_all, stop_in_all, H. Qed.

Lemma p_atom_tabeq s s' : tabeq s s' -> tr_eq (p_atom s) (p_atom s').
Proof.
  intros H. unfold p_atom. pose proof (first_lit_tabeq atom_stop_lits s s' stop_lits_wf H) as P.
  destruct (first_lit atom_stop_lits s) as [[l r]|], (first_lit atom_stop_lits s') as [[l' r']|];
    try contradiction; [exact I|]. apply p_regex_tabeq, H.
Qed.

Definition respects (p : str -> tokres) : Prop := forall s s', tabeq s s' -> tr_eq (p s) (p s').

Lemma then_respects p q : respects p -> respects q -> respects (then_ p q).
Proof.
  intros Hp Hq s s' H. unfold then_. specialize (Hp s s' H). unfold tr_eq in Hp.
  destruct (p s) as [[t1 r1]|], (p s') as [[t1' r1']|]; try contradiction; [|exact I].
  destruct Hp as [-> Hr]. specialize (Hq r1 r1' Hr). unfold tr_eq in Hq.
  destruct (q r1) as [[t2 r2]|], (q r1') as [[t2' r2']|]; try contradiction; [|exact I].
  destruct Hq as [-> Hr2]. split; [reflexivity|exact Hr2].
Qed.

Lemma p_lit_tok_respects l : lit_wf l = true -> respects (p_lit_tok l).
Proof.
  intros Hl s s' H. unfold p_lit_tok. pose proof (p_lit_tabeq l s s' Hl H) as P. unfold or_eq in P.
  destruct (p_lit l s), (p_lit l s'); try contradiction; [split; [reflexivity|exact P]|exact I].
Qed.

Lemma p_first_respects ls : (forall l, In l ls -> lit_wf l = true) -> respects (p_first ls).
Proof.
  intros Hls s s' H. unfold p_first. pose proof (first_lit_tabeq ls s s' Hls H) as P.
  destruct (first_lit ls s) as [[l r]|], (first_lit ls s') as [[l' r']|]; try contradiction; [|exact I].
  destruct P as [-> P]. split; [reflexivity|exact P].
Qed.

Lemma p_times_respects n p : respects p -> respects (p_times n p).
Proof.
  intros Hp. induction n as [|n IH]; cbn [p_times].
  - intros s s' H. split; [reflexivity|exact H].
  - apply then_respects; assumption.
Qed.

Lemma many_respects p : consuming p -> respects p ->
  forall f f' s s', (length s <= f)%nat -> (length s' <= f')%nat -> tabeq s s' ->
  fst (many f p s) = fst (many f' p s') /\ tabeq (snd (many f p s)) (snd (many f' p s')).
Proof.
  intros Hc Hp. induction f as [|f IH]; intros f' s s' L L' H.
  - destruct s; [|cbn in L; lia]. apply tabeq_nil_l in H. subst s'.
    destruct f'; cbn [many]; [split; [reflexivity|constructor]|].
    destruct (p []) as [[t r]|] eqn:E; [apply Hc in E; cbn in E; lia|]. split; [reflexivity|constructor].
  - destruct f' as [|f'].
    { destruct s'; [|cbn in L'; lia]. apply tabeq_nil_r in H. subst s. cbn [many].
      destruct (p []) as [[t r]|] eqn:E; [apply Hc in E; cbn in E; lia|]. split; [reflexivity|constructor]. }
    cbn [many]. specialize (Hp s s' H). unfold tr_eq in Hp.
    destruct (p s) as [[t r]|] eqn:E, (p s') as [[t' r']|] eqn:E'; try contradiction;
      [|split; [reflexivity|exact H]].
    destruct Hp as [-> Hr]. apply Hc in E. apply Hc in E'.
    assert (L1 : (length r <= f)%nat) by lia. assert (L2 : (length r' <= f')%nat) by lia.
    specialize (IH f' r r' L1 L2 Hr).
    destruct (many f p r) as [t1 r1], (many f' p r') as [t2 r2]. cbn [fst snd] in *.
    destruct IH as [-> T]. split; [reflexivity|exact T].
Qed.

Lemma one_or_more_respects p : consuming p -> respects p -> respects (one_or_more p).
Proof.
  intros Hc Hp s s' H. unfold one_or_more. pose proof (Hp s s' H) as P. unfold tr_eq in P.
  destruct (p s) as [[t r]|], (p s') as [[t' r']|]; try contradiction; [|exact I].
  destruct P as [-> Hr].
  pose proof (many_respects p Hc Hp (S (length r)) (S (length r')) r r' (Nat.le_succ_diag_r _) (Nat.le_succ_diag_r _) Hr) as M.
  destruct (many (S (length r)) p r) as [t1 r1], (many (S (length r')) p r') as [t2 r2]. cbn [fst snd] in M.
  destruct M as [-> T]. split; [reflexivity|exact T].
Qed.

Lemma p_or_item_respects : respects p_or_item.
Proof. apply then_respects; [apply p_lit_tok_respects, lit_wf_or|exact p_atom_tabeq]. Qed.

Lemma parse_alt_respects a : respects (parse_alt a).
Proof.
  destruct a; cbn [parse_alt].
  - intros s s' H. unfold p_disj.
    pose proof (one_or_more_respects p_or_item p_or_item_consuming p_or_item_respects s s' H) as P.
    unfold tr_eq in P.
    destruct (one_or_more p_or_item s) as [[t r]|], (one_or_more p_or_item s') as [[t' r']|]; try contradiction; [|exact I].
    destruct P as [-> T]. split; [reflexivity|exact T].
  - apply then_respects; [apply p_lit_tok_respects, lit_wf_all, all_in_in_all|].
    apply one_or_more_respects; [exact p_atom_consuming|exact p_atom_tabeq].
  - apply then_respects; [apply p_lit_tok_respects, lit_wf_all, range_in_all|].
    apply p_times_respects. exact p_atom_tabeq.
  - apply then_respects; [|exact p_atom_tabeq].
    apply p_first_respects. intros l Hl. apply lit_wf_all, unary_in_all, Hl.
  - exact p_atom_tabeq.
Qed.

Lemma parse_tabeq s s' : tabeq s s' -> parse s = parse s'.
Proof.
  intros H. unfold parse. generalize expr_alts. intros alts.
  induction alts as [|a alts IH]; cbn [first_alt]; [reflexivity|].
  pose proof (parse_alt_respects a s s' H) as P. unfold tr_eq in P.
  destruct (parse_alt a s) as [[t r]|], (parse_alt a s') as [[t' r']|]; try contradiction; [|exact IH].
  destruct P as [-> _]. reflexivity.
Qed.

(* parseString's tab expansion never changes the token list *)
Theorem parse_string_eq spec : parse_string spec = parse spec.
Proof. unfold parse_string, expandtabs. symmetry. apply parse_tabeq, tabeq_expand. Qed.

(* ================================================================ Part 4 *)

Lemma lookup_doc op mt : In (op, mt) documented -> lookup op op_methods = Some mt.
Proof.
  intros H. pose proof (forallb_In _ _ _ gen_table_documented H) as H1. cbn [fst snd] in H1.
  destruct (lookup op op_methods) as [m'|]; [|discriminate]. apply meth_eqb_eq in H1. congruence.
Qed.

Lemma doc_unary op mt : In (op, mt) documented -> is_unary_meth mt = true -> In op unary_lits.
Proof.
  intros H Hu. pose proof (forallb_In _ _ _ gen_grammar_documented H) as H1. cbn [fst snd] in H1.
  apply mem_str_In. destruct mt; try discriminate; exact H1.
Qed.

Lemma gen_nary_methods :
  forallb (fun l => match lookup l op_methods with Some mt => negb (is_unary_meth mt) | None => false end)
          [disj_head; all_in_lit; range_in_lit] = true.
Proof. vm_compute. reflexivity. Qed.

(* the dispatch of match is total: a one-token tree is compared as a string; otherwise the head
   is a key of op_methods and the number of arguments fits the method (no KeyError, no
   IndexError, no TypeError from a wrong argument count) *)
Theorem dispatch_total spec :
  (exists a, tree_of spec = [a]) \/
  (exists op a mt, tree_of spec = [op; a] /\ lookup op op_methods = Some mt /\ is_unary_meth mt = true) \/
  (exists op a l mt, tree_of spec = op :: a :: l /\ lookup op op_methods = Some mt /\ is_unary_meth mt = false).
Proof.
  unfold tree_of. rewrite parse_string_eq. destruct (parse spec) as [t|] eqn:E; [|left; eexists; reflexivity].
  apply parse_shape in E. destruct E as [a|op a Hop|a l|a l|l Hl].
  - left. eexists; reflexivity.
  - right. left. pose proof (forallb_In _ _ _ gen_unary_methods Hop) as H. cbv beta in H.
    destruct (lookup op op_methods) as [mt|] eqn:E; [|discriminate]. exists op, a, mt. auto.
  - right. right. pose proof (forallb_In _ _ disj_head gen_nary_methods) as H. cbv beta in H.
    destruct (lookup disj_head op_methods) as [mt|] eqn:E; [|discriminate H; cbn; auto].
    exists disj_head, a, l, mt. repeat split; auto. specialize (H (or_introl eq_refl)).
    destruct (is_unary_meth mt); [discriminate|reflexivity].
  - right. right. pose proof (forallb_In _ _ all_in_lit gen_nary_methods) as H. cbv beta in H.
    destruct (lookup all_in_lit op_methods) as [mt|] eqn:E; [|discriminate H; cbn; auto].
    exists all_in_lit, a, l, mt. repeat split; auto. specialize (H (or_intror (or_introl eq_refl))).
    destruct (is_unary_meth mt); [discriminate|reflexivity].
  - right. right. pose proof (forallb_In _ _ range_in_lit gen_nary_methods) as H. cbv beta in H.
    destruct (lookup range_in_lit op_methods) as [mt|] eqn:E; [|discriminate H; cbn; auto].
    rewrite gen_range_arity in Hl. destruct l as [|a l]; [discriminate|].
    exists range_in_lit, a, l, mt. repeat split; auto.
    specialize (H (or_intror (or_intror (or_introl eq_refl)))).
    destruct (is_unary_meth mt); [discriminate|reflexivity].
Qed.

(* ---------- the documented meanings, written without the generated tables ---------- *)

(* numeric operators: both sides through float(); a side that is not a number is a ValueError *)
Definition num_meaning (c : cmp) (v a : str) : outcome :=
  match py_float_of_str v, py_float_of_str a with
  | Some x, Some y => Val (fcmp c x y)
  | _, _ => Raise E_Value
  end.

(* <all-in>: the value must evaluate to a list; every word must be one of its (string) elements *)
Definition all_in_meaning (r : levres) (atoms : list str) : outcome :=
  match r with
  | LRaise e => Raise e
  | LVal (PList xs) => Val (forallb (fun a => existsb (pyval_is_str a) xs) atoms)
  | LVal _ => Raise E_Type
  end.

(* <range-in> LB lo hi RB *)
Definition range_meaning (r : levres) (lb lo hi rb : str) : outcome :=
  match r with
  | LRaise e => Raise e
  | LVal pv =>
    match float_of_pyval pv with
    | inr e => Raise e
    | inl x =>
      match py_float_of_str lo with
      | None => Raise E_Value
      | Some y =>
        match py_float_of_str hi with
        | None => Raise E_Value
        | Some z =>
          if f_gtb y z then Raise E_Type
          else Val ((if beq lb (lit "[") then f_geb x y else f_gtb x y)
                    && (if beq rb (lit "]") then f_leb x z else f_ltb x z))
        end
      end
    end
  end.

Lemma operator_spelling :
  all_in_lit = lit "<all-in>" /\ or_lit = lit "<or>" /\ range_in_lit = lit "<range-in>".
Proof. repeat split. Qed.

Lemma bracket_atoms :
  atom_ok (lit "[") = true /\ atom_ok (lit "(") = true /\ atom_ok (lit "]") = true /\ atom_ok (lit ")") = true.
Proof. vm_compute. repeat split. Qed.

Section Match.
Variable lev : str -> levres.

Lemma match_of_parse v spec op a l mt :
  parse spec = Some (op :: a :: l) -> lookup op op_methods = Some mt ->
  match_ lev v spec = apply_meth lev mt v (a :: l).
Proof. unfold match_, tree_of. rewrite parse_string_eq. intros -> ->. reflexivity. Qed.

Lemma match_single v spec a : parse spec = Some [a] -> match_ lev v spec = Val (beq a v).
Proof. unfold match_, tree_of. rewrite parse_string_eq. intros ->. reflexivity. Qed.

Lemma match_unparsed v spec : parse spec = None -> match_ lev v spec = Val (beq spec v).
Proof. unfold match_, tree_of. rewrite parse_string_eq. intros ->. reflexivity. Qed.

Theorem match_numeric op c v ws w a rest :
  In (op, MNum c) documented ->
  all_ws ws = true -> all_ws w = true -> atom_ok a = true -> stops rest = true -> clean_join op w a = true ->
  match_ lev v (ws ++ op ++ w ++ a ++ rest) = num_meaning c v a.
Proof.
  intros Hd Hws Hw Ha Hr Hj.
  rewrite (match_of_parse v _ op a [] (MNum c)).
  - cbn [apply_meth]. unfold num_op, num_meaning.
    destruct (py_float_of_str v); destruct (py_float_of_str a); reflexivity.
  - apply parse_op_atom; auto. apply (doc_unary op (MNum c) Hd). reflexivity.
  - apply lookup_doc, Hd.
Qed.

Theorem match_string op c v ws w a rest :
  In (op, MStr c) documented ->
  all_ws ws = true -> all_ws w = true -> atom_ok a = true -> stops rest = true -> clean_join op w a = true ->
  match_ lev v (ws ++ op ++ w ++ a ++ rest) = Val (scmp c v a).
Proof.
  intros Hd Hws Hw Ha Hr Hj.
  rewrite (match_of_parse v _ op a [] (MStr c)).
  - reflexivity.
  - apply parse_op_atom; auto. apply (doc_unary op (MStr c) Hd). reflexivity.
  - apply lookup_doc, Hd.
Qed.

Theorem match_in v ws w a rest :
  all_ws ws = true -> all_ws w = true -> atom_ok a = true -> stops rest = true ->
  clean_join (lit "<in>") w a = true ->
  match_ lev v (ws ++ lit "<in>" ++ w ++ a ++ rest) = Val (occursb a v).
Proof.
  intros Hws Hw Ha Hr Hj.
  assert (Hd : In (lit "<in>", MIn) documented) by (cbn; tauto).
  rewrite (match_of_parse v _ (lit "<in>") a [] MIn).
  - reflexivity.
  - apply parse_op_atom; auto. apply (doc_unary _ MIn Hd). reflexivity.
  - apply lookup_doc, Hd.
Qed.

Theorem match_or v ws w a items rest :
  all_ws ws = true -> all_ws w = true -> atom_ok a = true -> clean_join or_lit w a = true ->
  forallb oitem_ok items = true -> ends_disj rest = true ->
  match_ lev v (ws ++ or_lit ++ w ++ a ++ flat_map oseg items ++ rest)
  = Val (existsb (fun x => beq v x) (a :: map snd items)).
Proof.
  intros Hws Hw Ha Hj Hi He.
  rewrite (match_of_parse v _ or_lit a (map snd items) MOr).
  - reflexivity.
  - apply parse_or; auto.
  - apply (lookup_doc (lit "<or>") MOr). cbn; tauto.
Qed.

Theorem match_all_in v ws w a items rest :
  all_ws ws = true -> all_ws w = true -> atom_ok a = true -> clean_join all_in_lit w a = true ->
  forallb item_ok items = true -> ends_atoms rest = true ->
  match_ lev v (ws ++ all_in_lit ++ w ++ a ++ flat_map seg items ++ rest)
  = all_in_meaning (lev v) (a :: map snd items).
Proof.
  intros Hws Hw Ha Hj Hi He.
  rewrite (match_of_parse v _ all_in_lit a (map snd items) MAllIn).
  - reflexivity.
  - apply parse_all_in; auto.
  - apply (lookup_doc (lit "<all-in>") MAllIn). cbn; tauto.
Qed.

Theorem match_range_in v ws w1 lb w2 lo w3 hi w4 rb rest :
  In lb [lit "["; lit "("] -> In rb [lit "]"; lit ")"] ->
  all_ws ws = true -> all_ws w1 = true ->
  all_ws w2 = true -> w2 <> [] -> all_ws w3 = true -> w3 <> [] -> all_ws w4 = true -> w4 <> [] ->
  atom_ok lo = true -> atom_ok hi = true -> stops rest = true ->
  match_ lev v (ws ++ range_in_lit ++ w1 ++ lb ++ w2 ++ lo ++ w3 ++ hi ++ w4 ++ rb ++ rest)
  = range_meaning (lev v) lb lo hi rb.
Proof.
  intros Hlb Hrb Hws Hw1 Hw2 N2 Hw3 N3 Hw4 N4 Hlo Hhi Hr.
  destruct bracket_atoms as [B1 [B2 [B3 B4]]].
  assert (Alb : atom_ok lb = true) by (destruct Hlb as [<-|[<-|[]]]; assumption).
  assert (Arb : atom_ok rb = true) by (destruct Hrb as [<-|[<-|[]]]; assumption).
  assert (Hj : clean_join range_in_lit w1 lb = true).
  { destruct w1; [|reflexivity]. destruct Hlb as [<-|[<-|[]]]; vm_compute; reflexivity. }
  rewrite (match_of_parse v _ range_in_lit lb [lo; hi; rb] MRangeIn).
  - cbn [apply_meth]. unfold range_in, range_meaning.
    destruct (lev v) as [pv|e]; [|reflexivity].
    replace (negb (Nat.eqb (length [lb; lo; hi; rb]) range_nargs)) with false by reflexivity.
    destruct (float_of_pyval pv) as [x|e]; [|reflexivity].
    unfold range_iy, range_iz, range_il, range_iu. cbn [nth].
    destruct (py_float_of_str lo) as [y|]; [|reflexivity].
    destruct (py_float_of_str hi) as [z|]; [|reflexivity].
    unfold range_guard. cbn [fcmp]. destruct (f_gtb y z); [reflexivity|].
    destruct Hlb as [<-|[<-|[]]]; destruct Hrb as [<-|[<-|[]]]; reflexivity.
  - apply parse_range_in; auto.
  - apply (lookup_doc (lit "<range-in>") MRangeIn). cbn; tauto.
Qed.

(* no operator: the FIRST word is compared with the value as a string; whatever follows the
   word (after a character that ends it) is ignored (observation O5: match('abc','abc def')) *)
Theorem no_operator_is_equality v ws a rest :
  all_ws ws = true -> atom_ok a = true -> stops rest = true ->
  match_ lev v (ws ++ a ++ rest) = Val (beq a v).
Proof. intros Hws Ha Hr. apply match_single, parse_word; assumption. Qed.

(* a spec the grammar rejects is compared as a whole *)
Theorem unparsable_is_equality v spec :
  parse spec = None -> match_ lev v spec = Val (beq spec v).
Proof. apply match_unparsed. Qed.

(* and in general: a result is a string comparison exactly when the tree has one token *)
Theorem single_token_equality v spec a :
  tree_of spec = [a] -> match_ lev v spec = Val (beq a v).
Proof. unfold match_. intros ->. reflexivity. Qed.
End Match.

(* ================================================================ comparison facts *)

Lemma str_cmp_refl a : str_cmp a a = Eq.
Proof. induction a as [|x a IH]; cbn; [reflexivity|]. rewrite N.compare_refl. exact IH. Qed.

Lemma str_cmp_eq a b : str_cmp a b = Eq <-> a = b.
Proof.
  split; [|intros ->; apply str_cmp_refl].
  revert b. induction a as [|x a IH]; intros [|y b]; cbn; try discriminate; [reflexivity|].
  destruct (x ?= y) eqn:E; try discriminate. apply N.compare_eq in E. subst. intros H. f_equal. auto.
Qed.

Lemma str_cmp_antisym a b : str_cmp b a = CompOpp (str_cmp a b).
Proof.
  revert b. induction a as [|x a IH]; intros [|y b]; cbn; try reflexivity.
  rewrite (N.compare_antisym x y). destruct (x ?= y); cbn; auto.
Qed.

Lemma str_cmp_beq a b : beq a b = match str_cmp a b with Eq => true | _ => false end.
Proof.
  destruct (str_cmp a b) eqn:E.
  - apply str_cmp_eq in E. subst. apply beq_refl.
  - destruct (beq a b) eqn:B; [|reflexivity]. apply beq_eq in B. subst. rewrite str_cmp_refl in E. discriminate.
  - destruct (beq a b) eqn:B; [|reflexivity]. apply beq_eq in B. subst. rewrite str_cmp_refl in E. discriminate.
Qed.

(* the six string operators are the six order relations of ONE total order:
   s== is equality, s!= its negation, s<= is "s< or s==", s>= is "s> or s==",
   s> is s< with the sides swapped, and s< is the negation of s>= *)
Theorem string_ops_table a b :
  scmp CEq a b = beq a b /\ scmp CNe a b = negb (beq a b) /\
  scmp CLe a b = scmp CLt a b || beq a b /\ scmp CGe a b = scmp CGt a b || beq a b /\
  scmp CGt a b = scmp CLt b a /\ scmp CLt a b = negb (scmp CGe a b).
Proof.
  unfold scmp. rewrite (str_cmp_antisym a b), (str_cmp_beq a b).
  destruct (str_cmp a b); cbn; repeat split.
Qed.

(* s< is the lexicographic order on code points: a proper prefix, or a smaller code point at
   the first difference *)
Theorem string_lt_lexicographic a b :
  scmp CLt a b = true <->
  (exists c t, b = a ++ c :: t) \/
  (exists p x y a' b', a = p ++ x :: a' /\ b = p ++ y :: b' /\ x < y).
Proof.
  unfold scmp. split.
  - revert b. induction a as [|x a IH]; intros [|y b]; cbn; try discriminate.
    + intros _. left. exists y, b. reflexivity.
    + destruct (x ?= y) eqn:E.
      * apply N.compare_eq in E. subst y. intros H. destruct (IH b H) as [[c [t ->]]|[p [x0 [y0 [a' [b' [-> [-> L]]]]]]]].
        -- left. exists c, t. reflexivity.
        -- right. exists (x :: p), x0, y0, a', b'. auto.
      * intros _. right. exists [], x, y, a, b. repeat split. apply N.compare_lt_iff, E.
      * discriminate.
  - intros [[c [t ->]]|[p [x [y [a' [b' [-> [-> L]]]]]]]].
    + induction a as [|x a IH]; cbn; [reflexivity|]. rewrite N.compare_refl. exact IH.
    + induction p as [|z p IH]; cbn.
      * apply N.compare_lt_iff in L. rewrite L. reflexivity.
      * rewrite N.compare_refl. exact IH.
Qed.

(* <in>: substring *)
Theorem occursb_spec y x : occursb y x = true <-> exists p q, x = p ++ y ++ q.
Proof.
  split.
  - induction x as [|c x IH]; cbn [occursb]; intros H.
    + apply orb_true_iff in H. destruct H as [H|H]; [|discriminate].
      apply prefixb_spec in H. destruct H as [t ->]. exists [], t. reflexivity.
    + apply orb_true_iff in H. destruct H as [H|H].
      * apply prefixb_spec in H. destruct H as [t ->]. exists [], t. reflexivity.
      * destruct (IH H) as [p [q ->]]. exists (c :: p), q. reflexivity.
  - intros [p [q ->]]. induction p as [|c p IH].
    + cbn [app]. destruct (y ++ q) eqn:E; cbn [occursb]; rewrite <- E, prefixb_app; reflexivity.
    + cbn [app occursb]. rewrite IH. apply orb_true_r.
Qed.

(* <or>: equal to one of the alternatives *)
Theorem or_spec v alts : existsb (fun x => beq v x) alts = true <-> In v alts.
Proof.
  rewrite existsb_exists. split.
  - intros [x [Hin Hx]]. apply beq_eq in Hx. subst. exact Hin.
  - intros H. exists v. split; [exact H|apply beq_refl].
Qed.

(* <all-in>: every word is a string element of the list *)
Theorem all_in_spec xs atoms :
  forallb (fun a => existsb (pyval_is_str a) xs) atoms = true <-> (forall a, In a atoms -> In (PStr a) xs).
Proof.
  rewrite forallb_forall. split; intros H a Ha; specialize (H a Ha).
  - rewrite existsb_exists in H. destruct H as [x [Hin Hx]]. destruct x; cbn in Hx; try discriminate.
    apply beq_eq in Hx. subst. exact Hin.
  - rewrite existsb_exists. exists (PStr a). split; [exact H|apply beq_refl].
Qed.

(* '=' means '>=' *)
Theorem legacy_eq_is_ge :
  lookup (lit "=") op_methods = Some (MNum CGe) /\ lookup (lit ">=") op_methods = Some (MNum CGe).
Proof. split; reflexivity. Qed.

(* ================================================================ readable tails *)

Lemma stops_ws w : all_ws w = true -> stops w = true.
Proof.
  destruct w as [|c w]; [reflexivity|]. intros H. rewrite <- (app_nil_r (c :: w)).
  apply stops_ws_head; [exact H|discriminate].
Qed.

(* trailing whitespace ends both kinds of list *)
Lemma ends_atoms_ws w : all_ws w = true -> ends_atoms w = true.
Proof. intros H. unfold ends_atoms. rewrite (stops_ws w H), (p_atom_ws w H). reflexivity. Qed.

Lemma ends_disj_ws w : all_ws w = true -> ends_disj w = true.
Proof.
  intros H. unfold ends_disj. rewrite (stops_ws w H).
  unfold p_or_item, then_, p_lit_tok, p_lit. rewrite (skip_ws_all w H).
  destruct (lit_wf_cons or_lit lit_wf_or) as [c [l' [-> _]]]. reflexivity.
Qed.

(* whitespace and then any operator ends a list of atoms *)
Lemma ends_atoms_op w op t : all_ws w = true -> w <> [] -> In op all_lits -> ends_atoms (w ++ op ++ t) = true.
Proof.
  intros Hw Hne Hop. unfold ends_atoms. rewrite (stops_ws_head w _ Hw Hne), (p_atom_at_op op w t Hop Hw). reflexivity.
Qed.

(* whitespace and then a word that is not an operator ends a disjunction *)
Lemma ends_disj_word w a rest :
  all_ws w = true -> w <> [] -> atom_ok a = true -> stops rest = true -> ends_disj (w ++ a ++ rest) = true.
Proof.
  intros Hw Hne Ha Hr. unfold ends_disj. rewrite (stops_ws_head w _ Hw Hne).
  unfold p_or_item, then_, p_lit_tok. rewrite (no_lit_at_word or_lit w a rest or_in_all Hw Ha Hr). reflexivity.
Qed.

(* ================================================================ instances (non-vacuity) *)

Definition no_lev : str -> levres := fun _ => LRaise (lit "ValueError").

(* the hypotheses of parse_op_atom / match_numeric hold for " = 5 x" read as ws="  ", op="=", w=" ", a="5", rest=" x" *)
Example ex_op_atom_hyps :
  In (lit "=", MNum CGe) documented /\ In (lit "=") unary_lits /\ all_ws (lit "  ") = true /\ all_ws (lit " ") = true /\
  atom_ok (lit "5") = true /\ stops (lit " x") = true /\ clean_join (lit "=") (lit " ") (lit "5") = true /\
  clean_join (lit "=") [] (lit "5") = true.
Proof. vm_compute. repeat split; tauto. Qed.
Example ex_op_atom : parse (lit "  = 5 x") = Some [lit "="; lit "5"].
Proof. vm_compute. reflexivity. Qed.

(* longer operators win *)
Example ex_longer_1 : parse (lit "== 5") = Some [lit "=="; lit "5"]. Proof. vm_compute. reflexivity. Qed.
Example ex_longer_2 : parse (lit "<= 5") = Some [lit "<="; lit "5"]. Proof. vm_compute. reflexivity. Qed.
Example ex_longer_3 : parse (lit "s<= x") = Some [lit "s<="; lit "x"]. Proof. vm_compute. reflexivity. Qed.
Example ex_longer_4 : parse (lit "<in> x") = Some [lit "<in>"; lit "x"]. Proof. vm_compute. reflexivity. Qed.
Example ex_longer_5 : parse (lit "s>=x") = Some [lit "s>="; lit "x"]. Proof. vm_compute. reflexivity. Qed.
Example ex_longer_6 : parse (lit "<or> a <or> b") = Some [lit "<or>"; lit "a"; lit "b"]. Proof. vm_compute. reflexivity. Qed.
Example ex_longer_7 : parse (lit "<all-in> aes mmx") = Some [lit "<all-in>"; lit "aes"; lit "mmx"]. Proof. vm_compute. reflexivity. Qed.
Example ex_longer_8 : parse (lit "<range-in> ( 10 20 ]") = Some [lit "<range-in>"; lit "("; lit "10"; lit "20"; lit "]"].
Proof. vm_compute. reflexivity. Qed.

(* why clean_join is a hypothesis: gluing '<' and 'in>x' spells the operator '<in>' *)
Example ex_glue : clean_join (lit "<") [] (lit "in>x") = false /\ parse (lit "<in>x") = Some [lit "<in>"; lit "x"]
                  /\ parse (lit "< in>x") = Some [lit "<"; lit "in>x"].
Proof. vm_compute. repeat split. Qed.
(* why atom_ok is a hypothesis: '=5' starts with an operator *)
Example ex_not_atom : atom_ok (lit "=5") = false /\ parse (lit "= =5") = None.
Proof. vm_compute. repeat split. Qed.

(* hypotheses of parse_or / parse_all_in / parse_range_in *)
Example ex_or_hyps :
  oitem_ok (lit " ", lit " ", lit "b") = true /\ oitem_ok (lit "  ", [], lit "c") = true /\ ends_disj (lit " d") = true
  /\ ends_disj [] = true /\ clean_join or_lit [] (lit "a") = true.
Proof. vm_compute. repeat split. Qed.
Example ex_all_in_hyps :
  item_ok (lit " ", lit "mmx") = true /\ ends_atoms (lit "  ") = true /\ ends_atoms (lit " <or> x") = true /\ ends_atoms [] = true.
Proof. vm_compute. repeat split. Qed.

(* match on concrete inputs (the model is executable) *)
Example ex_match_1 : match_ no_lev (lit "61") (lit ">= 60") = Val true. Proof. vm_compute. reflexivity. Qed.
Example ex_match_2 : match_ no_lev (lit "60.0") (lit "= 6e1") = Val true. Proof. vm_compute. reflexivity. Qed.
Example ex_match_3 : match_ no_lev (lit "abc") (lit ">= 60") = Raise E_Value. Proof. vm_compute. reflexivity. Qed.
Example ex_match_4 : match_ no_lev (lit "2.1.0") (lit "s== 2.1.0") = Val true. Proof. vm_compute. reflexivity. Qed.
Example ex_match_5 : match_ no_lev (lit "x gcc y") (lit "<in> gcc") = Val true. Proof. vm_compute. reflexivity. Qed.
Example ex_match_6 : match_ no_lev (lit "eggs") (lit "<or> spam <or> eggs") = Val true. Proof. vm_compute. reflexivity. Qed.
Example ex_match_7 : match_ (fun _ => LVal (PInt 10)) (lit "10") (lit "<range-in> ( 10 20 ]") = Val false.
Proof. vm_compute. reflexivity. Qed.
Example ex_match_8 : match_ (fun _ => LVal (PInt 10)) (lit "10") (lit "<range-in> [ 10 20 ]") = Val true.
Proof. vm_compute. reflexivity. Qed.
Example ex_match_9 : match_ (fun _ => LVal (PList [PStr (lit "aes"); PStr (lit "mmx"); PStr (lit "sse")])) (lit "['aes', 'mmx', 'sse']")
                            (lit "<all-in> aes mmx") = Val true.
Proof. vm_compute. reflexivity. Qed.
(* O5 *)
Example ex_O5 : match_ no_lev (lit "abc") (lit "abc def") = Val true. Proof. vm_compute. reflexivity. Qed.
Example ex_unparsable : parse (lit "=== 5") = None /\ match_ no_lev (lit "=== 5") (lit "=== 5") = Val true.
Proof. vm_compute. split; reflexivity. Qed.
(* malformed range: fewer than four words after <range-in> falls to '<' + 'range-in>' *)
Example ex_range_fallback : parse (lit "<range-in> [10 20]") = Some [lit "<"; lit "range-in>"].
Proof. vm_compute. reflexivity. Qed.

(* ================================================================ the class \S and str.isspace *)

(* complement of a sorted list of ranges inside [lo, mx] *)
Fixpoint compl_from (lo : N) (rs : cset) (mx : N) : cset :=
  match rs with
  | [] => if lo <=? mx then [(lo, mx)] else []
  | (a, b) :: t => (if lo <? a then [(lo, a - 1)] else []) ++ compl_from (b + 1) t mx
  end.
Fixpoint sorted_from (lo : N) (rs : cset) : bool :=
  match rs with
  | [] => true
  | (a, b) :: t => (lo <=? a) && (a <=? b) && sorted_from (b + 1) t
  end.

Lemma cmem_cons c a b t : cmem c ((a, b) :: t) = ((a <=? c) && (c <=? b)) || cmem c t.
Proof. reflexivity. Qed.

Lemma cmem_app c x y : cmem c (x ++ y) = cmem c x || cmem c y.
Proof.
  induction x as [|[a b] x IH]; [reflexivity|]. cbn [app]. rewrite !cmem_cons, IH. apply orb_assoc.
Qed.

Lemma sorted_cons lo a b t : sorted_from lo ((a, b) :: t) = true -> lo <= a /\ a <= b /\ sorted_from (b + 1) t = true.
Proof.
  cbn [sorted_from]. intros H. apply andb_true_iff in H. destruct H as [H Ht].
  apply andb_true_iff in H. destruct H as [H1 H2]. repeat split; [lia|lia|exact Ht].
Qed.

Lemma cmem_below rs : forall lo c, sorted_from lo rs = true -> c < lo -> cmem c rs = false.
Proof.
  induction rs as [|[a b] t IH]; intros lo c Hs Hc; [reflexivity|].
  apply sorted_cons in Hs. destruct Hs as [H1 [H2 Ht]].
  rewrite cmem_cons, (IH (b + 1) c Ht) by lia.
  replace (a <=? c) with false by lia. reflexivity.
Qed.

Lemma compl_below rs : forall lo mx c, sorted_from lo rs = true -> c < lo -> cmem c (compl_from lo rs mx) = false.
Proof.
  induction rs as [|[a b] t IH]; intros lo mx c Hs Hc; cbn [compl_from].
  - destruct (lo <=? mx); [|reflexivity]. rewrite cmem_cons. replace (lo <=? c) with false by lia. reflexivity.
  - apply sorted_cons in Hs. destruct Hs as [H1 [H2 Ht]].
    rewrite cmem_app, (IH (b + 1) mx c Ht) by lia.
    destruct (lo <? a); [|reflexivity]. rewrite cmem_cons. replace (lo <=? c) with false by lia. reflexivity.
Qed.

Lemma compl_from_spec rs : forall lo mx c,
  sorted_from lo rs = true -> lo <= c -> c <= mx -> cmem c (compl_from lo rs mx) = negb (cmem c rs).
Proof.
  induction rs as [|[a b] t IH]; intros lo mx c Hs L U; cbn [compl_from].
  - replace (lo <=? mx) with true by lia. rewrite cmem_cons.
    replace (lo <=? c) with true by lia. replace (c <=? mx) with true by lia. reflexivity.
  - apply sorted_cons in Hs. destruct Hs as [H1 [H2 Ht]]. rewrite cmem_app, cmem_cons.
    destruct (N.lt_ge_cases c a) as [Hca|Hca].
    + replace (lo <? a) with true by lia. rewrite cmem_cons.
      replace (lo <=? c) with true by lia. replace (c <=? a - 1) with true by lia.
      replace (a <=? c) with false by lia. rewrite (cmem_below t (b + 1) c Ht) by lia. reflexivity.
    + destruct (lo <? a) eqn:E.
      2: change (cmem c []) with false.
      1: rewrite cmem_cons; replace (c <=? a - 1) with false by lia; rewrite andb_false_r.
      all: cbn [orb]; replace (a <=? c) with true by lia; cbn [andb].
      all: destruct (N.le_gt_cases c b) as [Hcb|Hcb].
      all: try (replace (c <=? b) with true by lia; cbn [orb negb]; apply compl_below; [exact Ht|lia]).
      all: replace (c <=? b) with false by lia; cbn [orb]; apply IH; [exact Ht|lia|exact U].
Qed.

(* the generated class of Regex(r"\S+") is exactly the complement, within the code point
   range, of the interpreter's str.isspace() table (Gen/Unicode.v): a word is a run of
   non-whitespace characters in Python's sense *)
Lemma gen_atom_cs_compl : atom_cs = compl_from 0 py_space 1114111 /\ sorted_from 0 py_space = true.
Proof. vm_compute. split; reflexivity. Qed.

Theorem atom_class_is_nonspace c : c <= 1114111 -> cmem c atom_cs = negb (is_space c).
Proof.
  intros H. destruct gen_atom_cs_compl as [-> Hs]. unfold is_space.
  apply compl_from_spec; [exact Hs|lia|exact H].
Qed.

(* and the characters pyparsing skips are whitespace in that sense *)
Theorem skipped_are_space c : is_pp_ws c = true -> is_space c = true.
Proof.
  intros H. assert (Hin : In c pp_white).
  { unfold is_pp_ws in H. revert H. generalize pp_white. induction l as [|x l IH]; cbn; [discriminate|].
    intros H. apply orb_true_iff in H. destruct H as [H|H]; [left; apply N.eqb_eq; exact H|right; auto]. }
  assert (G : forallb is_space pp_white = true) by (vm_compute; reflexivity).
  exact (forallb_In _ _ _ G Hin).
Qed.
