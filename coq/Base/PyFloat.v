(* Base/PyFloat.v — CPython binary64 floats as an executable, axiom-free model.

   Values are the standard library's proof-free [SpecFloat.spec_float] (no
   Flocq, no PrimFloat, no reals), precision 53, emax 1024, round to nearest
   even.  Everything here is a definition (plus a few computed examples):

     py_float_of_str   float(str): correctly rounded decimal -> binary64 for the
                       grammar CPython accepts (Unicode digits and spaces,
                       sign, digits with optional '.', exponent, underscores
                       between digits, inf / infinity / nan, any case)
     float_of_Z        float(int)  (None = OverflowError)
     f_mul f_div f_add f_sub f_neg f_abs     (f_div: None = ZeroDivisionError)
     f_eqb f_ltb f_leb f_gtb f_geb f_neb     Python comparisons (NaN unordered)
     ceil_to_Z floor_to_Z trunc_to_Z         math.ceil / math.floor / int()
     f_is_integer      float.is_integer()
     float_hex         float.hex()
     float_fmt_f0      format(x, '.0f')
     f_of_ratio        correctly rounded quotient of two positive integers

   Validated bit-exactly against CPython 3.12 (tools/props/C10.py, op 'pf_*'). *)
From Coq Require Import String.
From Coq Require Import ZArith SpecFloat.
Require Import OV.Base.Bytes OV.Base.Py OV.Base.PyInt.
Open Scope Z_scope.

Definition float64 := spec_float.
Definition fprec : Z := 53.
Definition femax : Z := 1024.

Definition f_valid (x : float64) : bool := valid_binary fprec femax x.

Definition f_zero : float64 := S754_zero false.
Definition f_nan : float64 := S754_nan.
Definition f_inf (neg : bool) : float64 := S754_infinity neg.

(* correctly rounded (-1)^s * m * 2^e *)
Definition f_round (s : bool) (m : positive) (e : Z) : float64 := binary_round fprec femax s m e.
(* correctly rounded z * 2^e *)
Definition f_normalize (z e : Z) : float64 := binary_normalize fprec femax z e false.

(* correctly rounded n / d for positive integers of any size *)
Definition f_of_ratio (s : bool) (n d : positive) : float64 :=
  let '(q, e, l) := SFdiv_core_binary fprec femax (Zpos n) 0 (Zpos d) 0 in
  binary_round_aux fprec femax s q e l.

(* float(int): correctly rounded; OverflowError (None) when the rounded value is not finite *)
Definition float_of_Z (z : Z) : option float64 :=
  match f_normalize z 0 with
  | S754_infinity _ => None
  | x => Some x
  end.

Definition f_is_zero (x : float64) : bool := match x with S754_zero _ => true | _ => false end.
Definition f_is_nan (x : float64) : bool := match x with S754_nan => true | _ => false end.
Definition f_is_inf (x : float64) : bool := match x with S754_infinity _ => true | _ => false end.
Definition f_is_finite (x : float64) : bool :=
  match x with S754_zero _ | S754_finite _ _ _ => true | _ => false end.

Definition f_mul : float64 -> float64 -> float64 := SFmul fprec femax.
Definition f_add : float64 -> float64 -> float64 := SFadd fprec femax.
Definition f_sub : float64 -> float64 -> float64 := SFsub fprec femax.
Definition f_neg : float64 -> float64 := SFopp.
Definition f_abs : float64 -> float64 := SFabs.
(* x / y: ZeroDivisionError (None) whenever y is a zero *)
Definition f_div (x y : float64) : option float64 :=
  if f_is_zero y then None else Some (SFdiv fprec femax x y).

Definition f_eqb : float64 -> float64 -> bool := SFeqb.
Definition f_ltb : float64 -> float64 -> bool := SFltb.
Definition f_leb : float64 -> float64 -> bool := SFleb.
Definition f_gtb (x y : float64) : bool := SFltb y x.
Definition f_geb (x y : float64) : bool := SFleb y x.
Definition f_neb (x y : float64) : bool := negb (SFeqb x y).

(* the exact value of a finite float as a fraction num / 2^den_log2 *)
Definition f_pow2 (e : Z) : Z := Z.pow 2 e.

(* math.floor / math.ceil / int(): OverflowError for infinities, ValueError for NaN *)
Definition floor_to_Z (x : float64) : res Z :=
  match x with
  | S754_nan => Exn ValueError
  | S754_infinity _ => Exn OverflowError
  | S754_zero _ => Ok 0
  | S754_finite s m e =>
      let z := if s then Zneg m else Zpos m in
      Ok (if 0 <=? e then z * f_pow2 e else z / f_pow2 (- e))
  end.
Definition ceil_to_Z (x : float64) : res Z :=
  match x with
  | S754_nan => Exn ValueError
  | S754_infinity _ => Exn OverflowError
  | S754_zero _ => Ok 0
  | S754_finite s m e =>
      let z := if s then Zneg m else Zpos m in
      Ok (if 0 <=? e then z * f_pow2 e else - ((- z) / f_pow2 (- e)))
  end.
Definition trunc_to_Z (x : float64) : res Z :=
  match x with
  | S754_finite true _ _ => ceil_to_Z x
  | _ => floor_to_Z x
  end.

Definition f_is_integer (x : float64) : bool :=
  match x with
  | S754_zero _ => true
  | S754_finite _ m e => if 0 <=? e then true else (Zpos m) mod f_pow2 (- e) =? 0
  | _ => false
  end.

(* ---------- float(str) ---------- *)

Definition c_space (c : N) : bool := (((9 <=? c) && (c <=? 13)) || (c =? 32))%N.
Definition c_digit (c : N) : bool := ((48 <=? c) && (c <=? 57))%N.
Definition c_lower (c : N) : N := (if (65 <=? c) && (c <=? 90) then c + 32 else c)%N.

(* _PyUnicode_TransformDecimalAndSpaceToASCII: ASCII (< 127) is kept, other
   whitespace becomes ' ', other decimal digits become '0'..'9', anything else
   makes the text unparsable *)
Definition to_ascii1 (c : N) : option N :=
  if (c <? 127)%N then Some c
  else if is_space c then Some 32%N
  else match digit_val c with Some d => Some (48 + d)%N | None => None end.
Fixpoint to_ascii (s : str) : option str :=
  match s with
  | [] => Some []
  | c :: t => match to_ascii1 c with
              | None => None
              | Some a => option_map (cons a) (to_ascii t)
              end
  end.

(* _Py_string_to_number_with_underscores: an underscore must stand between two digits *)
Fixpoint strip_us (s : str) (prev : N) : option str :=
  match s with
  | [] => if (prev =? 95)%N then None else Some []
  | c :: t =>
      if (c =? 95)%N then (if c_digit prev then strip_us t c else None)
      else if (prev =? 95)%N && negb (c_digit c) then None
      else option_map (cons c) (strip_us t c)
  end.

Fixpoint c_lstrip (s : str) : str :=
  match s with c :: t => if c_space c then c_lstrip t else s | [] => [] end.
Definition c_strip (s : str) : str := rev (c_lstrip (rev (c_lstrip s))).

(* a run of ASCII digits: accumulated value, number of digits read, rest *)
Fixpoint digits_run (s : str) (acc : N) (cnt : Z) : N * Z * str :=
  match s with
  | c :: t => if c_digit c then digits_run t (acc * 10 + (c - 48))%N (cnt + 1) else (acc, cnt, s)
  | [] => (acc, cnt, [])
  end.

Definition is_nil {A} (l : list A) : bool := match l with [] => true | _ => false end.

(* optional exponent part; the whole rest must be consumed *)
Definition parse_exp (s : str) : option Z :=
  match s with
  | [] => Some 0
  | c :: t =>
      if ((c =? 101) || (c =? 69))%N then
        let '(neg, t') := match t with
                          | c2 :: r => if (c2 =? 43)%N then (false, r)
                                       else if (c2 =? 45)%N then (true, r) else (false, t)
                          | [] => (false, t)
                          end in
        let '(v, cnt, rest) := digits_run t' 0%N 0 in
        if (0 <? cnt) && is_nil rest then Some (if neg then - Z.of_N v else Z.of_N v) else None
      else None
  end.

(* (-1)^s * n * 10^E, correctly rounded; [cnt] is an upper bound on the number of
   decimal digits of n (n < 10^cnt).  The two cut-offs are far outside the
   binary64 range (max < 1.8e308, half the least subnormal > 2.4e-324). *)
Definition f_of_decimal (s : bool) (n : N) (cnt E : Z) : float64 :=
  match n with
  | N0 => S754_zero s
  | Npos p =>
      if 400 <=? E then S754_infinity s
      else if cnt + E <=? -400 then S754_zero s
      else if 0 <=? E then f_round s (p * Z.to_pos (10 ^ E)) 0
      else f_of_ratio s p (Z.to_pos (10 ^ (- E)))
  end.

Definition parse_unsigned (s : str) (neg : bool) : option float64 :=
  let l := map c_lower s in
  if beq l (lit "inf") || beq l (lit "infinity") then Some (S754_infinity neg)
  else if beq l (lit "nan") then Some S754_nan
  else
    let '(n1, c1, r1) := digits_run s 0%N 0 in
    let '(n2, c2, r2) := match r1 with
                         | c :: r => if (c =? 46)%N then digits_run r n1 0 else (n1, 0, r1)
                         | [] => (n1, 0, r1)
                         end in
    if c1 + c2 =? 0 then None
    else match parse_exp r2 with
         | None => None
         | Some ex => Some (f_of_decimal neg n2 (c1 + c2) (ex - c2))
         end.

(* float(s) for a str s; None = ValueError *)
Definition py_float_of_str (s : str) : option float64 :=
  match to_ascii s with
  | None => None
  | Some a =>
      match strip_us a 0%N with
      | None => None
      | Some b =>
          match c_strip b with
          | [] => None
          | c :: t => if (c =? 43)%N then parse_unsigned t false
                      else if (c =? 45)%N then parse_unsigned t true
                      else parse_unsigned (c :: t) false
          end
      end
  end.

(* ---------- printing ---------- *)

Definition hex_digit (d : N) : N := (if d <? 10 then 48 + d else 87 + d)%N.
Fixpoint hex_fixed (k : nat) (v : N) (acc : str) : str :=
  match k with
  | O => acc
  | S k' => hex_fixed k' (v / 16)%N (hex_digit (v mod 16)%N :: acc)
  end.
Definition hex13 (v : Z) : str := hex_fixed 13 (Z.to_N v) [].

Definition sign_str (s : bool) : str := if s then [45%N] else [].
Definition exp_str (e : Z) : str := (if e <? 0 then 45%N else 43%N) :: dec_of_Z (Z.abs e).

(* float.hex() *)
Definition float_hex (x : float64) : str :=
  match x with
  | S754_nan => lit "nan"
  | S754_infinity s => sign_str s ++ lit "inf"
  | S754_zero s => sign_str s ++ lit "0x0.0p+0"
  | S754_finite s m e =>
      let d := Zpos (digits2_pos m) in
      if d + e <=? -1022
      then sign_str s ++ lit "0x0." ++ hex13 (Zpos m * f_pow2 (e + 1074)) ++ lit "p-1022"
      else sign_str s ++ lit "0x1." ++ hex13 (Zpos m * f_pow2 (53 - d) - f_pow2 52)
                      ++ [112%N] ++ exp_str (d + e - 1)
  end.

(* nearest integer, ties to even, of m * 2^e (m >= 0) *)
Definition round_half_even (m e : Z) : Z :=
  if 0 <=? e then m * f_pow2 e
  else let d := f_pow2 (- e) in
       let q := m / d in
       let r := m mod d in
       match 2 * r ?= d with
       | Lt => q
       | Gt => q + 1
       | Eq => if Z.even q then q else q + 1
       end.

(* format(x, '.0f') *)
Definition float_fmt_f0 (x : float64) : str :=
  match x with
  | S754_nan => lit "nan"
  | S754_infinity s => sign_str s ++ lit "inf"
  | S754_zero s => sign_str s ++ [48%N]
  | S754_finite s m e => sign_str s ++ dec_of_Z (round_half_even (Zpos m) e)
  end.

(* ---------- computed examples ---------- *)
Example ex_float_1_1 : option_map float_hex (py_float_of_str (lit "1.1")) = Some (lit "0x1.199999999999ap+0").
Proof. vm_compute. reflexivity. Qed.
Example ex_float_min_sub : option_map float_hex (py_float_of_str (lit "5e-324")) = Some (lit "0x0.0000000000001p-1022").
Proof. vm_compute. reflexivity. Qed.
Example ex_float_us : option_map float_hex (py_float_of_str (lit " -1_0.5e0 ")) = Some (lit "-0x1.5000000000000p+3").
Proof. vm_compute. reflexivity. Qed.
Example ex_float_bad : py_float_of_str (lit "1__0") = None.
Proof. vm_compute. reflexivity. Qed.
Example ex_ceil : option_map ceil_to_Z (py_float_of_str (lit "-2.5")) = Some (Ok (-2)).
Proof. vm_compute. reflexivity. Qed.
