(* Base/Bytes.v — byte strings and str as [list N]; slicing; integer decoders.
   Python [bytes] and [str] values are both modelled as lists of code units
   (0..255 for bytes, code points for str). Offsets and lengths are [N]. *)
(* NOTE: files that want string literals must import Coq's String BEFORE this
   file (so that [length], [++] keep their list meaning) and write
   [lit "abc"%string]. *)
From Coq Require Import String Ascii.
From Coq Require Export List NArith ZArith Bool Lia ZifyBool ZifyNat ZifyN.
Export ListNotations.
Open Scope N_scope.

Definition bytes := list N.
Definition str := list N.

(* string literals: [lit "abc"] = [97;98;99] *)
Definition lit (s : string) : str := List.map N_of_ascii (list_ascii_of_string s).

Definition blen (b : bytes) : N := N.of_nat (length b).
Definition bskip (n : N) (b : bytes) : bytes := skipn (N.to_nat n) b.
Definition btake (n : N) (b : bytes) : bytes := firstn (N.to_nat n) b.
(* Python b[lo:hi] for 0 <= lo, 0 <= hi (clamped like Python does) *)
Definition bsub (lo hi : N) (b : bytes) : bytes := btake (hi - lo) (bskip lo b).
(* stream[off : off+len] *)
Definition bslice (off len : N) (b : bytes) : bytes := btake len (bskip off b).
(* Python b[-n:] for n > 0 ; b[-0:] = b[0:] = b *)
Definition blast (n : N) (b : bytes) : bytes := bskip (blen b - n) b.
Definition bnth (i : N) (b : bytes) : N := nth (N.to_nat i) b 0.

Fixpoint beq (a b : bytes) : bool :=
  match a, b with
  | [], [] => true
  | x :: a', y :: b' => (x =? y) && beq a' b'
  | _, _ => false
  end.

Fixpoint prefixb (p s : bytes) : bool :=
  match p, s with
  | [], _ => true
  | x :: p', y :: s' => (x =? y) && prefixb p' s'
  | _ :: _, [] => false
  end.

Fixpoint occursb (a s : bytes) : bool :=
  prefixb a s || match s with [] => false | _ :: t => occursb a t end.

Fixpoint repeatN (x : N) (n : nat) : bytes :=
  match n with O => [] | S k => x :: repeatN x k end.

(* little / big endian unsigned decoders over a byte list (total: the value of
   whatever bytes are given; callers check lengths where struct.unpack would) *)
Fixpoint le_val (b : bytes) : N :=
  match b with [] => 0 | x :: t => x + 256 * le_val t end.
Definition be_val (b : bytes) : N := le_val (rev b).

Fixpoint le_enc (k : nat) (v : N) : bytes :=
  match k with O => [] | S k' => (v mod 256) :: le_enc k' (v / 256) end.
Definition be_enc (k : nat) (v : N) : bytes := rev (le_enc k v).

Definition is_byte (x : N) : bool := x <? 256.
Definition all_bytes (b : bytes) : bool := forallb is_byte b.

(* ---------- lemmas ---------- *)

Lemma blen_nil : blen [] = 0. Proof. reflexivity. Qed.
Lemma blen_cons x b : blen (x :: b) = 1 + blen b.
Proof. unfold blen. cbn [length]. lia. Qed.
Lemma blen_app a b : blen (a ++ b) = blen a + blen b.
Proof. unfold blen. rewrite app_length. lia. Qed.

Lemma bskip_0 b : bskip 0 b = b. Proof. reflexivity. Qed.
Lemma btake_0 b : btake 0 b = []. Proof. reflexivity. Qed.
Lemma bskip_nil n : bskip n [] = []. Proof. unfold bskip. apply skipn_nil. Qed.
Lemma btake_nil n : btake n [] = []. Proof. unfold btake. apply firstn_nil. Qed.

Lemma bskip_app_le n a b : n <= blen a -> bskip n (a ++ b) = bskip n a ++ b.
Proof. unfold bskip, blen. intros H. rewrite skipn_app.
  replace (N.to_nat n - length a)%nat with 0%nat by lia. reflexivity. Qed.

Lemma bskip_app_ge n a b : blen a <= n -> bskip n (a ++ b) = bskip (n - blen a) b.
Proof. unfold bskip, blen. intros H. rewrite skipn_app.
  rewrite skipn_all2 by lia. simpl. f_equal. lia. Qed.

Lemma bskip_all n a : blen a <= n -> bskip n a = [].
Proof. unfold bskip, blen. intros. apply skipn_all2. lia. Qed.

Lemma blen_bskip n a : blen (bskip n a) = blen a - n.
Proof. unfold blen, bskip. rewrite skipn_length. lia. Qed.

Lemma btake_all n a : blen a <= n -> btake n a = a.
Proof. unfold btake, blen. intros. apply firstn_all2. lia. Qed.

Lemma btake_app_le n a b : n <= blen a -> btake n (a ++ b) = btake n a.
Proof. unfold btake, blen. intros. rewrite firstn_app.
  replace (N.to_nat n - length a)%nat with 0%nat by lia. simpl. apply app_nil_r. Qed.

Lemma btake_app_ge n a b : blen a <= n -> btake n (a ++ b) = a ++ btake (n - blen a) b.
Proof. unfold btake, blen. intros. rewrite firstn_app.
  rewrite firstn_all2 by lia. f_equal. f_equal. lia. Qed.

Lemma blen_btake n a : blen (btake n a) = N.min n (blen a).
Proof. unfold blen, btake. rewrite firstn_length. lia. Qed.

Lemma btake_btake n m a : btake n (btake m a) = btake (N.min n m) a.
Proof. unfold btake. rewrite firstn_firstn. f_equal. lia. Qed.

Lemma skipn_skipn' {A} (n m : nat) (l : list A) : skipn n (skipn m l) = skipn (m + n) l.
Proof. revert l. induction m as [|m IH]; intros l; [reflexivity|].
  destruct l as [|x l]; cbn [skipn plus]; [apply skipn_nil|apply IH]. Qed.

Lemma bskip_bskip n m a : bskip n (bskip m a) = bskip (m + n) a.
Proof. unfold bskip. rewrite skipn_skipn'. f_equal. lia. Qed.

Lemma btake_bskip_app n a : btake n a ++ bskip n a = a.
Proof. unfold btake, bskip. apply firstn_skipn. Qed.

Lemma bskip_btake n m a : bskip n (btake m a) = btake (m - n) (bskip n a).
Proof. unfold bskip, btake. rewrite skipn_firstn_comm. f_equal. lia. Qed.

Lemma blen_bslice off len a : blen (bslice off len a) = N.min len (blen a - off).
Proof. unfold bslice. rewrite blen_btake, blen_bskip. reflexivity. Qed.

Lemma blen_0_nil a : blen a = 0 -> a = [].
Proof. destruct a; [reflexivity|]. rewrite blen_cons. lia. Qed.

Lemma beq_refl a : beq a a = true.
Proof. induction a as [|x a IH]; cbn; [reflexivity|]. rewrite N.eqb_refl. exact IH. Qed.

Lemma beq_eq a b : beq a b = true <-> a = b.
Proof.
  split.
  - revert b. induction a as [|x a IH]; intros [|y b] H; cbn in H; try discriminate; [reflexivity|].
    apply andb_true_iff in H. destruct H as [H1 H2]. apply N.eqb_eq in H1. subst. f_equal. auto.
  - intros ->. apply beq_refl.
Qed.

Lemma prefixb_app p s : prefixb p (p ++ s) = true.
Proof. induction p as [|x p IH]; cbn; [reflexivity|]. rewrite N.eqb_refl. exact IH. Qed.

Lemma prefixb_spec p s : prefixb p s = true <-> exists t, s = p ++ t.
Proof.
  split.
  - revert s. induction p as [|x p IH]; intros s H.
    + exists s. reflexivity.
    + destruct s as [|y s]; cbn in H; [discriminate|].
      apply andb_true_iff in H. destruct H as [H1 H2]. apply N.eqb_eq in H1. subst.
      destruct (IH _ H2) as [t ->]. exists t. reflexivity.
  - intros [t ->]. apply prefixb_app.
Qed.

Lemma prefixb_btake p s : prefixb p s = beq (btake (blen p) s) p.
Proof.
  revert s. induction p as [|x p IH]; intros s.
  - cbn. reflexivity.
  - destruct s as [|y s].
    + rewrite btake_nil. reflexivity.
    + rewrite blen_cons. unfold btake. replace (N.to_nat (1 + blen p)) with (S (N.to_nat (blen p))) by lia.
      cbn [firstn prefixb beq]. rewrite IH. unfold btake. rewrite N.eqb_sym. reflexivity.
Qed.

(* integer encode/decode round trip *)
Lemma le_val_enc k v : v < 256 ^ N.of_nat k -> le_val (le_enc k v) = v.
Proof.
  revert v. induction k as [|k IH]; intros v H.
  - cbn in *. lia.
  - cbn [le_enc le_val].
    assert (H256 : 256 ^ N.of_nat (S k) = 256 * 256 ^ N.of_nat k).
    { replace (N.of_nat (S k)) with (N.succ (N.of_nat k)) by lia. apply N.pow_succ_r'. }
    rewrite IH.
    + pose proof (N.div_mod v 256). lia.
    + apply N.div_lt_upper_bound; lia.
Qed.

Lemma be_val_enc k v : v < 256 ^ N.of_nat k -> be_val (be_enc k v) = v.
Proof. intros. unfold be_val, be_enc. rewrite rev_involutive. apply le_val_enc. assumption. Qed.

Lemma length_le_enc k v : length (le_enc k v) = k.
Proof. revert v. induction k; intros; cbn; auto. Qed.

Lemma le_val_bound b : all_bytes b = true -> le_val b < 256 ^ blen b.
Proof.
  induction b as [|x b IH]; intros H.
  - cbn. lia.
  - cbn in H. apply andb_true_iff in H. destruct H as [Hx Hb]. unfold is_byte in Hx.
    rewrite blen_cons. cbn [le_val]. specialize (IH Hb).
    replace (1 + blen b) with (N.succ (blen b)) by lia. rewrite N.pow_succ_r'. lia.
Qed.

(* ---------- Python slicing / indexing with arbitrary integer bounds ---------- *)
Definition norm_idx (n i : Z) : Z :=
  let i' := if (i <? 0)%Z then (i + n)%Z else i in Z.max 0 (Z.min n i').
Definition zslice (lo hi : option Z) (b : bytes) : bytes :=
  let n := Z.of_N (blen b) in
  let l := match lo with Some i => norm_idx n i | None => 0%Z end in
  let h := match hi with Some i => norm_idx n i | None => n end in
  bsub (Z.to_N l) (Z.to_N h) b.
Definition zlen (b : bytes) : Z := Z.of_N (blen b).

Lemma zslice_from (i : Z) b : (0 <= i)%Z -> zslice (Some i) None b = bskip (Z.to_N i) b.
Proof.
  intros H. unfold zslice, norm_idx, bsub.
  replace (i <? 0)%Z with false by lia.
  destruct (Z_le_gt_dec i (Z.of_N (blen b))).
  - replace (Z.max 0 (Z.min (Z.of_N (blen b)) i)) with i by lia.
    apply btake_all. rewrite blen_bskip. lia.
  - replace (Z.max 0 (Z.min (Z.of_N (blen b)) i)) with (Z.of_N (blen b)) by lia.
    rewrite !bskip_all by lia. rewrite btake_nil. reflexivity.
Qed.

Lemma zslice_to (i : Z) b : (0 <= i)%Z -> zslice None (Some i) b = btake (Z.to_N i) b.
Proof.
  intros H. unfold zslice, norm_idx, bsub.
  replace (i <? 0)%Z with false by lia.
  rewrite bskip_0. change (Z.to_N 0) with 0. rewrite N.sub_0_r.
  destruct (Z_le_gt_dec i (Z.of_N (blen b))).
  - replace (Z.max 0 (Z.min (Z.of_N (blen b)) i)) with i by lia. reflexivity.
  - replace (Z.max 0 (Z.min (Z.of_N (blen b)) i)) with (Z.of_N (blen b)) by lia.
    rewrite !btake_all by lia. reflexivity.
Qed.

Lemma zslice_range (lo hi : Z) b : (0 <= lo)%Z -> (0 <= hi)%Z ->
  zslice (Some lo) (Some hi) b = bsub (Z.to_N lo) (Z.to_N hi) b.
Proof.
  intros H1 H2. unfold zslice, norm_idx, bsub.
  replace (lo <? 0)%Z with false by lia. replace (hi <? 0)%Z with false by lia.
  set (n := Z.of_N (blen b)).
  destruct (Z_le_gt_dec lo n) as [Hl|Hl].
  - replace (Z.max 0 (Z.min n lo)) with lo by lia.
    destruct (Z_le_gt_dec hi n) as [Hh|Hh].
    + replace (Z.max 0 (Z.min n hi)) with hi by lia. reflexivity.
    + replace (Z.max 0 (Z.min n hi)) with n by lia.
      rewrite !btake_all; [reflexivity| |]; rewrite blen_bskip; subst n; lia.
  - replace (Z.max 0 (Z.min n lo)) with n by lia.
    rewrite !bskip_all by (subst n; lia). rewrite !btake_nil. reflexivity.
Qed.
