(* Base/Str.v — the str / bytes methods the modelled code uses. *)
Require Import OV.Base.Bytes OV.Base.PyInt OV.Gen.Unicode.
Open Scope N_scope.

(* sep.join(items) *)
Fixpoint join (sep : str) (items : list str) : str :=
  match items with
  | [] => []
  | [x] => x
  | x :: t => x ++ sep ++ join sep t
  end.

(* s.split(c) for a one-character separator: always at least one field *)
Fixpoint split_char_aux (c : N) (s : str) (cur : str) : list str :=
  match s with
  | [] => [rev cur]
  | x :: t => if x =? c then rev cur :: split_char_aux c t [] else split_char_aux c t (x :: cur)
  end.
Definition split_char (c : N) (s : str) : list str := split_char_aux c s [].

(* s.split(c, maxsplit) *)
Fixpoint split_char_max_aux (c : N) (s : str) (cur : str) (k : nat) : list str :=
  match s with
  | [] => [rev cur]
  | x :: t => match k with
              | O => [rev cur ++ s]
              | S k' => if x =? c then rev cur :: split_char_max_aux c t [] k'
                        else split_char_max_aux c t (x :: cur) k
              end
  end.
Definition split_char_max (c : N) (s : str) (k : nat) : list str := split_char_max_aux c s [] k.

(* s.find(sub, start) -> index or None ; s.index raises ValueError on None *)
Fixpoint find_from (sub s : str) (i : N) : option N :=
  if prefixb sub s then Some i
  else match s with [] => None | _ :: t => find_from sub t (i + 1) end.
Definition find (sub s : str) : option N := find_from sub s 0.
Definition find_at (sub s : str) (start : N) : option N := find_from sub (bskip start s) start.

(* s.replace(old, new) for non-empty old *)
Fixpoint replace_go (old new s : str) (skip : nat) : str :=
  match s with
  | [] => []
  | c :: t => match skip with
              | S k => replace_go old new t k
              | O => if prefixb old s then new ++ replace_go old new t (length old - 1)
                     else c :: replace_go old new t 0
              end
  end.
Definition replace (old new s : str) : str := replace_go old new s 0.

(* ASCII lower / upper, and the full str.lower() from the generated table
   (context-free part: the final-sigma rule is not modelled) *)
Definition lower_ascii1 (c : N) : N := if (65 <=? c) && (c <=? 90) then c + 32 else c.
Definition lower_ascii (s : str) : str := map lower_ascii1 s.
Definition upper_ascii1 (c : N) : N := if (97 <=? c) && (c <=? 122) then c - 32 else c.

Fixpoint lower_run (c : N) (runs : list (N * N * N)) : option N :=
  match runs with
  | [] => None
  | (lo, hi, tgt) :: t => if (lo <=? c) && (c <=? hi) then Some (c - lo + tgt) else lower_run c t
  end.
Fixpoint lower_multi_find (c : N) (l : list (N * list N)) : option (list N) :=
  match l with [] => None | (k, v) :: t => if k =? c then Some v else lower_multi_find c t end.
Definition py_lower1 (c : N) : list N :=
  match lower_run c lower_runs with
  | Some l => [l]
  | None => match lower_multi_find c lower_multi with Some v => v | None => [c] end
  end.
Definition py_lower (s : str) : str := flat_map py_lower1 s.

(* s.strip(chars) *)
Fixpoint memN (c : N) (l : list N) : bool :=
  match l with [] => false | x :: t => (x =? c) || memN c t end.
Fixpoint lstrip_chars (chars s : str) : str :=
  match s with c :: t => if memN c chars then lstrip_chars chars t else s | [] => [] end.
Definition strip_chars (chars s : str) : str := rev (lstrip_chars chars (rev (lstrip_chars chars s))).

Definition startswith (p s : str) : bool := prefixb p s.
Definition endswith (p s : str) : bool := prefixb (rev p) (rev s).

Lemma join_cons sep x y t : join sep (x :: y :: t) = x ++ sep ++ join sep (y :: t).
Proof. reflexivity. Qed.
