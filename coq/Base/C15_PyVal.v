(* Base/C15_PyVal.v — the few dynamically typed Python values and str methods that
   the statement-level translation of oslo_utils/netutils.py (parse_host_port,
   urlsplit) needs on top of Base/Str.v.  Definitions only + two structural lemmas. *)
Require Import OV.Base.Bytes OV.Base.Py OV.Base.PyInt OV.Base.Str.
Open Scope N_scope.

(* a value that is None, an int or a str (the local `port` of parse_host_port) *)
Inductive pyval := VNone | VInt (z : Z) | VStr (s : str).

(* `None if x is None else int(x)` : int(int) is the identity, int(str) is CPython's
   base-10 parser (Base/PyInt.v), which raises ValueError on a malformed text *)
Definition opt_int (v : pyval) : res (option Z) :=
  match v with
  | VNone => Ok None
  | VInt z => Ok (Some z)
  | VStr s => match py_int s with Some z => Ok (Some z) | None => Exn ValueError end
  end.

(* `not s` for a str *)
Definition bempty (s : str) : bool := match s with [] => true | _ :: _ => false end.

(* s.count(c) for a one-character c *)
Fixpoint count_char (c : N) (s : str) : Z :=
  match s with [] => 0%Z | x :: t => ((if (x =? c)%N then 1 else 0) + count_char c t)%Z end.

(* `c in s` for a one-character c *)
Definition has_char (c : N) (s : str) : bool := memN c s.

(* s.rsplit(c, k) for a one-character c: split the reversed text from the left and mirror *)
Definition rsplit_char_max (c : N) (s : str) (k : nat) : list str :=
  map (@rev N) (rev (split_char_max c (rev s) k)).
