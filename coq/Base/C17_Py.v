(* Base/C17_Py.v — the Python constructs the statement-level translation of
   oslo_utils/versionutils.py refers to (tools/gen/gen_versionutils.py, class T17). *)
Require Import OV.Base.Bytes OV.Base.Py OV.Base.PyInt OV.Base.Str OV.Base.Regex.
Open Scope Z_scope.

(* int(s): ValueError when s is not an integer literal *)
Definition py_int_res (s : bytes) : res Z :=
  match py_int s with Some z => Ok z | None => Exn ValueError end.

(* tuple(f(x) for x in l) / [f(x) for x in l] with a raising f: left to right, the first failure escapes *)
Fixpoint map_res {A B} (f : A -> res B) (l : list A) : res (list B) :=
  match l with
  | [] => Ok []
  | x :: t => match f x with
              | Exn e => Exn e
              | Ok y => match map_res f t with Exn e => Exn e | Ok r => Ok (y :: r) end
              end
  end.

(* functools.reduce(f, t) without initial value: TypeError on the empty sequence *)
Definition reduce_res (f : Z -> Z -> Z) (l : list Z) : res Z :=
  match l with [] => Exn TypeError | x :: t => Ok (fold_left f t x) end.

Definition llenZ {A} (l : list A) : Z := Z.of_nat (length l).

(* packaging.version.Version(text): [vparse] is the contract function (None = InvalidVersion, a
   ValueError); Version(None) is a TypeError *)
Definition vparse_res {V} (vparse : bytes -> option V) (s : bytes) : res V :=
  match vparse s with Some v => Ok v | None => Exn ValueError end.
Definition vparse_opt {V} (vparse : bytes -> option V) (s : option bytes) : res V :=
  match s with Some t => vparse_res vparse t | None => Exn TypeError end.

(* re: a match object is the end position and the groups; m.groups() of a two-group pattern on
   [subject] is a pair of optional texts (None = the group did not take part) *)
Definition match_obj : Type := (N * groups)%type.
Definition group_of (subject : bytes) (m : match_obj) (i : nat) : option bytes := group_text subject (snd m) i.

(* d[k] for a dict with str keys, as an association list; a None key is never present *)
Fixpoint assoc_b {A} (k : bytes) (l : list (bytes * A)) : option A :=
  match l with [] => None | (k', v) :: t => if beq k k' then Some v else assoc_b k t end.
Definition assoc_opt {A} (k : option bytes) (l : list (bytes * A)) : option A :=
  match k with Some k' => assoc_b k' l | None => None end.
