(* Base/C11_Lib.v — value and outcome types shared by Gen/C11_*.v and Model/C11.v.

   [pyval]   the argument kinds the port / ICMP validators are called with
             (str, int, bool, None) and CPython's int() on them;
   [aexn]    the exception classes the address validators meet: what CPython's
             argument conversion raises (ValueError, incl. UnicodeEncodeError),
             what netaddr raises (AddrFormatError, TypeError, ValueError), OSError
             from the socket module, and "anything else";
   [ares]    outcome of a validator or of a library call: a bool, or a raised class. *)
Require Import OV.Base.Bytes OV.Base.Py OV.Base.PyInt.
Open Scope N_scope.

Inductive pyval := VStr (s : str) | VInt (z : Z) | VBool (b : bool) | VNone.

(* int(str).  Base/PyInt.py_int strips with str.isspace(), which holds for the four
   ASCII separators U+001C..U+001F; CPython's int() does not skip those (it maps
   non-ASCII whitespace to ' ' and then skips C isspace() only), so a string that
   contains one of them anywhere is not an integer literal. *)
Definition is_ascii_sep (c : N) : bool := (28 <=? c) && (c <=? 31).
Definition py_int_str (s : str) : option Z :=
  if existsb is_ascii_sep s then None else py_int s.

(* int(v): str -> py_int_str (ValueError when it is not an integer literal);
   int -> itself; bool -> 0/1; None -> TypeError *)
Definition py_int_of (v : pyval) : res Z :=
  match v with
  | VStr s => match py_int_str s with Some z => Ok z | None => Exn ValueError end
  | VInt z => Ok z
  | VBool b => Ok (if b then 1%Z else 0%Z)
  | VNone => Exn TypeError
  end.

Definition pyval_is_none (v : pyval) : bool := match v with VNone => true | _ => false end.

Inductive aexn := AValueError | ATypeError | AAddrFormatError | AOSError | AOther.

Definition aexn_eqb (a b : aexn) : bool :=
  match a, b with
  | AValueError, AValueError | ATypeError, ATypeError | AAddrFormatError, AAddrFormatError
  | AOSError, AOSError | AOther, AOther => true
  | _, _ => false
  end.

(* `except (A, B, ...)`: is class e caught by the tuple l?  (The classes of [aexn] are
   unrelated by inheritance, except that the harness maps every ValueError subclass
   to AValueError and every OSError subclass to AOSError.) *)
Definition caught (l : list aexn) (e : aexn) : bool := existsb (aexn_eqb e) l.

Inductive ares := AOk (b : bool) | ARaise (e : aexn).

Lemma aexn_eqb_eq a b : aexn_eqb a b = true <-> a = b.
Proof. destruct a, b; cbn; split; intros H; try reflexivity; try discriminate. Qed.

Lemma caught_In l e : caught l e = true <-> In e l.
Proof.
  unfold caught. rewrite existsb_exists. split.
  - intros [x [Hin He]]. apply aexn_eqb_eq in He. subst. exact Hin.
  - intros H. exists e. split; [exact H|]. apply aexn_eqb_eq. reflexivity.
Qed.
