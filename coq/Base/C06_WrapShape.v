(* Base/C06_WrapShape.v — the "shape" of InspectWrapper._process_chunk as read off
   the source text by tools/gen/gen_C06.py.  The generic wrapper model
   (Model/Wrap.v) is parametrised by a [pc_shape]; Gen/C06_Wrapper.v defines
   [gen_shape] from the AST of /repo on every run.  The proofs need
   [shape_okb gen_shape = true]; dropping the errored filter, the [.add], the
   re-raise test or one conjunct of the early-abort condition in the source
   changes [gen_shape] and that equation no longer holds. *)
Require Import OV.Base.Bytes.

(* the test guarding the bare [raise] in the except handler *)
Inductive reraise_test :=
| RrNameEq      (* if inspector.NAME == self._expected_format: raise *)
| RrNameNe      (* if inspector.NAME != self._expected_format: raise *)
| RrAlways      (* raise (unguarded) *)
| RrNever.      (* no raise in the handler *)

(* one conjunct of the else-branch (early abort) condition *)
Inductive conjunct :=
| CjNameEq | CjNameNe          (* inspector.NAME ==/!= self._expected_format *)
| CjComplete | CjNotComplete   (* [not] inspector.complete *)
| CjMatch | CjNotMatch.        (* [not] inspector.format_match *)

Record pc_shape := {
  sh_skip_errored : bool;            (* the comprehension has [if i not in self._errored_inspectors] *)
  sh_reraise : reraise_test;
  sh_add_errored : bool;             (* the handler ends with self._errored_inspectors.add(inspector) *)
  sh_else : list conjunct            (* conjuncts of the else-branch condition, in source order *)
}.

Definition eval_conjunct (name_eq complete fmatch : bool) (c : conjunct) : bool :=
  match c with
  | CjNameEq => name_eq | CjNameNe => negb name_eq
  | CjComplete => complete | CjNotComplete => negb complete
  | CjMatch => fmatch | CjNotMatch => negb fmatch
  end.

Definition eval_else (cs : list conjunct) (name_eq complete fmatch : bool) : bool :=
  forallb (eval_conjunct name_eq complete fmatch) cs.

Definition eval_reraise (r : reraise_test) (name_eq : bool) : bool :=
  match r with RrNameEq => name_eq | RrNameNe => negb name_eq | RrAlways => true | RrNever => false end.

Definition all_bools : list bool := [true; false].

(* the else condition has the truth table of
   NAME == expected and complete and not format_match (conjunct order is free) *)
Definition else_okb (cs : list conjunct) : bool :=
  forallb (fun a => forallb (fun b => forallb (fun c =>
    Bool.eqb (eval_else cs a b c) (a && b && negb c)) all_bools) all_bools) all_bools.

Definition shape_okb (sh : pc_shape) : bool :=
  sh_skip_errored sh && sh_add_errored sh
  && match sh_reraise sh with RrNameEq => true | _ => false end
  && else_okb (sh_else sh).

(* the shape of the code as it is on the pinned tree (used for examples only;
   the property theorems use the regenerated [gen_shape]) *)
Definition std_shape : pc_shape :=
  {| sh_skip_errored := true; sh_reraise := RrNameEq; sh_add_errored := true;
     sh_else := [CjNameEq; CjComplete; CjNotMatch] |}.

Lemma else_okb_spec cs : else_okb cs = true ->
  forall a b c, eval_else cs a b c = a && b && negb c.
Proof.
  intros H a b c. unfold else_okb in H.
  assert (Hin : forall x : bool, In x all_bools) by (intros []; cbn; auto).
  rewrite forallb_forall in H. specialize (H a (Hin a)).
  rewrite forallb_forall in H. specialize (H b (Hin b)).
  rewrite forallb_forall in H. specialize (H c (Hin c)).
  apply Bool.eqb_prop in H. exact H.
Qed.

Lemma shape_okb_spec sh : shape_okb sh = true ->
  sh_skip_errored sh = true /\ sh_add_errored sh = true /\ sh_reraise sh = RrNameEq /\
  (forall a b c, eval_else (sh_else sh) a b c = a && b && negb c).
Proof.
  unfold shape_okb. intros H.
  apply andb_prop in H. destruct H as [H H4].
  apply andb_prop in H. destruct H as [H H3].
  apply andb_prop in H. destruct H as [H1 H2].
  repeat split; try assumption.
  - destruct (sh_reraise sh); try discriminate; reflexivity.
  - apply else_okb_spec; assumption.
Qed.
