(* Base/IO.v — helpers for the correspondence drivers: every model exposes
   [run : list (list N) -> list N]; integers travel as decimal text. *)
From Coq Require Import String.
Require Import OV.Base.Bytes OV.Base.Py OV.Base.PyInt OV.Base.Str.
Open Scope N_scope.

Definition arg_Z (b : bytes) : Z := match py_int b with Some z => z | None => 0%Z end.
Definition arg_N (b : bytes) : N := Z.to_N (arg_Z b).
Definition arg_nat (b : bytes) : nat := N.to_nat (arg_N b).
Definition arg_bool (b : bytes) : bool := match b with 49 :: _ => true | 84 :: _ => true | _ => false end.
Definition out_Z (z : Z) : bytes := dec_of_Z z.
Definition out_N (n : N) : bytes := dec_of_N n.
Definition out_bool (b : bool) : bytes := if b then lit "True"%string else lit "False"%string.
Definition out_exn (e : exn) : bytes := lit "EXN:"%string ++ exn_name e.
Definition out_res {A} (f : A -> bytes) (r : res A) : bytes :=
  match r with Ok a => f a | Exn e => out_exn e end.
Definition out_opt {A} (f : A -> bytes) (r : option A) : bytes :=
  match r with Some a => f a | None => lit "None"%string end.
Definition bar : bytes := [124].
Definition out_list {A} (f : A -> bytes) (l : list A) : bytes := join bar (map f l).
Definition nth_arg (args : list bytes) (i : nat) : bytes := nth i args [].
Definition is_op (name : string) (b : bytes) : bool := beq b (lit name).
