(* Base/Py.v — Python outcomes: a value or an exception class. *)
From Coq Require Import String.
Require Import OV.Base.Bytes.
Local Open Scope string_scope.

Inductive exn :=
| ImageFormatError | SafetyViolation | SafetyCheckFailed | StructError | KeyError
| AttributeError | IndexError | ValueError | TypeError | RuntimeError
| UnicodeDecodeError | OverflowError | StopIteration | OSError | OtherError.

Inductive res (A : Type) := Ok (a : A) | Exn (e : exn).
Arguments Ok {A} a.
Arguments Exn {A} e.

Definition bind {A B} (r : res A) (f : A -> res B) : res B :=
  match r with Ok a => f a | Exn e => Exn e end.
Notation "'do' x <- r ; k" := (bind r (fun x => k)) (at level 200, x name, r at level 100, k at level 200).

(* class names as the correspondence harness prints them (type(e).__name__) *)
Definition exn_name (e : exn) : str :=
  lit match e with
  | ImageFormatError => "ImageFormatError"
  | SafetyViolation => "SafetyViolation"
  | SafetyCheckFailed => "SafetyCheckFailed"
  | StructError => "error"
  | KeyError => "KeyError"
  | AttributeError => "AttributeError"
  | IndexError => "IndexError"
  | ValueError => "ValueError"
  | TypeError => "TypeError"
  | RuntimeError => "RuntimeError"
  | UnicodeDecodeError => "UnicodeDecodeError"
  | OverflowError => "OverflowError"
  | StopIteration => "StopIteration"
  | OSError => "OSError"
  | OtherError => "OtherError"
  end.
