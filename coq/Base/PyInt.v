(* Base/PyInt.v — str(int) and int(str) for base 10, as CPython defines them:
   int(str) strips whitespace (str.isspace characters EXCEPT U+001C..U+001F, which CPython's
   int() does not skip: characters < 127 are only skipped when C isspace() holds), accepts one
   optional sign, Unicode decimal digits, and single underscores between digits.
   Not modelled: the 4300-digit limit of CPython >= 3.11 (inputs are kept below). *)
Require Import OV.Base.Bytes OV.Gen.Unicode.
Open Scope N_scope.

Definition cset := list (N * N).
Fixpoint cmem (c : N) (cs : cset) : bool :=
  match cs with [] => false | (lo, hi) :: t => ((lo <=? c) && (c <=? hi)) || cmem c t end.

Definition is_space (c : N) : bool := cmem c py_space.

Fixpoint digit_in (c : N) (starts : list N) : option N :=
  match starts with
  | [] => None
  | s :: t => if (s <=? c) && (c <? s + 10) then Some (c - s) else digit_in c t
  end.
Definition digit_val (c : N) : option N := digit_in c nd_starts.
Definition is_digit (c : N) : bool := match digit_val c with Some _ => true | None => false end.

Fixpoint lstrip (s : str) : str :=
  match s with c :: t => if is_space c then lstrip t else s | [] => [] end.
Definition rstrip (s : str) : str := rev (lstrip (rev s)).
Definition strip (s : str) : str := rstrip (lstrip s).

(* the whitespace int() skips: str.isspace minus the four ASCII separators FS, GS, RS, US *)
Definition int_space (c : N) : bool := is_space c && negb ((28 <=? c) && (c <=? 31)).
Fixpoint ilstrip (s : str) : str :=
  match s with c :: t => if int_space c then ilstrip t else s | [] => [] end.
Definition irstrip (s : str) : str := rev (ilstrip (rev s)).
Definition istrip (s : str) : str := irstrip (ilstrip s).

(* digits with single underscores between digits *)
Fixpoint digits_us (s : str) (acc : N) (prev_digit : bool) : option N :=
  match s with
  | [] => if prev_digit then Some acc else None
  | c :: t =>
      if c =? 95 then (if prev_digit then digits_us t acc false else None)
      else match digit_val c with
           | Some d => digits_us t (acc * 10 + d) true
           | None => None
           end
  end.

Definition py_int (s : str) : option Z :=
  match istrip s with
  | [] => None
  | c :: t =>
      if c =? 43 then option_map Z.of_N (digits_us t 0 false)
      else if c =? 45 then option_map (fun n => (- Z.of_N n)%Z) (digits_us t 0 false)
      else option_map Z.of_N (digits_us (c :: t) 0 false)
  end.

(* str(int) *)
Fixpoint dec_fuel (fuel : nat) (n : N) (acc : str) : str :=
  match fuel with
  | O => acc
  | S f => let acc' := (48 + n mod 10) :: acc in
           if n / 10 =? 0 then acc' else dec_fuel f (n / 10) acc'
  end.
Definition dec_of_N (n : N) : str := dec_fuel (S (N.to_nat (N.log2 n))) n [].
Definition dec_of_Z (z : Z) : str :=
  match z with
  | Z0 => [48]
  | Zpos p => dec_of_N (Npos p)
  | Zneg p => 45 :: dec_of_N (Npos p)
  end.

(* ---------- lemmas ---------- *)

(* plain ASCII digit strings *)
Definition ascii_digit (c : N) : bool := (48 <=? c) && (c <=? 57).
Definition all_ascii_digits (s : str) : bool := forallb ascii_digit s.

Lemma digit_val_ascii c : ascii_digit c = true -> digit_val c = Some (c - 48).
Proof.
  unfold ascii_digit, digit_val. intros H.
  unfold nd_starts. cbn [digit_in].
  replace ((48 <=? c) && (c <? 48 + 10)) with true by lia. reflexivity.
Qed.

Lemma is_space_ascii_digit c : ascii_digit c = true -> is_space c = false.
Proof.
  unfold ascii_digit, is_space, py_space. intros H. cbn [cmem].
  repeat match goal with |- context [(?a <=? c) && (c <=? ?b)] =>
    replace ((a <=? c) && (c <=? b)) with false by lia end.
  reflexivity.
Qed.

Fixpoint dval (s : str) (acc : N) : N :=
  match s with [] => acc | c :: t => dval t (acc * 10 + (c - 48)) end.

Lemma digits_us_ascii s acc b :
  all_ascii_digits s = true -> s <> [] \/ b = true ->
  digits_us s acc b = Some (dval s acc).
Proof.
  revert acc b. induction s as [|c t IH]; intros acc b Hd Hne.
  - cbn. destruct Hne as [Hne|Hb]; [congruence|rewrite Hb; reflexivity].
  - cbn in Hd. apply andb_true_iff in Hd. destruct Hd as [Hc Ht].
    cbn [digits_us dval].
    replace (c =? 95) with false by (unfold ascii_digit in Hc; lia).
    rewrite (digit_val_ascii _ Hc). apply IH; auto.
Qed.

Lemma dval_app a b acc : dval (a ++ b) acc = dval b (dval a acc).
Proof. revert acc. induction a as [|c a IH]; intros acc; cbn; auto. Qed.

Lemma all_ascii_digits_dec_fuel f n acc :
  all_ascii_digits acc = true -> all_ascii_digits (dec_fuel f n acc) = true.
Proof.
  revert n acc. induction f as [|f IH]; intros n acc H; cbn [dec_fuel]; [exact H|].
  assert (Hd : all_ascii_digits ((48 + n mod 10) :: acc) = true).
  { unfold all_ascii_digits in *. cbn [forallb]. rewrite H. unfold ascii_digit.
    pose proof (N.mod_upper_bound n 10). lia. }
  destruct (n / 10 =? 0); [exact Hd|]. apply IH. exact Hd.
Qed.

Lemma dec_fuel_app f n acc : dec_fuel f n acc = dec_fuel f n [] ++ acc.
Proof.
  revert n acc. induction f as [|f IH]; intros n acc; cbn [dec_fuel]; [reflexivity|].
  destruct (n / 10 =? 0).
  - reflexivity.
  - rewrite (IH (n / 10) ((48 + n mod 10) :: acc)), (IH (n / 10) [48 + n mod 10]).
    rewrite <- app_assoc. reflexivity.
Qed.

Lemma dval_dec_fuel f n : n < 2 ^ N.of_nat f -> dval (dec_fuel f n []) 0 = n.
Proof.
  revert n. induction f as [|f IH]; intros n H.
  - cbn in H. cbn. lia.
  - cbn [dec_fuel]. destruct (n / 10 =? 0) eqn:E.
    + cbn [dval]. pose proof (N.div_mod n 10). lia.
    + rewrite dec_fuel_app, dval_app, IH.
      * cbn [dval]. pose proof (N.div_mod n 10). lia.
      * replace (N.of_nat (S f)) with (N.succ (N.of_nat f)) in H by lia.
        rewrite N.pow_succ_r' in H. apply N.div_lt_upper_bound; lia.
Qed.

Lemma dec_fuel_nonnil f n acc : acc <> [] \/ f <> O -> dec_fuel f n acc <> [].
Proof.
  revert n acc. induction f as [|f IH]; intros n acc H; cbn [dec_fuel].
  - destruct H; congruence.
  - destruct (n / 10 =? 0); [discriminate|]. apply IH. left. discriminate.
Qed.

Lemma log2_fuel n : n < 2 ^ N.of_nat (S (N.to_nat (N.log2 n))).
Proof.
  destruct n as [|p]; [cbn; lia|].
  replace (N.of_nat (S (N.to_nat (N.log2 (N.pos p))))) with (N.succ (N.log2 (N.pos p))) by lia.
  apply N.log2_spec. lia.
Qed.

Lemma dval_dec_of_N n : dval (dec_of_N n) 0 = n.
Proof. unfold dec_of_N. apply dval_dec_fuel, log2_fuel. Qed.

Lemma dec_of_N_digits n : all_ascii_digits (dec_of_N n) = true.
Proof. unfold dec_of_N. apply all_ascii_digits_dec_fuel. reflexivity. Qed.

Lemma dec_of_N_nonnil n : dec_of_N n <> [].
Proof. unfold dec_of_N. apply dec_fuel_nonnil. right. discriminate. Qed.

(* strip is the identity on strings whose first and last characters are not spaces *)
Lemma lstrip_nospace c t : is_space c = false -> lstrip (c :: t) = c :: t.
Proof. intros H. cbn [lstrip]. rewrite H. reflexivity. Qed.

Lemma int_space_is_space c : is_space c = false -> int_space c = false.
Proof. intros H. unfold int_space. rewrite H. reflexivity. Qed.
Lemma ilstrip_nospace c t : int_space c = false -> ilstrip (c :: t) = c :: t.
Proof. intros H. cbn [ilstrip]. rewrite H. reflexivity. Qed.

Lemma all_digits_rev s : all_ascii_digits (rev s) = all_ascii_digits s.
Proof.
  unfold all_ascii_digits. induction s as [|c s IH]; [reflexivity|].
  cbn [rev]. rewrite forallb_app. cbn. rewrite IH. rewrite andb_true_r. apply andb_comm.
Qed.

Lemma lstrip_digits s : all_ascii_digits s = true -> lstrip s = s.
Proof.
  destruct s as [|c t]; [reflexivity|]. cbn [all_ascii_digits forallb]. intros H.
  apply andb_true_iff in H. destruct H as [Hc _].
  apply lstrip_nospace, is_space_ascii_digit, Hc.
Qed.

Lemma strip_digits s : all_ascii_digits s = true -> strip s = s.
Proof.
  intros H. unfold strip, rstrip. rewrite (lstrip_digits s H).
  rewrite lstrip_digits by (rewrite all_digits_rev; exact H). apply rev_involutive.
Qed.

Lemma ilstrip_digits s : all_ascii_digits s = true -> ilstrip s = s.
Proof.
  destruct s as [|c t]; [reflexivity|]. cbn [all_ascii_digits forallb]. intros H.
  apply andb_true_iff in H. destruct H as [Hc _].
  apply ilstrip_nospace, int_space_is_space, is_space_ascii_digit, Hc.
Qed.

Lemma istrip_digits s : all_ascii_digits s = true -> istrip s = s.
Proof.
  intros H. unfold istrip, irstrip. rewrite (ilstrip_digits s H).
  rewrite ilstrip_digits by (rewrite all_digits_rev; exact H). apply rev_involutive.
Qed.

Lemma istrip_minus_digits s : all_ascii_digits s = true -> istrip (45 :: s) = 45 :: s.
Proof.
  intros H. unfold istrip, irstrip.
  rewrite (ilstrip_nospace 45 s) by reflexivity.
  destruct s as [|c t] using rev_ind.
  - reflexivity.
  - clear IHt. replace (45 :: t ++ [c]) with ((45 :: t) ++ [c]) by reflexivity.
    rewrite rev_app_distr. cbn [rev app].
    unfold all_ascii_digits in H. rewrite forallb_app in H. cbn in H.
    apply andb_true_iff in H. destruct H as [_ Hc]. rewrite andb_true_r in Hc.
    rewrite ilstrip_nospace by (apply int_space_is_space, is_space_ascii_digit, Hc).
    change (c :: rev t ++ [45]) with ([c] ++ (rev t ++ [45])).
    rewrite rev_app_distr, rev_app_distr, rev_involutive. reflexivity.
Qed.

Lemma strip_minus_digits s : all_ascii_digits s = true -> strip (45 :: s) = 45 :: s.
Proof.
  intros H. unfold strip, rstrip.
  rewrite (lstrip_nospace 45 s) by reflexivity.
  destruct s as [|c t] using rev_ind.
  - reflexivity.
  - clear IHt. replace (45 :: t ++ [c]) with ((45 :: t) ++ [c]) by reflexivity.
    rewrite rev_app_distr. cbn [rev app].
    unfold all_ascii_digits in H. rewrite forallb_app in H. cbn in H.
    apply andb_true_iff in H. destruct H as [_ Hc]. rewrite andb_true_r in Hc.
    rewrite lstrip_nospace by (apply is_space_ascii_digit, Hc).
    change (c :: rev t ++ [45]) with ([c] ++ (rev t ++ [45])).
    rewrite rev_app_distr, rev_app_distr, rev_involutive. reflexivity.
Qed.

(* a non-empty ASCII digit string does not start with '+' or '-' *)
Lemma py_int_digits s : all_ascii_digits s = true -> s <> [] ->
  py_int s = Some (Z.of_N (dval s 0)).
Proof.
  intros Hd Hne. unfold py_int. rewrite (istrip_digits s Hd).
  destruct s as [|c t]; [congruence|].
  assert (Hc : ascii_digit c = true) by (cbn in Hd; apply andb_true_iff in Hd; tauto).
  replace (c =? 43) with false by (unfold ascii_digit in Hc; lia).
  replace (c =? 45) with false by (unfold ascii_digit in Hc; lia).
  rewrite digits_us_ascii; [reflexivity|exact Hd|left; discriminate].
Qed.

Theorem py_int_dec_of_Z z : py_int (dec_of_Z z) = Some z.
Proof.
  destruct z as [|p|p]; unfold dec_of_Z.
  - reflexivity.
  - rewrite py_int_digits by (apply dec_of_N_digits || apply dec_of_N_nonnil).
    rewrite dval_dec_of_N. reflexivity.
  - unfold py_int. rewrite istrip_minus_digits by apply dec_of_N_digits.
    cbn [N.eqb Pos.eqb].
    rewrite digits_us_ascii; [|apply dec_of_N_digits|left; apply dec_of_N_nonnil].
    rewrite dval_dec_of_N. reflexivity.
Qed.
