(* Base/C16_Py.v — the Python values, exceptions and runtime "world" that the
   C16 models (hand-written and translated) are written against.

   * [pval]  : a dynamically typed argument: str | bytes | anything else (tag only).
   * [cexn]  : the exception classes that can escape the modelled functions.
   * [world] : everything that is runtime, not source: the codec registry
               (codecs.lookup, <codec>.encode, <codec>.decode), the value of
               `getattr(sys.stdin,'encoding',None) or sys.getdefaultencoding()`, and
               `unicodedata.normalize('NFKD', s).encode('ascii','ignore').decode('ascii')`.
     The theorems take a [world] plus explicit contracts (Model/C16.v) as premises;
     Model/C16_Codecs.v builds a concrete world (UTF-8, Latin-1, ASCII, the generated
     NFKD table) for which the contracts are proved. *)
From Coq Require Import String.
Require Import OV.Base.Bytes OV.Base.PyInt OV.Base.Str.
Open Scope N_scope.

Inductive pval := PStr (s : str) | PBytes (b : bytes) | POther (tag : N).

Inductive cexn := ETypeError | EUnicodeDecodeError | EUnicodeEncodeError | ELookupError | EAttributeError | EOtherError.

Inductive cres (A : Type) := COk (a : A) | CExn (e : cexn).
Arguments COk {A} a.
Arguments CExn {A} e.

Definition cbind {A B} (r : cres A) (f : A -> cres B) : cres B :=
  match r with COk a => f a | CExn e => CExn e end.
Definition cmap {A B} (f : A -> B) (r : cres A) : cres B :=
  match r with COk a => COk (f a) | CExn e => CExn e end.

(* exception classes named in `except` clauses, and Python's subclass relation
   restricted to [cexn]: UnicodeDecodeError, UnicodeEncodeError < UnicodeError < ValueError;
   everything < Exception *)
Inductive eclass := KTypeError | KUnicodeDecodeError | KUnicodeEncodeError | KUnicodeError
                  | KValueError | KLookupError | KAttributeError | KException.
Definition exn_isa (e : cexn) (k : eclass) : bool :=
  match k, e with
  | KException, _ => true
  | KTypeError, ETypeError => true
  | KUnicodeDecodeError, EUnicodeDecodeError => true
  | KUnicodeEncodeError, EUnicodeEncodeError => true
  | KUnicodeError, (EUnicodeDecodeError | EUnicodeEncodeError) => true
  | KValueError, (EUnicodeDecodeError | EUnicodeEncodeError) => true
  | KLookupError, ELookupError => true
  | KAttributeError, EAttributeError => true
  | _, _ => false
  end.

Definition cexn_name (e : cexn) : str :=
  match e with
  | ETypeError => lit "TypeError"%string
  | EUnicodeDecodeError => lit "UnicodeDecodeError"%string
  | EUnicodeEncodeError => lit "UnicodeEncodeError"%string
  | ELookupError => lit "LookupError"%string
  | EAttributeError => lit "AttributeError"%string
  | EOtherError => lit "OtherError"%string
  end.

(* isinstance(v, T) / isinstance(v, (T1, T2)) for T in {str, bytes} *)
Inductive pytype := TyStr | TyBytes.
Definition has_type (v : pval) (t : pytype) : bool :=
  match v, t with PStr _, TyStr => true | PBytes _, TyBytes => true | _, _ => false end.
Definition isinstance (v : pval) (ts : list pytype) : bool := existsb (has_type v) ts.
Definition as_str (v : pval) : option str := match v with PStr s => Some s | _ => None end.
Definition as_bytes (v : pval) : option bytes := match v with PBytes b => Some b | _ => None end.

(* truthiness *)
Definition truthy_str (s : str) : bool := match s with [] => false | _ => true end.
Definition truthy_pval (v : pval) : bool :=
  match v with PStr s => truthy_str s | PBytes b => truthy_str b | POther _ => true end.
(* `if x:` on an Optional[str]: Some s when x is a non-empty str *)
Definition truthy_opt (x : option str) : option str :=
  match x with Some (c :: t) => Some (c :: t) | _ => None end.

Definition optstr_eqb (a b : option str) : bool :=
  match a, b with
  | Some x, Some y => beq x y
  | None, None => true
  | _, _ => false
  end.

(* ---------- the runtime world ---------- *)
Record world := {
  codec : Type;
  lookup : str -> option codec;                 (* codecs.lookup(name); None = LookupError *)
  enc : codec -> str -> str -> cres bytes;      (* text, errors *)
  dec : codec -> bytes -> str -> cres str;      (* data, errors *)
  default_incoming : str;                       (* sys.stdin.encoding or sys.getdefaultencoding() *)
  ascii_fold : str -> str                       (* NFKD, encode('ascii','ignore'), decode('ascii') *)
}.

(* str.encode(name, errors) *)
Definition str_encode (w : world) (s : str) (name errors : str) : cres bytes :=
  match lookup w name with Some c => enc w c s errors | None => CExn ELookupError end.
(* CPython's PyUnicode_Decode returns '' for empty input BEFORE it looks the codec up:
   b''.decode('no-such-codec') == '' *)
Definition bytes_decode (w : world) (b : bytes) (name errors : str) : cres str :=
  match b with
  | [] => COk []
  | _ => match lookup w name with Some c => dec w c b errors | None => CExn ELookupError end
  end.
(* <dynamically typed value>.decode(...): only bytes has the method *)
Definition pval_decode (w : world) (v : pval) (name errors : str) : cres str :=
  match v with PBytes b => bytes_decode w b name errors | _ => CExn EAttributeError end.

Definition strict_name : str := lit "strict"%string.   (* CPython's default for `errors` *)

(* ---------- NFKD/ASCII residue table: a search tree over disjoint code point ranges ----------
   FInc lo hi t : c in [lo,hi] has the one-character residue t + (c - lo)
   FConst lo hi r : every c in [lo,hi] has residue r *)
Inductive fentry := FInc (lo hi tgt : N) | FConst (lo hi : N) (r : str).
Inductive ftree := FLeaf | FNode (l : ftree) (e : fentry) (r : ftree).
Definition fe_lo (e : fentry) : N := match e with FInc lo _ _ => lo | FConst lo _ _ => lo end.
Definition fe_hi (e : fentry) : N := match e with FInc _ hi _ => hi | FConst _ hi _ => hi end.
Definition fe_val (e : fentry) (c : N) : str :=
  match e with FInc lo _ t => [t + (c - lo)] | FConst _ _ r => r end.
Fixpoint ftree_find (t : ftree) (c : N) : str :=
  match t with
  | FLeaf => []
  | FNode l e r => if c <? fe_lo e then ftree_find l c
                   else if fe_hi e <? c then ftree_find r c
                   else fe_val e c
  end.
