(* Base/C04_Tmpl.v — support definitions for the generated pattern TEMPLATES of
   strutils.mask_password (Gen/C04_Sanitize.v).  A template is a Coq function
   [str -> re]: the text of one _FORMAT_PATTERNS_* entry with the %(key)s hole
   kept symbolic.  The hole is filled by [keyseq]: one [Chr] per key character,
   whose set is the IGNORECASE class of that character (table generated from
   CPython's own matcher). *)
Require Import OV.Base.Bytes OV.Base.PyInt OV.Base.Regex.
Open Scope N_scope.

Fixpoint ci_lookup (tbl : list (N * cset)) (c : N) : cset :=
  match tbl with
  | [] => [(c, c)]
  | (k, s) :: t => if k =? c then s else ci_lookup t c
  end.

(* the key spliced in front of the rest of the sequence it occurs in, exactly as
   re._parser produces it (one LITERAL item per character, right-nested Seq) *)
Fixpoint keyseq (tbl : list (N * cset)) (k : str) (rest : re) : re :=
  match k with
  | [] => rest
  | c :: t => Seq (Chr (ci_lookup tbl c)) (keyseq tbl t rest)
  end.

(* which per-key pattern list a substitution loop of mask_password walks *)
Inductive sel := SelP2 | SelP1 | SelPW.

Definition pick {A} (s : sel) (e : A * (A * A)) : A :=
  match s, e with
  | SelP2, (a, _) => a
  | SelP1, (_, (b, _)) => b
  | SelPW, (_, (_, c)) => c
  end.
