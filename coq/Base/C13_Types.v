(* Base/C13_Types.v — run-time vocabulary of the StopWatch translation (Gen/C13_StopWatch.v)
   and of the hand model (Model/C13.v).  Definitions only.

   Clock readings, durations and elapsed values are integers (Z): the harness scripts
   clocks whose readings are integer multiples of one dyadic unit, so float subtraction
   and comparison are exact and agree with Z. *)
From Coq Require Import ZArith List.
Require Import OV.Base.Bytes OV.Base.Py.
Import ListNotations.
Open Scope Z_scope.

(* oslo_utils.timeutils.Split: an (elapsed, length) pair *)
Record split := mkSplit { sp_elapsed : Z; sp_length : Z }.

(* the value of self._state: None or a str *)
Definition ostate := option bytes.

(* Python == between two values that are None or str *)
Definition ostate_eqb (a b : ostate) : bool :=
  match a, b with
  | None, None => true
  | Some x, Some y => beq x y
  | _, _ => false
  end.

(* t[-1] on a tuple: None stands for IndexError *)
Fixpoint last_opt {A} (l : list A) : option A :=
  match l with
  | [] => None
  | [x] => Some x
  | _ :: r => last_opt r
  end.

(* truthiness of a tuple *)
Definition nonempty {A} (l : list A) : bool := match l with [] => false | _ => true end.

(* the six components threaded through every translated method:
   _state, _started_at, _stopped_at, _splits, _duration, and the number of now() calls made so far *)
Definition gst : Type := (ostate * option Z * option Z * list split * option Z * nat)%type.
