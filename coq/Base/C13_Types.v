(* Base/C13_Types.v — run-time vocabulary of the StopWatch translation (Gen/C13_StopWatch.v)
   and of the hand model (Model/C13.v).  Definitions only.

   Clock readings, durations and elapsed values live in an arbitrary carrier T with the three
   operations the source applies to them ([num T]): the constant 0.0, subtraction, and the
   comparisons > and >= (Python's < and <= are these with the operands swapped; max / min are
   defined from > exactly as CPython does).  Instances: Z (exact arithmetic; the harness's dyadic
   clocks) and binary64 floats on SpecFloat (Base/PyFloat.v; arbitrary finite doubles). *)
From Coq Require Import ZArith List.
Require Import OV.Base.Bytes OV.Base.Py.
Import ListNotations.

Record num (T : Type) := mkNum {
  n_zero : T;                      (* 0.0 (and the int 0) *)
  n_sub : T -> T -> T;             (* a - b *)
  n_gtb : T -> T -> bool;          (* a > b *)
  n_geb : T -> T -> bool           (* a >= b *)
}.
Arguments n_zero {T}.
Arguments n_sub {T}.
Arguments n_gtb {T}.
Arguments n_geb {T}.

(* CPython: max(a, b) is b if b > a else a; min(a, b) is b if b < a else a *)
Definition n_max {T} (N : num T) (a b : T) : T := if n_gtb N b a then b else a.
Definition n_min {T} (N : num T) (a b : T) : T := if n_gtb N a b then b else a.

(* oslo_utils.timeutils.Split: an (elapsed, length) pair *)
Record split (T : Type) := mkSplit { sp_elapsed : T; sp_length : T }.
Arguments mkSplit {T}.
Arguments sp_elapsed {T}.
Arguments sp_length {T}.

(* the value of self._state: None or a str *)
Definition ostate := option bytes.

(* Python == between two values that are None or str *)
Definition ostate_eqb (a b : ostate) : bool :=
  match a, b with
  | None, None => true
  | Some x, Some y => beq x y
  | _, _ => false
  end.

(* t[-1] on a tuple: None stands for IndexError *)
Fixpoint last_opt {A} (l : list A) : option A :=
  match l with
  | [] => None
  | [x] => Some x
  | _ :: r => last_opt r
  end.

(* truthiness of a tuple *)
Definition nonempty {A} (l : list A) : bool := match l with [] => false | _ => true end.

(* the six components threaded through every translated method:
   _state, _started_at, _stopped_at, _splits, _duration, and the number of now() calls made so far *)
Definition gst (T : Type) : Type := (ostate * option T * option T * list (split T) * option T * nat)%type.
