(* Base/C19_PyList.v — the Python list / str operations that split_path uses,
   with Python's own conventions for integer arguments of any sign:
   l[i] (IndexError), l[lo:hi], len, str.split(sep, maxsplit) for a one-character
   separator, truthiness of a str, `x in list`, list.extend([None] * n), and the
   short-circuit and/or over expressions that may raise. *)
Require Import OV.Base.Bytes OV.Base.Py OV.Base.Str.
Open Scope Z_scope.

Definition llen {A} (l : list A) : Z := Z.of_nat (length l).

(* l[lo:hi] with Python's clamping and negative-index rule *)
Definition lslice {A} (lo hi : option Z) (l : list A) : list A :=
  let n := llen l in
  let a := match lo with Some i => norm_idx n i | None => 0 end in
  let b := match hi with Some i => norm_idx n i | None => n end in
  firstn (Z.to_nat (b - a)) (skipn (Z.to_nat a) l).

(* l[i] *)
Definition lidx {A} (l : list A) (i : Z) : res A :=
  let n := llen l in
  let j := if i <? 0 then i + n else i in
  if (j <? 0) || (n <=? j) then Exn IndexError
  else match nth_error l (Z.to_nat j) with Some x => Ok x | None => Exn IndexError end.

(* s.split(c, maxsplit): a negative maxsplit means "no limit" *)
Definition py_split1 (s : str) (c : N) (maxsplit : Z) : list str :=
  if maxsplit <? 0 then split_char c s else split_char_max c s (Z.to_nat maxsplit).

(* bool(s) for a str *)
Definition str_truth (s : str) : bool := match s with [] => false | _ => true end.
(* x in l for a list of str *)
Definition str_in (x : str) (l : list str) : bool := existsb (beq x) l.

(* l.extend([None] * n) on a list of str: [None] * n is [] for n <= 0 *)
Definition pad_none (l : list str) (n : Z) : list (option str) :=
  map Some l ++ repeat None (Z.to_nat n).

(* `a or b`, `a and b` as truth values, where evaluating either side may raise;
   b is not evaluated (so cannot raise) when a decides *)
Definition res_or (a b : res bool) : res bool :=
  match a with Ok true => Ok true | Ok false => b | Exn e => Exn e end.
Definition res_and (a b : res bool) : res bool :=
  match a with Ok false => Ok false | Ok true => b | Exn e => Exn e end.
Definition res_map {A B} (f : A -> B) (r : res A) : res B :=
  match r with Ok a => Ok (f a) | Exn e => Exn e end.
