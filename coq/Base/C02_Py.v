(* Base/C02_Py.v — the Python constructs the statement-level translations of the safety checks
   (Gen/C02_Checks.v, produced by tools/gen/gen_C02_checks.py) are written in.  Integers are Z. *)
Require Import OV.Base.Bytes OV.Base.Py OV.Base.PyInt OV.Base.Str OV.Base.Insp_Struct.
Open Scope Z_scope.

(* b[i] for an int index: negative indices count from the end, out of range raises IndexError *)
Definition bidxZ (b : bytes) (i : Z) : res Z :=
  let n := zlen b in
  if (0 <=? i) && (i <? n) then Ok (Z.of_N (bnth (Z.to_N i) b))
  else if (i <? 0) && (- n <=? i) then Ok (Z.of_N (bnth (Z.to_N (n + i)) b))
  else Exn IndexError.

(* struct.unpack(fmt, b): struct.error unless len(b) == calcsize(fmt); then the fields *)
Definition unpackZ (f : sfmt) (b : bytes) : res bytes := unpack f b.
(* unsigned integer field / signed integer field (codes b h i l q) / bytes field *)
Definition ufield (f : sfmt) (i : nat) (u : bytes) : Z := Z.of_N (sint f i u).
Definition sfield (f : sfmt) (i : nat) (u : bytes) : Z :=
  let w := snd (nth i (sf_fields f) (0%N, 0%N)) in
  let v := Z.of_N (sint f i u) in
  if v <? 2 ^ (8 * Z.of_N w - 1) then v else v - 2 ^ (8 * Z.of_N w).
Definition bfield (f : sfmt) (i : nat) (u : bytes) : bytes := sraw f i u.

(* dict.get(key) of an int-valued entry compared with an int: None == n is False *)
Definition opt_eqb (o : option Z) (v : Z) : bool := match o with Some x => x =? v | None => false end.

Fixpoint zlist_eqb (a b : list Z) : bool :=
  match a, b with
  | [], [] => true
  | x :: a', y :: b' => (x =? y) && zlist_eqb a' b'
  | _, _ => false
  end.

Definition is_nil {A} (l : list A) : bool := match l with [] => true | _ => false end.

(* b * n for bytes *)
Definition brepeat (b : bytes) (n : Z) : bytes := concat (repeat b (Z.to_nat n)).

(* s.split(c)[0] *)
Definition first_field (c : N) (s : str) : str := hd [] (split_char c s).

(* the outcome of safety_check(), names of the failed checks included (SafetyCheckFailed(failures)) *)
Inductive sc_outcome := SC_return | SC_failed (names : list bytes) | SC_raise (e : exn).
