(* Base/Regex.v — a backtracking matcher with Python's priorities for the
   fragment of `re` the in-scope patterns use (checked by the translator,
   tools/gen/regex_tr.py, which fails on anything else):
   literals / sets / negated sets / categories as code-point range lists,
   sequence, ordered alternation, greedy bounded/unbounded repeat of ONE
   character item, optional group, capturing group, ^ and $ (no MULTILINE).
   Structural recursion on the regex in continuation-passing style. *)
Require Import OV.Base.Bytes OV.Base.PyInt.
Open Scope N_scope.

Inductive re :=
| Eps | Chr (cs : cset) | Seq (a b : re) | Alt (a b : re)
| Rep (cs : cset) (mn : nat) (mx : option nat)
| Opt (a : re) | Group (i : nat) (a : re) | Bol | Eol.

Definition groups := list (nat * (N * N)).
Fixpoint gget (g : groups) (i : nat) : option (N * N) :=
  match g with [] => None | (j, v) :: t => if Nat.eqb i j then Some v else gget t i end.

(* length of the longest run of characters of [cs] at the head of [s], capped by mx *)
Fixpoint run_len (cs : cset) (s : str) (mx : option nat) : nat :=
  match s with
  | [] => 0%nat
  | c :: t => match mx with
              | Some 0%nat => 0%nat
              | _ => if cmem c cs then S (run_len cs t (option_map pred mx)) else 0%nat
              end
  end.

Section M.
Variable R : Type.
Definition cont := str -> N -> groups -> option R.

Fixpoint try_counts (s : str) (p : N) (g : groups) (k : cont) (mn n : nat) : option R :=
  match k (skipn n s) (p + N.of_nat n) g with
  | Some x => Some x
  | None => match n with
            | O => None
            | S n' => if Nat.ltb n' mn then None else try_counts s p g k mn n'
            end
  end.

Fixpoint m (r : re) (s : str) (p : N) (g : groups) (k : cont) {struct r} : option R :=
  match r with
  | Eps => k s p g
  | Chr cs => match s with c :: t => if cmem c cs then k t (p + 1) g else None | [] => None end
  | Seq a b => m a s p g (fun s' p' g' => m b s' p' g' k)
  | Alt a b => match m a s p g k with Some x => Some x | None => m b s p g k end
  | Rep cs mn mx => let n := run_len cs s mx in
                    if Nat.ltb n mn then None else try_counts s p g k mn n
  | Opt a => match m a s p g k with Some x => Some x | None => k s p g end
  | Group i a => m a s p g (fun s' p' g' => k s' p' ((i, (p, p')) :: g'))
  | Bol => if p =? 0 then k s p g else None
  | Eol => match s with [] => k s p g | [10] => k s p g | _ => None end
  end.
End M.

(* match starting exactly at position p of the subject (s = subject[p:]) *)
Definition match_at (r : re) (s : str) (p : N) : option (N * groups) :=
  m _ r s p [] (fun _ p' g' => Some (p', g')).

(* re.match *)
Definition re_match (r : re) (s : str) : option (N * groups) := match_at r s 0.
Definition re_matchb (r : re) (s : str) : bool :=
  match re_match r s with Some _ => true | None => false end.

(* re.search: leftmost start *)
Fixpoint search_from (r : re) (s : str) (p : N) : option (N * N * groups) :=
  match match_at r s p with
  | Some (e, g) => Some (p, e, g)
  | None => match s with [] => None | _ :: t => search_from r t (p + 1) end
  end.
Definition re_search (r : re) (s : str) := search_from r s 0.

Definition slice (whole : str) (a b : N) : str := bsub a b whole.
Definition group_text (whole : str) (g : groups) (i : nat) : option str :=
  match gget g i with Some (a, b) => Some (slice whole a b) | None => None end.

(* replacement templates: literal characters and \g<i> references *)
Inductive titem := TLit (c : N) | TGrp (i : nat).
Fixpoint expand (t : list titem) (whole : str) (g : groups) : str :=
  match t with
  | [] => []
  | TLit c :: r => c :: expand r whole g
  | TGrp i :: r => match gget g i with Some (a, b) => slice whole a b | None => [] end ++ expand r whole g
  end.

(* re.sub for patterns that cannot match the empty string (the translator checks
   the minimum width of every pattern used with sub is > 0) *)
Fixpoint sub_go (r : re) (t : list titem) (whole s : str) (p : N) (skip : nat) : str :=
  match s with
  | [] => []
  | c :: rest =>
    match skip with
    | S k => sub_go r t whole rest (p + 1) k
    | O => match match_at r s p with
           | Some (e, g) => if p <? e then expand t whole g ++ sub_go r t whole rest (p + 1) (N.to_nat (e - p) - 1)
                            else c :: sub_go r t whole rest (p + 1) 0
           | None => c :: sub_go r t whole rest (p + 1) 0
           end
    end
  end.
Definition re_sub (r : re) (t : list titem) (s : str) : str := sub_go r t s s 0 0.

Fixpoint seq_list (l : list re) : re :=
  match l with [] => Eps | [a] => a | a :: t => Seq a (seq_list t) end.
Fixpoint lit_re (s : str) : re :=
  match s with [] => Eps | [c] => Chr [(c, c)] | c :: t => Seq (Chr [(c, c)]) (lit_re t) end.
