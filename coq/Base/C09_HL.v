(* Base/C09_HL.v — syntax of the small "helper language" into which the translator
   (tools/gen/gen_C09.py) turns, statement by statement, the bodies of
   save_and_reraise_exception.__init__/capture/__enter__/__exit__/force_reraise,
   exception_filter.__exit__/__call__/__get__ and remove_path_on_error.
   Syntax only; the interpreter (the model) is Model/C09.v. *)
Require Import List.
Import ListNotations.

(* slots holding an exception value (or None) *)
Inductive vslot :=
| VSelf      (* self.value *)
| VLoc       (* the local bound to sys.exc_info()[1]  (value / exc_val) *)
| VArg.      (* the parameter: exc_val of __exit__, ex of __call__ *)
(* slots holding an exception type (or None) *)
Inductive tslot := TSelf | TLoc | TArg.
(* slots holding a traceback (or None) *)
Inductive bslot := BSelf | BLoc | BArg.
Inductive hflag := FReraise (* self.reraise *) | FCheck (* parameter check of capture *).

Inductive hcond :=
| CTypeNone (t : tslot)                 (* t is None *)
| CValNone (v : vslot)                  (* v is None *)
| CFalsy (v : vslot)                    (* not v   — truth value of the object, NOT the same as `v is None` *)
| CFlag (f : hflag)
| CTbDiffers (v : vslot) (b : bslot)    (* v.__traceback__ is not b *)
| CSame (v w : vslot)                   (* v is w *)
| CPred (v : vslot)                     (* self._should_ignore_ex(v): may raise *)
| CNot (c : hcond)
| CAnd (c d : hcond)
| COr (c d : hcond).

Inductive hstmt :=
| SSkip
| SSeq (a b : hstmt)
| SIf (c : hcond) (t e : hstmt)
| STryFinally (b f : hstmt)
| SInitFlag                              (* self.reraise = reraise *)
| SInitSelf                              (* self.type_, self.value, self.tb = (None, None, None) *)
| SReadInfo                              (* (type_, value, tb) = sys.exc_info() *)
| SStore                                 (* self.type_, self.value, self.tb = (type_, value, tb) *)
| SNewFromType (v : vslot) (t : tslot)   (* v = t() *)
| SRaiseRuntime                          (* raise RuntimeError(...) *)
| SRaise (v : vslot)                     (* raise v *)
| SRaiseWithTb (v : vslot) (b : bslot)   (* raise v.with_traceback(b) *)
| SClearV (v : vslot)                    (* v = None *)
| SClearB (b : bslot)                    (* b = None *)
| SLog                                   (* self.logger.error(fmt, traceback.format_exception(self.type_, self.value, self.tb)) *)
| SReturnFalse                           (* return False *)
| SReturnSelf                            (* return self *)
| SReturnPred (v : vslot)                (* return self._should_ignore_ex(v) *)
| SForce.                                (* self.force_reraise() *)

(* exception_filter.__init__: is the predicate attribute stored before or after functools.update_wrapper
   (whose __dict__ merge can overwrite it) *)
Inductive init_order := AssignThenWrap | WrapThenAssign.

(* which exceptions an except clause catches *)
Inductive catchkind := CatchException | CatchBaseException.

(* line kinds of the helper frames that show up in tracebacks *)
Inductive rkind := KVal | KWtb | KRt | KCtor | KCall.
