(* Base/Insp_Struct.v — struct.unpack layouts, region specs and safe slicing helpers
   shared by Gen/Insp_Consts.v (generated) and the inspector model (Model/Insp_*.v). *)
Require Import OV.Base.Bytes OV.Base.Py.
Open Scope N_scope.

(* A struct format with standard sizes ('<' / '>'): total size and (offset, length) of
   every field in order ('3B' is three fields, '4s' one). *)
Record sfmt := mkSfmt { sf_big : bool; sf_size : N; sf_fields : list (N * N) }.

(* len(b) with an N accumulator: the extracted [blen] (unary length, then N.of_nat) is ~6x slower and
   the engine asks for lengths of 64 KiB .. 1 MiB buffers several times per chunk.  [flen_blen] below. *)
Fixpoint flen_acc (b : bytes) (acc : N) : N :=
  match b with [] => acc | _ :: t => flen_acc t (N.succ acc) end.
Definition flen (b : bytes) : N := flen_acc b 0.

Lemma flen_acc_blen b acc : flen_acc b acc = acc + blen b.
Proof.
  revert acc. induction b as [|x b IH]; intros acc; cbn [flen_acc].
  - rewrite blen_nil. lia.
  - rewrite IH, blen_cons. lia.
Qed.
Lemma flen_blen b : flen b = blen b.
Proof. unfold flen. rewrite flen_acc_blen. lia. Qed.

(* struct.unpack(fmt, b) raises struct.error iff len(b) != calcsize(fmt) *)
Definition unpack (f : sfmt) (b : bytes) : res bytes :=
  if flen b =? sf_size f then Ok b else Exn StructError.

(* field i as raw bytes ('s' fields) / as an unsigned integer *)
Definition sraw (f : sfmt) (i : nat) (b : bytes) : bytes :=
  let '(o, l) := nth i (sf_fields f) (0, 0) in bslice o l b.
Definition sint (f : sfmt) (i : nat) (b : bytes) : N :=
  if sf_big f then be_val (sraw f i b) else le_val (sraw f i b).

(* CaptureRegion(offset, length, min_length) / EndCaptureRegion(n) as created by the source *)
Record rspec := mkRspec { rs_end : bool; rs_off : N; rs_len : N; rs_min : option N }.

(* slicing that never converts a number larger than the list to nat (offsets reach 2^73) *)
Definition ntake (n : N) (b : bytes) : bytes := if flen b <=? n then b else btake n b.
Definition nskip (n : N) (b : bytes) : bytes := if flen b <=? n then [] else bskip n b.
(* Python b[lo:hi] for 0 <= lo, 0 <= hi *)
Definition nsub (lo hi : N) (b : bytes) : bytes := ntake (hi - lo) (nskip lo b).
(* Python b[-n:] for n >= 0 (b[-0:] is b[0:], the whole string) *)
Definition nlast (n : N) (b : bytes) : bytes :=
  if n =? 0 then b else nskip (flen b - n) b.

Lemma ntake_btake n b : ntake n b = btake n b.
Proof. unfold ntake. rewrite flen_blen. destruct (blen b <=? n) eqn:H; [|reflexivity]. symmetry. apply btake_all. lia. Qed.
Lemma nskip_bskip n b : nskip n b = bskip n b.
Proof. unfold nskip. rewrite flen_blen. destruct (blen b <=? n) eqn:H; [|reflexivity]. symmetry. apply bskip_all. lia. Qed.
Lemma nsub_bsub lo hi b : nsub lo hi b = bsub lo hi b.
Proof. unfold nsub, bsub. rewrite ntake_btake, nskip_bskip. reflexivity. Qed.

(* b[i] raising IndexError *)
Definition bidx (b : bytes) (i : N) : res N :=
  if i <? flen b then Ok (bnth i b) else Exn IndexError.

Fixpoint mem_str (x : bytes) (l : list bytes) : bool :=
  match l with [] => false | y :: t => beq x y || mem_str x t end.
