(* Properties/C07.v — "virtual_size equals the disk size the image declares".
   Property theorems only; each is closed by [exact] of a lemma from Proofs/ and followed by Print Assumptions.

   Reading guide.  [cs] is the list of chunks handed to eat_chunk, in order; [concat cs] is the stream.
     quiet f cs      no eat_chunk raised
     vsize_end f cs  virtual_size after all chunks and finish()     ("once the whole stream has been presented")
     vsize_now f cs  virtual_size right after the last chunk of cs  (a prefix of a longer presentation)
   wf_<fmt> are boolean predicates on the bytes (Model/C07.v), written with the literal offsets of the formats. *)
Require Import OV.Base.Bytes OV.Base.Py OV.Gen.Insp_Consts OV.Model.Insp_All OV.Model.C07.
Require Import OV.Proofs.C07_Static OV.Proofs.C07_Vmdk OV.Proofs.C07_Vhdx.
(* the translator-equivalence lemmas (Gen/C07_Code.v vs the hand-written model) are checked with this file *)
Require OV.Proofs.C07_Equiv OV.Proofs.C07_Examples.
Open Scope N_scope.

(* ---------------- qcow2 ---------------- *)
Theorem vsize_qcow2_wellformed : forall size b cs,
  size < 2 ^ 64 -> wf_qcow2 size b = true -> concat cs = b ->
  quiet F_qcow2 cs /\ vsize_end F_qcow2 cs = Ok (Z.of_N size).
Proof. exact vsize_qcow2_wellformed_lemma. Qed.
Print Assumptions vsize_qcow2_wellformed.

(* any stream shorter than the 512-byte header region, any chunking: 0, before and after finish *)
Theorem vsize_zero_while_unknown_qcow2 : forall cs,
  blen (concat cs) < 512 ->
  quiet F_qcow2 cs /\ vsize_now F_qcow2 cs = Ok 0%Z /\ vsize_end F_qcow2 cs = Ok 0%Z.
Proof. exact vsize_zero_while_unknown_qcow2_lemma. Qed.
Print Assumptions vsize_zero_while_unknown_qcow2.

(* ---------------- VHD ---------------- *)
Theorem vsize_vhd_wellformed : forall size b cs,
  size < 2 ^ 64 -> wf_vhd size b = true -> concat cs = b ->
  quiet F_vhd cs /\ vsize_end F_vhd cs = Ok (Z.of_N size).
Proof. exact vsize_vhd_wellformed_lemma. Qed.
Print Assumptions vsize_vhd_wellformed.

Theorem vsize_zero_while_unknown_vhd : forall cs,
  blen (concat cs) < 512 ->
  quiet F_vhd cs /\ vsize_now F_vhd cs = Ok 0%Z /\ vsize_end F_vhd cs = Ok 0%Z.
Proof. exact vsize_zero_while_unknown_vhd_lemma. Qed.
Print Assumptions vsize_zero_while_unknown_vhd.

(* ---------------- VDI ---------------- *)
Theorem vsize_vdi_wellformed : forall size b cs,
  size < 2 ^ 64 -> wf_vdi size b = true -> concat cs = b ->
  quiet F_vdi cs /\ vsize_end F_vdi cs = Ok (Z.of_N size).
Proof. exact vsize_vdi_wellformed_lemma. Qed.
Print Assumptions vsize_vdi_wellformed.

Theorem vsize_zero_while_unknown_vdi : forall cs,
  blen (concat cs) < 512 ->
  quiet F_vdi cs /\ vsize_now F_vdi cs = Ok 0%Z /\ vsize_end F_vdi cs = Ok 0%Z.
Proof. exact vsize_zero_while_unknown_vdi_lemma. Qed.
Print Assumptions vsize_zero_while_unknown_vdi.

(* ---------------- ISO ---------------- *)
Theorem vsize_iso_wellformed : forall blocks bsize b cs,
  blocks < 2 ^ 32 -> bsize < 2 ^ 16 -> wf_iso blocks bsize b = true -> concat cs = b ->
  quiet F_iso cs /\ vsize_end F_iso cs = Ok (Z.of_N (blocks * bsize)).
Proof. exact vsize_iso_wellformed_lemma. Qed.
Print Assumptions vsize_iso_wellformed.

(* the carrying structure ends with the volume descriptor: 32 KiB + 2 KiB *)
Theorem vsize_zero_while_unknown_iso : forall cs,
  blen (concat cs) < 34816 ->
  quiet F_iso cs /\ vsize_now F_iso cs = Ok 0%Z /\ vsize_end F_iso cs = Ok 0%Z.
Proof. exact vsize_zero_while_unknown_iso_lemma. Qed.
Print Assumptions vsize_zero_while_unknown_iso.

(* ---------------- LUKS: stream length minus payload offset (an integer; negative when the payload offset
   points beyond the stream) ---------------- *)
Theorem vsize_luks_wellformed : forall payload b cs,
  payload < 2 ^ 32 -> wf_luks payload b = true -> concat cs = b ->
  quiet F_luks cs /\ vsize_end F_luks cs = Ok (Z.of_N (blen b) - Z.of_N payload * 512)%Z.
Proof. exact vsize_luks_wellformed_lemma. Qed.
Print Assumptions vsize_luks_wellformed.

(* ---------------- raw, GPT: the stream length, for every stream ---------------- *)
Theorem vsize_raw_wellformed : forall cs,
  quiet F_raw cs /\ vsize_now F_raw cs = Ok (Z.of_N (blen (concat cs))) /\ vsize_end F_raw cs = Ok (Z.of_N (blen (concat cs))).
Proof. exact vsize_raw_lemma. Qed.
Print Assumptions vsize_raw_wellformed.

Theorem vsize_gpt_wellformed : forall cs,
  quiet F_gpt cs /\ vsize_now F_gpt cs = Ok (Z.of_N (blen (concat cs))) /\ vsize_end F_gpt cs = Ok (Z.of_N (blen (concat cs))).
Proof. exact vsize_gpt_lemma. Qed.
Print Assumptions vsize_gpt_wellformed.

(* ---------------- VMDK (hosted sparse extent: monolithicSparse / streamOptimized) ----------------
   wf_vmdk sectors version desc_num b: 'KDMV', version in 1..3, capacity [sectors], descriptor at sector 1 of [desc_num] >= 1
   sectors (the inspector looks at min(desc_num*512, 2^20-1) bytes of it), the descriptor text (up to its first NUL) is
   ASCII and its first createType="..." names one of the two sparse subformats; the stream contains header and
   descriptor.  Any grain-directory offset, i.e. with or without the footer region. *)
Theorem vsize_vmdk_wellformed : forall sectors version desc_num b cs,
  sectors < 2 ^ 64 -> desc_num < 2 ^ 64 -> wf_vmdk sectors version desc_num b = true -> concat cs = b ->
  quiet F_vmdk cs /\ vsize_end F_vmdk cs = Ok (Z.of_N (sectors * 512)).
Proof. exact vsize_vmdk_wellformed_lemma. Qed.
Print Assumptions vsize_vmdk_wellformed.

(* every chunking of every prefix of a well-formed image that stops before the end of the descriptor: 0 *)
Theorem vsize_zero_while_unknown_vmdk : forall w sectors version desc_num cs,
  sectors < 2 ^ 64 -> desc_num < 2 ^ 64 -> wf_vmdk sectors version desc_num w = true ->
  is_prefix (concat cs) w = true -> blen (concat cs) < vmdk_known_at desc_num ->
  quiet F_vmdk cs /\ vsize_now F_vmdk cs = Ok 0%Z /\ vsize_end F_vmdk cs = Ok 0%Z.
Proof. exact vsize_zero_while_unknown_vmdk_lemma. Qed.
Print Assumptions vsize_zero_while_unknown_vmdk.

(* and the exact value at every prefix: 0 before header + descriptor have been presented, the declared size from then on *)
Theorem vsize_vmdk_at_every_prefix : forall w sectors version desc_num cs,
  sectors < 2 ^ 64 -> desc_num < 2 ^ 64 -> wf_vmdk sectors version desc_num w = true ->
  is_prefix (concat cs) w = true ->
  quiet F_vmdk cs /\
  vsize_now F_vmdk cs = (if blen (concat cs) <? vmdk_known_at desc_num then Ok 0%Z else Ok (Z.of_N (sectors * 512))) /\
  vsize_end F_vmdk cs = (if blen (concat cs) <? vmdk_known_at desc_num then Ok 0%Z else Ok (Z.of_N (sectors * 512))).
Proof. exact vsize_vmdk_prefix_lemma. Qed.
Print Assumptions vsize_vmdk_at_every_prefix.

(* ---------------- VHDX ----------------
   wf_vhdx size l b, with the layout l = (region-table count <= 2047, index of the metadata-region entry, metadata region
   offset >= 256 KiB, metadata-table count <= 2047, index of the virtual-disk-size entry, item offset >= 32 + 32*count):
   any number (0..2046) of other entries, in any order, in front of the wanted entry of either table, any entries behind
   it; 'regi' and 'metadata' signatures; item length 8; the stream reaches the end of the size item. *)
Theorem vsize_vhdx_wellformed : forall size l b cs,
  size < 2 ^ 64 -> wf_vhdx size l b = true -> concat cs = b ->
  quiet F_vhdx cs /\ vsize_end F_vhdx cs = Ok (Z.of_N size).
Proof. exact vsize_vhdx_wellformed_lemma. Qed.
Print Assumptions vsize_vhdx_wellformed.

(* every chunking of every prefix of a well-formed image that stops before the end of the size item: 0 *)
Theorem vsize_zero_while_unknown_vhdx : forall w size l cs,
  size < 2 ^ 64 -> wf_vhdx size l w = true ->
  is_prefix (concat cs) w = true -> blen (concat cs) < vhdx_known_at l ->
  quiet F_vhdx cs /\ vsize_now F_vhdx cs = Ok 0%Z /\ vsize_end F_vhdx cs = Ok 0%Z.
Proof. exact vsize_zero_while_unknown_vhdx_lemma. Qed.
Print Assumptions vsize_zero_while_unknown_vhdx.

Theorem vsize_vhdx_at_every_prefix : forall w size l cs,
  size < 2 ^ 64 -> wf_vhdx size l w = true -> is_prefix (concat cs) w = true ->
  quiet F_vhdx cs /\
  vsize_now F_vhdx cs = (if blen (concat cs) <? vhdx_known_at l then Ok 0%Z else Ok (Z.of_N size)) /\
  vsize_end F_vhdx cs = (if blen (concat cs) <? vhdx_known_at l then Ok 0%Z else Ok (Z.of_N size)).
Proof. exact vsize_vhdx_prefix_lemma. Qed.
Print Assumptions vsize_vhdx_at_every_prefix.
