(* Properties/C07.v — property theorems for C07 (filled in below as the proofs land) *)
Require Import OV.Model.Insp_All.
