(* Properties/C16.v — placeholder while the proofs are being written *)
Require Import OV.Model.C16 OV.Model.C16_Codecs.
