(* Properties/C16.v — property theorems only; each is closed by [exact] of a lemma from
   Proofs/ and followed by Print Assumptions.

   Vocabulary (Base/C16_Py.v, Model/C16.v, Model/C16_Codecs.v):
     pval = PStr s | PBytes b | POther tag        a dynamically typed argument
     cres = COk v | CExn e                        a result or the exception class raised
     world                                        what is runtime: codec registry (lookup / enc / dec), the value of
                                                  sys.stdin.encoding or sys.getdefaultencoding(), the NFKD->ASCII fold
     world3 d                                     the concrete world: CPython's UTF-8, Latin-1 and ASCII codecs,
                                                  its name lookup for them, the generated NFKD table, default encoding d
   Part A: any world, contracts as premises.  Part B: world3, no premises left.  Part C: the regex engine. *)
From Coq Require Import String.
Require Import OV.Base.Bytes OV.Base.PyInt OV.Base.Str OV.Base.Regex OV.Base.C16_Py.
Require Import OV.Gen.C16_Aliases OV.Gen.C16_Fold OV.Gen.C16_Slug OV.Gen.C16_Code.
Require Import OV.Model.C16 OV.Model.C16_Codecs.
Require Import OV.Proofs.C16_Regex OV.Proofs.C16 OV.Proofs.C16_Slug OV.Proofs.C16_Codecs OV.Proofs.C16_Closed.
Open Scope N_scope.

(* ======================= Part A: any runtime world ======================= *)

(* safe_decode returns str unchanged *)
Theorem C16_safe_decode_str_id : forall w s incoming errors,
  safe_decode w (PStr s) incoming errors = COk s.
Proof. exact safe_decode_str_id. Qed.
Print Assumptions C16_safe_decode_str_id.

(* ... and decodes bytes with the given encoding (incoming, else the default), falling back to the
   codec named by the literal in the source when — and only when — that raises UnicodeDecodeError;
   the outcome of the fallback, success or any exception, is the outcome of safe_decode *)
Theorem C16_safe_decode_bytes : forall w b incoming errors,
  let first := bytes_decode w b (resolve_incoming w incoming) errors in
  (first <> CExn EUnicodeDecodeError -> safe_decode w (PBytes b) incoming errors = first) /\
  (first = CExn EUnicodeDecodeError ->
     safe_decode w (PBytes b) incoming errors = bytes_decode w b fallback_encoding errors).
Proof. exact safe_decode_bytes. Qed.
Print Assumptions C16_safe_decode_bytes.

(* safe_encode(t, encoding=e, errors) followed by safe_decode(.., incoming=e, errors) returns t for every
   text the codec named e can represent (strict decode of the strict encoding gives t back), whatever the
   letter case of e, the error policy and the incoming argument of safe_encode.
   Contracts on the codec: error handlers are consulted only on errors; b''.decode is ''. *)
Theorem C16_encode_decode_roundtrip : forall w e c t incoming0 errors,
  e <> [] ->
  lookup w e = Some c -> lookup_lower_ok w e ->
  enc_policy_irrelevant w c -> dec_policy_irrelevant w c ->
  dec w c [] strict_name = COk [] ->
  representsb w c t = true ->
  exists b, safe_encode w (PStr t) incoming0 e errors = COk (PBytes b) /\
            safe_decode w (PBytes b) (Some e) errors = COk t.
Proof. exact encode_decode_roundtrip. Qed.
Print Assumptions C16_encode_decode_roundtrip.

(* the same under the codec-wide contract "decode (encode t) = t whenever strict encoding succeeds":
   then "e can represent t" is just "t.encode(e) succeeds" *)
Theorem C16_encode_decode_roundtrip_contract : forall w e c t incoming0 errors b0,
  e <> [] ->
  lookup w e = Some c -> lookup_lower_ok w e ->
  enc_policy_irrelevant w c -> dec_policy_irrelevant w c -> codec_roundtrip w c ->
  dec w c [] strict_name = COk [] ->
  enc w c t strict_name = COk b0 ->
  safe_encode w (PStr t) incoming0 e errors = COk (PBytes b0) /\
  safe_decode w (PBytes b0) (Some e) errors = COk t.
Proof. exact encode_decode_roundtrip_contract. Qed.
Print Assumptions C16_encode_decode_roundtrip_contract.

(* safe_encode of bytes returns them untouched when the two names agree up to letter case
   (str.lower() of both; no codec is looked up, so this holds for unknown names too) *)
Theorem C16_safe_encode_bytes_same_codec_id : forall w b incoming encoding errors,
  py_lower encoding = py_lower (resolve_incoming w incoming) ->
  safe_encode w (PBytes b) incoming encoding errors = COk (PBytes b).
Proof. exact safe_encode_bytes_same_codec_id. Qed.
Print Assumptions C16_safe_encode_bytes_same_codec_id.

(* ... and also when they are empty, whatever the names (finding empty-bom: for utf-16/utf-32 this is
   not the transcoding of the empty text) *)
Theorem C16_safe_encode_empty_id : forall w incoming encoding errors,
  safe_encode w (PBytes []) incoming encoding errors = COk (PBytes []).
Proof. exact safe_encode_empty_id. Qed.
Print Assumptions C16_safe_encode_empty_id.

(* otherwise it transcodes: safe_decode with the lower-cased incoming name (UTF-8 fallback included),
   then str.encode with the lower-cased encoding name *)
Theorem C16_safe_encode_transcodes : forall w b incoming encoding errors,
  b <> [] ->
  py_lower encoding <> py_lower (resolve_incoming w incoming) ->
  safe_encode w (PBytes b) incoming encoding errors =
  cbind (safe_decode w (PBytes b) (Some (py_lower (resolve_incoming w incoming))) errors)
        (fun t => cmap PBytes (str_encode w t (py_lower encoding) errors)).
Proof. exact safe_encode_transcodes. Qed.
Print Assumptions C16_safe_encode_transcodes.

(* in terms of the codecs: if lookup ignores the letter case of the two names and the incoming codec
   decodes the bytes to t, the result is the encoding codec applied to t *)
Theorem C16_safe_encode_transcodes_codecs : forall w b incoming encoding errors cin cout t,
  b <> [] ->
  py_lower encoding <> py_lower (resolve_incoming w incoming) ->
  resolve_incoming w incoming <> [] ->
  lookup_lower_ok w (resolve_incoming w incoming) -> lookup_lower_ok w encoding ->
  lookup w (resolve_incoming w incoming) = Some cin -> lookup w encoding = Some cout ->
  dec w cin b errors = COk t ->
  safe_encode w (PBytes b) incoming encoding errors = cmap PBytes (enc w cout t errors).
Proof. exact safe_encode_transcodes_codecs. Qed.
Print Assumptions C16_safe_encode_transcodes_codecs.

(* to_utf8: identity on bytes, str.encode(<literal>, 'strict') on str, TypeError otherwise *)
Theorem C16_to_utf8_spec : forall w,
  (forall b, to_utf8 w (PBytes b) = COk (PBytes b)) /\
  (forall s, to_utf8 w (PStr s) = cmap PBytes (str_encode w s to_utf8_encoding strict_name)) /\
  (forall tag, to_utf8 w (POther tag) = CExn ETypeError).
Proof. exact to_utf8_spec. Qed.
Print Assumptions C16_to_utf8_spec.

(* each raises TypeError for any other type *)
Theorem C16_type_errors : forall w tag incoming encoding errors,
  safe_decode w (POther tag) incoming errors = CExn ETypeError /\
  safe_encode w (POther tag) incoming encoding errors = CExn ETypeError /\
  to_utf8 w (POther tag) = CExn ETypeError /\
  to_slug w (POther tag) incoming errors = CExn ETypeError.
Proof. exact type_errors. Qed.
Print Assumptions C16_type_errors.

(* type contract: safe_encode and to_utf8 return bytes whenever they return (safe_decode and to_slug
   return str by their Coq type) *)
Theorem C16_result_types : forall w v incoming encoding errors,
  (forall r, safe_encode w v incoming encoding errors = COk r -> exists b, r = PBytes b) /\
  (forall r, to_utf8 w v = COk r -> exists b, r = PBytes b).
Proof. exact result_types. Qed.
Print Assumptions C16_result_types.

(* to_slug yields only a-z 0-9 _ - and never two hyphens in a row (a leading and a trailing single hyphen
   are possible: to_slug('-a-') = '-a-'), for every input, provided the NFKD fold yields ASCII *)
Theorem C16_slug_alphabet : forall w value incoming errors o,
  fold_ascii_out w ->
  to_slug w value incoming errors = COk o ->
  forallb slug_char o = true /\ no_double_hyphen o = true.
Proof. exact to_slug_alphabet. Qed.
Print Assumptions C16_slug_alphabet.

(* applying it twice equals applying it once (the fold also leaves ASCII text alone) *)
Theorem C16_slug_idempotent : forall w value incoming errors o incoming' errors',
  fold_ascii_out w -> fold_ascii_id w ->
  to_slug w value incoming errors = COk o ->
  to_slug w (PStr o) incoming' errors' = COk o.
Proof. exact to_slug_idempotent. Qed.
Print Assumptions C16_slug_idempotent.

(* to_slug raises exactly what safe_decode raises *)
Theorem C16_slug_error : forall w value incoming errors e,
  to_slug w value incoming errors = CExn e <-> safe_decode w value incoming errors = CExn e.
Proof. exact to_slug_error. Qed.
Print Assumptions C16_slug_error.

(* ======================= Part B: the concrete world, no premises ======================= *)

(* UTF-8: every surrogate-free text of any length is encoded (under any policy) to bytes that decode
   (under any policy) to the same text *)
Theorem C16_utf8_codec_roundtrip : forall t, valid_text t = true ->
  exists b, (forall p, utf8_enc p t = COk b) /\ (forall p, utf8_dec p b = COk t).
Proof. exact utf8_roundtrip. Qed.
Print Assumptions C16_utf8_codec_roundtrip.

(* UTF-8 decoder rejects overlong forms, surrogates and values above U+10FFFF: whatever it accepts under
   'strict' is surrogate-free text whose encoding is exactly the input *)
Theorem C16_utf8_decoder_canonical : forall b t,
  utf8_dec Strict b = COk t -> valid_text t = true /\ utf8_enc Strict t = COk b.
Proof. exact utf8_dec_strict_canonical. Qed.
Print Assumptions C16_utf8_decoder_canonical.

(* the helpers' round trip for UTF-8 (all surrogate-free text), Latin-1 (text below U+0100) and ASCII
   (below U+0080), through any ASCII spelling of the codec name in any letter case, any error policy *)
Theorem C16_roundtrip_utf8_latin1_ascii : forall d e c t incoming0 errors,
  forallb is_ascii e = true ->
  lookup3 e = Some c ->
  representable3 c t = true ->
  exists b, safe_encode (world3 d) (PStr t) incoming0 e errors = COk (PBytes b) /\
            safe_decode (world3 d) (PBytes b) (Some e) errors = COk t.
Proof. exact world3_roundtrip. Qed.
Print Assumptions C16_roundtrip_utf8_latin1_ascii.

Theorem C16_to_utf8_is_utf8 : forall d s,
  to_utf8 (world3 d) (PStr s) = cmap PBytes (utf8_enc Strict s) /\
  (valid_text s = true -> exists b, to_utf8 (world3 d) (PStr s) = COk (PBytes b) /\ utf8_dec Strict b = COk s).
Proof. exact world3_to_utf8. Qed.
Print Assumptions C16_to_utf8_is_utf8.

Theorem C16_fallback_is_utf8 : forall d b incoming errors,
  bytes_decode (world3 d) b (resolve_incoming (world3 d) incoming) errors = CExn EUnicodeDecodeError ->
  safe_decode (world3 d) (PBytes b) incoming errors = utf8_dec (policy_of errors) b.
Proof. exact world3_safe_decode_fallback. Qed.
Print Assumptions C16_fallback_is_utf8.

Theorem C16_slug_alphabet_closed : forall d value incoming errors o,
  to_slug (world3 d) value incoming errors = COk o ->
  forallb slug_char o = true /\ no_double_hyphen o = true.
Proof. exact world3_slug_alphabet. Qed.
Print Assumptions C16_slug_alphabet_closed.

Theorem C16_slug_idempotent_closed : forall d value incoming errors o incoming' errors',
  to_slug (world3 d) value incoming errors = COk o ->
  to_slug (world3 d) (PStr o) incoming' errors' = COk o.
Proof. exact world3_slug_idempotent. Qed.
Print Assumptions C16_slug_idempotent_closed.

(* ======================= Part C: the regex engine ======================= *)

(* re.sub with a pattern that is one character class (Chr) or a run of one (Rep _ 1 None) and a template of
   literals replaces every member / every maximal run, for every class, template and subject *)
Theorem C16_re_sub_class : forall r t d s, csub_of r t = Some d -> re_sub r t s = csub_apply d s.
Proof. exact csub_correct. Qed.
Print Assumptions C16_re_sub_class.

(* ======================= instances (non-vacuity) ======================= *)
Definition w_ascii := world3 (lit "ascii").

Example ex_roundtrip_premises :
  forallb is_ascii (lit "UtF-8") = true /\ lookup3 (lit "UtF-8") = Some CUtf8 /\
  representable3 CUtf8 [233; 8364; 128512] = true.
Proof. vm_compute. repeat split. Qed.
Example ex_roundtrip :
  safe_encode w_ascii (PStr [233; 8364; 128512]) None (lit "UtF-8") (lit "replace")
    = COk (PBytes [195;169; 226;130;172; 240;159;152;128]) /\
  safe_decode w_ascii (PBytes [195;169; 226;130;172; 240;159;152;128]) (Some (lit "UtF-8")) (lit "replace")
    = COk [233; 8364; 128512].
Proof. vm_compute. split; reflexivity. Qed.
Example ex_latin1 : lookup3 (lit "ISO_8859-1:1987") = Some CLatin1 /\ representable3 CLatin1 [233; 255] = true.
Proof. vm_compute. split; reflexivity. Qed.
(* the abstract contracts are satisfiable: the concrete world has them *)
Example ex_contracts : forall d c,
  enc_policy_irrelevant (world3 d) c /\ dec_policy_irrelevant (world3 d) c /\ codec_roundtrip (world3 d) c /\
  fold_ascii_out (world3 d) /\ fold_ascii_id (world3 d).
Proof.
  intros d c. repeat split;
    [apply world3_enc_policy_irrelevant|apply world3_dec_policy_irrelevant|apply world3_codec_roundtrip
    |apply world3_fold_ascii_out|apply world3_fold_ascii_id].
Qed.
(* fallback: b'\xc3\xa9' is not ASCII, so safe_decode(.., 'ascii') answers with UTF-8; and when UTF-8 fails too
   the second failure escapes *)
Example ex_fallback :
  safe_decode w_ascii (PBytes [195; 169]) None (lit "strict") = COk [233] /\
  safe_decode w_ascii (PBytes [233]) None (lit "strict") = CExn EUnicodeDecodeError /\
  safe_decode w_ascii (PBytes [233]) (Some (lit "nope")) (lit "strict") = CExn ELookupError.
Proof. vm_compute. repeat split. Qed.
(* same codec in another letter case: untouched even though the bytes are not valid UTF-8; an alias spelling
   ("utf8") is a different name: transcoding, which fails on the same bytes *)
Example ex_same_codec :
  safe_encode w_ascii (PBytes [255]) (Some (lit "utf-8")) (lit "UTF-8") (lit "strict") = COk (PBytes [255]) /\
  safe_encode w_ascii (PBytes [255]) (Some (lit "utf-8")) (lit "utf8") (lit "strict") = CExn EUnicodeDecodeError /\
  safe_encode w_ascii (PBytes [233]) (Some (lit "latin-1")) (lit "UTF-8") (lit "strict") = COk (PBytes [195; 169]).
Proof. vm_compute. repeat split. Qed.
Example ex_slug :
  to_slug w_ascii (PStr (lit "  Hello,  W" ++ [246] ++ lit "rld -- x_1! ")) None (lit "strict") = COk (lit "hello-world-x_1") /\
  to_slug w_ascii (PStr (lit "-a-")) None (lit "strict") = COk (lit "-a-").
Proof. vm_compute. split; reflexivity. Qed.
(* the UTF-8 decoder: overlong forms (C0 80, E0 80 80, F0 80 80 80), a surrogate (ED A0 80) and a value above
   U+10FFFF (F4 90 80 80) are rejected under 'strict'; under 'replace' every maximal invalid prefix becomes
   one U+FFFD; a truncated but so far valid sequence (E2 82) is one error *)
Example ex_utf8_rejects :
  map (utf8_dec Strict) [[192;128]; [224;128;128]; [240;128;128;128]; [237;160;128]; [244;144;128;128]]
    = repeat (CExn EUnicodeDecodeError) 5 /\
  utf8_dec Replace [97; 224;128;128; 98] = COk [97; 65533; 65533; 65533; 98] /\
  utf8_dec Replace [97; 226;130] = COk [97; 65533] /\
  utf8_dec Ignore [97; 226;130; 98] = COk [97; 98] /\
  utf8_dec Strict [244;143;191;191] = COk [1114111].
Proof. vm_compute. repeat split. Qed.
