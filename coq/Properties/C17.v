(* Properties/C17.v — "Version helpers preserve ordering and PEP 440 semantics".
   Property theorems only; each is closed by [exact] of a lemma from Proofs/ and followed by
   Print Assumptions.

   Vocabulary.  Strings are lists of code points.  [convert_version_to_int_str s] is the model of
   convert_version_to_int on a str: re.sub with the GENERATED suffix regex and template, split on the
   GENERATED separator, int() per part (Base/PyInt.py_int), reduce with the GENERATED radix; every
   failure is ValueError.  [dotted v] = '.'.join(str(c) for c in v).  [suffix_alts], [suffix_d2]
   are the alternatives and the trailing digit class of the generated suffix regex; [pred_ws],
   [pred_ops], [pred_nw] the blank class, the operator alternatives and the version class of the
   generated predicate regex; [comp_map] the generated operator table.  packaging.version is a
   contract: an abstract type V with vparse (None = InvalidVersion, a ValueError), vle, veq, major. *)
From Coq Require Import String.
Require Import OV.Base.Bytes OV.Base.Py OV.Base.PyInt OV.Base.Str OV.Base.Regex.
Require Import OV.Gen.Versionutils OV.Model.C17 OV.Model.C17_Spec.
Require Import OV.Proofs.C04_Regex OV.Proofs.C17_Regex OV.Proofs.C17_Suffix OV.Proofs.C17_PredRe.
Require Import OV.Proofs.C17 OV.Proofs.C17_Int OV.Proofs.C17_Str OV.Proofs.C17_Pred OV.Proofs.C17_Equiv.
Open Scope Z_scope.

(* ================================================================ tuples (round 1) *)

(* convert_version_to_str (convert_version_to_int v) = v for every tuple of any
   length whose components lie in 0..999 and whose first component is non-zero *)
Theorem C17_roundtrip : forall v : list Z,
  v <> [] -> Forall (fun c => 0 <= c <= 999) v -> hd 1 v <> 0 ->
  exists n, tuple_to_int v = Ok n /\
            convert_version_to_str n = Some (join [version_sep] (map dec_of_Z v)).
Proof. exact version_roundtrip_999. Qed.
Print Assumptions C17_roundtrip.

(* comparing the integers orders equal-length versions as comparing the tuples *)
Theorem C17_order : forall a b : list Z,
  length a = length b ->
  Forall (fun c => 0 <= c <= 999) a -> Forall (fun c => 0 <= c <= 999) b ->
  exists na nb, tuple_to_int a = Ok na /\ tuple_to_int b = Ok nb /\ (na ?= nb) = lex_cmp a b
  \/ (a = [] /\ b = []).
Proof. exact int_order_999. Qed.
Print Assumptions C17_order.

(* ================================================================ convert_version_to_int on strings *)

(* exactly which component strings int() accepts:  blanks [+-]? digits(_digits)* blanks,
   digits = Unicode decimal digits, blanks = the whitespace int() skips *)
Theorem C17_int_accepts : forall s : str, py_int s <> None <-> int_literal s.
Proof. exact py_int_accepts. Qed.
Print Assumptions C17_int_accepts.

(* a non-numeric component raises ValueError — and nothing else does: the result is ValueError
   exactly when some '.'-separated part of the suffix-stripped string is not an int() literal *)
Theorem C17_nonnumeric_ValueError : forall s : str,
  convert_version_to_int_str s = Exn ValueError <->
  exists part, In part (version_parts s) /\ ~ int_literal part.
Proof. exact to_int_str_rejects. Qed.
Print Assumptions C17_nonnumeric_ValueError.

(* all parts numeric <-> an integer comes back, the radix fold of the parts' values *)
Theorem C17_numeric_Ok : forall s : str,
  (forall part, In part (version_parts s) -> int_literal part) <->
  exists v, map_opt py_int (version_parts s) = Some v /\ v <> [] /\
            convert_version_to_int_str s = Ok (fold_left (fun a y => a * radix_to_int + y) (tl v) (hd 0 v)).
Proof. exact to_int_str_accepts. Qed.
Print Assumptions C17_numeric_Ok.

(* no other outcome from a string (the TypeError of the empty tuple cannot arise) *)
Theorem C17_to_int_str_total : forall s : str,
  (exists n, convert_version_to_int_str s = Ok n) \/ convert_version_to_int_str s = Exn ValueError.
Proof. exact to_int_str_total. Qed.
Print Assumptions C17_to_int_str_total.

(* on a dotted decimal string the function is the tuple function (any integers, any length);
   `$` also lets one trailing newline through *)
Theorem C17_to_int_dotted : forall v : list Z, v <> [] ->
  convert_version_to_int_str (dotted v) = tuple_to_int v /\
  convert_version_to_int_str (dotted v ++ [10%N]) = tuple_to_int v.
Proof. intros v H. split; [exact (to_int_dotted v H)|exact (to_int_dotted_nl v H)]. Qed.
Print Assumptions C17_to_int_dotted.

(* an alpha/beta/rc suffix on the last component is ignored: for every alternative of the generated
   regex, followed by >= 1 characters of its digit class (Unicode digits), then the end of the string
   or one final newline *)
Theorem C17_suffix_ignored : forall (v : list Z) (sfx D tail : str),
  v <> [] -> In sfx suffix_alts -> all_in suffix_d2 D = true -> D <> [] -> tail = [] \/ tail = [10%N] ->
  convert_version_to_int_str (dotted v ++ sfx ++ D ++ tail) = convert_version_to_int_str (dotted v).
Proof. exact suffix_ignored. Qed.
Print Assumptions C17_suffix_ignored.

(* the markers of the property text are alternatives of the generated regex ... *)
Theorem C17_suffix_markers : incl [lit "a"; lit "alpha"; lit "b"; lit "beta"; lit "rc"] suffix_alts.
Proof. exact spec_suffixes_in. Qed.
Print Assumptions C17_suffix_markers.

(* ... so: a / alpha / b / beta / rc followed by >= 1 ASCII digits is ignored *)
Theorem C17_suffix_ignored_spec : forall (v : list Z) (sfx D : str),
  v <> [] -> In sfx [lit "a"; lit "alpha"; lit "b"; lit "beta"; lit "rc"] -> all_ascii_digits D = true -> D <> [] ->
  convert_version_to_int_str (dotted v ++ sfx ++ D) = convert_version_to_int_str (dotted v).
Proof. exact suffix_ignored_spec. Qed.
Print Assumptions C17_suffix_ignored_spec.

(* the round trip and the order on strings *)
Theorem C17_str_int_roundtrip : forall v : list Z,
  v <> [] -> Forall (fun c => 0 <= c <= 999) v -> hd 1 v <> 0 ->
  exists n, convert_version_to_int_str (dotted v) = Ok n /\ convert_version_to_str n = Some (dotted v).
Proof. exact str_int_roundtrip. Qed.
Print Assumptions C17_str_int_roundtrip.

Theorem C17_str_order : forall a b : list Z,
  a <> [] -> length a = length b ->
  Forall (fun c => 0 <= c <= 999) a -> Forall (fun c => 0 <= c <= 999) b ->
  exists na nb, convert_version_to_int_str (dotted a) = Ok na /\ convert_version_to_int_str (dotted b) = Ok nb /\
                (na ?= nb) = lex_cmp a b.
Proof. exact str_order. Qed.
Print Assumptions C17_str_order.

(* ================================================================ is_compatible *)

Theorem C17_is_compatible : forall (V : Type) (vle : V -> V -> bool) (major : V -> Z) req cur sm,
  is_compatible V vle major req cur sm = true <->
  (vle req cur = true /\ (sm = true -> major req = major cur)).
Proof. exact is_compatible_spec. Qed.
Print Assumptions C17_is_compatible.

(* on strings: ValueError when a version does not parse, else the reading above *)
Theorem C17_is_compatible_str : forall (V : Type) (vparse : str -> option V) (vle : V -> V -> bool) (major : V -> Z) req cur sm,
  ((vparse req = None \/ vparse cur = None) -> is_compatible_str V vparse vle major req cur sm = Exn ValueError) /\
  (forall r c, vparse req = Some r -> vparse cur = Some c ->
     exists b, is_compatible_str V vparse vle major req cur sm = Ok b /\
               (b = true <-> (vle r c = true /\ (sm = true -> major r = major c)))).
Proof. exact is_compatible_str_spec. Qed.
Print Assumptions C17_is_compatible_str.

(* ================================================================ VersionPredicate *)
Open Scope N_scope.

(* satisfied_by holds exactly when every comparison of the predicate does *)
Theorem C17_satisfied_by : forall (V : Type) (vle veq : V -> V -> bool) preds v,
  satisfied_by V vle veq preds v = true <->
  (forall p, In p preds -> cmp_holds V vle veq (fst p) v (snd p) = true).
Proof. exact satisfied_by_spec. Qed.
Print Assumptions C17_satisfied_by.

(* all six comparison operators are present in the generated operator map *)
Theorem C17_comp_map_complete :
  forall o, In o [OpLt; OpLe; OpEq; OpGt; OpGe; OpNe] -> In o (map snd comp_map).
Proof. exact comp_map_complete. Qed.
Print Assumptions C17_comp_map_complete.

(* the regex alternatives and the keys of the operator map coincide (no KeyError in satisfied_by,
   and every operator of the map can be written) *)
Theorem C17_regex_ops_are_map_keys :
  (forall o, In o pred_ops -> exists op, assoc_str o comp_map = Some op) /\
  (forall k op, In (k, op) comp_map -> In k pred_ops /\ assoc_str k comp_map = Some op).
Proof. split; [exact ops_are_keys|]. intros k op H. split; [exact (keys_are_ops k op H)|exact (assoc_in k op H)]. Qed.
Print Assumptions C17_regex_ops_are_map_keys.

(* THE PARSER.  For every non-empty list of comparisons  blanks op blanks version blanks
   (op a key of the generated map with operator [o]; version non-empty, of non-blank characters,
   without comma; and, when nothing separates them, the version does not start with '=' — otherwise
   "<" "=1" reads as "<=" "1"), joined by commas, the parser returns exactly the (operator, version
   text) pairs in order. *)
Theorem C17_parse_predicates : forall (cs : list cmp_text) (ops : list cmpop),
  cs <> [] ->
  Forall2 (fun c o =>
     In (c_op c, o) comp_map /\
     all_in pred_ws (c_lead c) = true /\ all_in pred_ws (c_mid c) = true /\ all_in pred_ws (c_trail c) = true /\
     c_ver c <> [] /\ all_in pred_nw (c_ver c) = true /\ ~ In comma (c_ver c) /\
     (c_mid c <> [] \/ hd 0 (c_ver c) <> 61)) cs ops ->
  parse_predicates (join [comma] (map render_cmp cs)) = Some (combine ops (map c_ver cs)).
Proof. exact parse_predicates_wf. Qed.
Print Assumptions C17_parse_predicates.

(* ... and __init__ then returns those operators with the parsed versions, or ValueError when
   one of the version texts is not a version *)
Theorem C17_predicate_init : forall (V : Type) (vparse : str -> option V) cs ops,
  cs <> [] -> Forall2 wf_cmp cs ops ->
  (forall vs, Forall2 (fun c v => vparse (c_ver c) = Some v) cs vs ->
     predicate_init V vparse (join [comma] (map render_cmp cs)) = Ok (combine ops vs)) /\
  (forall c, In c cs -> vparse (c_ver c) = None ->
     predicate_init V vparse (join [comma] (map render_cmp cs)) = Exn ValueError).
Proof. intros V vparse cs ops H1 H2. split; [intros vs; exact (init_wf V vparse cs ops vs H1 H2)|intros c; exact (init_bad_version V vparse cs ops c H1 H2)]. Qed.
Print Assumptions C17_predicate_init.

(* exactly which parts the generated regex accepts (`^\s*`, `\s*$` admit newlines: they are blanks) *)
Theorem C17_part_accepted : forall part : str,
  psplit part <> None <->
  exists a1 o a2 ver a3, part = a1 ++ o ++ a2 ++ ver ++ a3 /\ In o pred_ops /\
    all_in pred_ws a1 = true /\ all_in pred_ws a2 = true /\ all_in pred_nw ver = true /\ ver <> [] /\ all_in pred_ws a3 = true.
Proof. exact part_accepted. Qed.
Print Assumptions C17_part_accepted.

(* a malformed predicate raises ValueError: any comma-separated part the regex rejects *)
Theorem C17_malformed_predicate_ValueError : forall (V : Type) (vparse : str -> option V) s part,
  In part (split_char comma s) -> psplit part = None -> predicate_init V vparse s = Exn ValueError.
Proof. exact init_malformed. Qed.
Print Assumptions C17_malformed_predicate_ValueError.

(* ... the rejected parts, by family: empty or blank (the empty predicate string, ",," and
   leading/trailing commas produce such parts — nothing filters them out) *)
Theorem C17_reject_blank : forall part, all_in pred_ws part = true -> psplit part = None.
Proof. exact reject_blank. Qed.
Print Assumptions C17_reject_blank.

(* no operator / unknown operator: after the leading blanks no alternative of the regex is a prefix *)
Theorem C17_reject_no_operator : forall part,
  (forall o, In o pred_ops -> prefixb o (snd (span_cs pred_ws part)) = false) -> psplit part = None.
Proof. exact reject_no_op. Qed.
Print Assumptions C17_reject_no_operator.

(* empty version (for "<=" and ">=" the hypothesis fails, and indeed ">=" alone is read as ">" "=":
   see parse_examples) *)
Theorem C17_reject_empty_version : forall a1 o a2,
  all_in pred_ws a1 = true -> In o pred_ops -> all_in pred_ws a2 = true ->
  (forall x, In x pred_ops -> prefixb x (o ++ a2) = true -> x = o) ->
  psplit (a1 ++ o ++ a2) = None.
Proof. exact reject_empty_ver. Qed.
Print Assumptions C17_reject_empty_version.

(* blanks inside the version *)
Theorem C17_reject_inner_whitespace : forall a1 o a2 v1 w v2 a3,
  all_in pred_ws a1 = true -> In o pred_ops -> v1 <> [] -> all_in pred_nw v1 = true ->
  w <> [] -> all_in pred_ws w = true -> v2 <> [] -> all_in pred_nw v2 = true ->
  (forall x, In x pred_ops -> prefixb x (o ++ a2 ++ v1 ++ w ++ v2 ++ a3) = true -> (length x < length (o ++ a2 ++ v1))%nat) ->
  psplit (a1 ++ o ++ a2 ++ v1 ++ w ++ v2 ++ a3) = None.
Proof. exact reject_inner_blank. Qed.
Print Assumptions C17_reject_inner_whitespace.

(* __init__ returns a list or raises ValueError, nothing else *)
Theorem C17_predicate_init_total : forall (V : Type) (vparse : str -> option V) s,
  (exists l, predicate_init V vparse s = Ok l) \/ predicate_init V vparse s = Exn ValueError.
Proof. exact init_total. Qed.
Print Assumptions C17_predicate_init_total.

(* satisfied_by on a version string *)
Theorem C17_satisfied_by_str : forall (V : Type) (vparse : str -> option V) (vle veq : V -> V -> bool) preds vs,
  (vparse vs = None -> predicate_satisfied_by V vparse vle veq preds vs = Exn ValueError) /\
  (forall v, vparse vs = Some v ->
     exists b, predicate_satisfied_by V vparse vle veq preds vs = Ok b /\
               (b = true <-> forall p, In p preds -> cmp_holds V vle veq (fst p) v (snd p) = true)).
Proof. exact satisfied_by_str_spec. Qed.
Print Assumptions C17_satisfied_by_str.
