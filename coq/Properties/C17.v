(* Properties/C17.v — property theorems only; each is closed by [exact] of a lemma
   from Proofs/ and followed by Print Assumptions. *)
Require Import OV.Base.Bytes OV.Base.Py OV.Base.PyInt OV.Base.Str OV.Base.Regex.
Require Import OV.Gen.Versionutils OV.Model.C17 OV.Proofs.C17.
Open Scope Z_scope.

(* convert_version_to_str (convert_version_to_int v) = v for every tuple of any
   length whose components lie in 0..999 and whose first component is non-zero *)
Theorem C17_roundtrip : forall v : list Z,
  v <> [] -> Forall (fun c => 0 <= c <= 999) v -> hd 1 v <> 0 ->
  exists n, tuple_to_int v = Ok n /\
            convert_version_to_str n = Some (join [version_sep] (map dec_of_Z v)).
Proof. exact version_roundtrip_999. Qed.
Print Assumptions C17_roundtrip.

(* comparing the integers orders equal-length versions as comparing the tuples *)
Theorem C17_order : forall a b : list Z,
  length a = length b ->
  Forall (fun c => 0 <= c <= 999) a -> Forall (fun c => 0 <= c <= 999) b ->
  exists na nb, tuple_to_int a = Ok na /\ tuple_to_int b = Ok nb /\ (na ?= nb) = lex_cmp a b
  \/ (a = [] /\ b = []).
Proof. exact int_order_999. Qed.
Print Assumptions C17_order.

(* is_compatible(req, cur, same_major) <-> cur >= req and (same_major -> equal majors),
   for whatever total order the version library supplies *)
Theorem C17_is_compatible : forall (V : Type) (vle : V -> V -> bool) (major : V -> Z) req cur sm,
  is_compatible V vle major req cur sm = true <->
  (vle req cur = true /\ (sm = true -> major req = major cur)).
Proof. exact is_compatible_spec. Qed.
Print Assumptions C17_is_compatible.

(* satisfied_by holds exactly when every comparison of the predicate does *)
Theorem C17_satisfied_by : forall (V : Type) (vle veq : V -> V -> bool) preds v,
  satisfied_by V vle veq preds v = true <->
  (forall p, In p preds -> cmp_holds V vle veq (fst p) v (snd p) = true).
Proof. exact satisfied_by_spec. Qed.
Print Assumptions C17_satisfied_by.

(* all six comparison operators are present in the generated operator map *)
Theorem C17_comp_map_complete :
  forall o, In o [OpLt; OpLe; OpEq; OpGt; OpGe; OpNe] -> In o (map snd comp_map).
Proof. exact comp_map_complete. Qed.
Print Assumptions C17_comp_map_complete.
