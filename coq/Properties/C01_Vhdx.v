(* Properties/C01_Vhdx.v — C01 for VHDXInspector: the verdict depends on the bytes only, never on the
   chunking — outside the two known findings F2 (backward pointers) and F4 (bad 'metadata' signature),
   which are decidable predicates on the bytes.  Only the property theorems; proofs in Proofs/C01_Vhdx*.v.

   verdict_of (run F_vhdx cs) = what an InspectWrapper-style caller sees after feeding the chunks cs to a
   fresh VHDXInspector (stopping at the first exception) and calling finish(): the escaped exception,
   format_match, complete, virtual_size, safety_check().
   vhdx_spec b (Model/C01_Vhdx.v) reads the whole byte string b, with no notion of chunks or positions. *)
Require Import OV.Base.Bytes OV.Base.Py OV.Base.Insp_Struct OV.Gen.Insp_Consts OV.Model.Insp_Engine.
Require Import OV.Model.Insp_Vhdx OV.Model.Insp_All OV.Model.C01_Vhdx.
Require Import OV.Proofs.Insp_All OV.Proofs.C01_Vhdx OV.Proofs.C01_Vhdx_Fuel OV.Proofs.C01_Vhdx_Witness.
Open Scope N_scope.

(* vhdx_refines_spec: for ALL byte strings b outside the two zones and ALL chunk lists cs that
   concatenate to b (empty chunks allowed), the verdict is vhdx_spec b. *)
Theorem C01_vhdx_refines_spec : forall b cs,
  zone_vhdx_backptr b = false -> zone_vhdx_metasig b = false -> concat cs = b ->
  verdict_of (run F_vhdx cs) = vhdx_spec b.
Proof. exact vhdx_refines_spec. Qed.
Print Assumptions C01_vhdx_refines_spec.

(* non-vacuity: a well-formed image (builder-style layout: foreign entries before the METAREGION and
   VIRTUAL_DISK_SIZE entries, metadata at 260 KiB, size item at +64 KiB) lies outside both zones, and the
   specification reads its declared size *)
Example C01_vhdx_wellformed_outside_zones :
  zone_vhdx_backptr wf_image = false /\ zone_vhdx_metasig wf_image = false.
Proof. exact wf_image_outside. Qed.
Example C01_vhdx_wellformed_spec :
  vhdx_spec wf_image = mkVerdict None (Ok true) true (Ok 4294967297%Z) Pass.
Proof. exact wf_image_spec. Qed.

(* two chunkings of the same bytes give the same verdict ... *)
Theorem C01_vhdx_chunking_independent : forall cs1 cs2,
  zone_vhdx_backptr (concat cs1) = false -> zone_vhdx_metasig (concat cs1) = false ->
  concat cs1 = concat cs2 -> verdict_of (run F_vhdx cs1) = verdict_of (run F_vhdx cs2).
Proof. exact vhdx_chunking_independent. Qed.
Print Assumptions C01_vhdx_chunking_independent.

(* ... and empty chunks change nothing *)
Theorem C01_vhdx_empty_chunks_irrelevant : forall cs,
  zone_vhdx_backptr (concat cs) = false -> zone_vhdx_metasig (concat cs) = false ->
  verdict_of (run F_vhdx (filter nonempty cs)) = verdict_of (run F_vhdx cs).
Proof. exact vhdx_empty_chunks_irrelevant. Qed.
Print Assumptions C01_vhdx_empty_chunks_irrelevant.

(* the `while new_regions` loop of eat_chunk never runs out of the model's fuel: from EVERY inspector
   state (reachable or not, inside the zones or not) and for EVERY chunk, eat_chunk does not end in the
   model-only OtherError — post_process can create at most two region objects in a chunk *)
Theorem C01_vhdx_fuel_never_exhausted : forall (s : ist unit) c,
  snd (eat_chunk vhdx_fmt s c) <> Some OtherError.
Proof. exact vhdx_fuel_never_exhausted. Qed.
Print Assumptions C01_vhdx_fuel_never_exhausted.

(* the statement without the zone hypotheses is FALSE for the code that exists *)
Definition C01_vhdx_full_statement : Prop := vhdx_full_statement.
Theorem C01_vhdx_full_statement_refuted : ~ C01_vhdx_full_statement.
Proof. exact vhdx_full_statement_refuted. Qed.
Print Assumptions C01_vhdx_full_statement_refuted.

(* F2 (metadata region before the region table: offset 100000 < 256 KiB; one chunk finds the size 77,
   [200000; rest] never captures the metadata region) *)
Theorem C01_refuted_vhdx_backptr :
  exists cs1 cs2, concat cs1 = concat cs2 /\
    zone_vhdx_backptr (concat cs1) = true /\ zone_vhdx_metasig (concat cs1) = false /\
    verdict_of (run F_vhdx cs1) <> verdict_of (run F_vhdx cs2).
Proof. exact refuted_vhdx_backptr. Qed.
Print Assumptions C01_refuted_vhdx_backptr.

(* F2, second kind (size item at offset 40 inside the 64-byte entry table) *)
Theorem C01_refuted_vhdx_backptr_item :
  exists cs1 cs2, concat cs1 = concat cs2 /\
    zone_vhdx_backptr (concat cs1) = true /\ zone_vhdx_metasig (concat cs1) = false /\
    verdict_of (run F_vhdx cs1) <> verdict_of (run F_vhdx cs2).
Proof. exact refuted_vhdx_backptr_item. Qed.
Print Assumptions C01_refuted_vhdx_backptr_item.

(* F4 (64 KiB of metadata region whose signature is 'metadatb': one chunk leaves a complete inspector
   that passes safety_check, [270336; rest] an incomplete one that is refused) *)
Theorem C01_refuted_vhdx_metasig :
  exists cs1 cs2, concat cs1 = concat cs2 /\
    zone_vhdx_backptr (concat cs1) = false /\ zone_vhdx_metasig (concat cs1) = true /\
    verdict_of (run F_vhdx cs1) <> verdict_of (run F_vhdx cs2).
Proof. exact refuted_vhdx_metasig. Qed.
Print Assumptions C01_refuted_vhdx_metasig.
