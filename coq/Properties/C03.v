(* Properties/C03.v — C03: format detection is exclusive, conservative about raw, and total.
   Property theorems only; proofs in Proofs/C03_*.v.  The model (Model/C03.v) is the generic
   InspectWrapper model (Model/Wrap.v, C06) instantiated with the ten concrete inspectors of the
   shared model (Model/Insp_All.v).  Vocabulary:
     cs : list bytes             the chunks the reads returned (ANY chunk list = any content x any read sizes)
     read_so_far e a cs w        a fresh InspectWrapper(expected_format=e, allowed_formats=a) returned the chunks
                                 cs, no call raised; w = the wrapper now        (cw_run_stop, Model/Wrap.v)
     read_and_closed e a cs w    ... and close() was called; w = the wrapper after close()
     wreach e a w                w = the wrapper after ANY sequence of read/next/close calls (reader going on after
                                 exceptions included)
     cw_format / cw_formats      InspectWrapper.format / .formats over the boolean view of format_match
     format_r / formats_r        the same with the queries as they are (format_match may raise)
     sigb f b                    the declarative signature predicate of format f on the bytes b (Proofs/C03_Sig.v)
     ireach st i                 inspector object i is reachable by feeding the stream st in any chunks, also
                                 after an exception / after finish (Proofs/Insp_All.v)
   allowed_formats = [] means "all formats", like None (the code tests `not allowed_formats`). *)
Require Import OV.Base.Bytes OV.Base.Py OV.Base.C06_WrapShape OV.Base.Insp_Struct.
Require Import OV.Gen.Insp_Consts OV.Gen.C06_Wrapper OV.Model.Insp_Engine OV.Model.Insp_All OV.Model.Insp_Vhdx OV.Model.Insp_Vmdk.
Require Import OV.Model.Wrap OV.Model.C03.
Require Import OV.Proofs.Insp_Engine OV.Proofs.Insp_All OV.Proofs.Wrap OV.Proofs.C06.
Require Import OV.Proofs.C03_Engine OV.Proofs.C03_Total OV.Proofs.C03_Sig OV.Proofs.C03_Wrap OV.Proofs.C03_Stable OV.Proofs.C03_Props.
Require Import OV.Model.C01_Vhdx OV.Model.C01_Vmdk OV.Proofs.C01_Vhdx_Witness OV.Proofs.C01_Vmdk_Witness.
Require Import OV.Proofs.C03_All OV.Proofs.C03_Reach OV.Proofs.C03_Abort OV.Proofs.C03_Examples.
Open Scope N_scope.

(* ================================================================== queries_total *)
(* In EVERY reachable state of EVERY concrete inspector (any chunks, empty chunks, states frozen after
   an exception, after finish, chunks after finish) format_match returns; complete is a total boolean.
   This is the statement finding D2 broke (VMDKInspector.vmdktype uninitialised: AttributeError). *)
Theorem C03_queries_total : forall st i, ireach st i -> exists b, format_match i = Ok b.
Proof. exact format_match_total. Qed.
Print Assumptions C03_queries_total.

(* the same, inspector by inspector, on the engine objects *)
Theorem C03_queries_total_each :
  total Insp_Raw.raw_fmt /\ total Insp_Qcow2.qcow_fmt /\ total Insp_Vhd.vhd_fmt /\ total vhdx_fmt /\ total vmdk_fmt /\
  total Insp_Vdi.vdi_fmt /\ total Insp_Qed.qed_fmt /\ total Insp_Iso.iso_fmt /\ total Insp_Gpt.gpt_fmt /\ total Insp_Luks.luks_fmt.
Proof. exact (conj raw_total (conj qcow_total (conj vhd_total (conj vhdx_total (conj vmdk_total
               (conj vdi_total (conj qed_total (conj iso_total (conj gpt_total luks_total))))))))). Qed.
Print Assumptions C03_queries_total_each.

(* hence, on every wrapper a reader can produce, the properties with raising queries are the boolean ones *)
Theorem C03_format_r_is_format : forall expected allowed w, wreach expected allowed w ->
  format_r w = cw_format w /\ formats_r w = Ok (cw_formats w) /\
  ((exists r, format_r w = Ok r) \/ format_r w = Exn ImageFormatError).
Proof. exact format_total_r. Qed.
Print Assumptions C03_format_r_is_format.

(* ================================================================== C03_detection_total *)
(* format and formats never produce anything but a result or ImageFormatError — for every wrapper
   reachable by any call sequence, whatever the content, read sizes, expected_format, allowed_formats
   (formats itself never raises at all) *)
Theorem C03_detection_total : forall expected allowed w, wreach expected allowed w ->
  (exists fs, formats_r w = Ok fs) /\ ((exists r, format_r w = Ok r) \/ format_r w = Exn ImageFormatError).
Proof.
  intros expected allowed w H. destruct (format_total_r expected allowed w H) as (_ & H2 & H3). split; [eauto | exact H3].
Qed.
Print Assumptions C03_detection_total.

(* detect_file_format (4096-byte reads, early return, close() in finally), with the raising queries:
   for every file content it returns the NAME of an inspector or raises ImageFormatError; never None,
   never another exception; the file is closed and every inspector finished *)
Theorem C03_detect_file_format_total : forall data,
  let '(w, s, tr, r) := detect_r data in
  ((exists nm, r = Ok (Some nm)) \/ r = Exn ImageFormatError) /\ f_closed s = true /\ w_finished w = true /\ f_data s = data.
Proof. exact detect_total. Qed.
Print Assumptions C03_detect_file_format_total.

Theorem C03_detect_r_is_detect : forall data, detect_r data = cw_detect data.
Proof. exact detect_r_spec. Qed.
Print Assumptions C03_detect_r_is_detect.

(* ================================================================== C03_format_implies_signature *)
(* After the stream cs has been read through and closed: format names a specific format f only if f's
   signature predicate holds of the content — for ALL contents and ALL read-size sequences, all ten formats
   (vmdk: KDMV at 0, or the text zone F1: first 64 bytes printable ASCII) *)
Theorem C03_format_implies_signature : forall expected allowed cs w m f,
  read_and_closed expected allowed cs w -> cw_format w = Ok (Some m) -> s_name m = fmt_name f -> f <> F_raw ->
  sigb f (concat cs) = true.
Proof. exact format_implies_signature. Qed.
Print Assumptions C03_format_implies_signature.

(* ... and a decision reported BEFORE close (after the reads cs) already carries the signature of the bytes read so far *)
Theorem C03_early_format_implies_signature : forall expected allowed cs w m f,
  read_so_far expected allowed cs w -> cw_format w = Ok (Some m) -> s_name m = fmt_name f -> f <> F_raw ->
  sigb f (concat cs) = true.
Proof. exact early_format_implies_signature. Qed.
Print Assumptions C03_early_format_implies_signature.

(* static formats (C01 static refinement): format_match of the closed inspector IS the signature predicate *)
Theorem C03_static_match_is_signature : forall f cs, is_static f = true -> cmatch (fst (run f cs)) = sigb f (concat cs).
Proof. exact closed_static_match. Qed.
Print Assumptions C03_static_match_is_signature.

(* vhdx / vmdk: in every reachable state, format_match implies the signature of the stream seen so far *)
Theorem C03_format_implies_signature_vhdx : forall st s,
  reach vhdx_fmt st s -> f_match vhdx_fmt s = Ok true -> sigb F_vhdx st = true.
Proof. exact vhdx_match_signature. Qed.
Print Assumptions C03_format_implies_signature_vhdx.
Theorem C03_format_implies_signature_vmdk : forall st s,
  reach vmdk_fmt st s -> f_match vmdk_fmt s = Ok true -> sigb F_vmdk st = true.
Proof. exact vmdk_match_signature. Qed.
Print Assumptions C03_format_implies_signature_vmdk.

(* what the predicates say (constants regenerated from /repo) *)
Example C03_sig_qcow2 : forall b, sigb F_qcow2 b = (512 <=? blen b) && prefixb [81;70;73;251] b.
Proof. exact sig_reading_qcow2. Qed.
Example C03_sig_qed : forall b, sigb F_qed b = (512 <=? blen b) && prefixb [81;69;68;0] b.
Proof. exact sig_reading_qed. Qed.
Example C03_sig_vhd : forall b, sigb F_vhd b = prefixb [99;111;110;101;99;116;105;120] b.
Proof. exact sig_reading_vhd. Qed.
Example C03_sig_vhdx : forall b, sigb F_vhdx b = prefixb [118;104;100;120;102;105;108;101] b.
Proof. exact sig_reading_vhdx. Qed.
Example C03_sig_vdi : forall b, sigb F_vdi b = (512 <=? blen b) && (le_val (bsub 64 68 b) =? 3201962111).
Proof. exact sig_reading_vdi. Qed.
Example C03_sig_iso : forall b, sigb F_iso b =
  (32768 <=? blen b) && (34816 <=? blen b) && mem_str (bsub 32769 32774 b) [[67;68;48;48;49]; [78;83;82;48;50]; [78;83;82;48;51]].
Proof. exact sig_reading_iso. Qed.
Example C03_sig_gpt : forall b, sigb F_gpt b =
  (512 <=? blen b) && (le_val (bsub 510 512 b) =? 43605) && negb ((bnth 16 b =? 2) && (bnth 21 b =? 248)).
Proof. exact sig_reading_gpt. Qed.
Example C03_sig_luks : forall b, sigb F_luks b = beq (btake 6 b) [76;85;75;83;186;190].
Proof. exact sig_reading_luks. Qed.
Example C03_sig_vmdk : forall b, sigb F_vmdk b =
  prefixb [75;68;77;86] b ||
  ((64 <=? blen b) && forallb ascii_text (btake 64 b) &&
   occursb [99;114;101;97;116;101;116;121;112;101;61;34] (OV.Base.Str.lower_ascii (OV.Model.C01_Vmdk.upto_nul b))).
Proof. exact sig_reading_vmdk. Qed.

(* ================================================================== C03_unique *)
(* format names m (not raw): no other non-raw inspector of the wrapper matches — any wrapper *)
Theorem C03_unique : forall (w : cwrapper) m m',
  cw_format w = Ok (Some m) -> cw_is_raw m = false ->
  In m' (w_slots w) -> cw_is_raw m' = false -> cmatch (s_insp m') = true -> m' = m.
Proof. exact unique_match. Qed.
Print Assumptions C03_unique.

(* on the content: the reported format carries its signature and no other allowed static format does *)
Theorem C03_unique_signature : forall expected allowed cs w m f,
  read_and_closed expected allowed cs w -> cw_format w = Ok (Some m) -> s_name m = fmt_name f -> f <> F_raw ->
  sigb f (concat cs) = true /\
  forall g, g <> F_raw -> g <> f -> is_static g = true -> allowed_key allowed (fmt_name g) = true -> sigb g (concat cs) = false.
Proof. exact unique_signature. Qed.
Print Assumptions C03_unique_signature.

(* ================================================================== C03_multiple_raise *)
(* two distinct allowed non-raw inspectors match after close: format raises ImageFormatError *)
Theorem C03_multiple_raise : forall expected allowed cs w g1 g2,
  read_and_closed expected allowed cs w -> g1 <> g2 -> g1 <> F_raw -> g2 <> F_raw ->
  allowed_key allowed (fmt_name g1) = true -> allowed_key allowed (fmt_name g2) = true ->
  cmatch (fst (run g1 cs)) = true -> cmatch (fst (run g2 cs)) = true ->
  cw_format w = Exn ImageFormatError.
Proof. exact multiple_raise. Qed.
Print Assumptions C03_multiple_raise.

(* on the content (static formats): two signatures present => ImageFormatError, for every read-size sequence *)
Theorem C03_multiple_signatures_raise : forall expected allowed cs w g1 g2,
  read_and_closed expected allowed cs w -> g1 <> g2 -> g1 <> F_raw -> g2 <> F_raw ->
  is_static g1 = true -> is_static g2 = true ->
  allowed_key allowed (fmt_name g1) = true -> allowed_key allowed (fmt_name g2) = true ->
  sigb g1 (concat cs) = true -> sigb g2 (concat cs) = true ->
  cw_format w = Exn ImageFormatError.
Proof. exact multiple_signatures_raise. Qed.
Print Assumptions C03_multiple_signatures_raise.

(* at any time (not only after close), on any wrapper: decided and two matches => ImageFormatError *)
Theorem C03_two_matches_raise : forall (w : cwrapper),
  decided istate complete raw_lit_nonraw w = true -> (1 < length (cw_matches w))%nat -> cw_format w = Exn ImageFormatError.
Proof. exact (two_matches_raise istate complete cmatch raw_lit_nonraw raw_lit_raw). Qed.
Print Assumptions C03_two_matches_raise.

(* ================================================================== C03_raw_rules *)
(* raw is reported only when raw is allowed and nothing else matches (no allowed non-raw inspector
   matches; no allowed static format has its signature in the content) *)
Theorem C03_raw_rules : forall expected allowed cs w m,
  read_and_closed expected allowed cs w -> cw_format w = Ok (Some m) -> cw_is_raw m = true ->
  allowed_key allowed raw_lit_raw = true /\ cw_matches w = [] /\
  (forall g, g <> F_raw -> allowed_key allowed (fmt_name g) = true -> cmatch (fst (run g cs)) = false) /\
  (forall g, g <> F_raw -> is_static g = true -> allowed_key allowed (fmt_name g) = true -> sigb g (concat cs) = false).
Proof. exact raw_rules. Qed.
Print Assumptions C03_raw_rules.

(* raw never together with another format in formats — any wrapper, any time *)
Theorem C03_raw_never_with_others : forall (w : cwrapper) ms,
  cw_formats w = Some ms -> (exists m, In m ms /\ cw_is_raw m = true) ->
  cw_matches w = [] /\ Forall (fun m => cw_is_raw m = true) ms.
Proof. exact (raw_never_with_others istate complete cmatch raw_lit_nonraw raw_lit_raw raw_lits_agree). Qed.
Print Assumptions C03_raw_never_with_others.

(* ================================================================== C03_allowed *)
(* a non-empty allowed_formats: only inspectors with those names exist (the others are never fed, never
   reported), in every reachable wrapper *)
Theorem C03_allowed : forall expected allowed w,
  wreach expected allowed w -> allowed <> [] ->
  (forall s, In s (w_slots w) -> In (s_name s) allowed) /\
  (forall m, cw_format w = Ok (Some m) -> In (s_name m) allowed) /\
  (forall ms m, cw_formats w = Some ms -> In m ms -> In (s_name m) allowed).
Proof. exact allowed_respected. Qed.
Print Assumptions C03_allowed.

(* allowed_formats = [] (like None) means all formats of ALL_FORMATS *)
Theorem C03_allowed_empty_means_all : forall expected,
  map (@s_name istate) (w_slots (cw_new expected [])) = map fmt_name Insp_Consts.all_formats.
Proof. exact allowed_empty_all. Qed.
Print Assumptions C03_allowed_empty_means_all.

(* ================================================================== C03_decision_stable *)
(* a non-None format reported after the reads cs1 is not revised by ANY further reads cs2, nor by close() *)
Theorem C03_decision_stable : forall expected allowed cs1 w1 m1,
  read_so_far expected allowed cs1 w1 -> cw_format w1 = Ok (Some m1) ->
  (forall cs2 w2, read_so_far expected allowed (cs1 ++ cs2) w2 ->
     exists m2, cw_format w2 = Ok (Some m2) /\ s_name m2 = s_name m1) /\
  (forall cs2 w3, read_and_closed expected allowed (cs1 ++ cs2) w3 ->
     exists m3, cw_format w3 = Ok (Some m3) /\ s_name m3 = s_name m1).
Proof. exact decision_stable. Qed.
Print Assumptions C03_decision_stable.

(* per inspector: complete at a chunk boundary => every further chunk leaves regions and attributes as
   they are (only the position moves), for all ten inspectors and every continuation *)
Theorem C03_inspector_stable : forall f cs1 cs2,
  complete (fst (eat_list (init f) cs1)) = true ->
  exists p, fst (eat_list (init f) (cs1 ++ cs2)) = ipos (fst (eat_list (init f) cs1)) p.
Proof. exact after_more. Qed.
Print Assumptions C03_inspector_stable.

Theorem C03_inspector_stable_queries : forall i p, complete (ipos i p) = complete i /\ format_match (ipos i p) = format_match i.
Proof. exact (fun i p => conj (complete_ipos i p) (format_match_ipos i p)). Qed.
Print Assumptions C03_inspector_stable_queries.

(* ================================================================== the wrapper after read-through and close *)
(* every inspector of the collection holds the run of that inspector on the delivered chunks *)
Theorem C03_closed_wrapper : forall expected allowed cs w,
  read_and_closed expected allowed cs w -> w = closed_wrapper expected allowed cs.
Proof. exact read_and_closed_is. Qed.
Print Assumptions C03_closed_wrapper.

(* without expected_format every chunk list is read through: the hypotheses above are met by every content
   and every read-size sequence *)
Theorem C03_reads_through : forall allowed cs, exists w, read_so_far None allowed cs w.
Proof. exact no_expectation_reads_through. Qed.
Print Assumptions C03_reads_through.

(* read_so_far does NOT exclude inspectors that raise: an exception of a non-expected inspector never reaches the
   reader (C06); the wrapper freezes that inspector (errored set) in the state eat_chunk left behind.  The slots
   after the reads cs are exactly: the inspector fed up to its first exception, and the errored flag *)
Theorem C03_frozen_slots : forall expected allowed cs w,
  read_so_far expected allowed cs w ->
  w_slots w = map (slot_after cs) (allowed_fmts allowed) /\ w_finished w = false /\ w_expected w = expected.
Proof. exact read_so_far_slots. Qed.
Print Assumptions C03_frozen_slots.
Example C03_ex_frozen :
  exists w, read_and_closed None [] ex_frozen w /\ cw_format_name w = Ok (Some (fmt_name F_vmdk)) /\
            s_err (slot_closed ex_frozen F_vmdk) = true /\ In (slot_closed ex_frozen F_vmdk) (w_slots w).
Proof. exact ex_frozen_run. Qed.

(* file-like sources: for every file content and every sequence of read sizes, the reads (none raising) are a
   read-through of the chunk list delivered, whose concatenation is the part of the file that was read *)
Theorem C03_file_reads : forall expected allowed data sizes w' s' tr delivered,
  cw_run_reads (cw_new expected allowed) {| f_data := data; f_pos := 0; f_closed := false |} sizes = (w', s', tr, delivered, None) ->
  read_so_far expected allowed delivered w' /\ concat delivered = bsub 0 (f_pos s') data.
Proof. exact file_reads_through. Qed.
Print Assumptions C03_file_reads.

(* the two generators agree on ALL_FORMATS *)
Theorem C03_factory_is_all_formats : map fst factory = map fst C06_Wrapper.all_formats.
Proof. exact factory_names. Qed.
Print Assumptions C03_factory_is_all_formats.

(* ================================================================== all ten formats: match IS signature; runs with exceptions; the abort *)
(* in_zone f b: b lies in a known-finding zone of f (vhdx: F2 or F4; vmdk: F1 or F3; the eight static formats: never).
   Outside the zones format_match of the closed inspector IS the signature predicate for ALL ten formats: for vhdx
   and vmdk this adds the converse (signature present => the inspector matches, whatever the read sizes, also when it
   raised on the way and was frozen by the wrapper) — from C01_vhdx_refines_spec / C01_vmdk_refines_spec *)
Theorem C03_match_is_signature_all : forall f cs, in_zone f (concat cs) = false -> cmatch (fst (run f cs)) = sigb f (concat cs).
Proof. exact match_is_signature_all. Qed.
Print Assumptions C03_match_is_signature_all.

(* hence, after read-through and close, outside the zones of the allowed formats, format is read off the signature
   table of the content (completeness no longer counts once _finished is set) *)
Theorem C03_closed_format_by_signatures : forall expected allowed cs w,
  read_and_closed expected allowed cs w -> outside_zones allowed (concat cs) ->
  cw_format_name w = show_name (name_format (fun _ => true) (fun f => sigb f (concat cs)) true (allowed_fmts allowed)).
Proof. exact closed_format_by_signatures. Qed.
Print Assumptions C03_closed_format_by_signatures.

(* reachable inspector states (any chunks, frozen after an exception, after finish): format_match implies the
   signature of the stream that inspector has seen — all ten inspectors, no zone hypothesis *)
Theorem C03_reach_match_signature : forall st i, ireach st i -> cmatch i = true -> sigb (name_of i) st = true.
Proof. exact reach_match_signature. Qed.
Print Assumptions C03_reach_match_signature.

(* the signature predicates survive extension of the stream *)
Theorem C03_signature_monotone : forall f st t, sigb f st = true -> sigb f (st ++ t) = true.
Proof. exact sigb_app. Qed.
Print Assumptions C03_signature_monotone.

(* EVERY run of a reader that stops at the first exception — inspectors of non-expected formats raising and being
   frozen, the inspector of the expected format aborting the stream (stop = Some ...), or nothing of the kind: a
   specific format reported right after the last call or after close() has its signature in the bytes taken from the
   source (taken_chunks: the chunks of the calls made, the one lost in the failing call included) *)
Theorem C03_stopped_format_signature : forall expected allowed cs w1 tr delivered stop unused,
  cw_run_stop (cw_new expected allowed) (map InChunk cs) = (w1, tr, delivered, stop, unused) ->
  forall w m f, (w = w1 \/ w = cw_close w1) -> cw_format w = Ok (Some m) -> s_name m = fmt_name f -> f <> F_raw ->
  sigb f (concat (taken_chunks cs unused)) = true.
Proof. exact stopped_format_signature. Qed.
Print Assumptions C03_stopped_format_signature.

(* the expected-format abort is FINAL: when f's inspector is complete without matching after chunk j (the wrapper
   raises ImageFormatError there), every continuation leaves it as it is, it does not match after close either, and
   outside f's zones no extension of the content carries f's signature *)
Theorem C03_expected_mismatch_is_final : forall f cs j more,
  first_abort istate eat complete cmatch (init f) cs = Some (j, AbMismatch) ->
  let seen := firstn (S j) cs in
  complete (fst (eat_list (init f) seen)) = true /\ cmatch (fst (eat_list (init f) seen)) = false /\
  (exists p, fst (eat_list (init f) (seen ++ more)) = ipos (fst (eat_list (init f) seen)) p) /\
  cmatch (fst (run f (seen ++ more))) = false /\
  (in_zone f (concat (seen ++ more)) = false -> sigb f (concat (seen ++ more)) = false).
Proof. exact mismatch_abort_final. Qed.
Print Assumptions C03_expected_mismatch_is_final.

(* the reader's side of the abort: the stream is cut at chunk j with ImageFormatError, chunks 0..j taken; whatever
   format reports then or after close() has its signature in those bytes and (outside f's zones) is never f *)
Theorem C03_expected_mismatch_abort : forall f allowed cs j,
  allowed_key allowed (fmt_name f) = true ->
  first_abort istate eat complete cmatch (init f) cs = Some (j, AbMismatch) ->
  exists w1 tr,
    cw_run_stop (cw_new (Some (fmt_name f)) allowed) (map InChunk cs) =
      (w1, tr, firstn j cs, Some (ImageFormatError, Some (nth j cs [])), map InChunk (skipn (S j) cs)) /\
    forall w m g, (w = w1 \/ w = cw_close w1) -> cw_format w = Ok (Some m) -> s_name m = fmt_name g -> g <> F_raw ->
      sigb g (concat (firstn (S j) cs)) = true /\ (in_zone f (concat (firstn (S j) cs)) = false -> g <> f).
Proof. exact expected_mismatch_abort. Qed.
Print Assumptions C03_expected_mismatch_abort.

Example C03_ex_vhdx_outside_zones : in_zone F_vhdx wf_image = false.
Proof. exact ex_vhdx_outside. Qed.
Example C03_ex_vmdk_outside_zones : in_zone F_vmdk w_sparse = false.
Proof. exact ex_vmdk_outside. Qed.
Example C03_ex_abort : first_abort istate eat complete cmatch (init F_qcow2) [zeros 512; zeros 10] = Some (0%nat, AbMismatch).
Proof. exact ex_abort. Qed.

(* ================================================================== instances (non-vacuity) *)
Example C03_ex_detected : exists w, read_and_closed None [] ex_vhd w /\ cw_format_name w = Ok (Some (fmt_name F_vhd)).
Proof. exact ex_vhd_detected. Qed.
Example C03_ex_two_formats : exists w, read_and_closed None [] ex_two w /\ cw_format w = Exn ImageFormatError.
Proof. exact ex_two_formats_raise. Qed.
Example C03_ex_early_decision :
  exists w m, read_so_far None ex_allowed ex_vhd512 w /\ cw_format w = Ok (Some m) /\ s_name m = fmt_name F_vhd.
Proof. exact ex_early_decision. Qed.
