(* Properties/C03.v — placeholder while the pipeline is brought up (replaced below) *)
Require Import OV.Base.Bytes OV.Base.Py OV.Gen.Insp_Consts OV.Gen.C06_Wrapper OV.Model.Insp_All OV.Model.Wrap OV.Model.C03.

Theorem C03_factory_is_all_formats : map fst factory = map fst C06_Wrapper.all_formats.
Proof. reflexivity. Qed.
Print Assumptions C03_factory_is_all_formats.
