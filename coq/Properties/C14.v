(* Properties/C14.v — property theorems only (placeholder while the proofs are being written) *)
Require Import OV.Base.Bytes OV.Base.Py OV.Model.C14_Py OV.Gen.C14 OV.Model.C14 OV.Proofs.C14.
Theorem C14_generate_uuid_equiv : forall lim u4 dashed, gen_generate_uuid lim u4 dashed = generate_uuid u4 dashed.
Proof. exact generate_uuid_equiv. Qed.
Print Assumptions C14_generate_uuid_equiv.
