(* Properties/C14.v — property theorems only; each is closed by [exact] of a lemma from
   Proofs/ and followed by Print Assumptions.
   C14: scalar parsers and validators classify every input exactly.
   [lim] = sys.get_int_max_str_digits() (0 = unlimited; CPython's default is 4300). *)
From Coq Require Import String.
Require Import OV.Base.Bytes OV.Base.Py OV.Base.PyInt OV.Base.Str.
Require Import OV.Model.C14_Py OV.Gen.C14 OV.Model.C14.
Require Import OV.Proofs.C14 OV.Proofs.C14_Str OV.Proofs.C14_Int OV.Proofs.C14_Bool OV.Proofs.C14_Num OV.Proofs.C14_Uuid OV.Proofs.C14_Words OV.Proofs.C14_Examples OV.Proofs.C14_IntGrammar OV.Proofs.C14_Final.
Open Scope Z_scope.

(* ---------------- the tie to the source ---------------- *)
(* the statement-by-statement translations of the nine functions (regenerated from /repo on
   every run, Gen/C14.v) compute exactly what the model used in the theorems below computes *)
Theorem C14_translated_source_is_the_model :
  (forall lim v strict d, gen_bool_from_string lim v strict d = bool_from_string lim v strict d) /\
  (forall lim v, gen_int_from_bool_as_string lim v = int_from_bool_as_string lim v) /\
  (forall lim v, gen_is_valid_boolstr lim v = is_valid_boolstr lim v) /\
  (forall lim v, gen_is_int_like lim v = is_int_like lim v) /\
  (forall lim v mn mx, gen_check_string_length lim v mn mx = check_string_length v mn mx) /\
  (forall lim v lo hi, gen_validate_integer lim v lo hi = validate_integer lim v lo hi) /\
  (forall lim s, gen_format_uuid_string lim s = format_uuid_string s) /\
  (forall lim v, gen_is_uuid_like lim v = is_uuid_like lim v) /\
  (forall lim u4 dashed, gen_generate_uuid lim u4 dashed = generate_uuid u4 dashed).
Proof. exact translated_source_is_the_model. Qed.
Print Assumptions C14_translated_source_is_the_model.

(* ---------------- bool_from_string ---------------- *)

(* the generated word tuples are exactly the documented words *)
Theorem C14_words_are_the_documented_ones :
  (forall w, In w TRUE_STRINGS <-> In w doc_true) /\ (forall w, In w FALSE_STRINGS <-> In w doc_false).
Proof. exact words_are_documented. Qed.
Print Assumptions C14_words_are_the_documented_ones.

(* no code point outside ASCII lowers into a character of a word: ASCII case folding is the
   whole story (checked on the regenerated Unicode tables and words) *)
Theorem C14_no_nonascii_letter_folds_into_a_word :
  forall c x, (128 <= c)%N -> In x (py_lower1 c) -> In x cs_words -> False.
Proof. exact (py_lower1_avoid cs_words no_nonascii_letter_folds_into_a_word). Qed.
Print Assumptions C14_no_nonascii_letter_folds_into_a_word.

(* subject.strip().lower() is a word  <->  the subject is that word in some ASCII casing,
   surrounded by any amount of (Unicode) whitespace *)
Theorem C14_normalised_is_word_iff : forall s w, In w all_words ->
  (norm_bool s = w <-> exists pre x post, s = pre ++ x ++ post /\ all_space pre = true /\ all_space post = true /\ lower_ascii x = w).
Proof. exact norm_bool_word. Qed.
Print Assumptions C14_normalised_is_word_iff.

(* strings: True / False for exactly the case-and-padding variants of the true / false words;
   everything else gives the default, or ValueError when strict *)
Theorem C14_bool_from_string_str : forall lim s strict default,
  (word_match s TRUE_STRINGS -> bool_from_string lim (PStr s) strict default = Ok (PBool true)) /\
  (word_match s FALSE_STRINGS -> bool_from_string lim (PStr s) strict default = Ok (PBool false)) /\
  (~ word_match s TRUE_STRINGS -> ~ word_match s FALSE_STRINGS ->
   bool_from_string lim (PStr s) strict default = if strict then Exn ValueError else Ok default).
Proof. exact bool_from_string_str. Qed.
Print Assumptions C14_bool_from_string_str.

(* booleans pass through *)
Theorem C14_bool_from_string_bool : forall lim b strict default,
  bool_from_string lim (PBool b) strict default = Ok (PBool b).
Proof. exact bool_from_string_bool. Qed.
Print Assumptions C14_bool_from_string_bool.

(* every other value is classified through str(value) *)
Theorem C14_bool_from_string_via_str : forall lim v strict default, is_bool v = false ->
  bool_from_string lim v strict default =
  match py_str lim v with Ok s => bool_from_string lim (PStr s) strict default | Exn e => Exn e end.
Proof. exact bool_from_string_via_str. Qed.
Print Assumptions C14_bool_from_string_via_str.

(* CPython's final-sigma rule (not in the model of str.lower()) cannot change a word lookup *)
Theorem C14_final_sigma_irrelevant : forall lowered real ws, incl ws all_words ->
  sigma_variant lowered real -> mem_str real ws = mem_str lowered ws.
Proof. exact final_sigma_irrelevant. Qed.
Print Assumptions C14_final_sigma_irrelevant.

(* int_from_bool_as_string = int(bool_from_string(subject)) *)
Theorem C14_int_from_bool_as_string : forall lim v,
  int_from_bool_as_string lim v =
  match bool_from_string lim v false (PBool false) with
  | Ok (PBool true) => Ok 1 | Ok (PBool false) => Ok 0 | Ok other => py_int_of lim other | Exn e => Exn e
  end.
Proof. exact int_from_bool_as_string_spec. Qed.
Print Assumptions C14_int_from_bool_as_string.

(* ---------------- is_valid_boolstr ---------------- *)
(* on unpadded input it agrees with bool_from_string (strict): recognised <-> valid *)
Theorem C14_is_valid_boolstr_agrees_unpadded : forall lim v s default,
  is_bool v = false -> py_str lim v = Ok s -> strip s = s ->
  is_valid_boolstr lim v = Ok (recognised (bool_from_string lim v true default)).
Proof. exact is_valid_boolstr_agrees_value. Qed.
Print Assumptions C14_is_valid_boolstr_agrees_unpadded.

Theorem C14_is_valid_boolstr_bool : forall lim b, is_valid_boolstr lim (PBool b) = Ok true.
Proof. exact is_valid_boolstr_bool. Qed.
Print Assumptions C14_is_valid_boolstr_bool.

(* for ALL strings: valid exactly when str.lower() of the text is in the generated tuples (also on the translated source) *)
Theorem C14_is_valid_boolstr_all : forall lim s,
  (is_valid_boolstr lim (PStr s) = Ok true <-> In (py_lower s) (TRUE_STRINGS ++ FALSE_STRINGS)) /\
  (is_valid_boolstr lim (PStr s) = Ok false <-> ~ In (py_lower s) (TRUE_STRINGS ++ FALSE_STRINGS)) /\
  (gen_is_valid_boolstr lim (PStr s) = is_valid_boolstr lim (PStr s)).
Proof. exact is_valid_boolstr_all. Qed.
Print Assumptions C14_is_valid_boolstr_all.

(* ... which, lower() adding nothing to ASCII on word characters, means: an ASCII-case variant of a word, no padding *)
Theorem C14_is_valid_boolstr_iff_case_variant : forall lim s,
  is_valid_boolstr lim (PStr s) = Ok true <-> exists w, In w all_words /\ lower_ascii s = w.
Proof. exact is_valid_boolstr_iff. Qed.
Print Assumptions C14_is_valid_boolstr_iff_case_variant.

(* ---------------- the integer literal grammar of int() ---------------- *)
(* int(s) = z  <->  s = whitespace* [+-]? digits (_ digits)* whitespace*  (int()'s whitespace, Unicode decimal
   digits, at most lim digits) with value z — both directions, every string *)
Theorem C14_int_parse_iff_literal : forall lim s z,
  int_parse lim 10 s = Some z <->
  exists pre sg ds post,
    s = pre ++ sign_text sg ++ join [95%N] ds ++ post /\
    forallb int_space pre = true /\ forallb int_space post = true /\
    ugroups ds = true /\ over_limit lim (blen (concat ds)) = false /\
    z = signed sg (uval (concat ds) 0).
Proof. exact int_parse_iff_literal. Qed.
Print Assumptions C14_int_parse_iff_literal.

Theorem C14_int_parse_rejects : forall lim s, int_parse lim 10 s = None <-> forall z, ~ int_literal lim s z.
Proof. exact int_parse_none_iff. Qed.
Print Assumptions C14_int_parse_rejects.

(* ---------------- is_int_like ---------------- *)
(* a string is int-like exactly when it is the canonical decimal rendering of an integer *)
Theorem C14_is_int_like_str : forall lim s,
  is_int_like lim (PStr s) = Ok true <-> exists z, s = dec_of_Z z /\ within_limit lim z = true.
Proof. exact is_int_like_str. Qed.
Print Assumptions C14_is_int_like_str.

(* with the digit limit switched off this is the plain statement *)
Theorem C14_is_int_like_str_unlimited : forall s,
  is_int_like 0 (PStr s) = Ok true <-> exists z, s = dec_of_Z z.
Proof. exact is_int_like_str_unlimited. Qed.
Print Assumptions C14_is_int_like_str_unlimited.

(* any value: str(v) is the canonical rendering of int(v) *)
Theorem C14_is_int_like_iff : forall lim v,
  is_int_like lim v = Ok true <->
  exists z, py_int_of lim v = Ok z /\ within_limit lim z = true /\ py_str lim v = Ok (dec_of_Z z).
Proof. exact is_int_like_iff. Qed.
Print Assumptions C14_is_int_like_iff.

Theorem C14_is_int_like_other_types : forall lim,
  (forall s, is_int_like lim (PStr s) = Ok true \/ is_int_like lim (PStr s) = Ok false) /\
  (forall z, is_int_like lim (PInt z) = Ok (within_limit lim z)) /\
  (forall b, is_int_like lim (PBool b) = Ok false) /\
  is_int_like lim PNone = Ok false /\
  (* floats: int(v) is an integer or raises OverflowError (inf) / ValueError (nan): never an exception *)
  (forall sv iv, float_like_int iv = true ->
     is_int_like lim (POther sv iv) = Ok true \/ is_int_like lim (POther sv iv) = Ok false) /\
  (forall sv e, is_int_like lim (POther sv (Exn e)) = if catches [TypeError; ValueError; OverflowError] e then Ok false else Exn e).
Proof. exact is_int_like_other_types. Qed.
Print Assumptions C14_is_int_like_other_types.

(* ---------------- validate_integer ---------------- *)
(* returns z exactly when int(str(value)) = z and min <= z <= max (absent bounds impose nothing) *)
Theorem C14_validate_integer_ok : forall lim v lo hi z,
  validate_integer lim v lo hi = Ok z <->
  int_of_text lim v = Some z /\ (forall m, lo = Some m -> m <= z) /\ (forall m, hi = Some m -> z <= m).
Proof. exact validate_integer_ok. Qed.
Print Assumptions C14_validate_integer_ok.

(* in terms of the declarative grammar, on the TRANSLATED source *)
Theorem C14_validate_integer_literal : forall lim v lo hi z,
  gen_validate_integer lim v lo hi = Ok z <->
  (exists s, py_str lim v = Ok s /\ int_literal lim s z) /\
  (forall m, lo = Some m -> m <= z) /\ (forall m, hi = Some m -> z <= m).
Proof. exact gen_validate_integer_literal. Qed.
Print Assumptions C14_validate_integer_literal.

Theorem C14_validate_integer_rejects : forall lim v lo hi,
  validate_integer lim v lo hi = Exn ValueError <->
  ~ exists z, (exists s, py_str lim v = Ok s /\ int_literal lim s z) /\
              (forall m, lo = Some m -> m <= z) /\ (forall m, hi = Some m -> z <= m).
Proof. exact validate_integer_rejects. Qed.
Print Assumptions C14_validate_integer_rejects.

(* None / 0 bounds on the translated source: None imposes nothing, 0 is a bound like any other *)
Theorem C14_validate_integer_corners : forall lim v z, int_of_text lim v = Some z ->
  gen_validate_integer lim v None None = Ok z /\
  gen_validate_integer lim v (Some 0) None = (if z <? 0 then Exn ValueError else Ok z) /\
  gen_validate_integer lim v None (Some 0) = (if z >? 0 then Exn ValueError else Ok z) /\
  gen_validate_integer lim v (Some 0) (Some 0) = (if z =? 0 then Ok z else Exn ValueError).
Proof. exact gen_validate_integer_corners. Qed.
Print Assumptions C14_validate_integer_corners.

(* and ValueError in every other case *)
Theorem C14_validate_integer_otherwise : forall lim v lo hi,
  (exists z, validate_integer lim v lo hi = Ok z) \/ validate_integer lim v lo hi = Exn ValueError.
Proof. exact validate_integer_total. Qed.
Print Assumptions C14_validate_integer_otherwise.

(* integers and their canonical renderings are integer literals denoting themselves *)
Theorem C14_validate_integer_int : forall lim z lo hi, within_limit lim z = true ->
  validate_integer lim (PInt z) lo hi = (if in_range z lo hi then Ok z else Exn ValueError) /\
  validate_integer lim (PStr (dec_of_Z z)) lo hi = (if in_range z lo hi then Ok z else Exn ValueError).
Proof. exact validate_integer_int. Qed.
Print Assumptions C14_validate_integer_int.

(* int() also accepts padding, a sign and single underscores: the literal grammar on ASCII *)
Theorem C14_int_literal_ascii : forall lim pre neg ds post,
  forallb c_isspace pre = true -> forallb c_isspace post = true -> digit_groups ds = true ->
  over_limit lim (blen (concat ds)) = false ->
  int_parse lim 10 (pre ++ sign_text neg ++ join [95%N] ds ++ post) = Some (signed neg (dval (concat ds) 0)).
Proof. exact int_literal_ascii. Qed.
Print Assumptions C14_int_literal_ascii.

(* ---------------- check_string_length ---------------- *)
Theorem C14_check_string_length : forall v mn mx,
  (check_string_length v mn mx = Ok tt <->
     exists s, v = PStr s /\ mn <= zlen s /\ (forall m, mx = Some m -> m = 0 \/ zlen s <= m)) /\
  (check_string_length v mn mx = Exn TypeError <-> is_str v = false) /\
  (check_string_length v mn mx = Exn ValueError <->
     exists s, v = PStr s /\ (zlen s < mn \/ exists m, mx = Some m /\ m <> 0 /\ m < zlen s)) /\
  (check_string_length v mn mx = Ok tt \/ check_string_length v mn mx = Exn TypeError \/
   check_string_length v mn mx = Exn ValueError).
Proof. exact check_string_length_spec. Qed.
Print Assumptions C14_check_string_length.

(* the same three-way characterisation on the TRANSLATED source, and the max_length None / 0 corners *)
Theorem C14_check_string_length_translated : forall lim v mn mx,
  (gen_check_string_length lim v mn mx = Ok tt <->
     exists s, v = PStr s /\ mn <= zlen s /\ (forall m, mx = Some m -> m = 0 \/ zlen s <= m)) /\
  (gen_check_string_length lim v mn mx = Exn TypeError <-> is_str v = false) /\
  (gen_check_string_length lim v mn mx = Exn ValueError <->
     exists s, v = PStr s /\ (zlen s < mn \/ exists m, mx = Some m /\ m <> 0 /\ m < zlen s)) /\
  (gen_check_string_length lim v mn mx = Ok tt \/ gen_check_string_length lim v mn mx = Exn TypeError \/
   gen_check_string_length lim v mn mx = Exn ValueError).
Proof. exact gen_check_string_length_spec. Qed.
Print Assumptions C14_check_string_length_translated.

Theorem C14_check_string_length_corners : forall lim s mn, mn <= zlen s ->
  gen_check_string_length lim (PStr s) mn None = Ok tt /\
  gen_check_string_length lim (PStr s) mn (Some 0) = Ok tt /\
  gen_check_string_length lim (PStr s) mn (Some (zlen s)) = Ok tt /\
  (0 < zlen s -> gen_check_string_length lim (PStr s) mn (Some (zlen s - 1)) = if zlen s =? 1 then Ok tt else Exn ValueError).
Proof. exact gen_check_string_length_corners. Qed.
Print Assumptions C14_check_string_length_corners.

(* ---------------- is_uuid_like / generate_uuid ---------------- *)
(* accepted exactly when, decoration removed as the code removes it, 32 hex digits remain *)
Theorem C14_is_uuid_like_iff : forall lim s,
  is_uuid_like lim (PStr s) = Ok true <-> is_hex32l (format_uuid_string s) = true.
Proof. exact is_uuid_like_iff. Qed.
Print Assumptions C14_is_uuid_like_iff.

(* equivalently: uuid.UUID's own removal — every 'urn:' and 'uuid:' wherever it stands, braces at both ends, every
   hyphen — leaves 32 hex digits of any case; so every order, nesting and repetition of the decorations is accepted *)
Theorem C14_is_uuid_like_iff_strip : forall lim s,
  is_uuid_like lim (PStr s) = Ok true <-> hexdigits32 (uuid_strip s) = true.
Proof. exact is_uuid_like_iff_strip. Qed.
Print Assumptions C14_is_uuid_like_iff_strip.

(* never raises; non-strings are rejected *)
Theorem C14_is_uuid_like_total : forall lim v,
  (is_uuid_like lim v = Ok true \/ is_uuid_like lim v = Ok false) /\
  (is_str v = false -> is_uuid_like lim v = Ok false).
Proof. exact (fun lim v => conj (is_uuid_like_total lim v) (is_uuid_like_nonstr lim v)). Qed.
Print Assumptions C14_is_uuid_like_total.

(* every UUID (32 hex digits in any case) in plain, hyphenated, braced or urn:uuid: spelling *)
Theorem C14_is_uuid_like_spellings : forall lim x, hexdigits32 x = true ->
  is_uuid_like lim (PStr x) = Ok true /\
  is_uuid_like lim (PStr (hyphenate x)) = Ok true /\
  is_uuid_like lim (PStr ([123%N] ++ x ++ [125%N])) = Ok true /\
  is_uuid_like lim (PStr ([123%N] ++ hyphenate x ++ [125%N])) = Ok true /\
  is_uuid_like lim (PStr (lit "urn:uuid:" ++ hyphenate x)) = Ok true /\
  is_uuid_like lim (PStr (lit "urn:uuid:" ++ x)) = Ok true.
Proof. exact is_uuid_like_spellings. Qed.
Print Assumptions C14_is_uuid_like_spellings.

(* everything generate_uuid produces (dashed or not, whatever uuid4() drew) is accepted *)
Theorem C14_generate_uuid_accepted : forall lim u4 dashed,
  is_uuid_like lim (PStr (generate_uuid u4 dashed)) = Ok true.
Proof. exact generate_uuid_accepted. Qed.
Print Assumptions C14_generate_uuid_accepted.

Theorem C14_generate_uuid_shape : forall u4,
  generate_uuid u4 false = hex32 u4 /\ generate_uuid u4 true = hyphenate (hex32 u4) /\ is_hex32l (hex32 u4) = true.
Proof. exact generate_uuid_shape. Qed.
Print Assumptions C14_generate_uuid_shape.
