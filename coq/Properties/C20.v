Require Import OV.Base.Bytes OV.Base.Py OV.Gen.C20_Consts OV.Model.C20_OS OV.Model.C20 OV.Proofs.C20.
Open Scope Z_scope.
