(* Properties/C20.v — C20: file helpers agree with whole-file semantics and are idempotent
   (oslo_utils/fileutils.py).  Property theorems only; each is closed by [exact] of a lemma
   of Proofs/C20.v / Proofs/C20_FS.v and followed by Print Assumptions.

   Reading guide.  [rt : runtime W H] is the operating system + hashlib as an interface
   (Model/C20_OS.v); the theorems hold for EVERY runtime, under the explicit contracts
   [hash_contract rt] / [fs_contract rt key look fd_key tmpdir] (Proofs/C20.v), each clause of
   which the harness tests on the real os / tempfile / hashlib.  [ores] = value | OSError errno
   | other exception.  The model functions are proved equal to the statement-by-statement
   translation of the source (lemmas gen_*_equiv in Proofs/C20.v, part of the obligations). *)
Require Import OV.Base.Bytes OV.Base.Py OV.Gen.C20_Consts OV.Model.C20_OS OV.Model.C20 OV.Model.C20_FS.
Require Import OV.Proofs.C20 OV.Proofs.C20_FS.
Open Scope Z_scope.

(* ------------------------------------------------------------------ compute_file_checksum *)

(* For every content and every read chunk size n >= 1 (or -1, "read all"): the checksum of the
   file is the digest after ONE update with the whole content — for every algorithm hashlib
   accepts, given the streaming contract of the hash object. *)
Theorem C20_checksum_chunking_independent :
  forall (W H : Type) (rt : runtime W H), hash_contract rt ->
  forall (path : bytes) (n : Z) (alg : bytes) (w : W) (data : bytes) (h0 : H),
    (1 <= n \/ n = -1) ->
    rt_hash_new rt alg = OOk h0 ->
    rt_open_rb rt path w = OOk data ->
    compute_file_checksum rt path n alg w = Some (rt_hexdigest rt (rt_update rt h0 data)).
Proof. exact (@checksum_chunking_independent). Qed.
Print Assumptions C20_checksum_chunking_independent.

(* The chunks produced by `iter(lambda: f.read(n), b'')` on a file with this content:
   their concatenation is the content, none is empty, and for n >= 1 none is longer than n
   and all but the last have exactly n bytes. *)
Theorem C20_chunks :
  forall (n : Z) (data : bytes), (1 <= n \/ n = -1) ->
    concat (file_chunks n data) = data /\
    Forall (fun c => c <> []) (file_chunks n data) /\
    (1 <= n -> Forall (fun c => zlen c <= n) (file_chunks n data) /\
               Forall (fun c => zlen c = n) (removelast (file_chunks n data))).
Proof. exact file_chunks_spec. Qed.
Print Assumptions C20_chunks.

(* The loop as written terminates within its fuel (the result is never the fuel default) and
   has folded update over exactly those chunks — no contract needed. *)
Theorem C20_read_loop :
  forall (W H : Type) (rt : runtime W H) (n : Z) (data : bytes) (h : H), (1 <= n \/ n = -1) ->
    exists f', read_loop rt (loop_fuel (fopen data)) n (fopen data) h
               = Some (OOk (f', fold_left (rt_update rt) (file_chunks n data) h)).
Proof. exact (@read_loop_total). Qed.
Print Assumptions C20_read_loop.

(* The default chunk size of the source (regenerated constant) is covered. *)
Theorem C20_checksum_default_chunk :
  forall (W H : Type) (rt : runtime W H), hash_contract rt ->
  forall (path alg : bytes) (w : W) (data : bytes) (h0 : H),
    rt_hash_new rt alg = OOk h0 -> rt_open_rb rt path w = OOk data ->
    compute_file_checksum rt path default_read_chunksize alg w = Some (rt_hexdigest rt (rt_update rt h0 data)).
Proof. exact (@checksum_default_chunk). Qed.
Print Assumptions C20_checksum_default_chunk.

(* The default algorithm of the source (regenerated constant) is accepted by hashlib.new and
   has a fixed-length hexdigest (tables of the running interpreter). *)
Theorem C20_default_algorithm_usable :
  str_mem default_algorithm hash_algorithms = true /\ str_mem default_algorithm hash_xof = false.
Proof. exact default_algorithm_usable. Qed.
Print Assumptions C20_default_algorithm_usable.

(* Errors: unknown algorithm first, then the error of open(); never the fuel default. *)
Theorem C20_checksum_errors :
  forall (W H : Type) (rt : runtime W H) (path : bytes) (n : Z) (alg : bytes) (w : W),
  (forall e, rt_hash_new rt alg = OErr e -> compute_file_checksum rt path n alg w = Some (OErr e)) /\
  (forall x, rt_hash_new rt alg = OExn x -> compute_file_checksum rt path n alg w = Some (OExn x)) /\
  (forall h0 e, rt_hash_new rt alg = OOk h0 -> rt_open_rb rt path w = OErr e ->
                compute_file_checksum rt path n alg w = Some (OErr e)) /\
  (forall h0 x, rt_hash_new rt alg = OOk h0 -> rt_open_rb rt path w = OExn x ->
                compute_file_checksum rt path n alg w = Some (OExn x)).
Proof. exact (@checksum_errors). Qed.
Print Assumptions C20_checksum_errors.

(* Outside the property's domain, stated so that no case of the model is hidden: a chunk
   size of 0 hashes nothing (digest of the empty input whatever the content), sizes below -1
   are read()'s ValueError. *)
Theorem C20_checksum_degenerate_chunk :
  forall (W H : Type) (rt : runtime W H) (path : bytes) (n : Z) (alg : bytes) (w : W) (data : bytes) (h0 : H),
  rt_hash_new rt alg = OOk h0 -> rt_open_rb rt path w = OOk data ->
  (n = 0 -> compute_file_checksum rt path n alg w = Some (rt_hexdigest rt h0)) /\
  (n < -1 -> compute_file_checksum rt path n alg w = Some (OExn ValueError)).
Proof. exact (@checksum_degenerate). Qed.
Print Assumptions C20_checksum_degenerate_chunk.

(* ------------------------------------------------------------------ last_bytes *)

(* For every content and every num with 0 <= num <= 2^63: the final k = min(num, size) bytes
   and the number size - k of bytes that precede them. *)
Theorem C20_last_bytes_spec :
  forall (W H : Type) (rt : runtime W H) (path : bytes) (num : Z) (w : W) (data : bytes),
    rt_open_rb rt path w = OOk data ->
    0 <= num <= 9223372036854775808 ->
    let k := Z.min num (zlen data) in
    last_bytes rt path num w = OOk (bskip (Z.to_N (zlen data - k)) data, zlen data - k).
Proof. exact (@last_bytes_spec). Qed.
Print Assumptions C20_last_bytes_spec.

Theorem C20_last_bytes_suffix :
  forall (W H : Type) (rt : runtime W H) (path : bytes) (num : Z) (w : W) (data : bytes),
    rt_open_rb rt path w = OOk data -> 0 <= num <= 9223372036854775808 ->
    exists pre suf, last_bytes rt path num w = OOk (suf, zlen pre) /\
                    data = pre ++ suf /\ zlen suf = Z.min num (zlen data).
Proof. exact (@last_bytes_suffix). Qed.
Print Assumptions C20_last_bytes_suffix.

(* open() errors propagate; num beyond the off_t range is seek()'s ValueError. *)
Theorem C20_last_bytes_errors :
  forall (W H : Type) (rt : runtime W H) (path : bytes) (num : Z) (w : W),
  (forall e, rt_open_rb rt path w = OErr e -> last_bytes rt path num w = OErr e) /\
  (forall x, rt_open_rb rt path w = OExn x -> last_bytes rt path num w = OExn x) /\
  (forall data, rt_open_rb rt path w = OOk data -> 9223372036854775808 < num ->
                last_bytes rt path num w = OExn ValueError).
Proof. exact (@last_bytes_errors). Qed.
Print Assumptions C20_last_bytes_errors.

(* ------------------------------------------------------------------ errno filters *)

(* For every outcome of os.makedirs — every OSError instance e, whatever its class and errno:
   success iff makedirs succeeded, or e.errno = EEXIST and the path is a directory; every other
   error is re-raised unchanged (same class, same errno).  Only e.errno is looked at. *)
Theorem C20_ensure_tree_errno_filter :
  forall (W H : Type) (rt : runtime W H) (path : bytes) (mode : Z) (w w1 : W) (r : ores unit),
  rt_makedirs rt path mode w = (w1, r) ->
  (forall u, r = OOk u -> ensure_tree rt path mode w = (w1, OOk tt)) /\
  (forall e, r = OErr e -> os_errno e = errno_EEXIST -> rt_isdir rt path w1 = true ->
             ensure_tree rt path mode w = (w1, OOk tt)) /\
  (forall e, r = OErr e -> os_errno e = errno_EEXIST -> rt_isdir rt path w1 = false ->
             ensure_tree rt path mode w = (w1, OErr e)) /\
  (forall e, r = OErr e -> os_errno e <> errno_EEXIST -> ensure_tree rt path mode w = (w1, OErr e)) /\
  (forall x, r = OExn x -> ensure_tree rt path mode w = (w1, OExn x)).
Proof. exact (@ensure_tree_errno_filter). Qed.
Print Assumptions C20_ensure_tree_errno_filter.

(* For every outcome of the remove callable — every OSError instance e, whatever its class and
   errno: success iff remove succeeded or e.errno = ENOENT; every other error is re-raised
   unchanged.  Only e.errno is looked at (a user-defined OSError subclass with errno ENOENT is
   swallowed; a FileNotFoundError whose errno was set to something else is re-raised). *)
Theorem C20_delete_if_exists_errno_filter :
  forall (W : Type) (remove : bytes -> W -> W * ores unit) (path : bytes) (w w1 : W) (r : ores unit),
  remove path w = (w1, r) ->
  (forall u, r = OOk u -> delete_if_exists path remove w = (w1, OOk tt)) /\
  (forall e, r = OErr e -> os_errno e = errno_ENOENT -> delete_if_exists path remove w = (w1, OOk tt)) /\
  (forall e, r = OErr e -> os_errno e <> errno_ENOENT -> delete_if_exists path remove w = (w1, OErr e)) /\
  (forall x, r = OExn x -> delete_if_exists path remove w = (w1, OExn x)).
Proof. exact (@delete_if_exists_errno_filter). Qed.
Print Assumptions C20_delete_if_exists_errno_filter.

(* the class of the OSError instance is irrelevant: same errno, same verdict *)
Theorem C20_errno_filters_ignore_class :
  forall (W H : Type) (rt : runtime W H) (remove1 remove2 : bytes -> W -> W * ores unit)
         (path : bytes) (mode : Z) (w w1 : W) (c1 c2 : bytes) (n : Z),
  (rt_makedirs rt path mode w = (w1, OErr (mk_oserror c1 n)) ->
   ensure_tree rt path mode w = (w1, OOk tt) \/ ensure_tree rt path mode w = (w1, OErr (mk_oserror c1 n))) /\
  (remove1 path w = (w1, OErr (mk_oserror c1 n)) -> remove2 path w = (w1, OErr (mk_oserror c2 n)) ->
   (delete_if_exists path remove1 w = (w1, OOk tt) <-> delete_if_exists path remove2 w = (w1, OOk tt))).
Proof. exact (@errno_filters_ignore_class). Qed.
Print Assumptions C20_errno_filters_ignore_class.

(* ------------------------------------------------------------------ already done / idempotent *)

Theorem C20_ensure_tree_already_done :
  forall (W H K : Type) (rt : runtime W H) (key : bytes -> K) (look : K -> W -> option node)
         (fd_key : Z -> W -> option K) (tmpdir : bytes),
  fs_contract rt key look fd_key tmpdir ->
  forall path mode w, look (key path) w = Some NDir -> ensure_tree rt path mode w = (w, OOk tt).
Proof. exact (@ensure_tree_already_done). Qed.
Print Assumptions C20_ensure_tree_already_done.

(* a regular FILE at the path: EEXIST is re-raised *)
Theorem C20_ensure_tree_file_in_the_way :
  forall (W H K : Type) (rt : runtime W H) (key : bytes -> K) (look : K -> W -> option node)
         (fd_key : Z -> W -> option K) (tmpdir : bytes),
  fs_contract rt key look fd_key tmpdir ->
  forall path mode w c, look (key path) w = Some (NFile c) ->
    exists e, ensure_tree rt path mode w = (w, OErr e) /\ os_errno e = errno_EEXIST.
Proof. exact (@ensure_tree_file_in_the_way). Qed.
Print Assumptions C20_ensure_tree_file_in_the_way.

Theorem C20_ensure_tree_post_and_idempotent :
  forall (W H K : Type) (rt : runtime W H) (key : bytes -> K) (look : K -> W -> option node)
         (fd_key : Z -> W -> option K) (tmpdir : bytes),
  fs_contract rt key look fd_key tmpdir ->
  forall path mode w w', ensure_tree rt path mode w = (w', OOk tt) ->
    (look (key path) w' = Some NDir /\ (forall k n, look k w = Some n -> look k w' = Some n)) /\
    ensure_tree rt path mode w' = (w', OOk tt).
Proof. exact (@ensure_tree_post_idempotent). Qed.
Print Assumptions C20_ensure_tree_post_and_idempotent.

Theorem C20_delete_if_exists_post_and_idempotent :
  forall (W H K : Type) (rt : runtime W H) (key : bytes -> K) (look : K -> W -> option node)
         (fd_key : Z -> W -> option K) (tmpdir : bytes),
  fs_contract rt key look fd_key tmpdir ->
  forall path w w', delete_if_exists path (rt_unlink rt) w = (w', OOk tt) ->
    (look (key path) w' = None /\ (forall k, k <> key path -> look k w' = look k w)) /\
    delete_if_exists path (rt_unlink rt) w' = (w', OOk tt).
Proof. exact (@delete_if_exists_post_idempotent). Qed.
Print Assumptions C20_delete_if_exists_post_and_idempotent.

(* ------------------------------------------------------------------ write_to_tempfile *)

(* Whenever a name is returned — for EVERY content, however short the individual writes of
   the runtime are (contract: a write of a non-empty buffer transfers at least one byte): the
   name did not exist before; it now holds exactly the content; it lies in the requested (or
   default) directory with the prefix and suffix passed through; a non-empty path is a
   directory afterwards and was made one by ensure_tree before mkstemp ran; everything that
   existed is unchanged.  (Repaired defect C20-W1: one os.write, return value ignored.) *)
Theorem C20_write_to_tempfile_spec :
  forall (W H K : Type) (rt : runtime W H) (key : bytes -> K) (look : K -> W -> option node)
         (fd_key : Z -> W -> option K) (tmpdir : bytes),
  fs_contract rt key look fd_key tmpdir ->
  forall content path suffix prefix w w' name,
  write_to_tempfile rt content path suffix prefix w = (w', OOk name) ->
  look (key name) w = None /\
  look (key name) w' = Some (NFile content) /\
  (exists tag, name = tempfile_dir tmpdir path ++ [47%N] ++ prefix ++ tag ++ suffix) /\
  (forall p, path = Some p -> nonempty p = true ->
     look (key p) w' = Some NDir /\
     exists w1 w2 fd, ensure_tree rt p default_mode w = (w1, OOk tt) /\
                      rt_mkstemp rt suffix path prefix w1 = (w2, OOk (fd, name))) /\
  (forall k n, look k w = Some n -> look k w' = Some n).
Proof. exact (@write_to_tempfile_spec). Qed.
Print Assumptions C20_write_to_tempfile_spec.

(* it returns a name whenever the directory phase and mkstemp succeed ... *)
Theorem C20_write_to_tempfile_succeeds :
  forall (W H K : Type) (rt : runtime W H) (key : bytes -> K) (look : K -> W -> option node)
         (fd_key : Z -> W -> option K) (tmpdir : bytes),
  fs_contract rt key look fd_key tmpdir ->
  forall content path suffix prefix w w1 w2 fd name,
  (match path with
   | Some p => if nonempty p then ensure_tree rt p default_mode w else (w, OOk tt)
   | None => (w, OOk tt) end) = (w1, OOk tt) ->
  rt_mkstemp rt suffix path prefix w1 = (w2, OOk (fd, name)) ->
  exists w', write_to_tempfile rt content path suffix prefix w = (w', OOk name).
Proof. exact (@write_to_tempfile_succeeds). Qed.
Print Assumptions C20_write_to_tempfile_succeeds.

(* the write loop as written never exhausts its fuel (the default of [write_all] is
   unreachable), given only the progress clause of the contract *)
Theorem C20_write_loop_total :
  forall (W H K : Type) (rt : runtime W H) (key : bytes -> K) (look : K -> W -> option node)
         (fd_key : Z -> W -> option K) (tmpdir : bytes),
  fs_contract rt key look fd_key tmpdir ->
  forall fd content w,
    exists r, write_loop rt (S (length content)) fd content w = Some r /\ write_all rt fd content w = r.
Proof. exact (@write_all_not_default). Qed.
Print Assumptions C20_write_loop_total.

(* ... and an error of ensure_tree is re-raised before any file is created *)
Theorem C20_write_to_tempfile_ensure_error :
  forall (W H : Type) (rt : runtime W H) content p suffix prefix w w1,
  nonempty p = true ->
  (forall e, ensure_tree rt p default_mode w = (w1, OErr e) ->
             write_to_tempfile rt content (Some p) suffix prefix w = (w1, OErr e)) /\
  (forall x, ensure_tree rt p default_mode w = (w1, OExn x) ->
             write_to_tempfile rt content (Some p) suffix prefix w = (w1, OExn x)).
Proof. exact (@write_to_tempfile_ensure_error). Qed.
Print Assumptions C20_write_to_tempfile_ensure_error.

(* ------------------------------------------------------------------ the contracts are satisfiable *)

(* The concrete runtime that the correspondence check validates against the real file system
   (Model/C20_FS.v) satisfies both contracts, for every world: the theorems above are not
   vacuous and apply to it.  Concrete evaluated instances: Examples ex_* in Proofs/C20_FS.v. *)
(* ... for ANY positive per-call limit of write(2) (Linux: 0x7ffff000) *)
Theorem C20_contracts_satisfiable_any_write_limit :
  forall limit : Z, 0 < limit -> fs_contract (fs_runtime_lim limit) fs_key fs_look fs_fd_key fs_tmpdir.
Proof. exact fs_lim_satisfies_contract. Qed.
Print Assumptions C20_contracts_satisfiable_any_write_limit.

Theorem C20_contracts_satisfiable :
  hash_contract fs_runtime /\ fs_contract fs_runtime fs_key fs_look fs_fd_key fs_tmpdir.
Proof. exact (conj cat_hash_contract fs_satisfies_contract). Qed.
Print Assumptions C20_contracts_satisfiable.
