Require Import OV.Base.Bytes OV.Base.PyInt OV.Base.Str OV.Base.Regex OV.Base.C04_Tmpl.
Require Import OV.Gen.C04_Sanitize OV.Gen.C04_Concrete OV.Model.C04 OV.Proofs.C04.
