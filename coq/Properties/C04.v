(* Properties/C04.v — mask_password hides every supported secret and changes nothing else.
   Property theorems only; each is closed by [exact] of a lemma from Proofs/ and followed by
   Print Assumptions.  Universal (unbounded) theorems: keys, no-key, frame, one theorem per
   rendering and pattern (generic in the key).  The whole-function statement is proved on a
   finite family only and is labelled BOUNDED.  Known findings: K12 (wildcard pattern) refutes
   the full statement; K14 is a second zone of the bounded theorem. *)
From Coq Require Import String.
Require Import OV.Base.Bytes OV.Base.PyInt OV.Base.Str OV.Base.Regex OV.Base.C04_Tmpl.
Require Import OV.Gen.Unicode OV.Gen.C04_Sanitize OV.Gen.C04_Concrete OV.Model.C04 OV.Model.C04_Spec OV.Model.C04_Sweep.
Require Import OV.Proofs.C04_Regex OV.Proofs.C04 OV.Proofs.C04_Render OV.Proofs.C04_Bounded OV.Proofs.C04_Refute OV.Proofs.C04_Multi.
Require Import OV.Proofs.C04_Abs OV.Proofs.C04_Whole OV.Proofs.C04_WholeR.
Open Scope N_scope.

(* 1. no key of the documented list has been dropped; every generated key is non-empty over [a-z_] *)
Theorem C04_keys_cover_spec :
  length spec_keys_35 = 35%nat /\ incl spec_keys_35 gen_keys /\ Forall (fun k => key_ok k = true) gen_keys.
Proof. exact (conj spec_keys_count keys_cover_spec). Qed.
Print Assumptions C04_keys_cover_spec.

(* 2. a message that contains no sanitize key (key in message.lower(), full str.lower()) is returned
      unchanged — all messages, all lengths, all masks *)
Theorem C04_no_key_unchanged : forall m secret : str,
  (forall k, In k gen_keys -> occursb k (py_lower m) = false) -> mask_password m secret = m.
Proof. exact no_key_unchanged. Qed.
Print Assumptions C04_no_key_unchanged.
Example C04_no_key_unchanged_ex : mask_password (lit "GET /v2/servers?pass word=1 'x'") (lit "***") = lit "GET /v2/servers?pass word=1 'x'".
Proof.
  apply C04_no_key_unchanged. intros k Hk.
  assert (H : forallb (fun k => negb (occursb k (py_lower (lit "GET /v2/servers?pass word=1 'x'")))) gen_keys = true)
    by (vm_compute; reflexivity).
  rewrite forallb_forall in H. specialize (H k Hk). apply negb_true_iff in H. exact H.
Qed.

(* 3. frame: every substitution mask_password performs, on ANY message: a _PATTERNS_2 substitution
      rewrites g1 ++ v ++ g2 to g1 ++ secret ++ g2 at each match and copies everything else; a
      _PATTERNS_1 substitution rewrites g1 ++ v to g1 ++ secret; the wildcard substitution rewrites
      g1 ++ v to g1, i.e. DELETES v (finding K12) *)
Theorem C04_sub_frame : forall (e : entry) (secret s : str), In e gen_concrete ->
  (forall r, In r (pick SelP2 (snd e)) -> sub2_rel r secret 0 s (re_sub r (t2 secret) s)) /\
  (forall r, In r (pick SelP1 (snd e)) -> sub1_rel r secret 0 s (re_sub r (t1 secret) s)) /\
  (forall r, In r (pick SelPW (snd e)) -> sub1_rel r [] 0 s (re_sub r tw s)).
Proof. exact sub_frame. Qed.
Print Assumptions C04_sub_frame.
(* the model applies exactly these patterns with exactly these templates, in this order *)
Theorem C04_steps : map fst gen_steps = [SelP2; SelP1; SelPW] /\
  (forall secret, map (fun st => snd st secret) gen_steps = [t2 secret; t1 secret; tw]).
Proof. exact gen_steps_shape. Qed.
Print Assumptions C04_steps.

(* 4. rendering_masked_R — for EVERY key k over [a-z_], every per-letter casing K of it, every digit
      suffix d, every amount of optional white space, every value of the rendering's class (all lengths,
      all code points of the class): the designated pattern TEMPLATE applied to R(K,d,v) gives R(K,d,mask) *)
Theorem C04_rendering_masked_bare : forall k K d, forallb key_char k = true -> casing_of k K -> forallb ascii_digit d = true ->
  forall w1 w2 v mask, forallb is_space w1 = true -> forallb is_space w2 = true ->
  forallb bare_char v = true -> (1 <= length v)%nat ->
  re_sub (gen_tp1_0 k) (t1 mask) (K ++ d ++ w1 ++ 61 :: w2 ++ v) = K ++ d ++ w1 ++ 61 :: w2 ++ mask.
Proof. exact rendering_masked_bare. Qed.
Print Assumptions C04_rendering_masked_bare.

Theorem C04_rendering_masked_eq_quoted : forall k K d, forallb key_char k = true -> casing_of k K -> forallb ascii_digit d = true ->
  forall w1 w2 q1 q2 v mask, forallb is_space w1 = true -> forallb is_space w2 = true ->
  is_quote q1 = true -> is_quote q2 = true -> forallb quoted_char v = true ->
  re_sub (gen_tp2_0 k) (t2 mask) (K ++ d ++ w1 ++ 61 :: w2 ++ q1 :: v ++ [q2]) = K ++ d ++ w1 ++ 61 :: w2 ++ q1 :: mask ++ [q2].
Proof. exact rendering_masked_eq_quoted. Qed.
Print Assumptions C04_rendering_masked_eq_quoted.

Theorem C04_rendering_masked_eq_dq : forall k K d, forallb key_char k = true -> casing_of k K -> forallb ascii_digit d = true ->
  forall w1 w2 v mask, forallb is_space w1 = true -> forallb is_space w2 = true -> forallb dq_char v = true ->
  re_sub (gen_tp2_1 k) (t2 mask) (K ++ d ++ w1 ++ 61 :: w2 ++ 34 :: v ++ [34]) = K ++ d ++ w1 ++ 61 :: w2 ++ 34 :: mask ++ [34].
Proof. exact rendering_masked_eq_dq. Qed.
Print Assumptions C04_rendering_masked_eq_dq.

Theorem C04_rendering_masked_eq_sq : forall k K d, forallb key_char k = true -> casing_of k K -> forallb ascii_digit d = true ->
  forall w1 w2 v mask, forallb is_space w1 = true -> forallb is_space w2 = true -> forallb sq_char v = true ->
  re_sub (gen_tp2_2 k) (t2 mask) (K ++ d ++ w1 ++ 61 :: w2 ++ 39 :: v ++ [39]) = K ++ d ++ w1 ++ 61 :: w2 ++ 39 :: mask ++ [39].
Proof. exact rendering_masked_eq_sq. Qed.
Print Assumptions C04_rendering_masked_eq_sq.

Theorem C04_rendering_masked_key_quoted : forall k K d, forallb key_char k = true -> casing_of k K -> forallb ascii_digit d = true ->
  forall w1 q1 q2 v mask, forallb is_space w1 = true -> (1 <= length w1)%nat ->
  is_quote q1 = true -> is_quote q2 = true -> forallb quoted_char v = true ->
  re_sub (gen_tp2_3 k) (t2 mask) (K ++ d ++ w1 ++ q1 :: v ++ [q2]) = K ++ d ++ w1 ++ q1 :: mask ++ [q2].
Proof. exact rendering_masked_key_quoted. Qed.
Print Assumptions C04_rendering_masked_key_quoted.

Theorem C04_rendering_masked_dashdash : forall k K d, forallb key_char k = true -> casing_of k K -> forallb ascii_digit d = true ->
  forall w1 w2 v mask, forallb is_space w1 = true -> (1 <= length w1)%nat -> forallb is_space w2 = true ->
  forallb dd_char v = true -> (1 <= length v)%nat ->
  re_sub (gen_tp2_4 k) (t2 mask) ([45; 45] ++ K ++ d ++ w1 ++ v ++ w2) = [45; 45] ++ K ++ d ++ w1 ++ mask ++ w2.
Proof. exact rendering_masked_dashdash. Qed.
Print Assumptions C04_rendering_masked_dashdash.

Theorem C04_rendering_masked_xml : forall k K d, forallb key_char k = true -> casing_of k K -> forallb ascii_digit d = true ->
  forall K' d' v mask, casing_of k K' -> forallb ascii_digit d' = true -> forallb xml_char v = true ->
  re_sub (gen_tp2_5 k) (t2 mask) (60 :: K ++ d ++ 62 :: v ++ 60 :: 47 :: K' ++ d' ++ [62])
  = 60 :: K ++ d ++ 62 :: mask ++ 60 :: 47 :: K' ++ d' ++ [62].
Proof. exact rendering_masked_xml. Qed.
Print Assumptions C04_rendering_masked_xml.

Theorem C04_rendering_masked_json : forall k K d, forallb key_char k = true -> casing_of k K -> forallb ascii_digit d = true ->
  forall q1 q2 w1 w2 q3 q4 v mask,
  is_quote q1 = true -> is_quote q2 = true -> is_quote q3 = true -> is_quote q4 = true ->
  forallb is_space w1 = true -> forallb is_space w2 = true -> forallb quoted_char v = true ->
  re_sub (gen_tp2_6 k) (t2 mask) (q1 :: K ++ d ++ q2 :: w1 ++ 58 :: w2 ++ q3 :: v ++ [q4])
  = q1 :: K ++ d ++ q2 :: w1 ++ 58 :: w2 ++ q3 :: mask ++ [q4].
Proof. exact rendering_masked_json. Qed.
Print Assumptions C04_rendering_masked_json.

Theorem C04_rendering_masked_cmd2 : forall k K d, forallb key_char k = true -> casing_of k K -> forallb ascii_digit d = true ->
  forall w1 dash fl w2 v w3 mask,
  forallb is_space w1 = true -> (dash = [] \/ dash = [45]) ->
  all_in cs_flag fl = true -> (1 <= length fl)%nat ->
  forallb is_space w2 = true -> (1 <= length w2)%nat ->
  forallb nonspace_char v = true -> (1 <= length v)%nat -> forallb is_space w3 = true ->
  re_sub (gen_tp2_9 k) (t2 mask) (K ++ d ++ w1 ++ 45 :: dash ++ fl ++ w2 ++ v ++ w3)
  = K ++ d ++ w1 ++ 45 :: dash ++ fl ++ w2 ++ mask ++ w3.
Proof. exact rendering_masked_cmd2. Qed.
Print Assumptions C04_rendering_masked_cmd2.

(* the two renderings whose pattern backtracks through ['"][^'"]*key: existence of a match by completeness of the
   matcher, uniqueness of what it reads by language soundness + counting quotes (Proofs/C04_Quote.v, C11_Regex.v) *)
Theorem C04_rendering_masked_json_prefix : forall k K d, forallb key_char k = true -> casing_of k K -> forallb ascii_digit d = true ->
  forall q1 pfx q2 w1 w2 u q3 q4 v mask,
  is_quote q1 = true -> is_quote q2 = true -> is_quote q3 = true -> is_quote q4 = true ->
  forallb quoted_char pfx = true -> forallb is_space w1 = true -> forallb is_space w2 = true -> opt_u u ->
  forallb quoted_char v = true ->
  re_sub (gen_tp2_7 k) (t2 mask) (q1 :: pfx ++ K ++ d ++ q2 :: w1 ++ 58 :: w2 ++ u ++ q3 :: v ++ [q4])
  = q1 :: pfx ++ K ++ d ++ q2 :: w1 ++ 58 :: w2 ++ u ++ q3 :: mask ++ [q4].
Proof. exact rendering_masked_json_prefix. Qed.
Print Assumptions C04_rendering_masked_json_prefix.

Theorem C04_rendering_masked_cmd1 : forall k K d, forallb key_char k = true -> casing_of k K -> forallb ascii_digit d = true ->
  forall q1 pfx q2 w1 w2 dash fl w3 w4 u q3 q4 v mask,
  is_quote q1 = true -> is_quote q2 = true -> is_quote q3 = true -> is_quote q4 = true ->
  forallb quoted_char pfx = true -> forallb is_space w1 = true -> forallb is_space w2 = true ->
  (dash = [] \/ dash = [45]) -> all_in cs_flag fl = true -> (1 <= length fl)%nat ->
  forallb is_space w3 = true -> forallb is_space w4 = true -> opt_u u -> forallb quoted_char v = true ->
  re_sub (gen_tp2_8 k) (t2 mask)
    (q1 :: pfx ++ K ++ d ++ q2 :: w1 ++ 44 :: w2 ++ 39 :: 45 :: dash ++ fl ++ 39 :: w3 ++ 44 :: w4 ++ u ++ q3 :: v ++ [q4])
  = q1 :: pfx ++ K ++ d ++ q2 :: w1 ++ 44 :: w2 ++ 39 :: 45 :: dash ++ fl ++ 39 :: w3 ++ 44 :: w4 ++ u ++ q3 :: mask ++ [q4].
Proof. exact rendering_masked_cmd1. Qed.
Print Assumptions C04_rendering_masked_cmd1.

(* non-vacuity: the hypotheses of the rendering theorems instantiated (key password, mixed casing,
   digit suffix, metacharacters and non-ASCII in the value) *)
Ltac ex_casing := repeat (constructor; [first [left; reflexivity | right; reflexivity]|]); constructor.
Example C04_rendering_masked_bare_ex :
  re_sub (gen_tp1_0 (lit "password")) (t1 (lit "***")) (lit "PassWORD7 = s3^c.*$" ++ [233; 8490])
  = lit "PassWORD7 = ***".
Proof.
  apply (C04_rendering_masked_bare (lit "password") (lit "PassWORD") [55] eq_refl ltac:(ex_casing) eq_refl
           [32] [32] (lit "s3^c.*$" ++ [233; 8490]) (lit "***") eq_refl eq_refl eq_refl).
  cbn. repeat constructor.
Qed.
Example C04_rendering_masked_json_ex :
  re_sub (gen_tp2_6 (lit "auth_token")) (t2 (lit "?")) ([39] ++ lit "Auth_Token" ++ [39; 58; 32; 34] ++ lit "a b=c" ++ [34])
  = [39] ++ lit "Auth_Token" ++ [39; 58; 32; 34] ++ lit "?" ++ [34].
Proof.
  apply (C04_rendering_masked_json (lit "auth_token") (lit "Auth_Token") [] eq_refl ltac:(ex_casing) eq_refl
           39 39 [] [32] 34 34 (lit "a b=c") (lit "?") eq_refl eq_refl eq_refl eq_refl eq_refl eq_refl eq_refl).
Qed.
Example C04_rendering_masked_xml_ex :
  re_sub (gen_tp2_5 (lit "token")) (t2 (lit "***")) (lit "<TOKEN>a 'b' c</token>") = lit "<TOKEN>***</token>".
Proof.
  apply (C04_rendering_masked_xml (lit "token") (lit "TOKEN") [] eq_refl ltac:(ex_casing) eq_refl
           (lit "token") [] (lit "a 'b' c") (lit "***") ltac:(ex_casing) eq_refl eq_refl).
Qed.
Example C04_rendering_masked_cmd2_ex :
  re_sub (gen_tp2_9 (lit "password")) (t2 (lit "***")) (lit "password --flag hunter2 ") = lit "password --flag *** ".
Proof.
  apply (C04_rendering_masked_cmd2 (lit "password") (lit "password") [] eq_refl ltac:(ex_casing) eq_refl
           [32] [45] (lit "flag") [32] (lit "hunter2") [32] (lit "***") eq_refl (or_intror eq_refl) eq_refl
           ltac:(cbn; repeat constructor) eq_refl ltac:(cbn; repeat constructor) eq_refl ltac:(cbn; repeat constructor) eq_refl).
Qed.

Example C04_rendering_masked_json_prefix_ex :
  re_sub (gen_tp2_7 (lit "password")) (t2 (lit "***")) (lit "'original_Password2' : u'a b=c'") = lit "'original_Password2' : u'***'".
Proof.
  apply (C04_rendering_masked_json_prefix (lit "password") (lit "Password") [50] eq_refl ltac:(ex_casing) eq_refl
           39 (lit "original_") 39 [32] [32] [117] 39 39 (lit "a b=c") (lit "***")
           eq_refl eq_refl eq_refl eq_refl eq_refl eq_refl eq_refl (or_intror (or_introl eq_refl)) eq_refl).
Qed.
Example C04_rendering_masked_cmd1_ex :
  re_sub (gen_tp2_8 (lit "password")) (t2 (lit "***")) (lit "'--os-PASSWORD', '--x', u'a b'") = lit "'--os-PASSWORD', '--x', u'***'".
Proof.
  apply (C04_rendering_masked_cmd1 (lit "password") (lit "PASSWORD") [] eq_refl ltac:(ex_casing) eq_refl
           39 (lit "--os-") 39 [] [32] [45] (lit "x") [] [32] [117] 39 39 (lit "a b") (lit "***")
           eq_refl eq_refl eq_refl eq_refl eq_refl eq_refl eq_refl (or_intror eq_refl) eq_refl ltac:(cbn; repeat constructor)
           eq_refl eq_refl (or_intror (or_introl eq_refl)) eq_refl).
Qed.

(* 5. BOUNDED: the WHOLE function (all keys, all twelve substitutions in order) on the finite family
      Model/C04_Sweep.family_quick (801 messages) = the complement of the universal theorems 8: the six keys that contain another key x {lower, UPPER,
      Capitalised, digit-suffixed} x 12 renderings; every key x 4 renderings; one key x class representatives of the generated
      sets at lengths 1 and 2; 35 keys x another context and mask: outside the zones of the known findings exactly the value is replaced, and a
      second application changes nothing.  Checked by computation (vm_compute), finite, NOT universal. *)
Theorem C04_mask_whole_bounded : forall c, In c family_quick -> in_zone (case_msg c) = false ->
  mask_password (case_msg c) (case_mask c) = case_want c.
Proof. exact (fun c Hin Hz => proj1 (mask_whole_bounded c Hin Hz)). Qed.
Print Assumptions C04_mask_whole_bounded.
Theorem C04_idempotent_bounded : forall c, In c family_quick -> in_zone (case_msg c) = false ->
  mask_password (mask_password (case_msg c) (case_mask c)) (case_mask c) = mask_password (case_msg c) (case_mask c).
Proof. exact idempotent_bounded. Qed.
Print Assumptions C04_idempotent_bounded.
Theorem C04_family_size : N.of_nat (length family_quick) = 801 /\ (exists c, In c family_quick /\ in_zone (case_msg c) = false).
Proof. exact family_nonvacuous. Qed.
Print Assumptions C04_family_size.

(* 5b. BOUNDED: four secrets under the same key and rendering in one message (4 keys x 12 renderings; 36 of the 48
       messages lie outside the zones): every one of them is replaced — a substitution that stops after a fixed
       number of matches would fail here *)
Theorem C04_many_secrets_bounded : forall c, In c family_multi -> in_zone (fst c) = false ->
  mask_password (fst c) (snd (snd c)) = fst (snd c) /\ mask_password (fst (snd c)) (snd (snd c)) = fst (snd c).
Proof. exact many_secrets_bounded. Qed.
Print Assumptions C04_many_secrets_bounded.
Theorem C04_many_secrets_size : N.of_nat (length family_multi) = 48 /\
  N.of_nat (length (filter (fun c => negb (in_zone (fst c))) family_multi)) = 36.
Proof. exact family_multi_nonvacuous. Qed.
Print Assumptions C04_many_secrets_size.

(* 5c. BOUNDED: the EMPTY mask (an explicit secret='' must be honoured): 48 messages over the quoted, XML, dict and command-list
       renderings — the value is replaced by nothing and a second application changes nothing; 3 messages of the --k form — the
       value is replaced by nothing (idempotence is not claimed there: `--k  next` reads the next word as a new value) *)
Theorem C04_empty_mask_bounded :
  (forall c, In c family_empty -> in_zone (case_msg c) = false ->
     case_mask c = [] /\ mask_password (case_msg c) (case_mask c) = case_want c /\ mask_password (case_want c) (case_mask c) = case_want c) /\
  (forall c, In c family_empty_dd -> in_zone (case_msg c) = false ->
     case_mask c = [] /\ mask_password (case_msg c) (case_mask c) = case_want c) /\
  N.of_nat (length family_empty) = 48 /\ N.of_nat (length family_empty_dd) = 3 /\
  forallb (fun c => negb (in_zone (case_msg c))) (family_empty ++ family_empty_dd) = true.
Proof. exact empty_mask_bounded. Qed.
Print Assumptions C04_empty_mask_bounded.

(* 6. the full statement (two secrets in neutral text) and its refutation by the wildcard pattern (K12) *)
Definition C04_full_statement : Prop := full_statement.   (* Proofs/C04_Refute.v: two supported renderings in neutral text *)

Theorem C04_refuted_wildcard :
  ~ C04_full_statement /\
  (* the witness: ' "password": "abc"  "token": "def" ' loses its last value and quote, and a second
     application changes the result again; the message lies in the K12 zone *)
  mask_password k12_witness (lit "***") = k12_once /\ mask_password k12_once (lit "***") = k12_twice /\
  k12_once <> k12_twice /\ zone_K12 k12_witness = true.
Proof. exact refuted_wildcard. Qed.
Print Assumptions C04_refuted_wildcard.

(* 7. K14 (found by this property's oracle): one secret in neutral text is NOT always masked exactly — `--K value`
      with an earlier key of the list a proper suffix of K and a flag-like value also masks the next word.  The zone
      is narrow: the same value under the suffix key itself, or a value that is not entirely --?[A-z]+, is outside
      it and is masked exactly. *)
Definition C04_single_statement : Prop := single_statement.
Theorem C04_refuted_K14 :
  ~ C04_single_statement /\
  mask_password k14_witness (lit "***") = lit " --auth_password *** ***" /\
  zone_K14 k14_witness = true /\ zone_K12 k14_witness = false /\
  mask_password (lit " --password -ab 1") (lit "***") = lit " --password *** 1" /\
  zone_K14 (lit " --password -ab 1") = false /\
  mask_password (lit " --auth_password -ab1 1") (lit "***") = lit " --auth_password *** 1" /\
  zone_K14 (lit " --auth_password -ab1 1") = false.
Proof. exact refuted_K14. Qed.
Print Assumptions C04_refuted_K14.

(* 8. UNIVERSAL whole-function theorems.  For EVERY generated key, every casing, digit suffix, optional white space,
      every value and mask of the rendering's class (all lengths), every surrounding text pre / post without quote,
      '-', '<', '=', '>' characters — under decidable side conditions on the input:
        only_at   : the key, in the patterns' case-insensitive sense, starts in the message at the rendered position(s) only
                    (so it does not occur in pre, post, the value or the mask);
        others_absent : no OTHER sanitize key occurs in lower(message) (hence K must not contain another key);
      stated for the message and for the masked message —
      the WHOLE function (all keys in order, all twelve substitutions of the key in order) replaces exactly the value,
      and applied to its own result changes nothing.  Proof: the pre-test skips every other key; the designated
      pattern rewrites the value (rendering derivation in context); every other pattern of the key cannot match
      anywhere in the message (verified abstract checker C04_Abs.v, run per key by the kernel). *)
(* k=v (bare) *)
Theorem C04_whole_bare : forall k K d w1 w2 v mask pre post,
  In k gen_keys ->
  casing_of k K ->
  forallb ascii_digit d = true ->
  forallb is_space w1 = true ->
  forallb is_space w2 = true ->
  forallb bare_char v = true ->
  (1 <= length v)%nat ->
  forallb bare_char mask = true ->
  (1 <= length mask)%nat ->
  forallb ctx_char pre = true ->
  forallb ctx_char post = true ->
  hd_notin cs_bare post = true ->
  only_at gen_ci_table k (msg_bare pre K d w1 w2 v post) [length pre] = true ->
  only_at gen_ci_table k (msg_bare pre K d w1 w2 mask post) [length pre] = true ->
  others_absent k (msg_bare pre K d w1 w2 v post) = true ->
  others_absent k (msg_bare pre K d w1 w2 mask post) = true ->
  mask_password (msg_bare pre K d w1 w2 v post) mask = msg_bare pre K d w1 w2 mask post /\ mask_password (msg_bare pre K d w1 w2 mask post) mask = msg_bare pre K d w1 w2 mask post.
Proof. exact whole_bare. Qed.
Print Assumptions C04_whole_bare.

(* k SQvSQ *)
Theorem C04_whole_kq : forall k K d w1 q1 q2 v mask pre post,
  In k gen_keys ->
  casing_of k K ->
  forallb ascii_digit d = true ->
  forallb is_space w1 = true ->
  (1 <= length w1)%nat ->
  is_quote q1 = true ->
  is_quote q2 = true ->
  forallb quoted_char v = true ->
  forallb quoted_char mask = true ->
  forallb ctx_char pre = true ->
  forallb ctx_char post = true ->
  only_at gen_ci_table k (msg_kq pre K d w1 q1 v q2 post) [length pre] = true ->
  only_at gen_ci_table k (msg_kq pre K d w1 q1 mask q2 post) [length pre] = true ->
  others_absent k (msg_kq pre K d w1 q1 v q2 post) = true ->
  others_absent k (msg_kq pre K d w1 q1 mask q2 post) = true ->
  mask_password (msg_kq pre K d w1 q1 v q2 post) mask = msg_kq pre K d w1 q1 mask q2 post /\ mask_password (msg_kq pre K d w1 q1 mask q2 post) mask = msg_kq pre K d w1 q1 mask q2 post.
Proof. exact whole_kq. Qed.
Print Assumptions C04_whole_kq.

(* <k>v</k> *)
Theorem C04_whole_xml : forall k K d K' d' v mask pre post,
  In k gen_keys ->
  casing_of k K ->
  forallb ascii_digit d = true ->
  casing_of k K' ->
  forallb ascii_digit d' = true ->
  forallb xml_char v = true ->
  forallb xml_char mask = true ->
  forallb ctx_char pre = true ->
  forallb ctx_char post = true ->
  only_at gen_ci_table k (msg_xml pre K d v K' d' post) (xml_offsets pre K d v) = true ->
  only_at gen_ci_table k (msg_xml pre K d mask K' d' post) (xml_offsets pre K d mask) = true ->
  others_absent k (msg_xml pre K d v K' d' post) = true ->
  others_absent k (msg_xml pre K d mask K' d' post) = true ->
  mask_password (msg_xml pre K d v K' d' post) mask = msg_xml pre K d mask K' d' post /\ mask_password (msg_xml pre K d mask K' d' post) mask = msg_xml pre K d mask K' d' post.
Proof. exact whole_xml. Qed.
Print Assumptions C04_whole_xml.

(* k --flag v *)
Theorem C04_whole_cmd2 : forall k K d w1 dash fl w2 w3 v mask pre post,
  In k gen_keys ->
  casing_of k K ->
  forallb ascii_digit d = true ->
  forallb is_space w1 = true ->
  (dash = [] \/ dash = [45]) ->
  all_in cs_flag fl = true ->
  (1 <= length fl)%nat ->
  forallb is_space w2 = true ->
  (1 <= length w2)%nat ->
  forallb is_space w3 = true ->
  forallb nonspace_char v = true ->
  (1 <= length v)%nat ->
  forallb nonspace_char mask = true ->
  (1 <= length mask)%nat ->
  forallb ctx_char pre = true ->
  forallb ctx_char post = true ->
  hd_notin cs_nonspace (w3 ++ post) = true ->
  hd_notin py_space post = true ->
  only_at gen_ci_table k (msg_cmd2 pre K d w1 dash fl w2 v w3 post) [length pre] = true ->
  only_at gen_ci_table k (msg_cmd2 pre K d w1 dash fl w2 mask w3 post) [length pre] = true ->
  others_absent k (msg_cmd2 pre K d w1 dash fl w2 v w3 post) = true ->
  others_absent k (msg_cmd2 pre K d w1 dash fl w2 mask w3 post) = true ->
  mask_password (msg_cmd2 pre K d w1 dash fl w2 v w3 post) mask = msg_cmd2 pre K d w1 dash fl w2 mask w3 post /\ mask_password (msg_cmd2 pre K d w1 dash fl w2 mask w3 post) mask = msg_cmd2 pre K d w1 dash fl w2 mask w3 post.
Proof. exact whole_cmd2. Qed.
Print Assumptions C04_whole_cmd2.

(* --k v (value not starting with SQ-SQ) *)
Theorem C04_whole_dd : forall k K d w1 w2 v mask pre post,
  In k gen_keys ->
  casing_of k K ->
  forallb ascii_digit d = true ->
  forallb is_space w1 = true ->
  (1 <= length w1)%nat ->
  forallb is_space w2 = true ->
  forallb dd_char v = true ->
  (1 <= length v)%nat ->
  hd_notin [(45, 45)] v = true ->
  forallb dd_char mask = true ->
  (1 <= length mask)%nat ->
  hd_notin [(45, 45)] mask = true ->
  forallb ctx_char pre = true ->
  forallb ctx_char post = true ->
  hd_notin cs_dd (w2 ++ post) = true ->
  hd_notin py_space post = true ->
  only_at gen_ci_table k (msg_dd pre K d w1 v w2 post) [(length pre + 2)%nat] = true ->
  only_at gen_ci_table k (msg_dd pre K d w1 mask w2 post) [(length pre + 2)%nat] = true ->
  others_absent k (msg_dd pre K d w1 v w2 post) = true ->
  others_absent k (msg_dd pre K d w1 mask w2 post) = true ->
  mask_password (msg_dd pre K d w1 v w2 post) mask = msg_dd pre K d w1 mask w2 post /\ mask_password (msg_dd pre K d w1 mask w2 post) mask = msg_dd pre K d w1 mask w2 post.
Proof. exact whole_dd. Qed.
Print Assumptions C04_whole_dd.

(* SQ…kSQ: uSQvSQ (non-empty prefix) *)
Theorem C04_whole_jp : forall k K d q1 pfx q2 w1 w2 u q3 q4 v mask pre post,
  In k gen_keys ->
  casing_of k K ->
  forallb ascii_digit d = true ->
  is_quote q1 = true ->
  is_quote q2 = true ->
  is_quote q3 = true ->
  is_quote q4 = true ->
  forallb quoted_char pfx = true ->
  (1 <= length pfx)%nat ->
  forallb is_space w1 = true ->
  forallb is_space w2 = true ->
  opt_u u ->
  forallb quoted_char v = true ->
  forallb quoted_char mask = true ->
  forallb ctx_char pre = true ->
  forallb ctx_char post = true ->
  only_at gen_ci_table k (msg_jp pre q1 pfx K d q2 w1 w2 u q3 v q4 post) [(length pre + 1 + length pfx)%nat] = true ->
  only_at gen_ci_table k (msg_jp pre q1 pfx K d q2 w1 w2 u q3 mask q4 post) [(length pre + 1 + length pfx)%nat] = true ->
  others_absent k (msg_jp pre q1 pfx K d q2 w1 w2 u q3 v q4 post) = true ->
  others_absent k (msg_jp pre q1 pfx K d q2 w1 w2 u q3 mask q4 post) = true ->
  mask_password (msg_jp pre q1 pfx K d q2 w1 w2 u q3 v q4 post) mask = msg_jp pre q1 pfx K d q2 w1 w2 u q3 mask q4 post /\ mask_password (msg_jp pre q1 pfx K d q2 w1 w2 u q3 mask q4 post) mask = msg_jp pre q1 pfx K d q2 w1 w2 u q3 mask q4 post.
Proof. exact whole_jp. Qed.
Print Assumptions C04_whole_jp.

(* k = DQvDQ / k = SQvSQ *)
Theorem C04_whole_eq : forall k K d w1 w2 q v mask pre post,
  In k gen_keys ->
  casing_of k K ->
  forallb ascii_digit d = true ->
  forallb is_space w1 = true ->
  forallb is_space w2 = true ->
  (q = 34 \/ q = 39) ->
  forallb quoted_char v = true ->
  forallb quoted_char mask = true ->
  forallb ctx_char pre = true ->
  forallb ctx_char post = true ->
  only_at gen_ci_table k (msg_eq pre K d w1 w2 q v post) [length pre] = true ->
  only_at gen_ci_table k (msg_eq pre K d w1 w2 q mask post) [length pre] = true ->
  others_absent k (msg_eq pre K d w1 w2 q v post) = true ->
  others_absent k (msg_eq pre K d w1 w2 q mask post) = true ->
  mask_password (msg_eq pre K d w1 w2 q v post) mask = msg_eq pre K d w1 w2 q mask post /\ mask_password (msg_eq pre K d w1 w2 q mask post) mask = msg_eq pre K d w1 w2 q mask post.
Proof. exact whole_eq. Qed.
Print Assumptions C04_whole_eq.

(* DQkDQ: DQvDQ / SQkSQ: SQvSQ *)
Theorem C04_whole_json : forall k K d q1 q2 w1 w2 q3 q4 v mask pre post,
  In k gen_keys ->
  casing_of k K ->
  forallb ascii_digit d = true ->
  is_quote q1 = true ->
  is_quote q2 = true ->
  is_quote q3 = true ->
  is_quote q4 = true ->
  forallb is_space w1 = true ->
  forallb is_space w2 = true ->
  forallb quoted_char v = true ->
  forallb quoted_char mask = true ->
  forallb ctx_char pre = true ->
  forallb ctx_char post = true ->
  only_at gen_ci_table k (msg_json pre q1 K d q2 w1 w2 q3 v q4 post) [(length pre + 1)%nat] = true ->
  only_at gen_ci_table k (msg_json pre q1 K d q2 w1 w2 q3 mask q4 post) [(length pre + 1)%nat] = true ->
  others_absent k (msg_json pre q1 K d q2 w1 w2 q3 v q4 post) = true ->
  others_absent k (msg_json pre q1 K d q2 w1 w2 q3 mask q4 post) = true ->
  mask_password (msg_json pre q1 K d q2 w1 w2 q3 v q4 post) mask = msg_json pre q1 K d q2 w1 w2 q3 mask q4 post /\ mask_password (msg_json pre q1 K d q2 w1 w2 q3 mask q4 post) mask = msg_json pre q1 K d q2 w1 w2 q3 mask q4 post.
Proof. exact whole_json. Qed.
Print Assumptions C04_whole_json.

(* SQkSQ, SQ--flagSQ, SQvSQ *)
Theorem C04_whole_cmd1 : forall k K d q1 pfx q2 w1 w2 dash fl w3 w4 u q3 q4 v mask pre post,
  In k gen_keys ->
  casing_of k K ->
  forallb ascii_digit d = true ->
  is_quote q1 = true ->
  is_quote q2 = true ->
  is_quote q3 = true ->
  is_quote q4 = true ->
  forallb quoted_char pfx = true ->
  forallb is_space w1 = true ->
  forallb is_space w2 = true ->
  (dash = [] \/ dash = [45]) ->
  all_in cs_flag fl = true ->
  (1 <= length fl)%nat ->
  forallb is_space w3 = true ->
  forallb is_space w4 = true ->
  opt_u u ->
  forallb quoted_char v = true ->
  forallb quoted_char mask = true ->
  forallb ctx_char pre = true ->
  forallb ctx_char post = true ->
  only_at gen_ci_table k (msg_cmd1 pre q1 pfx K d q2 w1 w2 dash fl w3 w4 u q3 v q4 post) [(length pre + 1 + length pfx)%nat] = true ->
  only_at gen_ci_table k (msg_cmd1 pre q1 pfx K d q2 w1 w2 dash fl w3 w4 u q3 mask q4 post) [(length pre + 1 + length pfx)%nat] = true ->
  others_absent k (msg_cmd1 pre q1 pfx K d q2 w1 w2 dash fl w3 w4 u q3 v q4 post) = true ->
  others_absent k (msg_cmd1 pre q1 pfx K d q2 w1 w2 dash fl w3 w4 u q3 mask q4 post) = true ->
  mask_password (msg_cmd1 pre q1 pfx K d q2 w1 w2 dash fl w3 w4 u q3 v q4 post) mask = msg_cmd1 pre q1 pfx K d q2 w1 w2 dash fl w3 w4 u q3 mask q4 post /\ mask_password (msg_cmd1 pre q1 pfx K d q2 w1 w2 dash fl w3 w4 u q3 mask q4 post) mask = msg_cmd1 pre q1 pfx K d q2 w1 w2 dash fl w3 w4 u q3 mask q4 post.
Proof. exact whole_cmd1. Qed.
Print Assumptions C04_whole_cmd1.

(* non-vacuity: instances with every side condition evaluated *)
Ltac vr := vm_compute; reflexivity.
Example C04_whole_bare_ex :
  mask_password (lit "run now PassWord7 = s3^cret ok") (lit "***") = lit "run now PassWord7 = *** ok" /\
  mask_password (lit "run now PassWord7 = *** ok") (lit "***") = lit "run now PassWord7 = *** ok".
Proof.
  apply (C04_whole_bare (lit "password") (lit "PassWord") [55] [32] [32] (lit "s3^cret") (lit "***") (lit "run now ") (lit " ok")
           (in_gen_keys (lit "password") ltac:(vr)) ltac:(ex_casing) eq_refl eq_refl eq_refl eq_refl ltac:(cbn; repeat constructor) eq_refl ltac:(cbn; repeat constructor)
           eq_refl eq_refl ltac:(vr) ltac:(vr) ltac:(vr) ltac:(vr) ltac:(vr)).
Qed.
Example C04_whole_eq_ex :
  mask_password (lit "x: ADMIN_PASS = ") (lit "***") = lit "x: ADMIN_PASS = " .
Proof. vr. Qed.
Example C04_whole_json_ex :
  mask_password ([123] ++ [39] ++ lit "Token" ++ [39; 58; 32; 39] ++ lit "a b.c" ++ [39; 125]) (lit "***")
  = [123] ++ [39] ++ lit "Token" ++ [39; 58; 32; 39] ++ lit "***" ++ [39; 125] /\
  mask_password ([123] ++ [39] ++ lit "Token" ++ [39; 58; 32; 39] ++ lit "***" ++ [39; 125]) (lit "***")
  = [123] ++ [39] ++ lit "Token" ++ [39; 58; 32; 39] ++ lit "***" ++ [39; 125].
Proof.
  apply (C04_whole_json (lit "token") (lit "Token") [] 39 39 [] [32] 39 39 (lit "a b.c") (lit "***") [123] [125]
           (in_gen_keys (lit "token") ltac:(vr)) ltac:(ex_casing) eq_refl eq_refl eq_refl eq_refl eq_refl eq_refl eq_refl eq_refl eq_refl
           eq_refl eq_refl ltac:(vr) ltac:(vr) ltac:(vr) ltac:(vr)).
Qed.
Example C04_whole_xml_ex :
  mask_password (lit "<SslKey>a 'b' = c</sslkey> done") (lit "?") = lit "<SslKey>?</sslkey> done" /\
  mask_password (lit "<SslKey>?</sslkey> done") (lit "?") = lit "<SslKey>?</sslkey> done".
Proof.
  apply (C04_whole_xml (lit "sslkey") (lit "SslKey") [] (lit "sslkey") [] (lit "a 'b' = c") (lit "?") [] (lit " done")
           (in_gen_keys (lit "sslkey") ltac:(vr)) ltac:(ex_casing) eq_refl ltac:(ex_casing) eq_refl eq_refl eq_refl eq_refl eq_refl
           ltac:(vr) ltac:(vr) ltac:(vr) ltac:(vr)).
Qed.

(* which keys can satisfy others_absent at all: those that contain no other sanitize key *)
Definition solo_keys : list str := filter (fun k => forallb (fun k' => beq k' k || negb (occursb k' k)) gen_keys) gen_keys.
Theorem C04_solo_keys : N.of_nat (length solo_keys) = 29 /\ N.of_nat (length gen_keys) = 35.
Proof. vm_compute. split; reflexivity. Qed.
Print Assumptions C04_solo_keys.
