(* Properties/C12.v — property theorems only *)
From Coq Require Import ZArith.
Require Import OV.Model.C12_Calendar OV.Proofs.C12_Calendar.
Open Scope Z_scope.

Theorem C12_calendar_roundtrip : forall y m d, valid_ymd y m d = true ->
  ymd_of_days (days_of_ymd y m d) = (y, m, d).
Proof. exact ymd_of_days_of_ymd. Qed.
Print Assumptions C12_calendar_roundtrip.
