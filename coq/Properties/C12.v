(* Properties/C12.v — property theorems only; each is closed by [exact] of a lemma from
   Proofs/ and followed by Print Assumptions.

   C12: "normalize_time maps every aware datetime to the naive UTC instant it denotes and
   leaves naive ones alone; parse_isotime inverts isoformat, and unmarshall_time inverts
   marshall_now for naive and UTC datetimes (a leap second is capped at 59).  With the clock
   overridden to a single instant, utcnow and utcnow_ts return that instant,
   advance_time_delta/seconds move it by exactly the given amount, and is_older_than(t, s),
   is_newer_than(t, s) and is_soon(t, w) hold exactly when now - t > s, t - now > s and
   t <= now + w, for naive, aware and ISO-string t."

   Vocabulary (Model/C12_Prim.v): a datetime is [wall] (microseconds since 0001-01-01T00:00 on
   its own clock face) and, when aware, [tz] = its UTC offset in microseconds (+ tzname(None));
   [instant d] = wall - offset; timedeltas are microseconds; a second count is a Python int or binary64 float
   ([pynum]) and [td_of_seconds s] is timedelta(seconds=s) as CPython computes it (exact / integer part + round-half-even of
   the binary64 product fraction * 1e6; OverflowError / ValueError for out-of-range, infinite, NaN); a world [w]
   holds the override slot [ov w], the OS clock, and the iso8601 / zoneinfo look-ups.
   M A = world -> res A * world.

   The functions the theorems speak about ([gen_is_older_than], [gen_utcnow], ...) are the
   statement-by-statement translations of timeutils.py regenerated from /repo on every run
   (Gen/C12_Timeutils.v); Proofs/C12_Equiv.v proves each equal to the hand-written model of
   Model/C12.v, on which the lemmas are proved. *)
From Coq Require Import String.
From Coq Require Import SpecFloat.
Require Import OV.Base.Bytes OV.Base.Py OV.Base.PyFloat.
Require Import OV.Model.C12_Calendar OV.Model.C12_Prim OV.Model.C12 OV.Model.C12_Iso.
Require Import OV.Gen.C12_Timeutils.
Require Import OV.Proofs.C12_Calendar OV.Proofs.C12 OV.Proofs.C12_Iso OV.Proofs.C12_Float OV.Proofs.C12_Equiv.
Open Scope Z_scope.

(* ---- the calendar the model computes with is a bijection (all years >= 1, unbounded) ---- *)
Theorem C12_calendar_roundtrip : forall y m d, valid_ymd y m d = true ->
  ymd_of_days (days_of_ymd y m d) = (y, m, d).
Proof. exact ymd_of_days_of_ymd. Qed.
Print Assumptions C12_calendar_roundtrip.

Theorem C12_calendar_roundtrip_days : forall n, 0 <= n ->
  let '(y, m, d) := ymd_of_days n in valid_ymd y m d = true /\ days_of_ymd y m d = n.
Proof. exact days_of_ymd_of_days. Qed.
Print Assumptions C12_calendar_roundtrip_days.

(* field records <-> microsecond counts, microseconds included, over datetime.min..max *)
Theorem C12_fields_roundtrip : forall f, valid_fields f = true -> fields_of_us (us_of_fields f) = f.
Proof. exact fields_of_us_of_fields. Qed.
Print Assumptions C12_fields_roundtrip.

Theorem C12_fields_roundtrip_us : forall u, in_range u = true ->
  valid_fields (fields_of_us u) = true /\ us_of_fields (fields_of_us u) = u.
Proof. exact us_of_fields_of_us. Qed.
Print Assumptions C12_fields_roundtrip_us.

(* ---- normalize_time ---- *)
Theorem C12_normalize_naive_id : forall d w, tz d = None -> gen_normalize_time d w = (Ok d, w).
Proof. exact gen_normalize_naive_id. Qed.
Print Assumptions C12_normalize_naive_id.

Theorem C12_normalize_preserves_instant : forall d z w, tz d = Some z ->
  gen_normalize_time d w = (if in_range (instant d) then Ok (naive (instant d)) else Exn OverflowError, w).
Proof. exact gen_normalize_preserves_instant. Qed.
Print Assumptions C12_normalize_preserves_instant.

(* ---- parse_isotime inverts isoformat (library pair, as modelled in Model/C12_Iso.v) ---- *)
(* for every representable datetime that is naive (read as UTC) or whose offset is a whole
   number of minutes within +-23:59 *)
Theorem C12_iso_roundtrip : forall d, in_range (wall d) = true -> iso_offset_ok d = true ->
  exists d', iso_parse (iso_format d) = Ok d' /\ wall d' = wall d /\ instant d' = instant d.
Proof. exact iso_roundtrip_instant. Qed.
Print Assumptions C12_iso_roundtrip.

(* hence parse_isotime, in a world whose iso8601 is the modelled one *)
Theorem C12_parse_isotime_inverts_isoformat : forall w d,
  lib_parse w = iso_parse -> in_range (wall d) = true -> iso_offset_ok d = true ->
  exists d', gen_parse_isotime (iso_format d) w = (Ok d', w) /\ wall d' = wall d /\ instant d' = instant d.
Proof. exact gen_parse_isotime_inverts_isoformat. Qed.
Print Assumptions C12_parse_isotime_inverts_isoformat.

(* the clause for every offset strictly between -24h and +24h is false: isoformat() prints a
   seconds part the parser rejects (known finding iso-submin) *)
Definition C12_iso_full_statement : Prop := iso_full_statement.
Theorem C12_iso_submin_refuted : ~ C12_iso_full_statement.
Proof. exact iso_submin_refuted. Qed.
Print Assumptions C12_iso_submin_refuted.

(* ---- marshall_now / unmarshall_time ---- *)
Theorem C12_unmarshall_marshall_naive : forall w d, tz d = None -> in_range (wall d) = true ->
  bindM (gen_marshall_now (Some d)) gen_unmarshall_time w = (Ok d, w).
Proof. exact gen_unmarshall_marshall_naive. Qed.
Print Assumptions C12_unmarshall_marshall_naive.

(* contract on zoneinfo: the database has a 'UTC' entry whose offset is 0 *)
Theorem C12_unmarshall_marshall_utc : forall w d n z,
  tz d = Some (mkTz 0 (Some n)) -> is_utc_name n = true -> in_range (wall d) = true ->
  lib_zone w utc_name = Ok z -> z_utcoffset z (wall d) = 0 ->
  exists d', bindM (gen_marshall_now (Some d)) gen_unmarshall_time w = (Ok d', w) /\
             wall d' = wall d /\ dt_utcoffset d' = Some 0 /\ instant d' = instant d.
Proof. exact gen_unmarshall_marshall_utc. Qed.
Print Assumptions C12_unmarshall_marshall_utc.

Theorem C12_unmarshall_leap_capped : forall m w, 59 <= m_second m ->
  gen_unmarshall_time m w = gen_unmarshall_time (with_second m 59) w.
Proof. exact gen_unmarshall_leap_capped. Qed.
Print Assumptions C12_unmarshall_leap_capped.

(* the seven marshalled fields denote the wall reading exactly (microseconds included) *)
Theorem C12_marshall_fields : forall w d, in_range (wall d) = true ->
  exists m, gen_marshall_now (Some d) w = (Ok m, w) /\
    us_of_fields (mkF (m_year m) (m_month m) (m_day m) (m_hour m) (m_minute m) (m_second m) (m_microsecond m)) = wall d.
Proof. exact gen_marshall_fields. Qed.
Print Assumptions C12_marshall_fields.

(* marshall_now() without argument marshals the overridden clock *)
Theorem C12_marshall_now_override : forall w t, ov w = One t -> gen_marshall_now None w = gen_marshall_now (Some t) w.
Proof. exact gen_marshall_now_override. Qed.
Print Assumptions C12_marshall_now_override.

(* ---- the overridden clock ---- *)
Theorem C12_override_returns_instant : forall w t b, ov w = One t -> gen_utcnow b w = (Ok t, w).
Proof. exact gen_override_returns_instant. Qed.
Print Assumptions C12_override_returns_instant.

Theorem C12_set_then_utcnow : forall w t b,
  let w1 := snd (gen_set_time_override (One t) w) in
  ov w1 = One t /\ gen_utcnow b w1 = (Ok t, w1) /\ real w1 = real w.
Proof. exact gen_set_then_utcnow. Qed.
Print Assumptions C12_set_then_utcnow.

Theorem C12_utcnow_ts_seconds : forall w t, ov w = One t ->
  gen_utcnow_ts false w = (Ok (FInt (wall t / US_PER_SEC - EPOCH_S)), w).
Proof. exact gen_utcnow_ts_seconds. Qed.
Print Assumptions C12_utcnow_ts_seconds.

Theorem C12_utcnow_ts_micro : forall w t, ov w = One t -> in_range (wall t) = true ->
  exists e n d, gen_utcnow_ts true w = (Ok e, w) /\ fval e = Some (n, d) /\ 0 < d /\
                n * US_PER_SEC = (wall t - EPOCH_S * US_PER_SEC) * d.
Proof. exact gen_utcnow_ts_micro. Qed.
Print Assumptions C12_utcnow_ts_micro.

(* any sequence of advance_time_delta / advance_time_seconds calls moves the instant by exactly
   the sum, as long as every intermediate instant is representable *)
Theorem C12_advance_exact : forall l w t, ov w = One t -> prefixes_ok (wall t) l = true ->
  gen_run_advs l w = (Ok tt, set_ov w (One (mkDt (wall t + sum_us l) (tz t)))).
Proof. exact gen_advance_exact. Qed.
Print Assumptions C12_advance_exact.

Theorem C12_advance_then_utcnow : forall l w t b, ov w = One t -> prefixes_ok (wall t) l = true ->
  bindM (gen_run_advs l) (fun _ => gen_utcnow b) w =
    (Ok (mkDt (wall t + sum_us l) (tz t)), set_ov w (One (mkDt (wall t + sum_us l) (tz t)))).
Proof. exact gen_advance_then_utcnow. Qed.
Print Assumptions C12_advance_then_utcnow.

(* ... and one leaving datetime's range raises OverflowError and moves nothing *)
Theorem C12_advance_overflow : forall w t x delta, ov w = One t -> td_of_days_seconds 0 x = Ok delta -> in_range (wall t + delta) = false ->
  gen_advance_time_delta delta w = (Exn OverflowError, w) /\ gen_advance_time_seconds x w = (Exn OverflowError, w).
Proof. exact gen_advance_overflow. Qed.
Print Assumptions C12_advance_overflow.

(* oslo_utils.fixture.TimeFixture keeps no instant of its own: its methods are the module functions
   (C12_advance_exact covers any interleaving: constructors FxByDelta / FxBySeconds) *)
Theorem C12_fixture_is_module :
  (forall o w, gen_fixture_setUp o w = gen_set_time_override o w) /\
  (forall w, gen_fixture_cleanUp w = gen_clear_time_override w) /\
  (forall d w, gen_fixture_advance_time_delta d w = gen_advance_time_delta d w) /\
  (forall x w, gen_fixture_advance_time_seconds x w = gen_advance_time_seconds x w).
Proof. exact gen_fixture_is_module. Qed.
Print Assumptions C12_fixture_is_module.

(* ---- timedelta(seconds=x): the amount advance_time_seconds / the comparisons use ---- *)
Theorem C12_td_int_exact : forall z, TD_MIN_US <= z * US_PER_SEC <= TD_MAX_US -> td_of_seconds (PInt z) = Ok (z * US_PER_SEC).
Proof. exact td_of_seconds_int. Qed.
Print Assumptions C12_td_int_exact.

Theorem C12_td_float_integral : forall s m e, f_is_integer (S754_finite s m e) = true ->
  float_us (S754_finite s m e) = Ok (signed s (fst (modf_abs m e)) * 1000000).
Proof. exact float_us_integral. Qed.
Print Assumptions C12_td_float_integral.

Theorem C12_td_float_spec : forall s m e,
  let '(ip, fm) := modf_abs m e in
  float_us (S754_finite s m e) = Ok (signed s (ip * 1000000 + rhe_abs (f_mul (f_normalize fm e) f_1e6))) /\
  (0 <= e -> ip = Zpos m * f_pow2 e /\ fm = 0) /\
  (e < 0 -> ip * f_pow2 (- e) + fm = Zpos m /\ 0 <= fm < f_pow2 (- e)).
Proof. exact float_us_spec. Qed.
Print Assumptions C12_td_float_spec.

Theorem C12_round_half_even_nearest : forall m k, 0 <= m -> 0 < k ->
  let r := round_half_even m (- k) in
  2 * Z.abs (r * f_pow2 k - m) <= f_pow2 k /\ (2 * Z.abs (r * f_pow2 k - m) = f_pow2 k -> Z.even r = true).
Proof. exact round_half_even_nearest. Qed.
Print Assumptions C12_round_half_even_nearest.

(* ---- list overrides and aware overrides: what the code does ---- *)
Theorem C12_utcnow_pops_in_order : forall n l w, ov w = Many l -> (n <= length l)%nat ->
  gen_utcnow_n n w = (Ok (firstn n l), set_ov w (Many (skipn n l))).
Proof. exact gen_utcnow_pops_in_order. Qed.
Print Assumptions C12_utcnow_pops_in_order.

(* advance_time_* with a list override moves NO element (the loop rebinds a local); it raises OverflowError when some
   element + delta is not representable *)
Theorem C12_advance_list_noop : forall w l delta, ov w = Many l ->
  gen_advance_time_delta delta w = (if forallb (fun t => in_range (wall t + delta)) l then Ok tt else Exn OverflowError, w).
Proof. exact gen_advance_list_noop. Qed.
Print Assumptions C12_advance_list_noop.

(* an aware override is returned as is (C12_override_returns_instant); comparing against it raises TypeError *)
Theorem C12_aware_override_raises : forall w now z t d s,
  ov w = One now -> tz now = Some z -> resolves w t d -> normalizable d = true ->
  gen_is_older_than t s w = (Exn TypeError, w) /\ gen_is_newer_than t s w = (Exn TypeError, w).
Proof. exact gen_aware_override_raises. Qed.
Print Assumptions C12_aware_override_raises.

(* ---- comparisons under a scalar (naive UTC) override; t is a naive or aware datetime or a
        string the ISO parser resolves to d; normalizable d = the instant is representable ---- *)
Theorem C12_older_iff : forall w now t d s su,
  ov w = One now -> tz now = None -> resolves w t d -> normalizable d = true -> td_of_seconds s = Ok su ->
  exists b, gen_is_older_than t s w = (Ok b, w) /\ (b = true <-> wall now - instant d > su).
Proof. exact gen_older_iff. Qed.
Print Assumptions C12_older_iff.

Theorem C12_newer_iff : forall w now t d s su,
  ov w = One now -> tz now = None -> resolves w t d -> normalizable d = true -> td_of_seconds s = Ok su ->
  exists b, gen_is_newer_than t s w = (Ok b, w) /\ (b = true <-> instant d - wall now > su).
Proof. exact gen_newer_iff. Qed.
Print Assumptions C12_newer_iff.

Theorem C12_soon_iff : forall w now t d s su,
  ov w = One now -> tz now = None -> resolves w t d -> normalizable d = true -> td_of_seconds s = Ok su ->
  in_range (wall now + su) = true ->
  exists b, gen_is_soon t s w = (Ok b, w) /\ (b = true <-> instant d <= wall now + su).
Proof. exact gen_soon_iff. Qed.
Print Assumptions C12_soon_iff.
