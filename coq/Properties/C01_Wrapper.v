(* Properties/C01_Wrapper.v — C01, wrapper level (DESIGN C01 item 7, wrapper_verdict_refines_spec):
   for the eight static formats (raw, qcow2, qed, vhd, vdi, iso, gpt, luks) the per-inspector verdicts
   held by InspectWrapper after close(), and formats / format, are a function of the CONTENT alone, for
   every read-size sequence.  From C06_wrapper_slots_are_feed (every slot = the inspector fed the delivered
   chunks) and the C01 static refinement (run f cs = spec_state f (concat cs)).  Proofs: Proofs/C03_*.v.
     read_and_closed e a cs w : InspectWrapper(expected_format=e, allowed_formats=a) returned the chunks cs
                                (no call raised), then close(); w is the wrapper afterwards. *)
Require Import OV.Base.Bytes OV.Base.Py OV.Base.C06_WrapShape OV.Base.Insp_Struct.
Require Import OV.Gen.Insp_Consts OV.Gen.C06_Wrapper OV.Model.Insp_Engine OV.Model.Insp_All OV.Model.Wrap OV.Model.C03.
Require Import OV.Proofs.Insp_All OV.Proofs.C03_Wrap OV.Proofs.C03_Props OV.Proofs.C03_Examples.
Open Scope N_scope.

(* each static inspector of the collection ends in spec_state f (content): position |content|, every
   region = content[off:off+len], finished, never errored — whatever the read sizes and whatever the
   OTHER inspectors (vmdk, vhdx included) did *)
Theorem C01_wrapper_static_slots : forall expected allowed cs w f,
  read_and_closed expected allowed cs w -> is_static f = true -> allowed_key allowed (fmt_name f) = true ->
  In (spec_slot (concat cs) f) (w_slots w).
Proof. exact wrapper_static_slots. Qed.
Print Assumptions C01_wrapper_static_slots.

(* with only static formats allowed the WHOLE wrapper (hence formats and format) is spec_wrapper, built
   from the content alone *)
Theorem C01_wrapper_verdict : forall expected allowed cs w,
  read_and_closed expected allowed cs w -> forallb is_static (allowed_fmts allowed) = true ->
  w = spec_wrapper expected allowed (concat cs).
Proof. exact wrapper_verdict. Qed.
Print Assumptions C01_wrapper_verdict.

Theorem C01_wrapper_verdict_chunking : forall expected allowed cs1 cs2 w1 w2,
  read_and_closed expected allowed cs1 w1 -> read_and_closed expected allowed cs2 w2 ->
  forallb is_static (allowed_fmts allowed) = true -> concat cs1 = concat cs2 ->
  w1 = w2 /\ cw_format w1 = cw_format w2 /\ cw_formats w1 = cw_formats w2.
Proof. exact wrapper_verdict_chunking. Qed.
Print Assumptions C01_wrapper_verdict_chunking.

(* in any wrapper (all ten formats): the verdict of the static inspectors' format_match after close is the
   signature predicate of the content *)
Theorem C01_wrapper_static_match : forall f cs, is_static f = true -> cmatch (fst (run f cs)) = C03_Sig.sigb f (concat cs).
Proof. exact closed_static_match. Qed.
Print Assumptions C01_wrapper_static_match.

Example C01_wrapper_static_allowed :
  forallb is_static (allowed_fmts [fmt_name F_qcow2; fmt_name F_vhd; fmt_name F_iso; fmt_name F_raw]) = true.
Proof. exact ex_static_allowed. Qed.
