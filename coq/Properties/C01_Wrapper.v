(* Properties/C01_Wrapper.v — C01, wrapper level (DESIGN C01 item 7, wrapper_verdict_refines_spec):
   for the eight static formats (raw, qcow2, qed, vhd, vdi, iso, gpt, luks) the per-inspector verdicts
   held by InspectWrapper after close(), and formats / format, are a function of the CONTENT alone, for
   every read-size sequence.  From C06_wrapper_slots_are_feed (every slot = the inspector fed the delivered
   chunks) and the C01 static refinement (run f cs = spec_state f (concat cs)).  Proofs: Proofs/C03_*.v.
     read_and_closed e a cs w : InspectWrapper(expected_format=e, allowed_formats=a) returned the chunks cs
                                (no call raised), then close(); w is the wrapper afterwards. *)
Require Import OV.Base.Bytes OV.Base.Py OV.Base.C06_WrapShape OV.Base.Insp_Struct.
Require Import OV.Gen.Insp_Consts OV.Gen.C06_Wrapper OV.Model.Insp_Engine OV.Model.Insp_All OV.Model.Wrap OV.Model.C03.
Require Import OV.Model.C01_Vhdx OV.Model.C01_Vmdk OV.Proofs.C01_Vhdx_Witness.
Require Import OV.Proofs.Insp_All OV.Proofs.C03_Wrap OV.Proofs.C03_Stable OV.Proofs.C03_Props OV.Proofs.C03_All OV.Proofs.C03_Examples.
Open Scope N_scope.

(* each static inspector of the collection ends in spec_state f (content): position |content|, every
   region = content[off:off+len], finished, never errored — whatever the read sizes and whatever the
   OTHER inspectors (vmdk, vhdx included) did *)
Theorem C01_wrapper_static_slots : forall expected allowed cs w f,
  read_and_closed expected allowed cs w -> is_static f = true -> allowed_key allowed (fmt_name f) = true ->
  In (spec_slot (concat cs) f) (w_slots w).
Proof. exact wrapper_static_slots. Qed.
Print Assumptions C01_wrapper_static_slots.

(* with only static formats allowed the WHOLE wrapper (hence formats and format) is spec_wrapper, built
   from the content alone *)
Theorem C01_wrapper_verdict : forall expected allowed cs w,
  read_and_closed expected allowed cs w -> forallb is_static (allowed_fmts allowed) = true ->
  w = spec_wrapper expected allowed (concat cs).
Proof. exact wrapper_verdict. Qed.
Print Assumptions C01_wrapper_verdict.

Theorem C01_wrapper_verdict_chunking : forall expected allowed cs1 cs2 w1 w2,
  read_and_closed expected allowed cs1 w1 -> read_and_closed expected allowed cs2 w2 ->
  forallb is_static (allowed_fmts allowed) = true -> concat cs1 = concat cs2 ->
  w1 = w2 /\ cw_format w1 = cw_format w2 /\ cw_formats w1 = cw_formats w2.
Proof. exact wrapper_verdict_chunking. Qed.
Print Assumptions C01_wrapper_verdict_chunking.

(* in any wrapper (all ten formats): the verdict of the static inspectors' format_match after close is the
   signature predicate of the content *)
Theorem C01_wrapper_static_match : forall f cs, is_static f = true -> cmatch (fst (run f cs)) = C03_Sig.sigb f (concat cs).
Proof. exact closed_static_match. Qed.
Print Assumptions C01_wrapper_static_match.

Example C01_wrapper_static_allowed :
  forallb is_static (allowed_fmts [fmt_name F_qcow2; fmt_name F_vhd; fmt_name F_iso; fmt_name F_raw]) = true.
Proof. exact ex_static_allowed. Qed.

(* ================================================================== all ten formats (outside the known zones) *)
(* in_zone f b: F2 or F4 for vhdx, F1 or F3 for vmdk, never for the eight static formats.  Under the wrapper an
   inspector that raised is FROZEN (not aborted): [run f cs] is exactly that state (feeding stops at the first
   exception, finish() still runs), and C01_vhdx_refines_spec / C01_vmdk_refines_spec are about it, so the frozen
   verdict is chunk-independent outside the zones; inside F4 it is not (C01_refuted_vhdx_metasig). *)
Theorem C01_run_verdict_all : forall f cs, in_zone f (concat cs) = false -> verdict_of (run f cs) = spec_verdict_all f (concat cs).
Proof. exact run_verdict_all. Qed.
Print Assumptions C01_run_verdict_all.

(* "... or the InspectWrapper running all of them": for every allowed_formats, after read-through and close, outside
   the zones of the allowed formats: the verdict (escaped exception, format_match, complete, virtual_size,
   safety_check) of EVERY inspector the wrapper holds, and format / formats, are functions of the content alone *)
Theorem C01_wrapper_verdict_all : forall expected allowed cs w,
  read_and_closed expected allowed cs w -> outside_zones allowed (concat cs) ->
  (forall f, In f (allowed_fmts allowed) ->
     In (slot_closed cs f) (w_slots w) /\ verdict_of (run f cs) = spec_verdict_all f (concat cs)) /\
  cw_format_name w = spec_format allowed (concat cs) /\
  option_map (map (@s_name istate)) (cw_formats w) = spec_formats allowed (concat cs).
Proof. exact wrapper_verdict_all. Qed.
Print Assumptions C01_wrapper_verdict_all.

Theorem C01_wrapper_verdict_all_chunking : forall expected allowed cs1 cs2 w1 w2,
  read_and_closed expected allowed cs1 w1 -> read_and_closed expected allowed cs2 w2 ->
  concat cs1 = concat cs2 -> outside_zones allowed (concat cs1) ->
  cw_format_name w1 = cw_format_name w2 /\
  option_map (map (@s_name istate)) (cw_formats w1) = option_map (map (@s_name istate)) (cw_formats w2) /\
  (forall f, In f (allowed_fmts allowed) -> verdict_of (run f cs1) = verdict_of (run f cs2)).
Proof. exact wrapper_verdict_all_chunking. Qed.
Print Assumptions C01_wrapper_verdict_all_chunking.

Example C01_wrapper_outside_zones : outside_zones [fmt_name F_vhdx; fmt_name F_qcow2; fmt_name F_raw] wf_image.
Proof. exact ex_outside_zones. Qed.
