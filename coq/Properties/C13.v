Require Import OV.Proofs.C13.
Theorem C13_stub : True. Proof. exact stub. Qed.
Print Assumptions C13_stub.
