(* Properties/C13.v — StopWatch obeys its state machine under every call sequence.
   Property theorems only; each is closed by [exact] of a lemma of Proofs/C13*.v.

   Reading guide.  The whole development is generic in the number type of clock readings: a carrier T with
   the operations N : num T the source uses (0.0, -, >, >=; max/min defined from > as CPython does).
   [clk : nat -> T] is the clock: the n-th call of timeutils.now() returns [clk n].  A configuration is
   [(w, t)]: the watch's fields and the number of now() calls made so far.  [reachable N clk (w, t)]: some
   history (any list of calls of any length, Model/C13.v [op]) run on a freshly constructed
   StopWatch(duration) ends in (w, t).  So "for all reachable (w, t) and every next call" is "for every call
   of every history"; [trace] lists the outcomes of a history.  Every method returns the configuration at the
   end of the call, also when it raises.  The methods are the hand model of Model/C13.v, proved equal — for
   every T and N — to the statement-level translation of the source, Gen/C13_StopWatch.v, by the
   [gen_*_equiv] lemmas of Proofs/C13.v (obligations of this property).

   Part 1: every number type, no premise (the state machine).  Part 2: number types whose comparisons satisfy
   [comp_facts] / whose subtraction satisfies [clock_facts] on good readings (Z and binary64 do).  Part 3: every
   totally ordered abelian group (the exact clauses).  Part 4: T := Z, corollaries of Part 3 in Z notation
   (the instance the extraction / dyadic clocks use).  Part 5: T := binary64 (Base/PyFloat.v): what holds on a
   real float clock, and which clauses hold only "up to float subtraction".
   Non-vacuity instances and negative controls: Proofs/C13_Z.v, Proofs/C13_Float.v. *)
From Coq Require Import ZArith List Bool Sorting.Sorted.
Require Import OV.Base.Bytes OV.Base.Py OV.Base.PyFloat OV.Base.C13_Types OV.Gen.C13_StopWatch.
Require Import OV.Model.C13 OV.Model.C13_Order OV.Model.C13_Z OV.Model.C13_Float.
Require Import OV.Proofs.C13 OV.Proofs.C13_Order OV.Proofs.C13_Z OV.Proofs.C13_Float.
Import ListNotations.

(* ======================================================================================================= *)
(* Part 1 — every number type T, every operations N : num T, every clock: the state machine                 *)
(* ======================================================================================================= *)

(* the legality table, methods x states (rows: fresh, running, stopped; columns: start stop resume restart
   split elapsed leftover expired has_started has_stopped splits __enter__ __exit__(None, None, None)
   __exit__(exception triple)) *)
Theorem C13_legality_table : forall T (w : watch T) m rn,
  map (fun o => legal o w) (all_ops m rn) =
  match w_state w with
  | SNone =>    [true; false; false; true; false; false; false; false; true; true; true; true; true; true]
  | SStarted => [true; true;  false; true; true;  true;
                 match w_duration w with Some _ => true | None => rn end;
                                                                true;  true; true; true; true; true; true]
  | SStopped => [true; true;  true;  true; false; true;  false; true;  true; true; true; true; true; true]
  end.
Proof. exact legality_table. Qed.
Print Assumptions C13_legality_table.

(* every illegal call raises RuntimeError and leaves the watch — and the clock — as it was (any watch) *)
Theorem C13_illegal_call_raises_and_preserves : forall T (N : num T) clk o w t,
  legal o w = false -> step N clk o w t = ((w, t), Exn RuntimeError).
Proof. exact illegal_raises. Qed.
Print Assumptions C13_illegal_call_raises_and_preserves.

(* every legal call of every history returns a value *)
Theorem C13_legal_call_returns : forall T (N : num T) clk o w t,
  reachable N clk (w, t) -> legal o w = true -> exists c v, step N clk o w t = (c, Ok v).
Proof. exact legal_returns. Qed.
Print Assumptions C13_legal_call_returns.

(* so the only exception any call of any history raises is RuntimeError, exactly for the illegal calls *)
Theorem C13_only_runtime_errors : forall T (N : num T) clk o w t c e,
  reachable N clk (w, t) -> step N clk o w t = (c, Exn e) -> e = RuntimeError /\ c = (w, t) /\ legal o w = false.
Proof. exact only_runtime_errors. Qed.
Print Assumptions C13_only_runtime_errors.

Theorem C13_history_only_runtime_errors : forall T (N : num T) clk duration w0 ops,
  init N duration = Ok w0 ->
  Forall (fun cr => forall e, snd cr = Exn e -> e = RuntimeError) (trace N clk ops w0 0%nat).
Proof. exact history_only_runtime_errors. Qed.
Print Assumptions C13_history_only_runtime_errors.

(* the state machine: the state after any call *)
Theorem C13_state_transitions : forall T (N : num T) clk o w t,
  w_state (fst (fst (step N clk o w t))) =
  if effective_restart o w then SStarted
  else if effective_stop o w then SStopped
  else match o, w_state w with OResume, SStopped => SStarted | _, s => s end.
Proof. exact state_transitions. Qed.
Print Assumptions C13_state_transitions.

(* a (re)start — start/__enter__ on a watch that is not running, restart always — leaves a running watch
   with no splits whose _started_at is the last clock reading the call took *)
Theorem C13_restart_effect : forall T (N : num T) clk o w t,
  effective_restart o w = true ->
  exists t', step N clk o w t = ((mkWatch SStarted (Some (clk t')) None [] (w_duration w), S t'), Ok VSelf) /\ (t <= t')%nat.
Proof. exact restart_effect. Qed.
Print Assumptions C13_restart_effect.

(* no other call touches _started_at *)
Theorem C13_started_at_frame : forall T (N : num T) clk o w t,
  effective_restart o w = false -> w_started (fst (fst (step N clk o w t))) = w_started w.
Proof. exact started_at_frame. Qed.
Print Assumptions C13_started_at_frame.

(* stop/__exit__ on a running watch records the stop instant and changes nothing else *)
Theorem C13_stop_effect : forall T (N : num T) clk o w t,
  effective_stop o w = true ->
  exists v, step N clk o w t =
            ((mkWatch SStopped (w_started w) (Some (clk t)) (w_splits w) (w_duration w), S t), Ok v).
Proof. exact stop_effect. Qed.
Print Assumptions C13_stop_effect.

Theorem C13_stopped_at_frame : forall T (N : num T) clk o w t,
  effective_stop o w = false -> effective_restart o w = false ->
  w_stopped (fst (fst (step N clk o w t))) = w_stopped w.
Proof. exact stopped_at_frame. Qed.
Print Assumptions C13_stopped_at_frame.

(* history-wise: _started_at is the last clock reading taken by the last (re)start of the history
   (ops1, then the (re)start o, then ops2 without any (re)start) — the "last (re)start" of the property *)
Theorem C13_started_at_is_last_restart : forall T (N : num T) clk ops1 o ops2 w0 t0,
  let c1 := final N clk ops1 w0 t0 in
  effective_restart o (fst c1) = true ->
  let c2 := fst (step N clk o (fst c1) (snd c1)) in
  restarts_in N clk ops2 (fst c2) (snd c2) = false ->
  w_started (fst (final N clk (ops1 ++ o :: ops2) w0 t0)) = Some (clk (snd c2 - 1)%nat) /\ (snd c1 < snd c2)%nat.
Proof. exact started_at_is_last_restart. Qed.
Print Assumptions C13_started_at_is_last_restart.

(* history-wise: _stopped_at is the clock reading taken by the last stop of the history — the "stop instant" *)
Theorem C13_stopped_at_is_last_stop : forall T (N : num T) clk ops1 o ops2 w0 t0,
  let c1 := final N clk ops1 w0 t0 in
  effective_stop o (fst c1) = true ->
  let c2 := fst (step N clk o (fst c1) (snd c1)) in
  stops_in N clk ops2 (fst c2) (snd c2) = false ->
  w_stopped (fst (final N clk (ops1 ++ o :: ops2) w0 t0)) = Some (clk (snd c1)).
Proof. exact stopped_at_is_last_stop. Qed.
Print Assumptions C13_stopped_at_is_last_stop.

(* what elapsed computes while running: one clock reading, the watch unchanged, the value
   _delta_seconds(started_at, now) = max(0.0, now - started_at) cut at the maximum; started_at is an earlier reading *)
Theorem C13_elapsed_running_computes : forall T (N : num T) clk w t,
  reachable N clk (w, t) -> w_state w = SStarted ->
  exists i, (i < t)%nat /\ w_started w = Some (clk i) /\
    forall m, elapsed N clk w t m = ((w, S t), Ok (clamp_max N m (delta N (clk i) (clk t)))).
Proof. exact elapsed_running. Qed.
Print Assumptions C13_elapsed_running_computes.

(* ... and while stopped: no clock reading, max(0.0, stopped_at - started_at) *)
Theorem C13_elapsed_stopped_computes : forall T (N : num T) clk w t,
  reachable N clk (w, t) -> w_state w = SStopped ->
  exists i j, (i < j < t)%nat /\ w_started w = Some (clk i) /\ w_stopped w = Some (clk j) /\
    forall m, elapsed N clk w t m = ((w, t), Ok (clamp_max N m (delta N (clk i) (clk j)))).
Proof. exact elapsed_stopped. Qed.
Print Assumptions C13_elapsed_stopped_computes.

(* every elapsed value is 0.0 or a value > 0.0 (for any clock, any maximum, any watch) *)
Theorem C13_elapsed_zero_or_positive : forall T (N : num T) clk w t m c e,
  elapsed N clk w t m = (c, Ok e) -> e = n_zero N \/ n_gtb N e (n_zero N) = true.
Proof. exact elapsed_pos0. Qed.
Print Assumptions C13_elapsed_zero_or_positive.

(* ... and so is every number returned by any call (elapsed, leftover) of any history *)
Theorem C13_history_numbers_zero_or_positive : forall T (N : num T) clk duration w0 ops,
  init N duration = Ok w0 ->
  Forall (fun cr => forall z, snd cr = Ok (VNum z) -> z = n_zero N \/ n_gtb N z (n_zero N) = true) (trace N clk ops w0 0%nat).
Proof. exact history_numbers_pos0. Qed.
Print Assumptions C13_history_numbers_zero_or_positive.

(* elapsed(maximum) is elapsed() at the same reading, replaced by max(0.0, maximum) when it is > maximum *)
Theorem C13_elapsed_max_computes : forall T (N : num T) clk w t m c e,
  elapsed N clk w t (Some m) = (c, Ok e) ->
  exists e0, elapsed N clk w t None = (c, Ok e0) /\ e = clamp_max N (Some m) e0.
Proof. exact elapsed_max. Qed.
Print Assumptions C13_elapsed_max_computes.

(* leftover = max(0.0, duration - elapsed) with elapsed taken at the same clock reading; without a
   duration: None when return_none, RuntimeError (watch and clock untouched) otherwise *)
Theorem C13_leftover_computes : forall T (N : num T) clk w t return_none,
  w_state w = SStarted ->
  match w_duration w with
  | Some d => forall c e, elapsed N clk w t None = (c, Ok e) ->
                          leftover N clk w t return_none = (c, Ok (Some (max0 N (n_sub N d e))))
  | None => leftover N clk w t return_none = ((w, t), if return_none then Ok None else Exn RuntimeError)
  end.
Proof. exact leftover_spec. Qed.
Print Assumptions C13_leftover_computes.

(* expired = (elapsed > duration), elapsed taken at the same clock reading; never without a duration *)
Theorem C13_expired_computes : forall T (N : num T) clk w t,
  w_state w <> SNone ->
  match w_duration w with
  | Some d => forall c e, elapsed N clk w t None = (c, Ok e) -> expired N clk w t = (c, Ok (n_gtb N e d))
  | None => expired N clk w t = ((w, t), Ok false)
  end.
Proof. exact expired_spec. Qed.
Print Assumptions C13_expired_computes.

(* a split records the current elapsed time, appends itself to the splits and is returned; its length is
   _delta_seconds(previous split's elapsed, elapsed) (the elapsed time itself for the first one) *)
Theorem C13_split_records_computes : forall T (N : num T) clk w t c sp,
  split_ N clk w t = (c, Ok sp) ->
  exists e, elapsed N clk w t None = ((w, snd c), Ok e) /\ sp_elapsed sp = e /\
            sp_length sp = match last_opt (w_splits w) with
                           | Some l => delta N (sp_elapsed l) e | None => e end /\
            fst c = set_splits w (w_splits w ++ [sp]).
Proof. exact split_records. Qed.
Print Assumptions C13_split_records_computes.

(* the splits change only by a split (appended) and by a (re)start (cleared) *)
Theorem C13_splits_frame : forall T (N : num T) clk o w t,
  w_splits (fst (fst (step N clk o w t))) =
  if effective_restart o w then []
  else match o, snd (step N clk o w t) with
       | OSplit, Ok (VSplit sp) => w_splits w ++ [sp]
       | _, _ => w_splits w
       end.
Proof. exact splits_frame. Qed.
Print Assumptions C13_splits_frame.

(* on any clock the lengths of the splits of a reachable watch are the clamped successive differences and
   every elapsed value / length is 0.0 or > 0.0 *)
Theorem C13_splits_any_clock_computes : forall T (N : num T) clk w t,
  reachable N clk (w, t) ->
  clamped_diffs_from N None (w_splits w) /\
  Forall (fun x => pos0 T N (sp_elapsed x) /\ pos0 T N (sp_length x)) (w_splits w).
Proof. exact splits_clamped. Qed.
Print Assumptions C13_splits_any_clock_computes.

(* the context-manager protocol.  __exit__, called with (None, None, None) or with the exception triple of a with-body
   that raised (exc = true), behaves the same: it never raises, returns None — so the body's exception propagates —,
   stops a running watch at the reading it takes and leaves a fresh or stopped watch as it is *)
Theorem C13_exit_spec : forall T (N : num T) clk exc w t,
  step N clk (OExit exc) w t =
  (match w_state w with
   | SStarted => (mkWatch SStopped (w_started w) (Some (clk t)) (w_splits w) (w_duration w), S t)
   | _ => (w, t)
   end, Ok VNone).
Proof. exact exit_spec. Qed.
Print Assumptions C13_exit_spec.

(* after  with sw: body [raise X]  (= __enter__(); body; __exit__(...)), for ANY body and whether or not it raised, the
   watch is STOPPED; if the body left it running, _stopped_at is the reading taken by __exit__ (one reading); if the
   body had stopped it, __exit__ changes nothing *)
Theorem C13_with_block_stops : forall T (N : num T) clk body exc w0 t0,
  let c1 := final N clk (OEnter :: body) w0 t0 in
  let c2 := final N clk (with_block body exc) w0 t0 in
  w_state (fst c2) = SStopped /\
  (w_state (fst c1) = SStarted -> w_stopped (fst c2) = Some (clk (snd c1)) /\ snd c2 = S (snd c1)) /\
  (w_state (fst c1) = SStopped -> c2 = c1).
Proof. exact with_block_stops. Qed.
Print Assumptions C13_with_block_stops.

(* the number of clock readings each call takes *)
Theorem C13_clock_readings : forall T (N : num T) clk o w t, snd (fst (step N clk o w t)) = (t + cost o w)%nat.
Proof. exact step_cost. Qed.
Print Assumptions C13_clock_readings.

(* reachability is closed under calls: every configuration along a history is reachable *)
Theorem C13_reachable_step : forall T (N : num T) clk o w t,
  reachable N clk (w, t) -> reachable N clk (fst (step N clk o w t)).
Proof. exact reachable_step. Qed.
Print Assumptions C13_reachable_step.

(* the state tags of the source are distinct (the three states do not collapse) *)
Theorem C13_state_tags_distinct : C13_STARTED <> C13_STOPPED.
Proof. exact state_tags_distinct. Qed.
Print Assumptions C13_state_tags_distinct.

(* ======================================================================================================= *)
(* Part 2 — number types with sane comparisons (comp_facts) and subtraction (clock_facts)                   *)
(* ======================================================================================================= *)

(* elapsed is never negative (0 <= e as computed, and e is comparable) *)
Theorem C13_cf_elapsed_nonneg : forall T (N : num T) leb ok, comp_facts N leb ok ->
  forall clk w t m c e, elapsed N clk w t m = (c, Ok e) -> leb (n_zero N) e = true /\ ok e.
Proof. exact elapsed_nonneg. Qed.
Print Assumptions C13_cf_elapsed_nonneg.

(* elapsed(maximum) never exceeds a comparable, non-negative maximum *)
Theorem C13_cf_elapsed_max_le : forall T (N : num T) leb ok, comp_facts N leb ok ->
  forall clk w t m c e, elapsed N clk w t (Some m) = (c, Ok e) -> ok m -> leb (n_zero N) m = true -> leb e m = true.
Proof. exact elapsed_max_le. Qed.
Print Assumptions C13_cf_elapsed_max_le.

Theorem C13_cf_leftover_nonneg : forall T (N : num T) leb ok, comp_facts N leb ok ->
  forall clk w t rn c z, leftover N clk w t rn = (c, Ok (Some z)) -> leb (n_zero N) z = true /\ ok z.
Proof. exact leftover_nonneg. Qed.
Print Assumptions C13_cf_leftover_nonneg.

Theorem C13_cf_expired_iff : forall T (N : num T) leb ok, comp_facts N leb ok ->
  forall clk w t d c e,
  w_state w <> SNone -> w_duration w = Some d -> elapsed N clk w t None = (c, Ok e) ->
  exists b, expired N clk w t = (c, Ok b) /\ b = n_gtb N e d /\ (ok d -> (b = true <-> leb e d = false)).
Proof. exact expired_iff. Qed.
Print Assumptions C13_cf_expired_iff.

(* on a good monotone clock the splits' elapsed values never decrease *)
Theorem C13_cf_splits_nondecreasing : forall T (N : num T) leb ok, comp_facts N leb ok ->
  forall clk okc sub_ok, clock_facts N leb okc sub_ok ->
  forall w t, reachable N clk (w, t) -> clock_ok okc sub_ok clk t -> monotone_upto leb clk t ->
  StronglySorted (fun a b => leb a b = true) (map sp_elapsed (w_splits w)).
Proof. exact splits_sorted. Qed.
Print Assumptions C13_cf_splits_nondecreasing.

(* ======================================================================================================= *)
(* Part 3 — every totally ordered abelian group (T, zero, add, opp, le) with operations N computing in it    *)
(* ======================================================================================================= *)

Theorem C13_og_elapsed_nonneg : forall T zero add opp le (N : num T), ordered_group zero add opp le N ->
  forall clk w t m c e, elapsed N clk w t m = (c, Ok e) -> le zero e.
Proof. exact g_elapsed_nonneg. Qed.
Print Assumptions C13_og_elapsed_nonneg.

Theorem C13_og_history_numbers_nonneg : forall T zero add opp le (N : num T), ordered_group zero add opp le N ->
  forall clk duration w0 ops, init N duration = Ok w0 ->
  Forall (fun cr => forall z, snd cr = Ok (VNum z) -> le zero z) (trace N clk ops w0 0%nat).
Proof. exact g_history_numbers_nonneg. Qed.
Print Assumptions C13_og_history_numbers_nonneg.

(* while running under a monotonic clock elapsed is exactly now - started_at *)
Theorem C13_og_elapsed_running : forall T zero add opp le (N : num T), ordered_group zero add opp le N ->
  forall clk w t, reachable N clk (w, t) -> w_state w = SStarted ->
  exists s, w_started w = Some s /\
    (forall m, elapsed N clk w t m = ((w, S t), Ok (clamp_max N m (max0 N (n_sub N (clk t) s))))) /\
    (monotone_upto (g_leb T N) clk (S t) ->
     le zero (n_sub N (clk t) s) /\ elapsed N clk w t None = ((w, S t), Ok (n_sub N (clk t) s))).
Proof. exact g_elapsed_running. Qed.
Print Assumptions C13_og_elapsed_running.

(* while stopped: exactly stopped_at - started_at *)
Theorem C13_og_elapsed_stopped : forall T zero add opp le (N : num T), ordered_group zero add opp le N ->
  forall clk w t, reachable N clk (w, t) -> w_state w = SStopped ->
  exists s p, w_started w = Some s /\ w_stopped w = Some p /\
    (forall m, elapsed N clk w t m = ((w, t), Ok (clamp_max N m (max0 N (n_sub N p s))))) /\
    (monotone_upto (g_leb T N) clk t -> le zero (n_sub N p s) /\ elapsed N clk w t None = ((w, t), Ok (n_sub N p s))).
Proof. exact g_elapsed_stopped. Qed.
Print Assumptions C13_og_elapsed_stopped.

Theorem C13_og_elapsed_max : forall T zero add opp le (N : num T), ordered_group zero add opp le N ->
  forall clk w t m c e, elapsed N clk w t (Some m) = (c, Ok e) ->
  exists e0, elapsed N clk w t None = (c, Ok e0) /\
             e = (if g_leb T N e0 m then e0 else max0 N m) /\ le e (max0 N m) /\ (le zero m -> le e m).
Proof. exact g_elapsed_max. Qed.
Print Assumptions C13_og_elapsed_max.

Theorem C13_og_expired_iff : forall T zero add opp le (N : num T), ordered_group zero add opp le N ->
  forall clk w t d c e,
  w_state w <> SNone -> w_duration w = Some d -> elapsed N clk w t None = (c, Ok e) ->
  exists b, expired N clk w t = (c, Ok b) /\ (b = true <-> ~ le e d).
Proof. exact g_expired_iff. Qed.
Print Assumptions C13_og_expired_iff.

Theorem C13_og_leftover_nonneg : forall T zero add opp le (N : num T), ordered_group zero add opp le N ->
  forall clk w t rn c z, leftover N clk w t rn = (c, Ok (Some z)) -> le zero z.
Proof. exact g_leftover_nonneg. Qed.
Print Assumptions C13_og_leftover_nonneg.

(* under a monotonic clock: non-decreasing elapsed values, lengths = successive differences (the first from zero) *)
Theorem C13_og_splits_nondecreasing_lengths_are_differences : forall T zero add opp le (N : num T),
  ordered_group zero add opp le N ->
  forall clk w t, reachable N clk (w, t) -> monotone_upto (g_leb T N) clk t ->
  StronglySorted le (map sp_elapsed (w_splits w)) /\ diffs_from N zero (w_splits w).
Proof. exact g_splits_monotone. Qed.
Print Assumptions C13_og_splits_nondecreasing_lengths_are_differences.

(* ======================================================================================================= *)
(* Part 4 — T := Z: corollaries of Part 3 in Z notation                                                     *)
(* ======================================================================================================= *)
Open Scope Z_scope.

Theorem C13_Z_is_an_ordered_group : ordered_group 0 Z.add Z.opp Z.le Znum.
Proof. exact Z_ordered_group. Qed.
Print Assumptions C13_Z_is_an_ordered_group.

(* elapsed time is never negative — any watch, any clock (also one that runs backwards), any maximum *)
Theorem C13_elapsed_nonneg : forall clk w t maximum c e,
  elapsed Znum clk w t maximum = (c, Ok e) -> 0 <= e.
Proof. exact Z_elapsed_nonneg. Qed.
Print Assumptions C13_elapsed_nonneg.

(* every number returned by any call (elapsed, leftover) of any history is non-negative *)
Theorem C13_history_numbers_nonneg : forall clk duration w0 ops,
  init Znum duration = Ok w0 ->
  Forall (fun cr => forall z, snd cr = Ok (VNum z) -> 0 <= z) (trace Znum clk ops w0 0%nat).
Proof. exact Z_history_numbers_nonneg. Qed.
Print Assumptions C13_history_numbers_nonneg.

(* while running, elapsed reads the clock once and returns the distance from _started_at to that
   reading, clamped at 0 and at the maximum; under a monotonic clock it is exactly now - started_at.
   (_started_at is the reading taken by the last (re)start: C13_started_at_is_last_restart) *)
Theorem C13_elapsed_running : forall clk w t,
  reachable Znum clk (w, t) -> w_state w = SStarted ->
  exists s, w_started w = Some s /\
    (forall m, elapsed Znum clk w t m = ((w, S t), Ok (clamp_max Znum m (Z.max 0 (clk t - s))))) /\
    (monotone_uptob Z.leb clk (S t) = true -> 0 <= clk t - s /\ elapsed Znum clk w t None = ((w, S t), Ok (clk t - s))).
Proof. exact Z_elapsed_running. Qed.
Print Assumptions C13_elapsed_running.

(* while stopped, elapsed does not read the clock and returns the distance from _started_at to the
   stop instant _stopped_at (the reading taken by the stop: C13_stopped_at_is_last_stop) *)
Theorem C13_elapsed_stopped : forall clk w t,
  reachable Znum clk (w, t) -> w_state w = SStopped ->
  exists s p, w_started w = Some s /\ w_stopped w = Some p /\
    (forall m, elapsed Znum clk w t m = ((w, t), Ok (clamp_max Znum m (Z.max 0 (p - s))))) /\
    (monotone_uptob Z.leb clk t = true -> 0 <= p - s /\ elapsed Znum clk w t None = ((w, t), Ok (p - s))).
Proof. exact Z_elapsed_stopped. Qed.
Print Assumptions C13_elapsed_stopped.

(* elapsed(maximum) is elapsed() cut at the maximum: it never exceeds a non-negative maximum
   (a negative maximum is answered by 0: ex_negative_maximum) *)
Theorem C13_elapsed_max : forall clk w t m c e,
  elapsed Znum clk w t (Some m) = (c, Ok e) ->
  exists e0, elapsed Znum clk w t None = (c, Ok e0) /\
             e = (if e0 <=? m then e0 else Z.max 0 m) /\ e <= Z.max 0 m /\ (0 <= m -> e <= m).
Proof. exact Z_elapsed_max. Qed.
Print Assumptions C13_elapsed_max.

(* ... and the literal statement for EVERY maximum is false (zone: maximum < 0, where it contradicts
   C13_elapsed_nonneg; the implementation answers 0) *)
Theorem C13_elapsed_max_literal_refuted : ~ C13_elapsed_max_full_statement.
Proof. exact elapsed_max_literal_refuted. Qed.
Print Assumptions C13_elapsed_max_literal_refuted.

Theorem C13_leftover_spec : forall clk w t return_none,
  w_state w = SStarted ->
  match w_duration w with
  | Some d => forall c e, elapsed Znum clk w t None = (c, Ok e) ->
                          leftover Znum clk w t return_none = (c, Ok (Some (Z.max 0 (d - e))))
  | None => leftover Znum clk w t return_none = ((w, t), if return_none then Ok None else Exn RuntimeError)
  end.
Proof. exact Z_leftover_spec. Qed.
Print Assumptions C13_leftover_spec.

Theorem C13_expired_spec : forall clk w t,
  w_state w <> SNone ->
  match w_duration w with
  | Some d => forall c e, elapsed Znum clk w t None = (c, Ok e) ->
                          exists b, expired Znum clk w t = (c, Ok b) /\ (b = true <-> e > d)
  | None => expired Znum clk w t = ((w, t), Ok false)
  end.
Proof. exact Z_expired_spec. Qed.
Print Assumptions C13_expired_spec.

Theorem C13_split_records : forall clk w t c sp,
  split_ Znum clk w t = (c, Ok sp) ->
  exists e, elapsed Znum clk w t None = ((w, snd c), Ok e) /\ sp_elapsed sp = e /\
            sp_length sp = match last_opt (w_splits w) with
                           | Some l => Z.max 0 (e - sp_elapsed l) | None => e end /\
            fst c = set_splits w (w_splits w ++ [sp]).
Proof. exact Z_split_records. Qed.
Print Assumptions C13_split_records.

(* under a monotonic clock the splits of every reachable watch have non-decreasing elapsed values and
   lengths equal to the successive differences (the first one counted from 0) *)
Theorem C13_splits_nondecreasing_lengths_are_differences : forall clk w t,
  reachable Znum clk (w, t) -> monotone_uptob Z.leb clk t = true ->
  StronglySorted Z.le (map sp_elapsed (w_splits w)) /\ Zdiffs_from 0 (w_splits w).
Proof. exact Z_splits_monotone. Qed.
Print Assumptions C13_splits_nondecreasing_lengths_are_differences.

(* on any clock (also a backwards one) the lengths are the clamped differences and nothing is negative *)
Theorem C13_splits_any_clock : forall clk w t,
  reachable Znum clk (w, t) ->
  clamped_diffs_from Znum None (w_splits w) /\ Forall (fun x => 0 <= sp_elapsed x /\ 0 <= sp_length x) (w_splits w).
Proof. exact Z_splits_clamped. Qed.
Print Assumptions C13_splits_any_clock.

(* ======================================================================================================= *)
(* Part 5 — T := binary64.  What the code computes on a real float clock is Part 1 at N := Fnum:
     elapsed  = max(0.0, now (-) started_at) cut at the maximum,   (-) = IEEE round-to-nearest-even subtraction
     leftover = max(0.0, duration (-) elapsed),  expired = elapsed > duration,  split length = max(0.0, e_k (-) e_k-1)
   so "equals the clock distance" and "lengths are the successive differences" hold with the float subtraction
   in place of the exact one (exf_running: 0.4 (-) 0.1 = 0.30000000000000004).  The order clauses hold as such: *)
(* ======================================================================================================= *)

Theorem C13_float_comp_facts : comp_facts Fnum f_leb f_ok.
Proof. exact float_comp_facts. Qed.
Print Assumptions C13_float_comp_facts.

(* valid finite doubles whose differences do not overflow: <= is transitive, (-) is monotone in its first argument,
   b (-) a >= 0 for a <= b *)
Theorem C13_float_clock_facts : clock_facts Fnum f_leb f_okc f_sub_ok.
Proof. exact float_clock_facts. Qed.
Print Assumptions C13_float_clock_facts.

(* never negative, never NaN — for ANY readings (even infinite / NaN), any maximum *)
Theorem C13_float_elapsed_nonneg : forall clk w t m c e,
  elapsed Fnum clk w t m = (c, Ok e) -> f_leb f_zero e = true /\ f_is_nan e = false /\ f_ltb e f_zero = false.
Proof. exact F_elapsed_nonneg. Qed.
Print Assumptions C13_float_elapsed_nonneg.

Theorem C13_float_history_numbers_nonneg : forall clk duration w0 ops,
  init Fnum duration = Ok w0 ->
  Forall (fun cr => forall z, snd cr = Ok (VNum z) -> f_leb f_zero z = true /\ f_is_nan z = false) (trace Fnum clk ops w0 0%nat).
Proof. exact F_history_numbers_nonneg. Qed.
Print Assumptions C13_float_history_numbers_nonneg.

Theorem C13_float_elapsed_max_le : forall clk w t m c e,
  elapsed Fnum clk w t (Some m) = (c, Ok e) -> f_is_nan m = false -> f_leb f_zero m = true -> f_leb e m = true.
Proof. exact F_elapsed_max_le. Qed.
Print Assumptions C13_float_elapsed_max_le.

Theorem C13_float_leftover_nonneg : forall clk w t rn c z,
  leftover Fnum clk w t rn = (c, Ok (Some z)) -> f_leb f_zero z = true /\ f_is_nan z = false.
Proof. exact F_leftover_nonneg. Qed.
Print Assumptions C13_float_leftover_nonneg.

Theorem C13_float_expired_iff : forall clk w t d c e,
  w_state w <> SNone -> w_duration w = Some d -> elapsed Fnum clk w t None = (c, Ok e) ->
  exists b, expired Fnum clk w t = (c, Ok b) /\ b = f_gtb e d /\ (f_is_nan d = false -> (b = true <-> f_leb e d = false)).
Proof. exact F_expired_iff. Qed.
Print Assumptions C13_float_expired_iff.

Theorem C13_float_elapsed_running : forall clk w t,
  reachable Fnum clk (w, t) -> w_state w = SStarted ->
  exists s, w_started w = Some s /\
    (forall m, elapsed Fnum clk w t m = ((w, S t), Ok (clamp_max Fnum m (max0 Fnum (f_sub (clk t) s))))) /\
    (f_clock_okb clk (S t) = true -> monotone_uptob f_leb clk (S t) = true -> f_leb f_zero (f_sub (clk t) s) = true).
Proof. exact F_elapsed_running. Qed.
Print Assumptions C13_float_elapsed_running.

Theorem C13_float_elapsed_stopped : forall clk w t,
  reachable Fnum clk (w, t) -> w_state w = SStopped ->
  exists s p, w_started w = Some s /\ w_stopped w = Some p /\
    (forall m, elapsed Fnum clk w t m = ((w, t), Ok (clamp_max Fnum m (max0 Fnum (f_sub p s))))) /\
    (f_clock_okb clk t = true -> monotone_uptob f_leb clk t = true -> f_leb f_zero (f_sub p s) = true).
Proof. exact F_elapsed_stopped. Qed.
Print Assumptions C13_float_elapsed_stopped.

(* monotone float clock => split elapsed values never decrease *)
Theorem C13_float_splits_nondecreasing : forall clk w t,
  reachable Fnum clk (w, t) -> f_clock_okb clk t = true -> monotone_uptob f_leb clk t = true ->
  StronglySorted (fun a b => f_leb a b = true) (map sp_elapsed (w_splits w)).
Proof. exact F_splits_sorted. Qed.
Print Assumptions C13_float_splits_nondecreasing.
