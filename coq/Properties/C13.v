(* Properties/C13.v — StopWatch obeys its state machine under every call sequence.
   Property theorems only; each is closed by [exact] of a lemma of Proofs/C13.v.

   Reading guide.  [clk : nat -> Z] is the clock: the n-th call of timeutils.now() returns [clk n].
   A configuration is [(w, t)]: the watch's fields and the number of now() calls made so far.
   [reachable clk (w, t)]: some history (any list of calls of any length, Model/C13.v [op]) run on
   a freshly constructed StopWatch(duration) ends in (w, t).  So "for all reachable (w, t) and
   every next call" is "for every call of every history"; [trace] lists the outcomes of a history.
   Every method returns the configuration at the end of the call, also when it raises.
   The methods are the hand model of Model/C13.v, proved equal to the statement-level
   translation of the source, Gen/C13_StopWatch.v, by the [gen_*_equiv] lemmas of Proofs/C13.v
   (obligations of this property).  [monotone_uptob clk n = true]: the first n readings never
   decrease.  Non-vacuity instances and negative controls: Proofs/C13.v section C. *)
From Coq Require Import ZArith List Bool Sorting.Sorted.
Require Import OV.Base.Bytes OV.Base.Py OV.Base.C13_Types OV.Gen.C13_StopWatch OV.Model.C13 OV.Proofs.C13.
Import ListNotations.
Open Scope Z_scope.

(* elapsed time is never negative — any watch, any clock (also one that runs backwards), any maximum *)
Theorem C13_elapsed_nonneg : forall clk w t maximum c e,
  elapsed clk w t maximum = (c, Ok e) -> 0 <= e.
Proof. exact elapsed_nonneg. Qed.
Print Assumptions C13_elapsed_nonneg.

(* every number returned by any call (elapsed, leftover) of any history is non-negative *)
Theorem C13_history_numbers_nonneg : forall clk duration w0 ops,
  init duration = Ok w0 ->
  Forall (fun cr => forall z, snd cr = Ok (VNum z) -> 0 <= z) (trace clk ops w0 0%nat).
Proof. exact history_numbers_nonneg. Qed.
Print Assumptions C13_history_numbers_nonneg.

(* while running, elapsed reads the clock once and returns the distance from _started_at to that
   reading, clamped at 0 and at the maximum; under a monotonic clock it is exactly now - started_at.
   (_started_at is the reading taken by the last (re)start: C13_restart_effect, C13_started_at_frame) *)
Theorem C13_elapsed_running : forall clk w t,
  reachable clk (w, t) -> w_state w = SStarted ->
  exists s, w_started w = Some s /\
    (forall m, elapsed clk w t m = ((w, S t), Ok (clamp_max m (Z.max 0 (clk t - s))))) /\
    (monotone_uptob clk (S t) = true -> 0 <= clk t - s /\ elapsed clk w t None = ((w, S t), Ok (clk t - s))).
Proof. exact elapsed_running. Qed.
Print Assumptions C13_elapsed_running.

(* while stopped, elapsed does not read the clock and returns the distance from _started_at to the
   stop instant _stopped_at (the reading taken by the stop: C13_stop_effect, C13_stopped_at_frame) *)
Theorem C13_elapsed_stopped : forall clk w t,
  reachable clk (w, t) -> w_state w = SStopped ->
  exists s p, w_started w = Some s /\ w_stopped w = Some p /\
    (forall m, elapsed clk w t m = ((w, t), Ok (clamp_max m (Z.max 0 (p - s))))) /\
    (monotone_uptob clk t = true -> 0 <= p - s /\ elapsed clk w t None = ((w, t), Ok (p - s))).
Proof. exact elapsed_stopped. Qed.
Print Assumptions C13_elapsed_stopped.

(* elapsed(maximum) is elapsed() cut at the maximum: it never exceeds a non-negative maximum
   (a negative maximum is answered by 0: ex_negative_maximum) *)
Theorem C13_elapsed_max : forall clk w t m c e,
  elapsed clk w t (Some m) = (c, Ok e) ->
  exists e0, elapsed clk w t None = (c, Ok e0) /\
             e = (if e0 <=? m then e0 else Z.max 0 m) /\ e <= Z.max 0 m /\ (0 <= m -> e <= m).
Proof. exact elapsed_max. Qed.
Print Assumptions C13_elapsed_max.

(* ... and the literal statement for EVERY maximum is false (zone: maximum < 0, where it contradicts
   C13_elapsed_nonneg; the implementation answers 0) *)
Theorem C13_elapsed_max_literal_refuted : ~ C13_elapsed_max_full_statement.
Proof. exact elapsed_max_literal_refuted. Qed.
Print Assumptions C13_elapsed_max_literal_refuted.

(* leftover = max(0, duration - elapsed) with elapsed taken at the same clock reading; without a
   duration: None when return_none, RuntimeError (watch and clock untouched) otherwise *)
Theorem C13_leftover_spec : forall clk w t return_none,
  w_state w = SStarted ->
  match w_duration w with
  | Some d => forall c e, elapsed clk w t None = (c, Ok e) ->
                          leftover clk w t return_none = (c, Ok (Some (Z.max 0 (d - e))))
  | None => leftover clk w t return_none = ((w, t), if return_none then Ok None else Exn RuntimeError)
  end.
Proof. exact leftover_spec. Qed.
Print Assumptions C13_leftover_spec.

(* expired <-> elapsed > duration (elapsed taken at the same clock reading); never without a duration *)
Theorem C13_expired_spec : forall clk w t,
  w_state w <> SNone ->
  match w_duration w with
  | Some d => forall c e, elapsed clk w t None = (c, Ok e) ->
                          exists b, expired clk w t = (c, Ok b) /\ (b = true <-> e > d)
  | None => expired clk w t = ((w, t), Ok false)
  end.
Proof. exact expired_spec. Qed.
Print Assumptions C13_expired_spec.

(* a split records the current elapsed time, appends itself to the splits and is returned; its length
   is the clamped difference to the previous split (the elapsed time itself for the first one) *)
Theorem C13_split_records : forall clk w t c sp,
  split_ clk w t = (c, Ok sp) ->
  exists e, elapsed clk w t None = ((w, snd c), Ok e) /\ sp_elapsed sp = e /\
            sp_length sp = match last_opt (w_splits w) with
                           | Some l => Z.max 0 (e - sp_elapsed l) | None => e end /\
            fst c = set_splits w (w_splits w ++ [sp]).
Proof. exact split_records. Qed.
Print Assumptions C13_split_records.

(* under a monotonic clock the splits of every reachable watch have non-decreasing elapsed values and
   lengths equal to the successive differences (the first one counted from 0) *)
Theorem C13_splits_nondecreasing_lengths_are_differences : forall clk w t,
  reachable clk (w, t) -> monotone_uptob clk t = true ->
  StronglySorted Z.le (map sp_elapsed (w_splits w)) /\ diffs_from 0 (w_splits w).
Proof. exact splits_monotone. Qed.
Print Assumptions C13_splits_nondecreasing_lengths_are_differences.

(* on any clock (also a backwards one) the lengths are the clamped differences and nothing is negative *)
Theorem C13_splits_any_clock : forall clk w t,
  reachable clk (w, t) ->
  clamped_diffs_from None (w_splits w) /\ Forall (fun x => 0 <= sp_elapsed x /\ 0 <= sp_length x) (w_splits w).
Proof. exact splits_clamped. Qed.
Print Assumptions C13_splits_any_clock.

(* the splits change only by a split (appended) and by a (re)start (cleared) *)
Theorem C13_splits_frame : forall clk o w t,
  w_splits (fst (fst (step clk o w t))) =
  if effective_restart o w then []
  else match o, snd (step clk o w t) with
       | OSplit, Ok (VSplit sp) => w_splits w ++ [sp]
       | _, _ => w_splits w
       end.
Proof. exact splits_frame. Qed.
Print Assumptions C13_splits_frame.

(* a (re)start — start/__enter__ on a watch that is not running, restart always — leaves a running watch
   with no splits whose _started_at is the last clock reading the call took *)
Theorem C13_restart_effect : forall clk o w t,
  effective_restart o w = true ->
  exists t', step clk o w t = ((mkWatch SStarted (Some (clk t')) None [] (w_duration w), S t'), Ok VSelf) /\ (t <= t')%nat.
Proof. exact restart_effect. Qed.
Print Assumptions C13_restart_effect.

(* no other call touches _started_at *)
Theorem C13_started_at_frame : forall clk o w t,
  effective_restart o w = false -> w_started (fst (fst (step clk o w t))) = w_started w.
Proof. exact started_at_frame. Qed.
Print Assumptions C13_started_at_frame.

(* stop/__exit__ on a running watch records the stop instant and changes nothing else *)
Theorem C13_stop_effect : forall clk o w t,
  effective_stop o w = true ->
  exists v, step clk o w t =
            ((mkWatch SStopped (w_started w) (Some (clk t)) (w_splits w) (w_duration w), S t), Ok v).
Proof. exact stop_effect. Qed.
Print Assumptions C13_stop_effect.

Theorem C13_stopped_at_frame : forall clk o w t,
  effective_stop o w = false -> effective_restart o w = false ->
  w_stopped (fst (fst (step clk o w t))) = w_stopped w.
Proof. exact stopped_at_frame. Qed.
Print Assumptions C13_stopped_at_frame.

(* the state machine: the state after any call *)
Theorem C13_state_transitions : forall clk o w t,
  w_state (fst (fst (step clk o w t))) =
  if effective_restart o w then SStarted
  else if effective_stop o w then SStopped
  else match o, w_state w with OResume, SStopped => SStarted | _, s => s end.
Proof. exact state_transitions. Qed.
Print Assumptions C13_state_transitions.

(* the context-manager protocol.  __exit__, called with (None, None, None) or with the exception triple of a with-body
   that raised (exc = true), behaves the same: it never raises, returns None — so the body's exception propagates —,
   stops a running watch at the reading it takes and leaves a fresh or stopped watch as it is *)
Theorem C13_exit_spec : forall clk exc w t,
  step clk (OExit exc) w t =
  (match w_state w with
   | SStarted => (mkWatch SStopped (w_started w) (Some (clk t)) (w_splits w) (w_duration w), S t)
   | _ => (w, t)
   end, Ok VNone).
Proof. exact exit_spec. Qed.
Print Assumptions C13_exit_spec.

(* after  with sw: body [raise X]  (= __enter__(); body; __exit__(...)), for ANY body and whether or not it raised, the
   watch is STOPPED; if the body left it running, _stopped_at is the reading taken by __exit__ (one reading); if the
   body had stopped it, __exit__ changes nothing *)
Theorem C13_with_block_stops : forall clk body exc w0 t0,
  let c1 := final clk (OEnter :: body) w0 t0 in
  let c2 := final clk (with_block body exc) w0 t0 in
  w_state (fst c2) = SStopped /\
  (w_state (fst c1) = SStarted -> w_stopped (fst c2) = Some (clk (snd c1)) /\ snd c2 = S (snd c1)) /\
  (w_state (fst c1) = SStopped -> c2 = c1).
Proof. exact with_block_stops. Qed.
Print Assumptions C13_with_block_stops.

(* the legality table, methods x states (rows: fresh, running, stopped; columns: start stop resume restart
   split elapsed leftover expired has_started has_stopped splits __enter__ __exit__(None, None, None)
   __exit__(exception triple)) *)
Theorem C13_legality_table : forall w m rn,
  map (fun o => legal o w) (all_ops m rn) =
  match w_state w with
  | SNone =>    [true; false; false; true; false; false; false; false; true; true; true; true; true; true]
  | SStarted => [true; true;  false; true; true;  true;
                 match w_duration w with Some _ => true | None => rn end;
                                                                true;  true; true; true; true; true; true]
  | SStopped => [true; true;  true;  true; false; true;  false; true;  true; true; true; true; true; true]
  end.
Proof. exact legality_table. Qed.
Print Assumptions C13_legality_table.

(* every illegal call raises RuntimeError and leaves the watch — and the clock — as it was (any watch) *)
Theorem C13_illegal_call_raises_and_preserves : forall clk o w t,
  legal o w = false -> step clk o w t = ((w, t), Exn RuntimeError).
Proof. exact illegal_raises. Qed.
Print Assumptions C13_illegal_call_raises_and_preserves.

(* every legal call of every history returns a value *)
Theorem C13_legal_call_returns : forall clk o w t,
  reachable clk (w, t) -> legal o w = true -> exists c v, step clk o w t = (c, Ok v).
Proof. exact legal_returns. Qed.
Print Assumptions C13_legal_call_returns.

(* so the only exception any call of any history raises is RuntimeError, exactly for the illegal calls *)
Theorem C13_only_runtime_errors : forall clk o w t c e,
  reachable clk (w, t) -> step clk o w t = (c, Exn e) -> e = RuntimeError /\ c = (w, t) /\ legal o w = false.
Proof. exact only_runtime_errors. Qed.
Print Assumptions C13_only_runtime_errors.

Theorem C13_history_only_runtime_errors : forall clk duration w0 ops,
  init duration = Ok w0 ->
  Forall (fun cr => forall e, snd cr = Exn e -> e = RuntimeError) (trace clk ops w0 0%nat).
Proof. exact history_only_runtime_errors. Qed.
Print Assumptions C13_history_only_runtime_errors.

(* the number of clock readings each call takes *)
Theorem C13_clock_readings : forall clk o w t, snd (fst (step clk o w t)) = (t + cost o w)%nat.
Proof. exact step_cost. Qed.
Print Assumptions C13_clock_readings.

(* reachability is closed under calls: every configuration along a history is reachable *)
Theorem C13_reachable_step : forall clk o w t,
  reachable clk (w, t) -> reachable clk (fst (step clk o w t)).
Proof. exact reachable_step. Qed.
Print Assumptions C13_reachable_step.

(* the state tags of the source are distinct (the three states do not collapse) *)
Theorem C13_state_tags_distinct : C13_STARTED <> C13_STOPPED.
Proof. exact state_tags_distinct. Qed.
Print Assumptions C13_state_tags_distinct.

(* history-wise: _started_at is the last clock reading taken by the last (re)start of the history
   (ops1, then the (re)start o, then ops2 without any (re)start) — the "last (re)start" of the property *)
Theorem C13_started_at_is_last_restart : forall clk ops1 o ops2 w0 t0,
  let c1 := final clk ops1 w0 t0 in
  effective_restart o (fst c1) = true ->
  let c2 := fst (step clk o (fst c1) (snd c1)) in
  restarts_in clk ops2 (fst c2) (snd c2) = false ->
  w_started (fst (final clk (ops1 ++ o :: ops2) w0 t0)) = Some (clk (snd c2 - 1)%nat) /\ (snd c1 < snd c2)%nat.
Proof. exact started_at_is_last_restart. Qed.
Print Assumptions C13_started_at_is_last_restart.

(* history-wise: _stopped_at is the clock reading taken by the last stop of the history — the "stop instant" *)
Theorem C13_stopped_at_is_last_stop : forall clk ops1 o ops2 w0 t0,
  let c1 := final clk ops1 w0 t0 in
  effective_stop o (fst c1) = true ->
  let c2 := fst (step clk o (fst c1) (snd c1)) in
  stops_in clk ops2 (fst c2) (snd c2) = false ->
  w_stopped (fst (final clk (ops1 ++ o :: ops2) w0 t0)) = Some (clk (snd c1)).
Proof. exact stopped_at_is_last_stop. Qed.
Print Assumptions C13_stopped_at_is_last_stop.

(* ---- second instantiation: the arithmetic of the theorems above does not rest on clock readings being
   integers.  For every ordered abelian group (T, zero, sub, leb) the source's _delta_seconds / maximum /
   leftover / expired formulas (Model/C13_Abstract.v) satisfy: elapsed >= 0; elapsed = later - earlier for ordered
   readings; elapsed is monotone in "now" (non-decreasing splits); elapsed(maximum) >= 0 and <= a non-negative
   maximum; leftover >= 0; expired <-> not (elapsed <= duration); expired -> leftover = 0.
   Z with the model's functions is one instance. ---- *)
Require Import OV.Model.C13_Abstract OV.Proofs.C13_Abstract.

Theorem C13_arithmetic_in_every_ordered_group : forall T zero sub leb,
  ordered_group T zero sub leb ->
  (forall a b, leb zero (g_delta T zero sub leb a b) = true) /\
  (forall a b, leb a b = true -> g_delta T zero sub leb a b = sub b a) /\
  (forall s a b, leb a b = true -> leb (g_delta T zero sub leb s a) (g_delta T zero sub leb s b) = true) /\
  (forall m e, leb zero e = true -> leb zero (g_clamp_max T zero leb m e) = true) /\
  (forall m e, leb zero m = true -> leb (g_clamp_max T zero leb (Some m) e) m = true) /\
  (forall d e, leb zero (g_leftover T zero sub leb d e) = true) /\
  (forall d e, g_expired T leb d e = true <-> leb e d = false) /\
  (forall d e, leb zero d = true -> g_expired T leb d e = true -> g_leftover T zero sub leb d e = zero).
Proof. exact abstract_arithmetic. Qed.
Print Assumptions C13_arithmetic_in_every_ordered_group.

Theorem C13_Z_is_an_ordered_group_instance :
  ordered_group Z 0 Z.sub Z.leb /\
  (forall a b, g_delta Z 0 Z.sub Z.leb a b = delta a b) /\
  (forall m e, g_clamp_max Z 0 Z.leb m e = clamp_max m e) /\
  (forall d e, g_leftover Z 0 Z.sub Z.leb d e = Z.max 0 (d - e)) /\
  (forall d e, g_expired Z Z.leb d e = (e >? d)).
Proof. exact Z_instance_summary. Qed.
Print Assumptions C13_Z_is_an_ordered_group_instance.
