Require Import OV.Base.Bytes OV.Model.C18.
