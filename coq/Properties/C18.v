(* Properties/C18.v — "The spec matcher implements its documented operator table".
   Property theorems only; each is closed by [exact] of a lemma of Proofs/C18.v.

   Reading guide (Model/C18.v):
     parse_string spec   make_grammar().parseString(spec).asList(); None = ParseException
     parse spec          the same without parseString's tab expansion (equal: C18_tab_expansion)
     match_ lev v spec   match(v, spec) for str v, spec; [lev] is ast.literal_eval, ANY function
     all_ws w            w consists of the characters pyparsing skips (" \n\t\r")
     atom_ok a           a is a non-empty run of non-whitespace (\S) characters that does not
                         start with one of the 17 operator literals
     stops rest          rest is empty or starts with a whitespace (\s) character: the word ends
     clean_join op w a   w is non-empty, or gluing op and a does not spell a longer operator
     item_ok / oitem_ok  a further word / a further "<or> word", preceded by non-empty whitespace
     ends_atoms / ends_disj   what follows the last word does not continue the list
   All literals, orders, tables and indices are the regenerated Gen/C18_SpecsMatcher.v values. *)
From Coq Require Import String.
Require Import OV.Base.Bytes OV.Base.Py OV.Base.PyInt OV.Base.Str OV.Base.Regex OV.Base.PyFloat.
Require Import OV.Gen.Unicode OV.Gen.C18_SpecsMatcher OV.Model.C18 OV.Proofs.C18.
Open Scope N_scope.

(* ---------------------------------------------------------------- the table *)

(* op_methods and the grammar contain the documented table: each of the 17 documented
   operators is dispatched to its documented method; the 14 unary ones are unary-operator
   literals of the grammar, the other three are the n-ary literals *)
Theorem C18_operator_table :
  forall op mt,
    In (op, mt)
       [ (lit "=", MNum CGe); (lit "==", MNum CEq); (lit "!=", MNum CNe);
         (lit "<", MNum CLt); (lit "<=", MNum CLe); (lit ">", MNum CGt); (lit ">=", MNum CGe);
         (lit "s==", MStr CEq); (lit "s!=", MStr CNe); (lit "s<", MStr CLt); (lit "s<=", MStr CLe);
         (lit "s>", MStr CGt); (lit "s>=", MStr CGe);
         (lit "<in>", MIn); (lit "<all-in>", MAllIn); (lit "<or>", MOr); (lit "<range-in>", MRangeIn) ] ->
    lookup op op_methods = Some mt /\ (is_unary_meth mt = true -> In op unary_lits).
Proof. intros op mt H. split; [exact (lookup_doc op mt H)|exact (doc_unary op mt H)]. Qed.
Print Assumptions C18_operator_table.

(* [documented], used below, is that list *)
Theorem C18_documented_list :
  documented =
       [ (lit "=", MNum CGe); (lit "==", MNum CEq); (lit "!=", MNum CNe);
         (lit "<", MNum CLt); (lit "<=", MNum CLe); (lit ">", MNum CGt); (lit ">=", MNum CGe);
         (lit "s==", MStr CEq); (lit "s!=", MStr CNe); (lit "s<", MStr CLt); (lit "s<=", MStr CLe);
         (lit "s>", MStr CGt); (lit "s>=", MStr CGe);
         (lit "<in>", MIn); (lit "<all-in>", MAllIn); (lit "<or>", MOr); (lit "<range-in>", MRangeIn) ].
Proof. exact eq_refl. Qed.
Print Assumptions C18_documented_list.

Theorem C18_operator_spelling :
  all_in_lit = lit "<all-in>" /\ or_lit = lit "<or>" /\ range_in_lit = lit "<range-in>".
Proof. exact operator_spelling. Qed.
Print Assumptions C18_operator_spelling.

(* ---------------------------------------------------------------- the grammar *)

(* the character class of Regex(r"\S+") (generated from CPython's regex compiler) is, within the
   code point range, the complement of str.isspace() (generated from the interpreter's Unicode
   table): a "word" below is a run of non-whitespace characters in Python's sense, [stops] means
   "empty or starts with a whitespace character"; the four characters pyparsing skips are whitespace *)
Theorem C18_word_characters :
  (forall c, c <= 1114111 -> cmem c atom_cs = negb (is_space c)) /\
  (forall c, is_pp_ws c = true -> is_space c = true).
Proof. exact (conj atom_class_is_nonspace skipped_are_space). Qed.
Print Assumptions C18_word_characters.


(* operator + word, for every unary operator of the grammar (longer operators win:
   '==' over '=', '<=' '<in>' over '<', 's<=' over 's<', ...) *)
Theorem C18_parse_op_atom : forall op ws w a rest,
  In op unary_lits -> all_ws ws = true -> all_ws w = true -> atom_ok a = true ->
  stops rest = true -> clean_join op w a = true ->
  parse (ws ++ op ++ w ++ a ++ rest) = Some [op; a].
Proof. exact parse_op_atom. Qed.
Print Assumptions C18_parse_op_atom.

(* <or> a1 <or> a2 ... <or> an, any n >= 1 *)
Theorem C18_parse_or : forall ws w a items rest,
  all_ws ws = true -> all_ws w = true -> atom_ok a = true -> clean_join or_lit w a = true ->
  forallb oitem_ok items = true -> ends_disj rest = true ->
  parse (ws ++ or_lit ++ w ++ a ++ flat_map oseg items ++ rest) = Some (or_lit :: a :: map snd items).
Proof. exact parse_or. Qed.
Print Assumptions C18_parse_or.

(* <all-in> a1 a2 ... an, any n >= 1 *)
Theorem C18_parse_all_in : forall ws w a items rest,
  all_ws ws = true -> all_ws w = true -> atom_ok a = true -> clean_join all_in_lit w a = true ->
  forallb item_ok items = true -> ends_atoms rest = true ->
  parse (ws ++ all_in_lit ++ w ++ a ++ flat_map seg items ++ rest) = Some (all_in_lit :: a :: map snd items).
Proof. exact parse_all_in. Qed.
Print Assumptions C18_parse_all_in.

(* <range-in> a1 a2 a3 a4 *)
Theorem C18_parse_range_in : forall ws w1 a1 w2 a2 w3 a3 w4 a4 rest,
  all_ws ws = true -> all_ws w1 = true -> clean_join range_in_lit w1 a1 = true ->
  all_ws w2 = true -> w2 <> [] -> all_ws w3 = true -> w3 <> [] -> all_ws w4 = true -> w4 <> [] ->
  atom_ok a1 = true -> atom_ok a2 = true -> atom_ok a3 = true -> atom_ok a4 = true ->
  stops rest = true ->
  parse (ws ++ range_in_lit ++ w1 ++ a1 ++ w2 ++ a2 ++ w3 ++ a3 ++ w4 ++ a4 ++ rest)
  = Some [range_in_lit; a1; a2; a3; a4].
Proof. exact parse_range_in. Qed.
Print Assumptions C18_parse_range_in.

(* a word that is not an operator: one token, whatever follows *)
Theorem C18_parse_word : forall ws a rest,
  all_ws ws = true -> atom_ok a = true -> stops rest = true -> parse (ws ++ a ++ rest) = Some [a].
Proof. exact parse_word. Qed.
Print Assumptions C18_parse_word.

(* parseString expands tabs to spaces before parsing (str.expandtabs, modelled): the token
   list is the same as without the expansion, for every spec; so [parse] below IS parseString *)
Theorem C18_tab_expansion : forall spec, parse_string spec = parse spec.
Proof. exact parse_string_eq. Qed.
Print Assumptions C18_tab_expansion.

(* trailing whitespace, and whitespace followed by an operator, end a list of words;
   trailing whitespace, and whitespace followed by a non-operator word, end a disjunction *)
Theorem C18_list_ends :
  (forall w, all_ws w = true -> ends_atoms w = true /\ ends_disj w = true) /\
  (forall w op t, all_ws w = true -> w <> [] -> In op all_lits -> ends_atoms (w ++ op ++ t) = true) /\
  (forall w a rest, all_ws w = true -> w <> [] -> atom_ok a = true -> stops rest = true -> ends_disj (w ++ a ++ rest) = true).
Proof.
  exact (conj (fun w H => conj (ends_atoms_ws w H) (ends_disj_ws w H)) (conj ends_atoms_op ends_disj_word)).
Qed.
Print Assumptions C18_list_ends.

(* the repetition loops never run out of fuel: any two sufficient amounts agree *)
Theorem C18_fuel :
  consuming p_atom /\ consuming p_or_item /\
  forall p, consuming p -> forall f f' s, (length s <= f)%nat -> (length s <= f')%nat -> many f p s = many f' p s.
Proof. exact (conj p_atom_consuming (conj p_or_item_consuming many_fuel_enough)). Qed.
Print Assumptions C18_fuel.

(* every spec: one token (string comparison), or a unary operator with one argument and a
   two-parameter method, or an n-ary operator with a variadic method.  No KeyError, no
   IndexError, no TypeError from the argument count, for any spec whatsoever *)
Theorem C18_dispatch_total : forall spec,
  (exists a, tree_of spec = [a]) \/
  (exists op a mt, tree_of spec = [op; a] /\ lookup op op_methods = Some mt /\ is_unary_meth mt = true) \/
  (exists op a l mt, tree_of spec = op :: a :: l /\ lookup op op_methods = Some mt /\ is_unary_meth mt = false).
Proof. exact dispatch_total. Qed.
Print Assumptions C18_dispatch_total.

(* _range_in reads its four arguments inside the list the grammar hands over *)
Theorem C18_range_indices :
  range_arity = range_nargs /\ (range_iy < range_nargs)%nat /\ (range_iz < range_nargs)%nat
  /\ (range_il < range_nargs)%nat /\ (range_iu < range_nargs)%nat.
Proof. exact gen_range_shape. Qed.
Print Assumptions C18_range_indices.

(* ---------------------------------------------------------------- match = documented meaning *)

(* = (meaning >=), ==, !=, <, <=, >, >= : float(value) OP float(word); ValueError when a side is not a number *)
Theorem C18_match_numeric : forall (lev : str -> levres) op c v ws w a rest,
  In (op, MNum c) documented ->
  all_ws ws = true -> all_ws w = true -> atom_ok a = true -> stops rest = true -> clean_join op w a = true ->
  match_ lev v (ws ++ op ++ w ++ a ++ rest) =
  match py_float_of_str v, py_float_of_str a with
  | Some x, Some y => Val (fcmp c x y)
  | _, _ => Raise E_Value
  end.
Proof. exact match_numeric. Qed.
Print Assumptions C18_match_numeric.

(* s==, s!=, s<, s<=, s>, s>= : comparison of the value with the word as strings *)
Theorem C18_match_string : forall (lev : str -> levres) op c v ws w a rest,
  In (op, MStr c) documented ->
  all_ws ws = true -> all_ws w = true -> atom_ok a = true -> stops rest = true -> clean_join op w a = true ->
  match_ lev v (ws ++ op ++ w ++ a ++ rest) = Val (scmp c v a).
Proof. exact match_string. Qed.
Print Assumptions C18_match_string.

(* the six string operators are the relations of one total order, the lexicographic one on code points *)
Theorem C18_string_order : forall a b,
  (scmp CEq a b = beq a b /\ scmp CNe a b = negb (beq a b) /\
   scmp CLe a b = scmp CLt a b || beq a b /\ scmp CGe a b = scmp CGt a b || beq a b /\
   scmp CGt a b = scmp CLt b a /\ scmp CLt a b = negb (scmp CGe a b)) /\
  (scmp CLt a b = true <->
   (exists c t, b = a ++ c :: t) \/
   (exists p x y a' b', a = p ++ x :: a' /\ b = p ++ y :: b' /\ x < y)).
Proof. exact (fun a b => conj (string_ops_table a b) (string_lt_lexicographic a b)). Qed.
Print Assumptions C18_string_order.

(* <in> : the word occurs in the value *)
Theorem C18_match_in : forall (lev : str -> levres) v ws w a rest,
  all_ws ws = true -> all_ws w = true -> atom_ok a = true -> stops rest = true ->
  clean_join (lit "<in>") w a = true ->
  match_ lev v (ws ++ lit "<in>" ++ w ++ a ++ rest) = Val (occursb a v).
Proof. exact match_in. Qed.
Print Assumptions C18_match_in.
Theorem C18_in_is_substring : forall y x, occursb y x = true <-> exists p q, x = p ++ y ++ q.
Proof. exact occursb_spec. Qed.
Print Assumptions C18_in_is_substring.

(* <or> : the value equals one of the alternatives *)
Theorem C18_match_or : forall (lev : str -> levres) v ws w a items rest,
  all_ws ws = true -> all_ws w = true -> atom_ok a = true -> clean_join or_lit w a = true ->
  forallb oitem_ok items = true -> ends_disj rest = true ->
  match_ lev v (ws ++ or_lit ++ w ++ a ++ flat_map oseg items ++ rest)
  = Val (existsb (fun x => beq v x) (a :: map snd items))
  /\ (existsb (fun x => beq v x) (a :: map snd items) = true <-> In v (a :: map snd items)).
Proof. intros. split; [apply match_or; assumption|apply or_spec]. Qed.
Print Assumptions C18_match_or.

(* <all-in> : literal_eval(value) must be a list; all the words must be among its elements *)
Theorem C18_match_all_in : forall (lev : str -> levres) v ws w a items rest,
  all_ws ws = true -> all_ws w = true -> atom_ok a = true -> clean_join all_in_lit w a = true ->
  forallb item_ok items = true -> ends_atoms rest = true ->
  match_ lev v (ws ++ all_in_lit ++ w ++ a ++ flat_map seg items ++ rest) =
  match lev v with
  | LRaise e => Raise e
  | LVal (PList xs) => Val (forallb (fun a => existsb (pyval_is_str a) xs) (a :: map snd items))
  | LVal _ => Raise E_Type
  end.
Proof. exact match_all_in. Qed.
Print Assumptions C18_match_all_in.
Theorem C18_all_in_is_membership : forall xs atoms,
  forallb (fun a => existsb (pyval_is_str a) xs) atoms = true <-> (forall a, In a atoms -> In (PStr a) xs).
Proof. exact all_in_spec. Qed.
Print Assumptions C18_all_in_is_membership.

(* <range-in> : interval membership, each end closed ('[' ']') or open ('(' ')'); all four combinations *)
Theorem C18_match_range_in : forall (lev : str -> levres) v ws w1 lb w2 lo w3 hi w4 rb rest,
  In lb [lit "["; lit "("] -> In rb [lit "]"; lit ")"] ->
  all_ws ws = true -> all_ws w1 = true ->
  all_ws w2 = true -> w2 <> [] -> all_ws w3 = true -> w3 <> [] -> all_ws w4 = true -> w4 <> [] ->
  atom_ok lo = true -> atom_ok hi = true -> stops rest = true ->
  match_ lev v (ws ++ range_in_lit ++ w1 ++ lb ++ w2 ++ lo ++ w3 ++ hi ++ w4 ++ rb ++ rest) =
  match lev v with
  | LRaise e => Raise e
  | LVal pv =>
    match float_of_pyval pv with
    | inr e => Raise e
    | inl x =>
      match py_float_of_str lo with
      | None => Raise E_Value
      | Some y =>
        match py_float_of_str hi with
        | None => Raise E_Value
        | Some z =>
          if f_gtb y z then Raise E_Type
          else Val ((if beq lb (lit "[") then f_geb x y else f_gtb x y)
                    && (if beq rb (lit "]") then f_leb x z else f_ltb x z))
        end
      end
    end
  end.
Proof. exact match_range_in. Qed.
Print Assumptions C18_match_range_in.

(* no operator: plain string equality with the FIRST word (text after it is ignored, O5);
   a spec the grammar rejects is compared as a whole; and every one-token tree is a string comparison *)
Theorem C18_no_operator_is_equality : forall (lev : str -> levres) v,
  (forall ws a rest, all_ws ws = true -> atom_ok a = true -> stops rest = true ->
                     match_ lev v (ws ++ a ++ rest) = Val (beq a v)) /\
  (forall spec, parse spec = None -> match_ lev v spec = Val (beq spec v)) /\
  (forall spec a, tree_of spec = [a] -> match_ lev v spec = Val (beq a v)).
Proof.
  exact (fun lev v => conj (no_operator_is_equality lev v)
                           (conj (unparsable_is_equality lev v) (single_token_equality lev v))).
Qed.
Print Assumptions C18_no_operator_is_equality.
