(* Properties/C15.v — property theorems only; each is closed by [exact] of a lemma from
   Proofs/ and followed by Print Assumptions.

   Reading of the inputs.  MAC and prefix TEXT is parsed by netaddr (oracle): the model
   receives netaddr.EUI(mac) as [LOk (EUI48 v)] (or the exception class) and
   netaddr.IPNetwork(prefix).first as [LOk first]; the three booleans are
   isinstance(prefix, str), is_valid_ipv4(prefix, False), is_valid_ipv4(prefix, True).
   [valid] in the host/port theorems is the verdict of is_valid_ipv6(host). *)
From Coq Require Import String.
Require Import OV.Base.Bytes OV.Base.Py OV.Base.PyInt OV.Base.Str.
Require Import OV.Base.C11_Lib OV.Model.C11 OV.Model.C11_Spec.
Require Import OV.Base.C15_PyVal OV.Gen.C15_Netutils OV.Model.C15 OV.Model.C15_Spec OV.Model.C15_Text.
Require Import OV.Proofs.C15_Str OV.Proofs.C15_Eui OV.Proofs.C15 OV.Proofs.C15_Net OV.Proofs.C15_Mac OV.Proofs.C15_Text.
Open Scope Z_scope.

(* ---------------------------------------------------------------- EUI-64 *)

(* for every 48-bit MAC and every network address whose low 64 bits are clear (all prefixes
   of length <= 64, with or without host bits — IPNetwork.first masks them — and longer ones
   with nothing there): the result is the IPv6 address  first + iid = first | iid,  where
   iid = (hi24*2^40 + 0xFFFE*2^24 + lo24) xor 2^57 is the modified EUI-64; the high half is the
   prefix's, the low half is the interface identifier *)
Theorem C15_eui64_value : forall first mac,
  0 <= mac < 2 ^ 48 -> 0 <= first < 2 ^ 128 -> first mod 2 ^ 64 = 0 ->
  get_ipv6_addr_by_EUI64 true false false (LOk (EUI48 mac)) (LOk first)
    = Ok (6, first + modified_eui64_arith mac) /\
  first + modified_eui64_arith mac = Z.lor first (modified_eui64_arith mac) /\
  (first + modified_eui64_arith mac) / 2 ^ 64 = first / 2 ^ 64 /\
  (first + modified_eui64_arith mac) mod 2 ^ 64 = modified_eui64_arith mac.
Proof. exact eui64_value. Qed.
Print Assumptions C15_eui64_value.

(* that number is the RFC 4291 identifier  b0^0x02 : b1 : b2 : ff : fe : b3 : b4 : b5
   (universal/local bit inverted, ff:fe inserted) *)
Theorem C15_modified_eui64_bytes : forall mac,
  0 <= mac < 2 ^ 48 -> modified_eui64_arith mac = modified_eui64 mac.
Proof. exact modified_eui64_bytes. Qed.
Print Assumptions C15_modified_eui64_bytes.

(* what the code computes for EVERY network address, low half occupied or not:
   (first + eui64) xor 2^57 with arithmetic +, then netaddr.IPAddress(int)'s range rule
   (below 2^32 an IPv4 address object; 2^128 and above: ValueError) *)
Theorem C15_eui64_general : forall first mac,
  0 <= mac < 2 ^ 48 -> 0 <= first ->
  let r := Z.lxor (first + eui64_arith mac) (2 ^ 57) in
  get_ipv6_addr_by_EUI64 true false false (LOk (EUI48 mac)) (LOk first) =
    if r <? 2 ^ 32 then Ok (4, r) else if r <? 2 ^ 128 then Ok (6, r) else Exn (handle LAddrFormatError).
Proof. exact eui64_general. Qed.
Print Assumptions C15_eui64_general.

(* get_mac_addr_by_ipv6 recovers the MAC from what get_ipv6_addr_by_EUI64 returned *)
Theorem C15_mac_roundtrip : forall first mac,
  0 <= mac < 2 ^ 48 -> 0 <= first < 2 ^ 128 -> first mod 2 ^ 64 = 0 ->
  exists r, get_ipv6_addr_by_EUI64 true false false (LOk (EUI48 mac)) (LOk first) = Ok (6, r) /\
            get_mac_addr_by_ipv6 6 r = LOk (EUI48 mac).
Proof. exact mac_roundtrip. Qed.
Print Assumptions C15_mac_roundtrip.

(* the inverse on its own: from ANY address whose low 64 bits are the modified EUI-64 of a MAC;
   and it never fails on an IPv6 address (the masks keep the value below 2^48) *)
Theorem C15_mac_of_interface_id : forall hi64 mac,
  0 <= mac < 2 ^ 48 -> 0 <= hi64 ->
  gen_mac_of_ipv6 (hi64 * 2 ^ 64 + modified_eui64_arith mac) = mac.
Proof. exact mac_of_interface_id. Qed.
Print Assumptions C15_mac_of_interface_id.

Theorem C15_mac_of_ipv6_range : forall v, 0 <= v -> 0 <= gen_mac_of_ipv6 v < 2 ^ 48.
Proof. exact mac_of_ipv6_range. Qed.
Print Assumptions C15_mac_of_ipv6_range.

(* an IPv4 address given as prefix raises ValueError or TypeError ... *)
Theorem C15_ipv4_prefix_rejected : forall mac net,
  exists e, get_ipv6_addr_by_EUI64 true true true mac net = Exn e /\ is_VE_TE e.
Proof. exact ipv4_prefix_rejected. Qed.
Print Assumptions C15_ipv4_prefix_rejected.

(* ... so does a MAC or a prefix that netaddr refuses (ValueError, AddrFormatError or TypeError),
   a prefix that is not a str, and nothing else ever escapes *)
Theorem C15_bad_mac_rejected : forall is_str v4l v4s e net, lib_class e = true ->
  exists e', get_ipv6_addr_by_EUI64 is_str v4l v4s (LExn e) net = Exn e' /\ is_VE_TE e'.
Proof. exact bad_mac_rejected. Qed.
Print Assumptions C15_bad_mac_rejected.

Theorem C15_bad_prefix_rejected : forall is_str v4l v4s m e, lib_class e = true ->
  exists e', get_ipv6_addr_by_EUI64 is_str v4l v4s (LOk m) (LExn e) = Exn e' /\ is_VE_TE e'.
Proof. exact bad_prefix_rejected. Qed.
Print Assumptions C15_bad_prefix_rejected.

Theorem C15_nonstr_prefix_rejected : forall v4l v4s mac net,
  exists e, get_ipv6_addr_by_EUI64 false v4l v4s mac net = Exn e /\ is_VE_TE e.
Proof. exact nonstr_prefix_rejected. Qed.
Print Assumptions C15_nonstr_prefix_rejected.

Theorem C15_eui64_only_VE_TE : forall is_str v4l v4s mac net e,
  (forall x, mac = LExn x -> lib_class x = true) -> (forall x, net = LExn x -> lib_class x = true) ->
  get_ipv6_addr_by_EUI64 is_str v4l v4s mac net = Exn e -> is_VE_TE e.
Proof. exact eui64_only_VE_TE. Qed.
Print Assumptions C15_eui64_only_VE_TE.

(* ---------------------------------------------------------------- host:port *)

(* parse_host_port(escape_ipv6(host) + ':' + str(port)) = (host, port) for EVERY integer port
   (nothing checks 0..65535) exactly for the hosts rt_host describes: every host escape_ipv6
   brackets (the bracketed text is split at its last ']'), or a host it does not bracket that is
   free of ':' and does not start with '[' *)
Theorem C15_host_port_roundtrip : forall valid host port,
  parse_host_port (escape_ipv6 valid host ++ [58%N] ++ dec_of_Z port) VNone = Ok (Some host, Some port)
  <-> rt_host valid host = true.
Proof. exact host_port_roundtrip_iff. Qed.
Print Assumptions C15_host_port_roundtrip.

(* a missing port yields the default (None or an int), exactly for rt_host_default *)
Theorem C15_host_default_roundtrip : forall valid host (d : option Z),
  parse_host_port (escape_ipv6 valid host) (pv_of d) = Ok (Some host, d)
  <-> rt_host_default valid host = true.
Proof. exact host_default_roundtrip_iff. Qed.
Print Assumptions C15_host_default_roundtrip.

(* the three families: names and IPv4 literals (no ':' and no leading '[') ... *)
Theorem C15_host_port_roundtrip_plain : forall valid host port,
  has_char 58%N host = false -> prefixb [91%N] host = false ->
  parse_host_port (escape_ipv6 valid host ++ [58%N] ++ dec_of_Z port) VNone = Ok (Some host, Some port).
Proof. exact host_port_roundtrip_plain. Qed.
Print Assumptions C15_host_port_roundtrip_plain.

(* ... and IPv6 literals with or without a scope id: EVERYTHING escape_ipv6 brackets, no side
   condition (the former finding H1 — a scope id containing ']' — is repaired by 03fda28) *)
Theorem C15_host_port_roundtrip_ipv6 : forall host port,
  parse_host_port (escape_ipv6 true host ++ [58%N] ++ dec_of_Z port) VNone = Ok (Some host, Some port).
Proof. exact host_port_roundtrip_ipv6. Qed.
Print Assumptions C15_host_port_roundtrip_ipv6.

Theorem C15_host_default_plain : forall valid host d,
  host <> [] -> has_char 58%N host = false -> prefixb [91%N] host = false ->
  parse_host_port (escape_ipv6 valid host) (pv_of d) = Ok (Some host, d).
Proof. exact host_default_plain. Qed.
Print Assumptions C15_host_default_plain.

Theorem C15_host_default_ipv6 : forall host d,
  parse_host_port (escape_ipv6 true host) (pv_of d) = Ok (Some host, d).
Proof. exact host_default_ipv6. Qed.
Print Assumptions C15_host_default_ipv6.

(* what stays excluded: for hosts escape_ipv6 does not bracket the side conditions are needed —
   e.g. 'a:b' (one ':', refused by is_valid_ipv6) is read back as host 'a:b:80' without a port *)
Definition C15_host_port_unescaped_full_statement : Prop :=
  forall host port, parse_host_port (escape_ipv6 false host ++ [58%N] ++ dec_of_Z port) VNone = Ok (Some host, Some port).
Theorem C15_host_port_unescaped_refuted : ~ C15_host_port_unescaped_full_statement.
Proof. exact host_port_unescaped_refuted. Qed.
Print Assumptions C15_host_port_unescaped_refuted.

(* ---------------------------------------------------------------- urlsplit *)

(* under the post-condition of urllib.parse.urlsplit (tested on every generated URL): no '?' in
   the path, no '#' in it when fragments are allowed — oslo's urlsplit returns the stdlib's five
   components unchanged (the translated source text, not only the hand model) *)
Theorem C15_urlsplit_agrees : forall s n p q f a,
  has_char 63%N p = false -> (a = true -> has_char 35%N p = false) ->
  gen_urlsplit_post s n p q f a = Ok (s, n, p, q, f).
Proof. exact urlsplit_agrees. Qed.
Print Assumptions C15_urlsplit_agrees.

(* without the contract: scheme and netloc are kept, the path ends up free of '?' (and of '#'
   when fragments are allowed) and is a prefix of the stdlib's path; no exception *)
Theorem C15_urlsplit_post_clean : forall s n p q f a,
  match urlsplit_post s n p q f a with
  | (s', n', p', q', f') =>
      s' = s /\ n' = n /\ has_char 63%N p' = false /\ (a = true -> has_char 35%N p' = false) /\
      (exists tl, p = p' ++ tl)
  end.
Proof. exact urlsplit_post_clean. Qed.
Print Assumptions C15_urlsplit_post_clean.

(* ---------------------------------------------------------------- params() *)

(* over any list of (name, value) pairs parse_qsl may return: collapse=True maps every name to
   the LAST value given for it; collapse=False to ALL of them in order (one value stays bare) *)
Theorem C15_params_last_wins : forall pairs k,
  dict_get k (params_collapse pairs) = last_opt (values_of k pairs).
Proof. exact params_last_wins. Qed.
Print Assumptions C15_params_last_wins.

Theorem C15_params_all_values : forall pairs k,
  dict_get k (params_all pairs) = pval_of (values_of k pairs).
Proof. exact params_all_values. Qed.
Print Assumptions C15_params_all_values.

Theorem C15_params_method : forall query pairs k,
  (bempty query = true -> pairs = []) ->
  dict_get k (params_c query pairs) = last_opt (values_of k pairs) /\
  dict_get k (params_a query pairs) = pval_of (values_of k pairs).
Proof. exact params_method. Qed.
Print Assumptions C15_params_method.

Theorem C15_params_keys_nodup : forall pairs,
  NoDup (map fst (params_collapse pairs)) /\ NoDup (map fst (params_all pairs)).
Proof. exact params_keys_nodup. Qed.
Print Assumptions C15_params_keys_nodup.

(* ==================================================================================
   END TO END ON TEXT (Model/C15_Text.v): no parsing oracle.  [ipnetwork_v p] is
   netaddr.IPNetwork(p) (C11's parser, proved to accept exactly C11's network texts, extended with
   the value and prefix length), [valid_ipv4] / [is_valid_ipv6] are C11's models,
   [eui_of_text m] is netaddr.EUI(m) for the textual MAC / EUI-64 forms, [eui48_print] is
   str(EUI) in the dialect get_mac_addr_by_ipv6 uses.  Text = list of code points. *)

(* netaddr.IPNetwork(text) succeeds exactly on C11's network texts (C11_ipnetwork_iff) ... *)
Theorem C15_ipnetwork_accepts : forall s,
  (exists v6 value plen, ipnetwork_v s = Net v6 value plen) <-> network_text false s \/ network_text true s.
Proof. exact ipnetwork_v_accepts. Qed.
Print Assumptions C15_ipnetwork_accepts.

(* ... with these values for the spellings the property names: an RFC 4291 address text of value
   [value] alone (/128) or followed by '/' and a decimal prefix length *)
Theorem C15_ipnetwork_decimal : forall a value n, ipv6_value a value -> (n <= 128)%N ->
  ipnetwork_v (a ++ 47%N :: dec_of_N n) = Net true value n /\ ipnetwork_v a = Net true value 128.
Proof. exact ipnetwork_v_decimal_both. Qed.
Print Assumptions C15_ipnetwork_decimal.

(* IPNetwork.first clears the host bits *)
Theorem C15_net_first : forall value plen, (value < 2 ^ 128)%N -> (plen <= 128)%N ->
  Z.of_N (net_first true value plen) = network_of value plen.
Proof. exact net_first_Z. Qed.
Print Assumptions C15_net_first.

(* every MAC text netaddr.EUI reads as an EUI-48 denotes a value below 2^48; the six-group forms
   (':' or '-', 1..2 hex digits per group, either case) denote the value of their groups *)
Theorem C15_mac_text_range : forall m v, eui_of_text m = Some (EUI48 v) -> 0 <= v < 2 ^ 48.
Proof. exact eui_of_text_48_range. Qed.
Print Assumptions C15_mac_text_range.

Theorem C15_mac_text_six_groups : forall sep ws, sep = 58%N \/ sep = 45%N ->
  length ws = 6%nat -> forallb (hexword 1 2) ws = true ->
  eui_of_text (join [sep] ws) = Some (EUI48 (Z.of_N (words_val 8 ws))).
Proof. exact eui_of_text_six_groups. Qed.
Print Assumptions C15_mac_text_six_groups.

(* HEADLINE, forward: for every MAC text m denoting the 48-bit value v and every IPv6 network text p
   with prefix length <= 64 (host bits or not): the result is network(p) + iid(v) = network(p) | iid(v) *)
Theorem C15_eui64_text_value : forall p m v value plen,
  eui_of_text m = Some (EUI48 v) -> ipnetwork_v p = Net true value plen -> (plen <= 64)%N ->
  get_ipv6_addr_by_EUI64_text p m = Ok (6, network_of value plen + modified_eui64_arith v) /\
  network_of value plen + modified_eui64_arith v = Z.lor (network_of value plen) (modified_eui64_arith v).
Proof. exact eui64_text_value. Qed.
Print Assumptions C15_eui64_text_value.

(* the same for any prefix length as long as the low half of the network address is clear *)
Theorem C15_eui64_text_value_gen : forall p m v value plen,
  eui_of_text m = Some (EUI48 v) -> ipnetwork_v p = Net true value plen ->
  network_of value plen mod 2 ^ 64 = 0 ->
  get_ipv6_addr_by_EUI64_text p m = Ok (6, network_of value plen + modified_eui64_arith v) /\
  network_of value plen + modified_eui64_arith v = Z.lor (network_of value plen) (modified_eui64_arith v).
Proof. exact eui64_text_value_gen. Qed.
Print Assumptions C15_eui64_text_value_gen.

(* fully declarative on the prefix side: "<RFC 4291 text of value>/<n>", n <= 64 *)
Theorem C15_eui64_text_value_decimal : forall a value n m v,
  ipv6_value a value -> (n <= 64)%N -> eui_of_text m = Some (EUI48 v) ->
  get_ipv6_addr_by_EUI64_text (a ++ 47%N :: dec_of_N n) m = Ok (6, network_of value n + modified_eui64_arith v).
Proof. exact eui64_text_value_decimal. Qed.
Print Assumptions C15_eui64_text_value_decimal.

(* HEADLINE, round trip through the text get_mac_addr_by_ipv6 prints *)
Theorem C15_eui64_text_roundtrip : forall p m v value plen,
  eui_of_text m = Some (EUI48 v) -> ipnetwork_v p = Net true value plen -> (plen <= 64)%N ->
  exists r, get_ipv6_addr_by_EUI64_text p m = Ok (6, r) /\
            get_mac_text r = Some (eui48_print (Z.to_N v)) /\
            eui_of_text (eui48_print (Z.to_N v)) = Some (EUI48 v).
Proof. exact eui64_text_roundtrip. Qed.
Print Assumptions C15_eui64_text_roundtrip.

Theorem C15_eui64_text_roundtrip_literal : forall p v value plen,
  (v < 2 ^ 48)%N -> ipnetwork_v p = Net true value plen -> (plen <= 64)%N ->
  exists r, get_ipv6_addr_by_EUI64_text p (eui48_print v) = Ok (6, r) /\ get_mac_text r = Some (eui48_print v).
Proof. exact eui64_text_roundtrip_literal. Qed.
Print Assumptions C15_eui64_text_roundtrip_literal.

Theorem C15_mac_print_parse : forall v, (v < 2 ^ 48)%N -> eui_of_text (eui48_print v) = Some (EUI48 (Z.of_N v)).
Proof. exact eui_print_parse. Qed.
Print Assumptions C15_mac_print_parse.

(* HEADLINE, exceptions: an IPv4 address text as prefix (C11_ipv4_nonstrict_iff says which texts),
   a MAC text or a prefix text the library models refuse: ValueError or TypeError; nothing else
   ever escapes; a result is returned only when none of these holds *)
Theorem C15_eui64_text_ipv4_rejected : forall p mac,
  valid_ipv4 false p = AOk true -> exists e, get_ipv6_addr_by_EUI64_gen p mac = Exn e /\ is_VE_TE e.
Proof. exact eui64_text_ipv4_rejected. Qed.
Print Assumptions C15_eui64_text_ipv4_rejected.

Theorem C15_eui64_text_bad_mac : forall p m,
  eui_of_text m = None -> exists e, get_ipv6_addr_by_EUI64_text p m = Exn e /\ is_VE_TE e.
Proof. exact eui64_text_bad_mac. Qed.
Print Assumptions C15_eui64_text_bad_mac.

Theorem C15_eui64_text_bad_prefix : forall p m e x,
  eui_of_text m = Some x -> ipnetwork_v p = NetRaise e ->
  exists e', get_ipv6_addr_by_EUI64_text p m = Exn e' /\ is_VE_TE e'.
Proof. exact eui64_text_bad_prefix. Qed.
Print Assumptions C15_eui64_text_bad_prefix.

Theorem C15_eui64_text_total : forall p m,
  (exists r, get_ipv6_addr_by_EUI64_text p m = Ok r) \/
  (exists e, get_ipv6_addr_by_EUI64_text p m = Exn e /\ is_VE_TE e).
Proof. exact eui64_text_total. Qed.
Print Assumptions C15_eui64_text_total.

Theorem C15_eui64_text_ok_inv : forall p m r,
  get_ipv6_addr_by_EUI64_text p m = Ok r ->
  valid_ipv4 false p <> AOk true /\
  (exists x, eui_of_text m = Some x) /\ (exists v6 value plen, ipnetwork_v p = Net v6 value plen).
Proof. exact eui64_text_ok_inv. Qed.
Print Assumptions C15_eui64_text_ok_inv.

(* escape_ipv6 with C11's is_valid_ipv6: every h that is RFC 4291 text optionally followed by '%'
   and a scope id of 1..15 characters without '%' or '/' — no parameter left *)
Theorem C15_host_port_roundtrip_ipv6_text : forall h port, ipv6_scoped_text h ->
  parse_host_port (escape_ipv6_text h ++ [58%N] ++ dec_of_Z port) VNone = Ok (Some h, Some port).
Proof. exact host_port_roundtrip_ipv6_text. Qed.
Print Assumptions C15_host_port_roundtrip_ipv6_text.

Theorem C15_host_default_ipv6_text : forall h d, ipv6_scoped_text h ->
  parse_host_port (escape_ipv6_text h) (pv_of d) = Ok (Some h, d).
Proof. exact host_default_ipv6_text. Qed.
Print Assumptions C15_host_default_ipv6_text.

Theorem C15_host_port_roundtrip_ipv4_text : forall h port, dotted_quad h ->
  parse_host_port (escape_ipv6_text h ++ [58%N] ++ dec_of_Z port) VNone = Ok (Some h, Some port).
Proof. exact host_port_roundtrip_ipv4_text. Qed.
Print Assumptions C15_host_port_roundtrip_ipv4_text.

(* exactly which texts round-trip *)
Theorem C15_host_port_roundtrip_text_iff : forall h port,
  parse_host_port (escape_ipv6_text h ++ [58%N] ++ dec_of_Z port) VNone = Ok (Some h, Some port)
  <-> ipv6_scoped_text h \/ (has_char 58%N h = false /\ prefixb [91%N] h = false).
Proof. exact host_port_roundtrip_text_iff. Qed.
Print Assumptions C15_host_port_roundtrip_text_iff.
