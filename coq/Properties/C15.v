Require Import OV.Base.Bytes OV.Base.Py OV.Base.PyInt OV.Base.Str OV.Base.C15_PyVal OV.Gen.C15_Netutils OV.Model.C15 OV.Proofs.C15.
