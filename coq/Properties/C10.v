(* Properties/C10.v — "string_to_bytes computes the exact byte quantity or raises
   ValueError": the property theorems only.  Each is closed by [exact] of a lemma
   from Proofs/ and followed by Print Assumptions.

   Vocabulary (Proofs/C10_Form.v, Proofs/C10.v):
     numform num      num = [+|-] digits [.] digits+   (Unicode decimal digits)
     form P t         t = num ++ pre ++ unit, pre empty or in P, unit in {b, bit, B} (nothing after
                      the unit: the patterns end in \Z, which the translator turns into the flag of
                      rz_match, Model/C10_Regex.v)
     spec_systems     IEC -> K M G T P E Z Y R Q each with optional i;  SI -> k M G ... Q;
                      mixed -> k K M ... Q each with optional i
     spec_exp p       1 for k/K, 2 M, 3 G, 4 T, 5 P, 6 E, 7 Z, 8 Y, 9 R, 10 Q
     spec_base u p    1024 for IEC, 1000 for SI, mixed: 1024 when p ends in i, else 1000
     spec_eval        float(num) [/ 8 for b, bit] [* float(base ^ exp)], then ceil when return_int
                      (OverflowError of ceil(inf) turned into ValueError)
   unit_system_info, unit_prefix_exponent, the three regexes and size_re are REGENERATED from
   /repo (Gen/C10_Units.v); the theorems hold for whatever was generated. *)
From Coq Require Import String.
From Coq Require Import ZArith SpecFloat.
Require Import OV.Base.Bytes OV.Base.Py OV.Base.PyInt OV.Base.Str OV.Base.Regex OV.Base.PyFloat.
Require Import OV.Model.C10_Regex OV.Gen.C10_Units OV.Model.C10.
Require Import OV.Gen.C10_Code OV.Gen.C10_QemuCode.
Require Import OV.Proofs.C10_Regex OV.Proofs.C10_Form OV.Proofs.C10_Float OV.Proofs.C10 OV.Proofs.C10_Qemu OV.Proofs.C10_Equiv OV.Proofs.C10_Examples.
Open Scope Z_scope.

(* the unit systems are exactly IEC, SI and mixed *)
Theorem C10_system_known_iff : forall u : str,
  lookup u unit_system_info <> None <-> (u = lit "IEC" \/ u = lit "SI" \/ u = lit "mixed").
Proof. exact system_known_iff. Qed.
Print Assumptions C10_system_known_iff.

(* the regex of unit system u matches t  <->  t = [sign]number[prefix in P_u]unit *)
Theorem C10_admitted_iff_form : forall u prefixes base rx,
  In (u, prefixes) spec_systems -> lookup u unit_system_info = Some (base, rx) ->
  forall t, rz_matchb rx t = true <-> form prefixes t.
Proof. exact admitted_iff_form. Qed.
Print Assumptions C10_admitted_iff_form.

(* every prefix any of the three regexes can capture is a key of the exponent table, with the SI/IEC
   exponent, the base in effect is the specified one, and base^exponent converts to a finite float *)
Theorem C10_prefix_table_total : forall u base rx t e g p,
  lookup u unit_system_info = Some (base, rx) ->
  rz_match rx t = Some (e, g) -> group_text t g 2 = Some p -> p <> [] ->
  lookup p unit_prefix_exponent = Some (spec_exp p) /\
  effective_base u base (Some p) = Some (spec_base u p) /\
  exists x, float_of_Z (spec_base u p ^ spec_exp p) = Some x /\ f_is_finite x = true.
Proof. exact prefix_table_total. Qed.
Print Assumptions C10_prefix_table_total.

(* any text that is not of the form for the chosen system — malformed, foreign prefix,
   unknown unit system — raises ValueError *)
Theorem C10_not_admitted_raises_ValueError : forall t u ri,
  (forall prefixes, In (u, prefixes) spec_systems -> ~ form prefixes t) ->
  string_to_bytes t u ri = Exn ValueError.
Proof. exact not_admitted_raises_ValueError. Qed.
Print Assumptions C10_not_admitted_raises_ValueError.

(* no exception other than ValueError: for every text, every unit-system string and both return_int
   (non-str arguments are outside the statement).  A quantity beyond binary64 evaluates to inf without
   return_int — the IEEE evaluation, no exception — and to ValueError with it (Proofs/C10.v,
   overflow_witness_float / overflow_witness_int) *)
Theorem C10_only_ValueError : forall t u ri e,
  string_to_bytes t u ri = Exn e -> e = ValueError.
Proof. exact only_ValueError. Qed.
Print Assumptions C10_only_ValueError.

(* the value of an admitted text is the IEEE evaluation  float(number) [/ 8] [* float(base^exp)] *)
Theorem C10_value_is_ieee_evaluation : forall u prefixes, In (u, prefixes) spec_systems ->
  forall num pre un ri,
  numform num -> (pre = [] \/ In pre prefixes) -> In un units3 ->
  string_to_bytes (num ++ pre ++ un) u ri = spec_eval u num pre un ri.
Proof. exact string_to_bytes_eval. Qed.
Print Assumptions C10_value_is_ieee_evaluation.

(* ... and it is a float (never an exception) when return_int is off *)
Theorem C10_admitted_returns_float : forall u prefixes, In (u, prefixes) spec_systems ->
  forall num pre un,
  numform num -> (pre = [] \/ In pre prefixes) -> In un units3 ->
  exists r, string_to_bytes (num ++ pre ++ un) u false = Ok (NFloat r).
Proof. exact admitted_returns_float. Qed.
Print Assumptions C10_admitted_returns_float.

(* return_int yields the ceiling of the float result: same call, then math.ceil (ValueError when the
   float is infinite or NaN) ... *)
Theorem C10_ceil_spec : forall t u,
  string_to_bytes t u true =
  match string_to_bytes t u false with
  | Ok (NFloat r) => ceil_or_ValueError r
  | other => other
  end.
Proof. exact return_int_is_ceil. Qed.
Print Assumptions C10_ceil_spec.

(* ... where ceil_to_Z is the least integer not below (-1)^s * m * 2^e *)
Theorem C10_ceil_is_ceiling : forall s m e z, ceil_to_Z (S754_finite s m e) = Ok z ->
  let v := if s then Zneg m else Zpos m in
  if 0 <=? e then z = v * 2 ^ e
  else (z - 1) * 2 ^ (- e) < v <= z * 2 ^ (- e).
Proof. exact ceil_to_Z_spec. Qed.
Print Assumptions C10_ceil_is_ceiling.

(* integer magnitude n, factor F = base^exponent (1 without prefix) with at most 53 significant
   bits, n * F (/ 8 for bit units) an integer a below 2^53: the result is exactly the float of
   value a (with the sign), and return_int returns exactly a.
   exact_hyps (Proofs/C10.v) is the conjunction of: (u, prefixes) a known system; sg empty, + or -;
   ds non-empty Unicode decimal digits of value n > 0; pre empty or a prefix of the system; un in {b, bit, B};
   F = 1 or spec_base^spec_exp; repr53b F; n * F = a * (8 | 1); a < 2^53. *)
Theorem C10_exact_when_representable : forall u prefixes sg ds pre un n F a,
  exact_hyps u prefixes sg ds pre un n F a ->
  string_to_bytes (sg ++ ds ++ pre ++ un) u false = Ok (NFloat (float_of_small_int (beq sg [45%N]) a)) /\
  string_to_bytes (sg ++ ds ++ pre ++ un) u true = Ok (NInt (if beq sg [45%N] then Zneg a else Zpos a)).
Proof. exact exact_when_representable. Qed.
Print Assumptions C10_exact_when_representable.

(* float_of_small_int neg a is the float Python's float(int) gives for the integer: exact *)
Theorem C10_float_of_small_int_is_float_of_int : forall (neg : bool) a, Zpos a < 2 ^ 53 ->
  float_of_Z (if neg then Zneg a else Zpos a) = Some (float_of_small_int neg a).
Proof. exact float_of_small_int_spec. Qed.
Print Assumptions C10_float_of_small_int_is_float_of_int.

(* QemuImgInfo._extract_bytes: whenever SIZE_RE finds a "(N bytes)" figure (group 3), the result is
   int(N) — whatever the magnitude and the unit say *)
Theorem C10_bytes_figure_precedence : forall details a e g,
  re_search size_re details = Some (a, e, g) -> gget g 3%nat <> None ->
  exists ds, group_text details g 4 = Some ds /\ digits ds = true /\ ds <> [] /\
             extract_bytes details = py_int_lim ds.
Proof. exact figure_wins. Qed.
Print Assumptions C10_bytes_figure_precedence.

(* otherwise, with a unit: string_to_bytes(magnitude + unit, 'IEC', return_int=True), one-letter units completed with B *)
Theorem C10_qemu_same_arithmetic : forall details a e g g1 c r,
  re_search size_re details = Some (a, e, g) -> group_text details g 1 = Some g1 -> has_e g1 = false ->
  truthy (group_text details g 3) = false -> group_text details g 2 = Some (c :: r) ->
  extract_bytes details =
  match string_to_bytes (g1 ++ (if (zlen (c :: r) =? 1)%Z && negb (beq (c :: r) (lit "B")) then (c :: r) ++ lit "B" else c :: r))
                        (lit "IEC") true with
  | Ok (NInt z) => Ok z
  | Ok (NFloat _) => Exn OtherError
  | Exn ex => Exn ex
  end.
Proof. exact unit_uses_string_to_bytes. Qed.
Print Assumptions C10_qemu_same_arithmetic.

(* the model is the code: the statement-by-statement translation of the source of string_to_bytes
   (Gen/C10_Code.v, regenerated on every run) is extensionally the model the theorems are about *)
Theorem C10_translation_equiv : forall text unit_system return_int,
  gen_string_to_bytes text unit_system return_int = string_to_bytes text unit_system return_int.
Proof. exact gen_string_to_bytes_equiv. Qed.
Print Assumptions C10_translation_equiv.

(* ---- QemuImgInfo (human format): which fields are byte sizes and what is stored for them ---- *)

(* _extract_bytes raises nothing but ValueError, for every details text *)
Theorem C10_extract_bytes_only_ValueError : forall details e,
  extract_bytes details = Exn e -> e = ValueError.
Proof. exact extract_bytes_only_ValueError. Qed.
Print Assumptions C10_extract_bytes_only_ValueError.

(* the byte-size fields are exactly virtual_size, cluster_size and disk_size *)
Theorem C10_size_details_fields : forall root_cmd root_details,
  size_details root_cmd root_details <> None <->
  (root_cmd = lit "virtual_size" \/ root_cmd = lit "cluster_size" \/ root_cmd = lit "disk_size").
Proof. exact size_details_fields. Qed.
Print Assumptions C10_size_details_fields.

(* what is stored: 0 for 'None' / 'unavailable', otherwise what _extract_bytes returns or raises *)
Theorem C10_size_details_value : forall root_cmd root_details, In root_cmd size_fields ->
  size_details root_cmd root_details =
  Some (if existsb (beq root_details) zero_words then Ok 0%Z else extract_bytes root_details).
Proof. exact size_details_value. Qed.
Print Assumptions C10_size_details_value.

(* never a silent 0: a stored 0 comes from one of the two words or from a text whose byte count is 0;
   a stored exception is the ValueError of _extract_bytes, and every such ValueError is propagated *)
Theorem C10_size_details_no_silent_zero : forall root_cmd root_details v,
  size_details root_cmd root_details = Some v ->
  (v = Ok 0%Z -> In root_details zero_words \/ extract_bytes root_details = Ok 0%Z) /\
  (forall e, v = Exn e -> e = ValueError /\ extract_bytes root_details = Exn e) /\
  (forall e, extract_bytes root_details = Exn e -> ~ In root_details zero_words -> v = Exn e).
Proof. exact size_details_no_silent_zero. Qed.
Print Assumptions C10_size_details_no_silent_zero.

(* no figure, no unit: int(magnitude) *)
Theorem C10_qemu_no_unit_is_int : forall details a e g g1,
  re_search size_re details = Some (a, e, g) -> group_text details g 1 = Some g1 -> has_e g1 = false ->
  truthy (group_text details g 3) = false -> truthy (group_text details g 2) = false ->
  extract_bytes details = py_int_lim g1.
Proof. exact no_unit_is_int. Qed.
Print Assumptions C10_qemu_no_unit_is_int.

(* the translated _canonicalize, _extract_bytes and size branch of _extract_details are the model *)
Theorem C10_qemu_translation_equiv :
  (forall field, gen_canonicalize field = canonicalize field) /\
  (forall details, gen_extract_bytes details = extract_bytes details) /\
  (forall root_cmd root_details, gen_size_details root_cmd root_details = size_details root_cmd root_details).
Proof. exact (conj gen_canonicalize_equiv (conj gen_extract_bytes_equiv gen_size_details_equiv)). Qed.
Print Assumptions C10_qemu_translation_equiv.

(* ... and for a zero magnitude (any sign, any number of zero digits, any decimal-digit script) *)
Theorem C10_exact_zero : forall u prefixes sg ds pre un,
  In (u, prefixes) spec_systems -> (sg = [] \/ sg = [43%N] \/ sg = [45%N]) ->
  digits ds = true -> ds <> [] -> dvalN (map asc ds) 0 = 0%N ->
  (pre = [] \/ In pre prefixes) -> In un units3 ->
  string_to_bytes (sg ++ ds ++ pre ++ un) u false = Ok (NFloat (S754_zero (beq sg [45%N]))) /\
  string_to_bytes (sg ++ ds ++ pre ++ un) u true = Ok (NInt 0).
Proof. exact exact_zero. Qed.
Print Assumptions C10_exact_zero.

(* oslo_utils.units: every constant whose name is a key of the exponent table is 1024^e (names ending
   in i) or 1000^e, and the 20 SI / IEC constants k M .. Q, Ki .. Qi are all there with those values —
   so "base 1024 for IEC, 1000 for SI" of string_to_bytes and the constants of units.py agree *)
Theorem C10_units_agree :
  (forall nm v e, In (nm, v) units_constants -> lookup nm unit_prefix_exponent = Some e ->
                  v = (if ends_with_i nm then 1024 else 1000) ^ e) /\
  (forall p, In p si_prefixes -> lookup p units_constants = Some (1000 ^ spec_exp p)) /\
  (forall p, In p iec_prefixes -> ends_with_i p = true -> lookup p units_constants = Some (1024 ^ spec_exp p)).
Proof. exact units_agree. Qed.
Print Assumptions C10_units_agree.
