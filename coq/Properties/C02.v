(* Properties/C02.v — safety check is fail-closed: unsafe or unverifiable images are never accepted.
   ONLY the property theorems; each is closed by [exact] of a lemma from Proofs/ and followed by Print Assumptions.

   Vocabulary: Insp_All.run f cs = the inspector of format f fed the chunk list cs (until the first exception, as
   InspectWrapper does) and finished; safety = safety_check(): Pass | Fail names | Refused | Crash e.
   The byte-level predicates (qcow2_safe, luks_safe, gpt_safe, mbr_table_ok, vhd_ok, ...) are in Model/C02.v,
   written from the formats' layouts with literal offsets. *)
Require Import OV.Base.Bytes OV.Base.Py OV.Base.Insp_Struct OV.Gen.Insp_Consts OV.Model.Insp_Engine.
Require Import OV.Model.Insp_Vmdk OV.Model.Insp_All OV.Model.C02 OV.Model.C02_Cli OV.Gen.C02_Cli.
Require Import OV.Proofs.C02_Engine OV.Proofs.C02_Static OV.Proofs.C02_Gpt OV.Proofs.C02_Qcow OV.Proofs.C02_Spec
               OV.Proofs.C02_Checks OV.Proofs.C02_Vmdk OV.Proofs.C02_VmdkRun OV.Proofs.C02_VmdkSpec OV.Proofs.C02_VmdkEx OV.Proofs.C02_Cli OV.Proofs.C02_F1.
Open Scope N_scope.

(* ---- 1. the gate: ANY inspector object of ANY format (hence every reachable state) ---- *)
Theorem C02_safety_pass_implies_gate : forall i : istate,
  safety i = Pass <->
  Insp_All.complete i = true /\ format_match i = Ok true /\
  forall c, In c (checks_of i) -> check_of i c = Ok tt.
Proof. exact safety_pass_implies_gate. Qed.
Print Assumptions C02_safety_pass_implies_gate.

(* an exception of any class inside a registered check is a failure of that check, never a pass *)
Theorem C02_check_exception_is_failure : forall (i : istate) (c : cname) (e : exn),
  In c (checks_of i) -> check_of i c = Exn e ->
  safety i <> Pass /\
  (Insp_All.complete i = true -> format_match i = Ok true -> exists names, safety i = Fail names /\ In c names).
Proof. exact (fun i c e Hin He => conj (check_exception_is_failure i c e Hin He)
                                      (fun Hc Hm => check_exception_named i c e Hc Hm Hin He)). Qed.
Print Assumptions C02_check_exception_is_failure.

(* every inspector class registers a check, keeps one in every reachable state, and the constructor's
   RuntimeError rule fires exactly for an empty list *)
Theorem C02_at_least_one_check :
  (forall f, init_checks f <> []) /\
  (forall f cs, checks_of (fst (Insp_All.run f cs)) <> []) /\
  (forall checks, construct_rule checks = Some RuntimeError <-> checks = []) /\
  (forall f, construct f = Ok (init f)).
Proof. exact (conj at_least_one_check_init (conj at_least_one_check (conj construct_rule_spec construct_ok))). Qed.
Print Assumptions C02_at_least_one_check.

(* ---- 2. per format, on the bytes, for ALL chunkings ---- *)
Theorem C02_qcow2_pass_iff : forall cs : list bytes, all_bytes (concat cs) = true ->
  (safety (fst (Insp_All.run F_qcow2 cs)) = Pass <-> qcow2_safe (concat cs)).
Proof. exact qcow2_pass_iff. Qed.
Print Assumptions C02_qcow2_pass_iff.

(* the consequences the property names: backing file, external data file, EACH unknown bit of the big-endian
   word at 0x48 (version 3), every version other than 2 and 3; and what happens for version 2 *)
Theorem C02_qcow2_never_accepts : forall cs : list bytes, all_bytes (concat cs) = true ->
  let b := concat cs in
  (qcow2_backing_offset b <> 0 -> safety (fst (Insp_All.run F_qcow2 cs)) <> Pass) /\
  (N.testbit (qcow2_incompat b) qcow2_datafile_bit = true -> safety (fst (Insp_All.run F_qcow2 cs)) <> Pass) /\
  (forall i, qcow2_version b = 3 -> 4 <= i <= 63 -> N.testbit (qcow2_incompat b) i = true ->
             safety (fst (Insp_All.run F_qcow2 cs)) <> Pass) /\
  (qcow2_version b <> 2 -> qcow2_version b <> 3 -> safety (fst (Insp_All.run F_qcow2 cs)) <> Pass) /\
  (blen b < 512 -> safety (fst (Insp_All.run F_qcow2 cs)) = Refused).
Proof.
  exact (fun cs Hb => conj (qcow2_backing_file_rejected cs Hb) (conj (qcow2_data_file_rejected cs Hb)
         (conj (qcow2_unknown_bit_4_63_rejected cs Hb) (conj (qcow2_other_version_rejected cs Hb) (qcow2_truncated_refused cs Hb))))).
Qed.
Print Assumptions C02_qcow2_never_accepts.

Theorem C02_qcow2_version2_feature_bytes : forall cs : list bytes, all_bytes (concat cs) = true ->
  let b := concat cs in
  512 <= blen b -> bslice 0 4 b = qcow2_magic -> qcow2_backing_offset b = 0 -> qcow2_version b = 2 ->
  N.testbit (qcow2_incompat b) qcow2_datafile_bit = false ->
  safety (fst (Insp_All.run F_qcow2 cs)) = Pass.
Proof. exact qcow2_v2_feature_bytes_ignored. Qed.
Print Assumptions C02_qcow2_version2_feature_bytes.

Theorem C02_qed_never_passes : forall cs : list bytes, safety (fst (Insp_All.run F_qed cs)) <> Pass.
Proof. exact qed_never_passes. Qed.
Print Assumptions C02_qed_never_passes.

Theorem C02_luks_pass_iff : forall cs : list bytes,
  (safety (fst (Insp_All.run F_luks cs)) = Pass <-> luks_safe (concat cs)) /\
  (blen (concat cs) < 592 -> safety (fst (Insp_All.run F_luks cs)) = Refused).
Proof. exact (fun cs => conj (luks_pass_iff cs) (luks_short_refused cs)). Qed.
Print Assumptions C02_luks_pass_iff.

Theorem C02_gpt_pass_iff : forall cs : list bytes,
  safety (fst (Insp_All.run F_gpt cs)) = Pass <-> gpt_safe (concat cs).
Proof. exact gpt_pass_iff. Qed.
Print Assumptions C02_gpt_pass_iff.

Theorem C02_gpt_never_accepts : forall cs : list bytes,
  let b := concat cs in
  (forall i, i < 4 -> pte_boot (pte b i) <> 0 -> pte_boot (pte b i) <> 128 -> safety (fst (Insp_All.run F_gpt cs)) <> Pass) /\
  ((forall i, i < 4 -> pte_type (pte b i) = 0) -> safety (fst (Insp_All.run F_gpt cs)) <> Pass) /\
  (forall i, i < 4 -> i <> 0 -> pte_type (pte b i) = 238 -> safety (fst (Insp_All.run F_gpt cs)) <> Pass) /\
  (forall j, pte_type (pte b 0) = 238 -> j < 4 -> j <> 0 -> pte_type (pte b j) <> 0 -> safety (fst (Insp_All.run F_gpt cs)) <> Pass).
Proof.
  exact (fun cs => conj (gpt_invalid_boot_flag_rejected cs) (conj (gpt_no_partition_rejected cs)
         (conj (gpt_misplaced_protective_rejected cs) (gpt_accompanied_protective_rejected cs)))).
Qed.
Print Assumptions C02_gpt_never_accepts.

(* vhd, vhdx, vdi, iso, raw: Pass <-> complete /\ match, in every reachable state; on the bytes for the static ones *)
Theorem C02_null_check_formats_pass_iff : forall f cs, null_fmt f = true ->
  let i := fst (Insp_All.run f cs) in
  safety i = Pass <-> Insp_All.complete i = true /\ format_match i = Ok true.
Proof. exact null_check_formats_pass_iff. Qed.
Print Assumptions C02_null_check_formats_pass_iff.

Theorem C02_null_check_formats_bytes : forall cs : list bytes,
  (safety (fst (Insp_All.run F_vhd cs)) = Pass <-> vhd_ok (concat cs)) /\
  (safety (fst (Insp_All.run F_vdi cs)) = Pass <-> vdi_ok (concat cs)) /\
  (safety (fst (Insp_All.run F_iso cs)) = Pass <-> iso_ok (concat cs)) /\
  safety (fst (Insp_All.run F_raw cs)) = Pass.
Proof. exact (fun cs => conj (vhd_pass_iff cs) (conj (vdi_pass_iff cs) (conj (iso_pass_iff cs) (raw_pass cs)))). Qed.
Print Assumptions C02_null_check_formats_bytes.

(* the executable predicate the correspondence harness evaluates IS the declarative one *)
Theorem C02_static_verdict_is_predicate : forall f cs v,
  all_bytes (concat cs) = true -> static_safeb f (concat cs) = Some v ->
  (safety (fst (Insp_All.run f cs)) = Pass <-> v = true).
Proof. exact static_safeb_correct. Qed.
Print Assumptions C02_static_verdict_is_predicate.

(* VMDK: check_descriptor and check_footer say exactly this about the parsed descriptor / the captured regions,
   and every reachable VMDK inspector that passes has an acceptable descriptor *)
Theorem C02_vmdk_checks : forall s : ist vx,
  (vmdk_check_descriptor s = Ok tt <-> descriptor_ok (i_ext s)) /\
  (forall h f, rget R_header (i_regs s) = Some h -> rget R_footer (i_regs s) = Some f ->
     64 <= blen (r_data h) -> blen (r_data f) = 1536 ->
     (vmdk_check_footer s = Ok tt <-> footer_ok (r_data h) (r_data f))).
Proof. exact (fun s => conj (check_descriptor_iff s) (check_footer_iff s)). Qed.
Print Assumptions C02_vmdk_checks.

Theorem C02_vmdk_pass_implies : forall cs : list bytes,
  safety (fst (Insp_All.run F_vmdk cs)) = Pass -> descriptor_ok (vmdk_ext_of (fst (Insp_All.run F_vmdk cs))).
Proof. exact vmdk_pass_implies_descriptor. Qed.
Print Assumptions C02_vmdk_pass_implies.

Theorem C02_vmdk_pass_implies_state : forall s : ist vx,
  safety_check vmdk_fmt s = Pass ->
  Insp_Engine.complete s = true /\
  (In K_descriptor (i_checks s) -> descriptor_ok (i_ext s)) /\
  (forall h, rget R_header (i_regs s) = Some h ->
     prefixb VMDK_MAGIC (r_data h) = true /\
     (In K_footer (i_checks s) -> forall f, rget R_footer (i_regs s) = Some f ->
        64 <= blen (r_data h) -> blen (r_data f) = 1536 -> footer_ok (r_data h) (r_data f))).
Proof. exact vmdk_pass_implies_state. Qed.
Print Assumptions C02_vmdk_pass_implies_state.

(* VMDK on the BYTES, for all chunkings, in sparse mode outside the zone of finding F1 (signature KDMV, version 1..3):
   a Pass (even of an inspector frozen by an exception) means: the descriptor is at sector 1, completely captured
   (512 + min(desc_num*512, 2^20-1) bytes), ASCII up to its first NUL, of type monolithicSparse / streamOptimized
   (case-insensitively: the text is lower-cased), every line recognised, at least one extent, no extent containing '/',
   and with gdOffset = GD_AT_END the last 1536 bytes are a well-formed footer that agrees with the header in
   signature, version, descriptor location and size and does not itself announce a footer *)
Theorem C02_vmdk_sparse_pass_implies : forall cs : list bytes,
  let b := concat cs in
  64 <= blen b -> hdr_pre b ->
  safety (fst (Insp_All.run F_vmdk cs)) = Pass ->
  vmdk_desc_sec b * 512 = 512 /\
  512 + dsize b <= blen b /\
  is_ascii_text (bslice 512 (dsize b) b) = true /\
  descriptor_ok (mkVx (Some (text_of (bslice 512 (dsize b) b))) (vmdk_type_of (text_of (bslice 512 (dsize b) b)))) /\
  (vmdk_gd b = gd_at_end -> 1536 <= blen b /\ footer_ok b (bslice (blen b - 1536) 1536 b)).
Proof. exact vmdk_sparse_pass_implies. Qed.
Print Assumptions C02_vmdk_sparse_pass_implies.

Theorem C02_vmdk_short_refused : forall cs : list bytes,
  blen (concat cs) < 64 -> safety (fst (Insp_All.run F_vmdk cs)) = Refused.
Proof. exact vmdk_short_refused. Qed.
Print Assumptions C02_vmdk_short_refused.

(* ... and conversely a well-formed sparse VMDK is accepted under every chunking (footer case: streams of at least
   63+1536 bytes, the complement of zone F3) *)
Theorem C02_clean_vmdk_accepted : forall cs : list bytes,
  let b := concat cs in
  64 <= blen b -> hdr_pre b -> vmdk_desc_sec b * 512 = 512 ->
  512 + dsize b <= blen b ->
  is_ascii_text (bslice 512 (dsize b) b) = true ->
  descriptor_ok (mkVx (Some (text_of (bslice 512 (dsize b) b))) (vmdk_type_of (text_of (bslice 512 (dsize b) b)))) ->
  (vmdk_gd b = gd_at_end -> 1599 <= blen b /\ footer_ok b (bslice (blen b - 1536) 1536 b)) ->
  accepted (Insp_All.run F_vmdk cs) = true.
Proof. exact clean_vmdk_accepted. Qed.
Print Assumptions C02_clean_vmdk_accepted.

(* the executable form the correspondence harness evaluates on the implementation's inputs (`spec` op, vmdk) *)
Theorem C02_vmdk_sparse_verdict_is_predicate : forall cs v,
  vmdk_sparse_safeb (concat cs) = Some v -> (accepted (Insp_All.run F_vmdk cs) = true <-> v = true).
Proof. exact vmdk_sparse_safeb_correct. Qed.
Print Assumptions C02_vmdk_sparse_verdict_is_predicate.

(* ---- 3. clean images are accepted (every format but QED) ---- *)
Theorem C02_clean_image_accepted : forall cs : list bytes,
  let b := concat cs in
  (all_bytes b = true -> qcow2_safe b -> safety (fst (Insp_All.run F_qcow2 cs)) = Pass) /\
  (luks_safe b -> safety (fst (Insp_All.run F_luks cs)) = Pass) /\
  (gpt_safe b -> safety (fst (Insp_All.run F_gpt cs)) = Pass) /\
  (vhd_ok b -> safety (fst (Insp_All.run F_vhd cs)) = Pass) /\
  (vdi_ok b -> safety (fst (Insp_All.run F_vdi cs)) = Pass) /\
  (iso_ok b -> safety (fst (Insp_All.run F_iso cs)) = Pass) /\
  safety (fst (Insp_All.run F_raw cs)) = Pass.
Proof.
  exact (fun cs => conj (clean_image_accepted_qcow2 cs) (conj (clean_image_accepted_luks cs) (conj (clean_image_accepted_gpt cs)
         (conj (clean_image_accepted_vhd cs) (conj (clean_image_accepted_vdi cs) (conj (clean_image_accepted_iso cs) (raw_pass cs))))))).
Qed.
Print Assumptions C02_clean_image_accepted.

(* ---- 4. the command-line checker ---- *)
Theorem C02_cli_exit0_iff : forall env : cenv,
  cli_exec cli_main env = 0%Z <->
  e_path_ok env = true /\ e_detect env = Ok tt /\ e_safety env = Pass /\ e_vsize_ok env = true.
Proof. exact cli_exit0_iff_main. Qed.
Print Assumptions C02_cli_exit0_iff.

Theorem C02_cli_exit_status : forall env : cenv,
  (cli_exec cli_main env = 0%Z \/ cli_exec cli_main env = 1%Z) /\ (e_safety env <> Pass -> cli_exec cli_main env = 1%Z).
Proof. exact (fun env => conj (cli_exit_01 env) (cli_safety_failure_exit1 env)). Qed.
Print Assumptions C02_cli_exit_status.

(* ---- 5. finding F1: the statement for descriptor-only VMDK files is false ---- *)
Definition C02_full_statement : Prop := C02_vmdk_text_full_statement.
Theorem C02_refuted_vmdk_text : ~ C02_full_statement.
Proof. exact vmdk_text_refuted. Qed.
Print Assumptions C02_refuted_vmdk_text.
