(* Properties/C02.v — property theorems only *)
Require Import OV.Base.Bytes OV.Base.Py OV.Base.Insp_Struct OV.Gen.Insp_Consts OV.Model.Insp_Engine OV.Model.Insp_All.
Require Import OV.Model.C02 OV.Proofs.C02_Engine.
Open Scope N_scope.

Theorem C02_safety_pass_iff_gate_engine : forall (X : Type) (F : fmt X) (s : ist X),
  safety_check F s = Pass <->
  Insp_Engine.complete s = true /\ f_match F s = Ok true /\ forall c, In c (i_checks s) -> f_check F c s = Ok tt.
Proof. exact (@safety_pass_iff). Qed.
Print Assumptions C02_safety_pass_iff_gate_engine.
