(* Properties/C01.v — C01: the inspection verdict depends on the bytes only, never on the chunking.
   Only the property theorems; proofs are in Proofs/Insp_*.v. *)
Require Import OV.Base.Bytes OV.Base.Py OV.Base.Insp_Struct OV.Gen.Insp_Consts OV.Model.Insp_Engine OV.Model.Insp_All.
Require Import OV.Proofs.Insp_Engine OV.Proofs.Insp_FmtOk OV.Proofs.Insp_All.
(* the translator-equivalence lemmas (gen_capture_equiv, gen_complete_equiv, gen_end_capture_equiv) are obligations too *)
Require Import OV.Proofs.Insp_Equiv OV.Proofs.Insp_EngineEquiv OV.Proofs.Insp_FormatEquiv OV.Proofs.Insp_FormatMatchEquiv OV.Proofs.Insp_HookEquiv.
Open Scope N_scope.

(* "Whatever an inspector retains for a region of the file is exactly the stream's bytes at that
   region's offsets": in every state any of the ten inspectors can be driven into by ANY sequence of
   chunks (empty ones, chunks after an exception or after finish included) with finish() at any time,
   each region's data is the slice of the stream presented so far at the region's current offset, and
   is never longer than the region's length. *)
Theorem C01_retained_is_stream_slice : forall st i n r,
  ireach st i -> In (n, r) (regions_of i) ->
  r_data r = bslice (r_off r) (blen (r_data r)) st /\ blen (r_data r) <= r_len r /\ position i = blen st.
Proof. exact retained_is_stream_slice_all. Qed.
Print Assumptions C01_retained_is_stream_slice.

(* static_inspector_refines_spec: for the eight inspectors whose regions all come from _initialize
   (raw, qcow2, qed, vhd, vdi, iso, gpt, luks) the whole outcome of a run — final state, hence
   format_match, complete, virtual_size, safety result, and "no exception" — is a function spec_f of the
   concatenated bytes alone, for ALL byte strings and ALL chunk lists. *)
Theorem C01_static_inspector_refines_spec : forall f cs,
  is_static f = true -> verdict_of (run f cs) = spec_verdict f (concat cs).
Proof. exact static_inspector_refines_spec. Qed.
Print Assumptions C01_static_inspector_refines_spec.

Theorem C01_static_final_state : forall f cs,
  is_static f = true -> run f cs = (spec_state f (concat cs), None).
Proof. exact static_inspector_refines_spec_state. Qed.
Print Assumptions C01_static_final_state.

Example C01_static_nonvacuous : map is_static all_formats = [true; true; true; false; false; true; true; true; true; true].
Proof. reflexivity. Qed.

(* the verdict does not change with how the stream was cut into chunks ... *)
Theorem C01_chunking_independent : forall f cs1 cs2,
  is_static f = true -> concat cs1 = concat cs2 -> run f cs1 = run f cs2.
Proof. exact chunking_independent. Qed.
Print Assumptions C01_chunking_independent.

(* ... nor with empty chunks *)
Theorem C01_empty_chunks_irrelevant : forall f cs,
  is_static f = true -> run f (filter nonempty cs) = run f cs.
Proof. exact empty_chunks_irrelevant. Qed.
Print Assumptions C01_empty_chunks_irrelevant.

(* capture_slice: a fixed region (no min_length) that is still empty when the stream position is
   p <= offset holds after ANY chunk list — empty chunks included — exactly stream[off : off+len].
   [feed] is what FileInspector._capture does to one region over successive chunks. *)
Theorem C01_capture_slice : forall r st cs,
  r_end r = false -> r_min r = None -> r_data r = [] -> blen st <= r_off r ->
  r_data (feed r (blen st) cs) = bslice (r_off r) (r_len r) (st ++ concat cs).
Proof. exact capture_slice. Qed.
Print Assumptions C01_capture_slice.

Example C01_capture_slice_ex :
  r_data (feed (mkRegion 0 false 3 4 None [] false) (blen [1;2]) [[3;4]; []; [5;6;7;8;9]]) = [4;5;6;7].
Proof. reflexivity. Qed.

(* end_capture_tail: an EndCaptureRegion(n) present (empty) from stream position p0 holds, after any
   chunk list and finish, the last min(n, total - p0) bytes, and is complete iff that is n. *)
Theorem C01_end_capture_tail : forall r p0 cs,
  r_end r = true -> r_min r = None -> 0 < r_len r -> r_data r = [] ->
  let r' := set_fin (feed r p0 cs) true in
  r_data r' = btail (r_len r) (concat cs) /\
  blen (r_data r') = N.min (r_len r) (blen (concat cs)) /\
  (rcomplete r' = true <-> r_len r <= blen (concat cs)).
Proof. exact end_capture_tail. Qed.
Print Assumptions C01_end_capture_tail.

Example C01_end_capture_tail_ex :
  r_data (set_fin (feed (mkRegion 0 true 3 3 None [] false) 10 [[1;2]; []; [3;4;5]]) true) = [3;4;5].
Proof. reflexivity. Qed.

Example C01_ireach_ex : ireach ([] ++ [75; 68; 77; 86]) (fst (eat (init F_vmdk) [75; 68; 77; 86])).
Proof. eapply ireach_eat with (e := snd (eat (init F_vmdk) [75; 68; 77; 86])); [apply ireach_init | apply surjective_pairing]. Qed.

(* The tie between the model's engine and the source: FileInspector.eat_chunk translated statement by statement
   (Gen/Insp_EngineCode.v: sets of region objects, the `while new_regions` loop, the `only` filter, the callbacks)
   equals the model's [eat] in every reachable state of every one of the ten inspectors. *)
Theorem C01_source_eat_chunk_is_model : forall st i c, ireach st i -> gen_eat i c = eat i c.
Proof. exact gen_eat_reachable_equiv. Qed.
Print Assumptions C01_source_eat_chunk_is_model.
