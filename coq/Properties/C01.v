(* Properties/C01.v — C01: the inspection verdict depends on the bytes only, never on the chunking.
   Only the property theorems; proofs are in Proofs/Insp_*.v. *)
Require Import OV.Base.Bytes OV.Base.Py OV.Base.Insp_Struct OV.Gen.Insp_Consts OV.Model.Insp_Engine OV.Model.Insp_All.
Require Import OV.Proofs.Insp_Engine OV.Proofs.Insp_FmtOk OV.Proofs.Insp_All.
Open Scope N_scope.

(* "Whatever an inspector retains for a region of the file is exactly the stream's bytes at that
   region's offsets": in every state any of the ten inspectors can be driven into by ANY sequence of
   chunks (empty ones, chunks after an exception or after finish included) with finish() at any time,
   each region's data is the slice of the stream presented so far at the region's current offset, and
   is never longer than the region's length. *)
Theorem C01_retained_is_stream_slice : forall st i n r,
  ireach st i -> In (n, r) (regions_of i) ->
  r_data r = bslice (r_off r) (blen (r_data r)) st /\ blen (r_data r) <= r_len r /\ position i = blen st.
Proof. exact retained_is_stream_slice_all. Qed.
Print Assumptions C01_retained_is_stream_slice.
