(* Properties/C01.v — property theorems for C01 (engine + static inspectors); filled in after milestone M1 *)
Require Import OV.Model.Insp_All.
