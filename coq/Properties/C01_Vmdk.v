(* Properties/C01_Vmdk.v — C01 for VMDKInspector: outside the two known-finding zones the verdict is the
   whole-buffer function vmdk_spec of the bytes, whatever the chunking.  Only the property theorems;
   proofs are in Proofs/C01_Vmdk_{Base,Step,Run,Witness}.v; vmdk_spec and the zones in Model/C01_Vmdk.v. *)
Require Import OV.Base.Bytes OV.Base.Py OV.Base.Insp_Struct OV.Gen.Insp_Consts OV.Model.Insp_Engine OV.Model.Insp_All.
Require Import OV.Model.C01_Vmdk OV.Proofs.Insp_All OV.Proofs.C01_Vmdk_Run OV.Proofs.C01_Vmdk_Witness.
Open Scope N_scope.

(* vmdk_refines_spec: for ALL byte strings b outside the zones F1 (text-descriptor mode) and F3 (footer flag on a
   stream shorter than 63+1536 bytes) and ALL chunk lists cs with concat cs = b (empty chunks allowed), the
   verdict after init; eat_chunk ...; finish — the exception that stopped the feeding, format_match, complete,
   virtual_size, safety_check — equals vmdk_spec b, a function that reads b[0:64], b[512:512+size] and b[-1536:]
   and knows nothing about chunks or capture regions. *)
Theorem C01_vmdk_refines_spec : forall b cs,
  concat cs = b -> zone_vmdk_text b = false /\ zone_vmdk_shortfoot b = false ->
  verdict_of (run F_vmdk cs) = vmdk_spec b.
Proof. exact vmdk_refines_spec. Qed.
Print Assumptions C01_vmdk_refines_spec.

(* the verdict does not change with how the stream was cut into chunks ... *)
Theorem C01_vmdk_chunking_independent : forall cs1 cs2,
  concat cs1 = concat cs2 ->
  zone_vmdk_text (concat cs1) = false /\ zone_vmdk_shortfoot (concat cs1) = false ->
  verdict_of (run F_vmdk cs1) = verdict_of (run F_vmdk cs2).
Proof. exact vmdk_chunking_independent. Qed.
Print Assumptions C01_vmdk_chunking_independent.

(* ... nor with empty chunks *)
Theorem C01_vmdk_empty_chunks_irrelevant : forall cs,
  zone_vmdk_text (concat cs) = false /\ zone_vmdk_shortfoot (concat cs) = false ->
  verdict_of (run F_vmdk (filter nonempty cs)) = verdict_of (run F_vmdk cs).
Proof. exact vmdk_empty_chunks_irrelevant. Qed.
Print Assumptions C01_vmdk_empty_chunks_irrelevant.

(* non-vacuity: a well-formed monolithicSparse image and a well-formed streamOptimized image (with footer) lie
   outside both zones, and the spec accepts them *)
Example C01_vmdk_sparse_outside : zone_vmdk_text w_sparse = false /\ zone_vmdk_shortfoot w_sparse = false.
Proof. exact w_sparse_outside. Qed.
Example C01_vmdk_stream_outside : zone_vmdk_text w_stream = false /\ zone_vmdk_shortfoot w_stream = false.
Proof. exact w_stream_outside. Qed.
Example C01_vmdk_sparse_spec : vmdk_spec w_sparse = mkVerdict None (Ok true) true (Ok 1048576%Z) Pass.
Proof. exact w_sparse_spec. Qed.
Example C01_vmdk_stream_spec : vmdk_spec w_stream = mkVerdict None (Ok true) true (Ok 1048576%Z) Pass.
Proof. exact w_stream_spec. Qed.

(* the zones are needed: inside each, two chunkings of the same bytes give different verdicts (findings F1, F3) *)
Theorem C01_refuted_vmdk_text :
  zone_vmdk_text w_text = true /\
  concat [btake 29 w_text; bskip 29 w_text] = concat [w_text] /\
  verdict_of (run F_vmdk [btake 29 w_text; bskip 29 w_text]) <> verdict_of (run F_vmdk [w_text]).
Proof. exact (conj w_text_in_zone w_text_differs). Qed.
Print Assumptions C01_refuted_vmdk_text.

Theorem C01_refuted_vmdk_shortfoot :
  (zone_vmdk_shortfoot w_short = true /\ zone_vmdk_text w_short = false) /\
  concat [btake 63 w_short; bskip 63 w_short] = concat [w_short] /\
  v_complete (verdict_of (run F_vmdk [btake 63 w_short; bskip 63 w_short])) = false /\
  v_complete (verdict_of (run F_vmdk [w_short])) = true.
Proof. exact (conj w_short_in_zone w_short_differs). Qed.
Print Assumptions C01_refuted_vmdk_shortfoot.

(* hence the statement without zones is false for the model, as it is for the code *)
Theorem C01_vmdk_full_statement_refuted : ~ C01_vmdk_full_statement.
Proof. exact full_statement_refuted. Qed.
Print Assumptions C01_vmdk_full_statement_refuted.
