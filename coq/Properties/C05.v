(* Properties/C05.v — property C05: "Inspector memory is bounded by a constant, whatever the stream claims".
   Property theorems only; each is closed by [exact] of a lemma of Proofs/C05.v and followed by Print Assumptions.

   Vocabulary (Model/Insp_All.v, Model/C05.v):
     init f                 cls() of format f                     eat i chunk       i.eat_chunk(chunk): (state left behind, exception or None)
     eat_list i cs          feed until the first exception        finish i          i.finish()
     context_info i         {name: len(region.data)}              total ci          sum(ci.values())
     reachable f i          i is what a fresh inspector of format f looks like after ANY sequence of eat_chunk calls
                            (raising or not — the caller may go on using the object) and finish calls
     envelope f             the static envelope: region names the format can own and the cap of each length, built from
                            the GENERATED constants (init_regions, VHDX_META_A*VHDX_META_B, VHDX_METADATA_TABLE_MAX_SIZE,
                            VMDK_DESC_MAX_SIZE, VMDK_FOOTER_LEN) *)
Require Import OV.Base.Bytes OV.Base.Py OV.Base.Insp_Struct OV.Gen.Insp_Consts OV.Gen.Insp_Code.
Require Import OV.Model.Insp_Engine OV.Model.Insp_All OV.Model.C05 OV.Proofs.C05.
Open Scope N_scope.

(* ---------------------------------------------------------------- capture_len_le *)
(* CaptureRegion.capture keeps len(data) <= length (any chunk, any position) *)
Theorem C05_capture_len_le_fixed : forall r chunk pos,
  flen (r_data r) <= r_len r ->
  flen (r_data (cap_fixed r chunk pos)) <= r_len (cap_fixed r chunk pos).
Proof. exact cap_fixed_len_le. Qed.
Print Assumptions C05_capture_len_le_fixed.

(* EndCaptureRegion.capture keeps len(data) <= length, whatever it held before, for every non-zero length
   (EndCaptureRegion(0) would keep the whole stream: Proofs/C05.v cap_end_len0_keeps_everything; the only tail
   region of the source is EndCaptureRegion(1536)) *)
Theorem C05_capture_len_le_end : forall r chunk pos,
  r_len r <> 0 ->
  flen (r_data (cap_end r chunk pos)) <= r_len (cap_end r chunk pos).
Proof. exact cap_end_len_le. Qed.
Print Assumptions C05_capture_len_le_end.

(* the same two facts on the statement-level translation of the SOURCE of the two capture methods *)
Theorem C05_capture_len_le_source : forall (off len : Z) data chunk (pos : Z),
  (0 <= len)%Z -> (zlen data <= len)%Z ->
  let '((off', len', data'), _) := gen_capture off len data chunk pos in
  off' = off /\ len' = len /\ (zlen data' <= len')%Z.
Proof. exact gen_capture_len_le. Qed.
Print Assumptions C05_capture_len_le_source.

Theorem C05_end_capture_len_le_source : forall (off len : Z) data chunk (pos : Z),
  (0 < len)%Z ->
  let '((_, len', data'), _) := gen_end_capture off len data chunk pos in
  len' = len /\ (zlen data' <= len')%Z.
Proof. exact gen_end_capture_len_le. Qed.
Print Assumptions C05_end_capture_len_le_source.

(* ---------------------------------------------------------------- region_caps *)
(* every format, every reachable state: a name occurs once, is one of the envelope's, what is held fits the
   region's length and the length fits the envelope's cap (region creation, re-creation and VHDX's in-place
   `length = len(meta_buffer)` included) *)
Theorem C05_region_caps : forall f i,
  reachable f i ->
  NoDup (map fst (regions_of i)) /\
  forall n r, In (n, r) (regions_of i) ->
    In n (map fst (envelope f)) /\ flen (r_data r) <= r_len r /\ r_len r <= cap_of (envelope f) n.
Proof. exact region_caps_reachable. Qed.
Print Assumptions C05_region_caps.

(* VHDX: ident, header (their _initialize lengths), metadata <= 2048*32, vds <= VHDX_METADATA_TABLE_MAX_SIZE, nothing else *)
Theorem C05_region_caps_vhdx : forall i,
  reachable F_vhdx i ->
  NoDup (map fst (regions_of i)) /\
  forall n r, In (n, r) (regions_of i) ->
    flen (r_data r) <= r_len r /\
    match n with
    | R_ident => r_len r <= init_len F_vhdx R_ident
    | R_header => r_len r <= init_len F_vhdx R_header
    | R_metadata => r_len r <= VHDX_META_A * VHDX_META_B
    | R_vds => r_len r <= VHDX_VHDX_METADATA_TABLE_MAX_SIZE
    | _ => False
    end.
Proof. exact region_caps_vhdx_l. Qed.
Print Assumptions C05_region_caps_vhdx.

(* VMDK: header, descriptor <= DESC_MAX_SIZE (initial and re-created), footer <= 1536, nothing else *)
Theorem C05_region_caps_vmdk : forall i,
  reachable F_vmdk i ->
  NoDup (map fst (regions_of i)) /\
  forall n r, In (n, r) (regions_of i) ->
    flen (r_data r) <= r_len r /\
    match n with
    | R_header => r_len r <= init_len F_vmdk R_header
    | R_descriptor => r_len r <= N.max (init_len F_vmdk R_descriptor) VMDK_DESC_MAX_SIZE
    | R_footer => r_len r <= VMDK_FOOTER_LEN
    | _ => False
    end.
Proof. exact region_caps_vmdk_l. Qed.
Print Assumptions C05_region_caps_vmdk.

(* the eight other formats: only their _initialize regions, never longer than created *)
Theorem C05_region_caps_static : forall f i,
  static_fmt f = true -> reachable f i ->
  NoDup (map fst (regions_of i)) /\
  forall n r, In (n, r) (regions_of i) ->
    In n (map fst (init_regions f)) /\ flen (r_data r) <= r_len r /\ r_len r <= init_len f n.
Proof. exact region_caps_static_l. Qed.
Print Assumptions C05_region_caps_static.

(* the numeric step on the generated constants: every envelope fits the bound of the property text *)
Theorem C05_envelope_fits : forall f,
  cap_total (envelope f) <= match f with F_vmdk => 1572864 | _ => 524288 end.
Proof. exact envelope_fits. Qed.
Print Assumptions C05_envelope_fits.

(* ---------------------------------------------------------------- C05_memory_bound *)
(* For every format, every list of chunks (any bytes, any lengths, any number) — hence every stream, every
   chunking of it and every prefix of every chunking — the sum context_info reports after feeding the list
   (stopping at the first exception, with the state the raising call left behind) is within the bound. *)
Theorem C05_memory_bound : forall (f : fmt_id) (cs : list bytes),
  total (context_info (fst (eat_list (init f) cs))) <= match f with F_vmdk => 1572864 | _ => 524288 end.
Proof. exact memory_bound_list. Qed.
Print Assumptions C05_memory_bound.

(* spelled out for "at every point of the stream": after every prefix of the chunk list *)
Theorem C05_memory_bound_every_prefix : forall (f : fmt_id) (cs pre : list bytes),
  (exists rest, cs = pre ++ rest) ->
  total (context_info (fst (eat_list (init f) pre))) <= match f with F_vmdk => 1572864 | _ => 524288 end.
Proof. exact memory_bound_prefix. Qed.
Print Assumptions C05_memory_bound_every_prefix.

(* ... and the state after the prefix is the state the whole run passes through *)
Theorem C05_prefix_state : forall i cs1 cs2,
  eat_list i (cs1 ++ cs2) =
  match eat_list i cs1 with
  | (i', Some x) => (i', Some x)
  | (i', None) => eat_list i' cs2
  end.
Proof. exact eat_list_app. Qed.
Print Assumptions C05_prefix_state.

(* after finish() as well (init; eat_list; finish = Insp_All.run) *)
Theorem C05_memory_bound_finished : forall (f : fmt_id) (cs : list bytes),
  total (context_info (fst (run f cs))) <= match f with F_vmdk => 1572864 | _ => 524288 end.
Proof. exact memory_bound_run. Qed.
Print Assumptions C05_memory_bound_finished.

(* the strongest form: every reachable state, including an inspector that is fed again after eat_chunk raised
   or after finish() *)
Theorem C05_memory_bound_reachable : forall (f : fmt_id) (i : istate),
  reachable f i ->
  total (context_info i) <= match f with F_vmdk => 1572864 | _ => 524288 end.
Proof. exact memory_bound_reachable. Qed.
Print Assumptions C05_memory_bound_reachable.

(* ---------------------------------------------------------------- hostile instances / tightness *)
(* a VMDK header announcing 2^64-1 descriptor sectors (and a footer), 1.1 MB of data behind it, one chunk:
   more than 1 MiB is retained (the VMDK bound cannot be lowered to 1 MiB) and the bound holds *)
Example C05_hostile_vmdk :
  let s := hostile_vmdk 1100000 in
  let i := state_after F_vmdk [s] in
  sint sf_vmdk_sparse 6 (ntake VMDK_MIN_SPARSE_HEADER s) = 2 ^ 64 - 1 /\
  1048576 < total (context_info i) /\ total (context_info i) <= C05_bound F_vmdk.
Proof. exact hostile_vmdk_attains. Qed.
Print Assumptions C05_hostile_vmdk.

(* a VHDX metadata item announcing 2^32-1 bytes: the region is created with the clamped length *)
Example C05_hostile_vhdx :
  let i := state_after F_vhdx [hostile_vhdx] in
  (exists r, rget R_vds (regions_of i) = Some r /\ r_len r = VHDX_VHDX_METADATA_TABLE_MAX_SIZE) /\
  196608 < total (context_info i) /\ total (context_info i) <= C05_bound F_vhdx.
Proof. exact hostile_vhdx_attains. Qed.
Print Assumptions C05_hostile_vhdx.

(* ---------------------------------------------------------------- instances of the hypotheses used above *)
(* the footer region EndCaptureRegion(1536) of the source satisfies the hypothesis of C05_capture_len_le_end *)
Example C05_ex_footer_len : r_len footer_region <> 0.
Proof. exact ex_footer_len. Qed.
(* a fresh CaptureRegion satisfies the hypothesis of C05_capture_len_le_fixed *)
Example C05_ex_fresh_region :
  flen (r_data (region_of_spec 0 (mkRspec false 0 512 None))) <= r_len (region_of_spec 0 (mkRspec false 0 512 None)).
Proof. exact ex_fresh_region. Qed.
(* the hypotheses of C05_capture_len_le_source / C05_end_capture_len_le_source for a fresh 512-byte region and the footer *)
Example C05_ex_source_hyps : (0 <= 512)%Z /\ (zlen [] <= 512)%Z /\ (0 < 1536)%Z.
Proof. exact ex_source_hyps. Qed.
(* a static format and a reachable state of it (C05_region_caps_static, C05_memory_bound_reachable) *)
Example C05_ex_static : static_fmt F_qcow2 = true /\ reachable F_qcow2 (fst (eat (init F_qcow2) [81; 70; 73; 251])).
Proof. exact ex_static. Qed.
(* the states of the hostile examples are reachable *)
Example C05_ex_reachable : forall f cs, reachable f (state_after f cs).
Proof. exact state_after_reachable. Qed.
