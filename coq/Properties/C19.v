(* Properties/C19.v — "Path and list splitting honour their contracts for every input".
   Property theorems only; each is closed by [exact] of a lemma from Proofs/.

   split_path: [gen_split_path] is the statement-by-statement translation of the source
   function, regenerated from /repo on every run (Gen/C19_SplitPath.v).  Strings are lists
   of code points (any code point), minsegs : Z, maxsegs : option Z (None = Python None).
   split_by_commas: [split_by_commas] is the character-level model of the pyparsing grammar
   (Model/C19.v) with the grammar's arguments regenerated (Gen/C19_Grammar.v). *)
Require Import OV.Base.Bytes OV.Base.Py OV.Base.Str OV.Base.C19_PyList.
Require Import OV.Gen.C19_Grammar OV.Gen.C19_SplitPath OV.Model.C19 OV.Model.C19_Spec.
Require Import OV.Proofs.C19_SplitPath OV.Proofs.C19_Commas.
Open Scope Z_scope.

(* ---------------------------------------------------------------- split_path *)

(* "the segments" of the text after the leading slash are well defined: the '/'-free
   pieces whose '/'-join is that text, and the only such list *)
Theorem C19_segments_characterised : forall body,
  join [slash] (segments body) = body /\
  Forall (fun p => ~ In slash p) (segments body) /\
  (forall l, l <> [] -> Forall (fun p => ~ In slash p) l -> join [slash] l = body -> l = segments body).
Proof. exact segments_characterised. Qed.
Print Assumptions C19_segments_characterised.

(* The contract, for every path, every minsegs >= 1, every maxsegs (None and 0 mean minsegs)
   and both modes: a list r is returned exactly when minsegs <= maxsegs and the path is
   [accepted] — it starts with '/', offers between minsegs and maxsegs entries (all its
   segments; with rest_with_last the first maxsegs-1 and the remainder as the last entry when
   there are more; without it a single trailing slash after maxsegs segments is tolerated),
   the first minsegs entries non-empty — and then r = those entries padded with None to
   exactly maxsegs. *)
Theorem C19_split_path_spec : forall path minsegs maxsegs rwl r, 1 <= minsegs ->
  let M := eff_max minsegs maxsegs in
  gen_split_path path minsegs maxsegs rwl = Ok r <->
  (minsegs <= M /\
   exists lead, accepted path (Z.to_nat minsegs) (Z.to_nat M) rwl lead /\ r = padded (Z.to_nat M) lead).
Proof. exact gen_split_path_spec. Qed.
Print Assumptions C19_split_path_spec.

(* exactly maxsegs entries *)
Theorem C19_split_path_length : forall path minsegs maxsegs rwl r, 1 <= minsegs ->
  gen_split_path path minsegs maxsegs rwl = Ok r -> llen r = eff_max minsegs maxsegs.
Proof. exact gen_split_path_length. Qed.
Print Assumptions C19_split_path_length.

(* every other path raises ValueError ... *)
Theorem C19_split_path_rejects : forall path minsegs maxsegs rwl, 1 <= minsegs ->
  (forall lead, ~ accepted path (Z.to_nat minsegs) (Z.to_nat (eff_max minsegs maxsegs)) rwl lead) ->
  gen_split_path path minsegs maxsegs rwl = Exn ValueError.
Proof. exact gen_split_path_rejects. Qed.
Print Assumptions C19_split_path_rejects.

(* ... and so does minsegs > maxsegs *)
Theorem C19_minsegs_gt_maxsegs : forall path minsegs maxsegs rwl,
  minsegs > eff_max minsegs maxsegs -> gen_split_path path minsegs maxsegs rwl = Exn ValueError.
Proof. exact gen_minsegs_gt_maxsegs. Qed.
Print Assumptions C19_minsegs_gt_maxsegs.

(* no other outcome exists, for any arguments at all (no IndexError from segs[0] / segs[maxsegs]) *)
Theorem C19_split_path_total : forall path minsegs maxsegs rwl,
  (exists r, gen_split_path path minsegs maxsegs rwl = Ok r) \/
  gen_split_path path minsegs maxsegs rwl = Exn ValueError.
Proof. exact gen_split_path_total. Qed.
Print Assumptions C19_split_path_total.

(* ---------------------------------------------------------------- split_by_commas *)
Open Scope N_scope.

(* the result is a list or ValueError, for every input text (the parser's fuel never runs out) *)
Theorem C19_split_by_commas_total : forall v,
  (exists l, split_by_commas v = Ok l) \/ split_by_commas v = Exn ValueError.
Proof. exact split_by_commas_total. Qed.
Print Assumptions C19_split_by_commas_total.

(* split_by_commas inverts quote-and-join for every non-empty list of items in the domain
   [item_ok]: non-empty; quoted items (those containing a comma, double quote, backslash or space) free of tab/LF/CR;
   unquoted items made of Word characters *)
Theorem C19_split_join_roundtrip : forall items,
  items <> [] -> Forall (fun it => item_ok it = true) items ->
  split_by_commas (join_items items) = Ok items.
Proof. exact split_join_roundtrip. Qed.
Print Assumptions C19_split_join_roundtrip.

(* in particular for all lists of non-empty printable-ASCII items (space and the quoting
   characters included) *)
Theorem C19_split_join_roundtrip_printable : forall items,
  items <> [] -> Forall (fun it => it <> [] /\ printable it = true) items ->
  split_by_commas (join_items items) = Ok items.
Proof. exact split_join_roundtrip_printable. Qed.
Print Assumptions C19_split_join_roundtrip_printable.

(* with empty items allowed the round trip is false — they are written as empty unquoted
   fields, which the next theorem says are rejected *)
Theorem C19_roundtrip_with_empty_items_refuted : ~ roundtrip_full_statement.
Proof. exact roundtrip_full_statement_refuted. Qed.
Print Assumptions C19_roundtrip_with_empty_items_refuted.

(* empty (or blank) unquoted items are rejected, wherever they stand and whatever follows *)
Theorem C19_rejects_empty_item : forall pre w post,
  Forall (fun it => item_ok it = true) pre -> blank w = true ->
  split_by_commas (join_fields (map quote pre ++ w :: post)) = Exn ValueError.
Proof. exact rejects_empty_item. Qed.
Print Assumptions C19_rejects_empty_item.

(* unbalanced quotes: a last field with exactly one double quote in it *)
Theorem C19_rejects_unbalanced : forall pre f,
  Forall (fun it => item_ok it = true) pre -> nq f = 1%nat ->
  split_by_commas (join_fields (map quote pre ++ [f])) = Exn ValueError.
Proof. exact rejects_unbalanced. Qed.
Print Assumptions C19_rejects_unbalanced.

(* any text with exactly one double quote in it *)
Theorem C19_rejects_single_quote : forall v, nq v = 1%nat -> split_by_commas v = Exn ValueError.
Proof. exact rejects_single_quote. Qed.
Print Assumptions C19_rejects_single_quote.

(* text after a closing quote (other than blanks and the next comma), whatever follows *)
Theorem C19_rejects_text_after_closing_quote : forall pre it w x rest,
  Forall (fun it => item_ok it = true) pre ->
  forallb (fun c => negb ((c =? 9) || (c =? 10) || (c =? 13))) it = true ->
  blank w = true -> is_white x = false -> x <> 44 ->
  split_by_commas (join_fields (map quote pre ++ [quoted_field it ++ w ++ x :: rest])) = Exn ValueError.
Proof. exact rejects_text_after_closing_quote. Qed.
Print Assumptions C19_rejects_text_after_closing_quote.

(* a quote inside or at the end of an unquoted word, whatever follows *)
Theorem C19_rejects_quote_in_word : forall pre wd rest,
  Forall (fun it => item_ok it = true) pre -> wd <> [] -> forallb is_word wd = true ->
  split_by_commas (join_fields (map quote pre ++ [wd ++ 34 :: rest])) = Exn ValueError.
Proof. exact rejects_quote_in_word. Qed.
Print Assumptions C19_rejects_quote_in_word.
