Require Import OV.Base.Bytes OV.Base.Py OV.Base.Str OV.Base.C19_PyList.
Require Import OV.Gen.C19_Grammar OV.Gen.C19_SplitPath OV.Model.C19 OV.Proofs.C19_SplitPath.
Open Scope Z_scope.

Theorem C19_minsegs_gt_maxsegs : forall path minsegs maxsegs rwl,
  minsegs > eff_max minsegs maxsegs -> split_path path minsegs maxsegs rwl = Exn ValueError.
Proof. exact minsegs_gt_maxsegs_ValueError. Qed.
Print Assumptions C19_minsegs_gt_maxsegs.
