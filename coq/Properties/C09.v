(* Properties/C09.v — property theorems only; each is closed by [exact] of a lemma from Proofs/C09.v
   and followed by Print Assumptions.

   C09: exception-handling helpers never lose, replace or invent an exception.
   The helper bodies are the terms of Gen/C09_Excutils.v (regenerated from /repo on every run);
   CPython's exception machinery is modelled in Model/C09.v (tied by correspondence over generated
   programs).  [exec b s st] runs handler body b with context s in interpreter state st;
   [with_sare r0 lab wf block st] is  "with save_and_reraise_exception(reraise=r0) as ctx: block"
   and returns (ctx, state, outcome of the block, outcome of the with statement). *)
From Coq Require Import List Arith NArith Bool.
Import ListNotations.
Require Import OV.Base.C09_HL OV.Gen.C09_Excutils OV.Model.C09 OV.Proofs.C09.

(* When the body completes, the exception that was active on entry (o) is raised again — the same object
   (same identity o, class and origin unchanged), its traceback being exactly the traceback of its original
   raise as captured on entry plus the frames of the re-raise — iff reraise is on at exit; when it has been
   switched off nothing is raised and the state is the one the body left.  Nothing is logged.  For every body
   (no depth bound) that does not call force_reraise()/capture() on its own context (finding K13 below);
   nested contexts inside the body are unconstrained. *)
Theorem C09_sare_normal_exit : forall r0 lab wf b st o rest s3 st3 out',
  hstack st = o :: rest -> o < next st -> direct_free0 b = true ->
  with_sare r0 lab wf (fun s st => exec b s st) st = (s3, st3, Normal, out') ->
  exists s2 st2,
    exec b (entered r0 lab st o) st = (s2, st2, Normal) /\ reraise s3 = reraise s2 /\
    (reraise s2 = true ->
       out' = Raised o /\ same_object st st3 o /\ logs st3 = logs st2 /\
       exists k, (k = KVal \/ k = KWtb) /\
                 tb_of st3 o = wf :: FHelper FnExit KCall :: FHelper FnForce k :: tb_of st o) /\
    (reraise s2 = false -> out' = Normal /\ st3 = st2).
Proof. exact sare_normal_exit_lemma. Qed.
Print Assumptions C09_sare_normal_exit.

(* When the body itself raises x, x propagates — the same object, nothing added to it — and the original is
   logged exactly when reraise is on at that moment (one logger.error call with the captured
   (type_, value, tb), none otherwise).  This half holds for EVERY body; for bodies that leave the
   context's capture alone the logged triple is the original exception with its entry traceback. *)
Theorem C09_sare_body_raises : forall r0 lab wf b st o rest s3 st3 x out',
  hstack st = o :: rest ->
  with_sare r0 lab wf (fun s st => exec b s st) st = (s3, st3, Raised x, out') ->
  exists st2,
    exec b (entered r0 lab st o) st = (s3, st2, Raised x) /\ out' = Raised x /\
    st3 = (if reraise s3 then add_log (mklog (slab s3) (type_ s3) (value s3) (tb s3)) st2 else st2) /\
    (direct_free0 b = true ->
       slab s3 = lab /\ type_ s3 = Some (cls_of st o) /\ value s3 = Some o /\ tb s3 = tb_of st o).
Proof. exact sare_body_raises_lemma. Qed.
Print Assumptions C09_sare_body_raises.

(* ctx = save_and_reraise_exception(); ctx.capture(); body; ctx.force_reraise()   (no with statement):
   the captured exception comes out as the same object with its captured traceback plus two frames, or the
   body's own exception propagates *)
Theorem C09_sare_direct_protocol : forall r0 l1 l2 b s st o rest s' st' out,
  hstack st = o :: rest -> o < next st -> direct_free0 b = true ->
  exec (Direct r0 (Seq (CaptureDirect l1) (Seq b (ForceReraise l2)))) s st = (s', st', out) ->
  exists s2 st2 ob,
    exec b (entered r0 2 st o) st = (s2, st2, ob) /\
    match ob with
    | Raised x => out = Raised x /\ st' = st2
    | Normal => out = Raised o /\ same_object st st' o /\
                exists k, (k = KVal \/ k = KWtb) /\ tb_of st' o = FProg l2 :: FHelper FnForce k :: tb_of st o
    end.
Proof. exact sare_direct_protocol_lemma. Qed.
Print Assumptions C09_sare_direct_protocol.

(* No body, however deep, changes the class or origin of an existing exception object, forgets one, or
   leaves the stack of exceptions being handled different from how it found it. *)
Theorem C09_bodies_never_replace_objects : forall b s st s' st' out,
  exec b s st = (s', st', out) -> stable st st'.
Proof. exact exec_stable. Qed.
Print Assumptions C09_bodies_never_replace_objects.

(* Finding K13: without the hypothesis on the body the statement is false — a body that calls
   ctx.force_reraise() and catches the result makes __exit__ raise an object that did not exist before
   (a fresh instance of the class, or TypeError when the class needs constructor arguments). *)
Theorem C09_refuted_double_force_reraise : ~ sare_full_statement.
Proof. exact k13_refutes. Qed.
Print Assumptions C09_refuted_double_force_reraise.
Theorem C09_refuted_invents_instance :
  let '(_, st3, _, out') := with_sare true 2 (FProg 2) (fun s st => exec k13_body s st) (handling_orig plain_cls) in
  out' = Raised 1 /\ eorg (heap st3 1) = ONew /\ ecls (heap st3 1) = plain_cls.
Proof. exact k13_invents_plain. Qed.
Print Assumptions C09_refuted_invents_instance.
Theorem C09_refuted_invents_typeerror :
  let '(_, st3, _, out') := with_sare true 2 (FProg 2) (fun s st => exec k13_body s st) (handling_orig mand_cls) in
  out' = Raised 1 /\ eorg (heap st3 1) = ONew /\ ecls (heap st3 1) = cls_type.
Proof. exact k13_invents_typeerror. Qed.
Print Assumptions C09_refuted_invents_typeerror.

(* exception_filter as a context manager (plain instance, decorator-made, bound method — the same __exit__):
   whatever the block does, the exception it raises is suppressed iff the predicate's result is true; a
   rejected exception propagates as the same object in an unchanged state; when the predicate itself raises,
   its (new) exception propagates and nothing that existed is altered; a block that completes is left alone. *)
Theorem C09_filter_suppresses_exactly_predicate : forall p l b s st s1 st1 out,
  exec b s st = (s1, st1, out) ->
  match out with
  | Normal => exec (Filter p l b) s st = (s1, st1, Normal)
  | Raised i =>
      match pv p (Some (cls_of st1 i)) with
      | PTruthy => exec (Filter p l b) s st = (s1, st1, Normal)
      | PFalsy => exec (Filter p l b) s st = (s1, st1, Raised i)
      | PRaise =>
          exists st2, exec (Filter p l b) s st = (s1, st2, Raised (next st1)) /\ stable st1 st2 /\
                      next st2 = S (next st1) /\ ecls (heap st2 (next st1)) = praise_cls p /\
                      eorg (heap st2 (next st1)) = OSite (plab p)
      | PReraise => (* the predicate re-raises the exception it was handed: it propagates, same object *)
          exists st2, exec (Filter p l b) s st = (s1, st2, Raised i) /\ stable st1 st2
      end
  end.
Proof. exact filter_exit_lemma. Qed.
Print Assumptions C09_filter_suppresses_exactly_predicate.

(* the filter called directly with exception object i: accepted -> returns, nothing changes; rejected -> that
   same object is raised, its traceback extended by the two frames of the call; predicate raises -> its
   exception *)
Theorem C09_filter_call_reraises_same_object : forall p l s st i,
  match pv p (Some (cls_of st i)) with
  | PTruthy => exec (FilterCall p (AObj i) l) s st = (s, st, Normal)
  | PFalsy =>
      exists st', exec (FilterCall p (AObj i) l) s st = (s, st', Raised i) /\ stable st st' /\
                  tb_of st' i = FProg l :: FHelper FnFiltCall KVal :: tb_of st i
  | PRaise =>
      exists st', exec (FilterCall p (AObj i) l) s st = (s, st', Raised (next st)) /\ stable st st' /\
                  ecls (heap st' (next st)) = praise_cls p /\ eorg (heap st' (next st)) = OSite (plab p)
  | PReraise => exists st', exec (FilterCall p (AObj i) l) s st = (s, st', Raised i) /\ stable st st'
  end.
Proof. exact filter_call_obj_lemma. Qed.
Print Assumptions C09_filter_call_reraises_same_object.

(* called with the exception currently being handled: the same thing *)
Theorem C09_filter_call_current : forall p l s st o rest,
  hstack st = o :: rest -> exec (FilterCall p ACur l) s st = exec (FilterCall p (AObj o) l) s st.
Proof. exact filter_call_cur_lemma. Qed.
Print Assumptions C09_filter_call_current.

(* no current exception and handed None *)
Theorem C09_filter_call_no_current_exception : forall p l s st,
  hstack st = [] ->
  match pv p None with
  | PTruthy => exec (FilterCall p ANone l) s st = (s, st, Normal)
  | PFalsy => exists st', exec (FilterCall p ANone l) s st = (s, st', Raised (next st)) /\ stable st st' /\
                          ecls (heap st' (next st)) = cls_type /\ eorg (heap st' (next st)) = ONew
  | PRaise => exists st', exec (FilterCall p ANone l) s st = (s, st', Raised (next st)) /\ stable st st' /\
                          ecls (heap st' (next st)) = praise_cls p
  | PReraise => exists st', exec (FilterCall p ANone l) s st = (s, st', Raised (next st)) /\ stable st st' /\
                            ecls (heap st' (next st)) = cls_type
  end.
Proof. exact filter_call_none_lemma. Qed.
Print Assumptions C09_filter_call_no_current_exception.

(* the bound-method form: __get__ gives a filter around the predicate bound to the instance *)
Theorem C09_filter_bound_method : forall (O : Type) (upred : O -> predspec) (obj : O),
  filt_get upred obj = upred obj.
Proof. exact filter_get_lemma. Qed.
Print Assumptions C09_filter_bound_method.

(* remove_path_on_error: the block raised an Exception -> remove() is called once and then the original
   exception is re-raised: same object, the traceback it left the block with, nothing logged *)
Theorem C09_remove_path_then_reraise_original : forall wf st i,
  isexc (cls_of st i) = true ->
  exists st', rpoe_exit None wf st (Raised i) = (st', Raised i) /\
              removed st' = N.succ (removed st) /\ tb_of st' i = tb_of st i /\
              stable st st' /\ logs st' = logs st.
Proof. exact rpoe_removes_then_reraises. Qed.
Print Assumptions C09_remove_path_then_reraise_original.

(* remove() raises: its exception propagates and the original is logged exactly once *)
Theorem C09_remove_path_remover_raises : forall wf st i c,
  i < next st -> isexc (cls_of st i) = true ->
  exists st', rpoe_exit (Some c) wf st (Raised i) = (st', Raised (next st)) /\
              removed st' = N.succ (removed st) /\ stable st st' /\
              ecls (heap st' (next st)) = c /\
              logs st' = logs st ++ [mklog 9 (Some (cls_of st i)) (Some i) (FRpoe :: tb_of st i)].
Proof. exact rpoe_remover_raises. Qed.
Print Assumptions C09_remove_path_remover_raises.

(* an exception that derives from BaseException only (KeyboardInterrupt-like) is not caught by the helper:
   the path is NOT removed; the exception still comes out unchanged (observation, see notes/C09.md) *)
Theorem C09_remove_path_base_exception_passes : forall rm wf st i,
  isexc (cls_of st i) = false ->
  exists st', rpoe_exit rm wf st (Raised i) = (st', Raised i) /\
              removed st' = removed st /\ tb_of st' i = tb_of st i /\ stable st st' /\ logs st' = logs st.
Proof. exact rpoe_base_exception_passes. Qed.
Print Assumptions C09_remove_path_base_exception_passes.

(* raise_with_cause without a cause keyword: a new object of the requested class whose cause (attribute and
   __cause__) is the exception being handled, if there is one *)
Theorem C09_raise_with_cause_takes_active : forall c wf st,
  exists st', rwc c None wf st = (st', Raised (next st)) /\ stable st st' /\
              ecls (heap st' (next st)) = c /\ eorg (heap st' (next st)) = ONew /\
              ecause (heap st' (next st)) = hd_error (hstack st) /\
              rwc_dunder_cause st' (next st) = hd_error (hstack st).
Proof. exact rwc_cause_lemma. Qed.
Print Assumptions C09_raise_with_cause_takes_active.

(* ---- the context object used again after its with block ---- *)

(* with ctx: body  ends normally with reraise off (nothing raised); a later ctx.force_reraise() on the same
   object raises the exception saved on entry: same object, traceback = the one captured on entry plus the
   two frames of the call.  Every body with direct_free0, no depth bound. *)
Theorem C09_sare_post_block_force_reraise : forall r0 lab wf wf' b st o rest s3 st3,
  hstack st = o :: rest -> o < next st -> direct_free0 b = true ->
  with_sare r0 lab wf (fun s st => exec b s st) st = (s3, st3, Normal, Normal) ->
  exists s' st', do_force wf' s3 st3 = (s', st', Raised o) /\ same_object st st' o /\
                 exists k, (k = KVal \/ k = KWtb) /\ tb_of st' o = wf' :: FHelper FnForce k :: tb_of st o.
Proof. exact sare_post_block_force_lemma. Qed.
Print Assumptions C09_sare_post_block_force_reraise.

(* the block raised x (which left the with statement and was handled by the caller): a later
   ctx.force_reraise() still raises the exception saved on entry *)
Theorem C09_sare_post_raise_force_reraise : forall r0 lab wf wf' b st o rest s3 st3 x out',
  hstack st = o :: rest -> o < next st -> direct_free0 b = true ->
  with_sare r0 lab wf (fun s st => exec b s st) st = (s3, st3, Raised x, out') ->
  exists s' st', do_force wf' s3 (pop (push x st3)) = (s', st', Raised o) /\ same_object st st' o /\
                 exists k, (k = KVal \/ k = KWtb) /\ tb_of st' o = wf' :: FHelper FnForce k :: tb_of st o.
Proof. exact sare_post_raise_force_lemma. Qed.
Print Assumptions C09_sare_post_raise_force_reraise.

(* ctx.capture(); ctx.force_reraise() re-using the object after a with block with ANY body and outcome
   (K13 misuse included): the exception being handled is raised, same object, and whatever traceback T it had
   on entry is still the end of its traceback *)
Theorem C09_sare_post_capture_force_reraise : forall r0 lab wf wfc wf' b st o rest s3 st3 ob out' T,
  tamper_free b = true ->
  hstack st = o :: rest -> o < next st -> tb_suffix T (tb_of st o) ->
  with_sare r0 lab wf (fun s st => exec b s st) st = (s3, st3, ob, out') ->
  exists s1 s' st', do_capture_stmt wfc s3 st3 = (s1, st3, Normal) /\
                    do_force wf' s1 st3 = (s', st', Raised o) /\ same_object st st' o /\
                    tb_suffix T (tb_of st' o).
Proof. exact sare_post_capture_force_lemma. Qed.
Print Assumptions C09_sare_post_capture_force_reraise.

(* No body, however deep and K13 misuse included, that does not itself assign to __traceback__ makes an existing
   exception lose the traceback it had: T stays
   a suffix of its traceback and of the traceback any context saved for it. *)
Theorem C09_bodies_never_lose_traceback : forall b o T s st s' st' out,
  tamper_free b = true ->
  o < next st -> keeps o T s st -> exec b s st = (s', st', out) -> keeps o T s' st'.
Proof. exact exec_keeps_traceback. Qed.
Print Assumptions C09_bodies_never_lose_traceback.

(* ---- the same context OBJECT entered again (shared ctx reused in a loop; capture() under A, then with under B) ---- *)

(* Whatever the object s holds from earlier use (a stale type_ left by force_reraise, an earlier capture of another
   exception), entering it while o is being handled saves o: when the body completes, o — the exception active on
   this LATEST entry — is re-raised, the same object with exactly its entry traceback plus the re-raise frames, iff
   the flag is on; nothing otherwise.  Bodies may tamper with __traceback__ (with_traceback(self.tb) restores it). *)
Theorem C09_sare_reuse_normal_exit : forall wf b s st o rest s3 st3 out',
  hstack st = o :: rest -> o < next st -> direct_free0 b = true ->
  with_same wf (fun s st => exec b s st) s st = (s3, st3, Normal, out') ->
  exists s2 st2,
    exec b (reentered s st o) st = (s2, st2, Normal) /\ reraise s3 = reraise s2 /\
    (reraise s2 = true ->
       out' = Raised o /\ same_object st st3 o /\ logs st3 = logs st2 /\
       exists k, (k = KVal \/ k = KWtb) /\
                 tb_of st3 o = wf :: FHelper FnExit KCall :: FHelper FnForce k :: tb_of st o) /\
    (reraise s2 = false -> out' = Normal /\ st3 = st2).
Proof. exact sare_reuse_normal_exit_lemma. Qed.
Print Assumptions C09_sare_reuse_normal_exit.

Theorem C09_sare_reuse_body_raises : forall wf b s st o rest s3 st3 x out',
  hstack st = o :: rest ->
  with_same wf (fun s st => exec b s st) s st = (s3, st3, Raised x, out') ->
  exists st2,
    exec b (reentered s st o) st = (s3, st2, Raised x) /\ out' = Raised x /\
    st3 = (if reraise s3 then add_log (mklog (slab s3) (type_ s3) (value s3) (tb s3)) st2 else st2) /\
    (direct_free0 b = true ->
       slab s3 = slab s /\ type_ s3 = Some (cls_of st o) /\ value s3 = Some o /\ tb s3 = tb_of st o).
Proof. exact sare_reuse_body_raises_lemma. Qed.
Print Assumptions C09_sare_reuse_body_raises.

(* bound-method filters of two instances are independent: each is the filter of its own instance's predicate *)
Theorem C09_filter_bound_instances_independent : forall (O : Type) (upred : O -> predspec) (o1 o2 : O),
  filt_get upred o1 = upred o1 /\ filt_get upred o2 = upred o2.
Proof. exact filter_get_instances_lemma. Qed.
Print Assumptions C09_filter_bound_instances_independent.

(* the filter called with a STORED exception (it already carries a traceback) that is not the one being handled — with
   no active exception or inside an unrelated except block: rejected -> the same object, its own traceback kept *)
Theorem C09_filter_call_stored_exception : forall p l s st c m,
  pv p (Some c) = PFalsy ->
  exists st', exec (FilterCall p (AStored c m) l) s st = (s, st', Raised (next st)) /\ stable st st' /\
              ecls (heap st' (next st)) = c /\ eorg (heap st' (next st)) = OSite m /\
              tb_of st' (next st) = [FProg l; FHelper FnFiltCall KVal; FPre].
Proof. exact filter_call_stored_lemma. Qed.
Print Assumptions C09_filter_call_stored_exception.

(* ---- filters of filters: which predicate a doubly wrapped filter consults (exception_filter.__init__) ---- *)

(* wrapping a filter that carries the functools wrapper attributes (made from a function, a method, or itself such a
   wrapper): the outer filter consults the inner filter's REAL predicate (update_wrapper's __dict__ merge, which comes
   after the attribute assignment, overwrites it) *)
Theorem C09_filter_of_named_filter : forall f,
  fnamed_of f = true -> filt_pred (filt_init (CFilt f)) = filt_pred f /\ fnamed_of (filt_init (CFilt f)) = true.
Proof. exact filt_init_named_filter_lemma. Qed.
Print Assumptions C09_filter_of_named_filter.
Theorem C09_filter_double_named : forall p, filt_pred (filt_init (CFilt (filt_init (CFun true p)))) = p.
Proof. exact filt_double_named_lemma. Qed.
Print Assumptions C09_filter_double_named.

(* Finding K14: when the innermost callable has no __name__ etc. (a callable instance, functools.partial) the doubly
   wrapped filter consults the inner FILTER object: accepted exceptions are not suppressed, rejected ones are re-raised
   by the inner __call__ *)
Theorem C09_refuted_filter_of_unnamed_filter : ~ filter_of_filter_full_statement.
Proof. exact k14_refutes. Qed.
Print Assumptions C09_refuted_filter_of_unnamed_filter.
Theorem C09_filter_double_unnamed : forall p, filt_pred (filt_init (CFilt (filt_init (CFun false p)))) = as_pred p.
Proof. exact filt_double_unnamed_lemma. Qed.
Print Assumptions C09_filter_double_unnamed.
