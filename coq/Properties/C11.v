(* Properties/C11.v — C11: address validators accept exactly well-formed values and never raise.
   Only the property theorems; every proof is a lemma of Proofs/C11*.v.

   Reading guide.  Text is a list of code points (46 '.', 58 ':', 37 '%', 47 '/', 10 newline);
   dec_of_N n is str(n); grammars (dotted_quad, ipv6_text, ipv6_scoped_text, mac_text) are in
   Model/C11_Spec.v; validators return [AOk b] (a bool) or [ARaise e] (an exception class);
   is_valid_port & co. are the statement-level translations gen_... of the source (Gen/C11_Code.v).
   The two library oracles (netaddr.valid_ipv4 with INET_ATON; netaddr.IPNetwork) are arguments
   [aton], [net], [net6] whose contract (aton_contract / net_contract) is an explicit premise that
   the harness tests on every generated string.  Instances of all hypotheses and grammars: the
   Examples ex_... at the end of Proofs/C11.v. *)
Require Import OV.Base.Bytes OV.Base.Py OV.Base.PyInt OV.Base.Str OV.Base.C11_Lib.
Require Import OV.Gen.C11_Netutils OV.Gen.C11_Code OV.Model.C11 OV.Model.C11_Spec OV.Proofs.C11_V4 OV.Proofs.C11_V6 OV.Proofs.C11.
Open Scope N_scope.

(* library models: glibc inet_pton recognisers <-> declarative grammars *)
Theorem C11_inet_pton4_iff_dotted_quad : forall s,
  pton4b s = true <->
  exists a b c d, a <= 255 /\ b <= 255 /\ c <= 255 /\ d <= 255 /\
                  s = dots [dec_of_N a; dec_of_N b; dec_of_N c; dec_of_N d].
Proof. exact pton4b_iff. Qed.
Print Assumptions C11_inet_pton4_iff_dotted_quad.

Theorem C11_inet_pton6_iff_rfc4291 : forall s, pton6b s = true <-> ipv6_text s.
Proof. exact pton6b_iff. Qed.
Print Assumptions C11_inet_pton6_iff_rfc4291.

(* is_valid_ipv4(address) in its default (strict) mode: exactly the dotted quads *)
Theorem C11_ipv4_strict_iff_dotted_quad : forall aton s,
  is_valid_ipv4 ipv4_strict_default aton s = AOk true <-> dotted_quad s.
Proof. exact ipv4_strict_iff. Qed.
Print Assumptions C11_ipv4_strict_iff_dotted_quad.

(* is_valid_ipv6: RFC 4291 text, optionally followed by '%' and a scope id of 1..15 characters
   containing neither '%' nor '/'; empty and over-long scope ids are rejected *)
Theorem C11_ipv6_iff : forall s,
  is_valid_ipv6 s = AOk true <->
  ipv6_text s \/
  exists a sc, ipv6_text a /\ (1 <= length sc <= 15)%nat /\ ~ In 37 sc /\ ~ In 47 sc /\ s = a ++ [37] ++ sc.
Proof. exact is_valid_ipv6_iff. Qed.
Print Assumptions C11_ipv6_iff.

(* repaired finding K11a: no accepted address contains a '/' (ipaddress refuses any '/') *)
Theorem C11_ipv6_no_slash : forall s, is_valid_ipv6 s = AOk true -> ~ In 47 s.
Proof. exact is_valid_ipv6_no_slash. Qed.
Print Assumptions C11_ipv6_no_slash.

(* is_valid_ip = non-strict IPv4 (library oracle) or IPv6 *)
Theorem C11_ip_logic : forall aton s, aton_contract aton = true ->
  (is_valid_ip aton s = AOk true <-> s <> [] /\ (aton = AOk true \/ ipv6_scoped_text s)).
Proof. exact is_valid_ip_logic. Qed.
Print Assumptions C11_ip_logic.

(* is_valid_cidr: the library accepts, a '/' occurs, and the text between the first '/' and
   the next one (or the end) is not empty *)
Theorem C11_cidr_logic : forall net s,
  is_valid_cidr net s = AOk true <->
  (exists b, net = AOk b) /\
  exists a p more, ~ In 47 a /\ ~ In 47 p /\ p <> [] /\ s = a ++ [47] ++ p ++ more /\
                   (more = [] \/ exists m, more = 47 :: m).
Proof. exact is_valid_cidr_logic. Qed.
Print Assumptions C11_cidr_logic.

(* is_valid_ipv6_cidr: exactly the library's answer (no '/' test: a missing prefix is accepted,
   as the repository's own unit test documents) *)
Theorem C11_ipv6_cidr_logic : forall net6 s, is_valid_ipv6_cidr net6 s = AOk true <-> exists b, net6 = AOk b.
Proof. exact is_valid_ipv6_cidr_logic. Qed.
Print Assumptions C11_ipv6_cidr_logic.

(* is_valid_mac: exactly six hex pairs separated by ':' (repaired finding O1: the pattern now ends
   in \Z).  Derived from the regenerated regex AST. *)
Theorem C11_mac_iff : forall s, is_valid_mac s = true <-> mac_text s.
Proof. exact is_valid_mac_iff. Qed.
Print Assumptions C11_mac_iff.

(* ports and ICMP numbers: int(value) succeeds and lies in the range; None for the code only *)
Theorem C11_port_iff : forall v,
  gen_is_valid_port v = Ok true <-> exists z, pyint v = Some z /\ (0 <= z <= 65535)%Z.
Proof. exact port_iff. Qed.
Print Assumptions C11_port_iff.

Theorem C11_icmp_type_iff : forall v,
  gen_is_valid_icmp_type v = Ok true <-> exists z, pyint v = Some z /\ (0 <= z <= 255)%Z.
Proof. exact icmp_type_iff. Qed.
Print Assumptions C11_icmp_type_iff.

Theorem C11_icmp_code_iff : forall v,
  gen_is_valid_icmp_code v = Ok true <-> v = VNone \/ exists z, pyint v = Some z /\ (0 <= z <= 255)%Z.
Proof. exact icmp_code_iff. Qed.
Print Assumptions C11_icmp_code_iff.

(* integers in str form are read back: pyint (str(z)) = z *)
Theorem C11_pyint_of_decimal_text : forall z, pyint (VStr (dec_of_Z z)) = Some z.
Proof. exact pyint_dec. Qed.
Print Assumptions C11_pyint_of_decimal_text.

(* every validator answers: unconditionally for the fully modelled ones ... *)
Theorem C11_validators_total_modelled : forall s,
  (exists b, is_valid_ipv4 ipv4_strict_default (ARaise AOther) s = AOk b) /\
  (exists b, is_valid_ipv6 s = AOk b) /\
  (exists b, is_valid_mac s = b).
Proof. exact validators_total_modelled. Qed.
Print Assumptions C11_validators_total_modelled.

(* ... under the oracle contract for the ones that consult netaddr.IPNetwork / inet_aton ... *)
Theorem C11_validators_total_oracles : forall aton net net6 s,
  aton_contract aton = true -> net_contract net = true -> net_contract net6 = true ->
  (exists b, is_valid_ipv4 false aton s = AOk b) /\
  (exists b, is_valid_ip aton s = AOk b) /\
  (exists b, is_valid_cidr net s = AOk b) /\
  (exists b, is_valid_ipv6_cidr net6 s = AOk b).
Proof. exact validators_total_oracles. Qed.
Print Assumptions C11_validators_total_oracles.

(* ... and for str, int, bool and None arguments of the port / ICMP validators *)
Theorem C11_int_validators_total : forall v,
  (exists b, gen_is_valid_port v = Ok b) /\ (exists b, gen_is_valid_icmp_type v = Ok b) /\
  (exists b, gen_is_valid_icmp_code v = Ok b).
Proof. exact int_validators_total. Qed.
Print Assumptions C11_int_validators_total.
