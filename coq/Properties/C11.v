(* Properties/C11.v — C11: address validators accept exactly well-formed values and never raise.
   Only the property theorems; every proof is a lemma of Proofs/C11*.v.

   Reading guide.  Text is a list of code points (46 '.', 58 ':', 37 '%', 47 '/', 10 newline);
   dec_of_N n is str(n); grammars (dotted_quad, ipv6_text, ipv6_scoped_text, mac_text) are in
   Model/C11_Spec.v; validators return [AOk b] (a bool) or [ARaise e] (an exception class);
   is_valid_port & co. are the statement-level translations gen_... of the source (Gen/C11_Code.v).
   The two library oracles (netaddr.valid_ipv4 with INET_ATON; netaddr.IPNetwork) are arguments
   [aton], [net], [net6] whose contract (aton_contract / net_contract) is an explicit premise that
   the harness tests on every generated string.  Instances of all hypotheses and grammars: the
   Examples ex_... at the end of Proofs/C11.v. *)
Require Import OV.Base.Bytes OV.Base.Py OV.Base.PyInt OV.Base.Str OV.Base.C11_Lib.
Require Import OV.Gen.C11_Netutils OV.Gen.C11_Code OV.Model.C11 OV.Model.C11_Spec OV.Proofs.C11_V4 OV.Proofs.C11_V6 OV.Proofs.C11 OV.Proofs.C11_Aton OV.Proofs.C11_Net.
Open Scope N_scope.

(* library models: glibc inet_pton recognisers <-> declarative grammars *)
Theorem C11_inet_pton4_iff_dotted_quad : forall s,
  pton4b s = true <->
  exists a b c d, a <= 255 /\ b <= 255 /\ c <= 255 /\ d <= 255 /\
                  s = dots [dec_of_N a; dec_of_N b; dec_of_N c; dec_of_N d].
Proof. exact pton4b_iff. Qed.
Print Assumptions C11_inet_pton4_iff_dotted_quad.

Theorem C11_inet_pton6_iff_rfc4291 : forall s, pton6b s = true <-> ipv6_text s.
Proof. exact pton6b_iff. Qed.
Print Assumptions C11_inet_pton6_iff_rfc4291.

(* is_valid_ipv4(address) in its default (strict) mode: exactly the dotted quads *)
Theorem C11_ipv4_strict_iff_dotted_quad : forall aton s,
  is_valid_ipv4 ipv4_strict_default aton s = AOk true <-> dotted_quad s.
Proof. exact ipv4_strict_iff. Qed.
Print Assumptions C11_ipv4_strict_iff_dotted_quad.

(* is_valid_ipv6: RFC 4291 text, optionally followed by '%' and a scope id of 1..15 characters
   containing neither '%' nor '/'; empty and over-long scope ids are rejected *)
Theorem C11_ipv6_iff : forall s,
  is_valid_ipv6 s = AOk true <->
  ipv6_text s \/
  exists a sc, ipv6_text a /\ (1 <= length sc <= 15)%nat /\ ~ In 37 sc /\ ~ In 47 sc /\ s = a ++ [37] ++ sc.
Proof. exact is_valid_ipv6_iff. Qed.
Print Assumptions C11_ipv6_iff.

(* repaired finding K11a: no accepted address contains a '/' (ipaddress refuses any '/') *)
Theorem C11_ipv6_no_slash : forall s, is_valid_ipv6 s = AOk true -> ~ In 47 s.
Proof. exact is_valid_ipv6_no_slash. Qed.
Print Assumptions C11_ipv6_no_slash.

(* is_valid_ip = non-strict IPv4 (library oracle) or IPv6 *)
Theorem C11_ip_logic : forall aton s, aton_contract aton = true ->
  (is_valid_ip aton s = AOk true <-> s <> [] /\ (aton = AOk true \/ ipv6_scoped_text s)).
Proof. exact is_valid_ip_logic. Qed.
Print Assumptions C11_ip_logic.

(* is_valid_cidr: the library accepts, a '/' occurs, and the text between the first '/' and
   the next one (or the end) is not empty *)
Theorem C11_cidr_logic : forall net s,
  is_valid_cidr net s = AOk true <->
  (exists b, net = AOk b) /\
  exists a p more, ~ In 47 a /\ ~ In 47 p /\ p <> [] /\ s = a ++ [47] ++ p ++ more /\
                   (more = [] \/ exists m, more = 47 :: m).
Proof. exact is_valid_cidr_logic. Qed.
Print Assumptions C11_cidr_logic.

(* is_valid_ipv6_cidr: exactly the library's answer (no '/' test: a missing prefix is accepted,
   as the repository's own unit test documents) *)
Theorem C11_ipv6_cidr_logic : forall net6 s, is_valid_ipv6_cidr net6 s = AOk true <-> exists b, net6 = AOk b.
Proof. exact is_valid_ipv6_cidr_logic. Qed.
Print Assumptions C11_ipv6_cidr_logic.

(* is_valid_mac: exactly six hex pairs separated by ':' (repaired finding O1: the pattern now ends
   in \Z).  Derived from the regenerated regex AST. *)
Theorem C11_mac_iff : forall s, is_valid_mac s = true <-> mac_text s.
Proof. exact is_valid_mac_iff. Qed.
Print Assumptions C11_mac_iff.

(* ports and ICMP numbers: int(value) succeeds and lies in the range; None for the code only *)
Theorem C11_port_iff : forall v,
  gen_is_valid_port v = Ok true <-> exists z, pyint v = Some z /\ (0 <= z <= 65535)%Z.
Proof. exact port_iff. Qed.
Print Assumptions C11_port_iff.

Theorem C11_icmp_type_iff : forall v,
  gen_is_valid_icmp_type v = Ok true <-> exists z, pyint v = Some z /\ (0 <= z <= 255)%Z.
Proof. exact icmp_type_iff. Qed.
Print Assumptions C11_icmp_type_iff.

Theorem C11_icmp_code_iff : forall v,
  gen_is_valid_icmp_code v = Ok true <-> v = VNone \/ exists z, pyint v = Some z /\ (0 <= z <= 255)%Z.
Proof. exact icmp_code_iff. Qed.
Print Assumptions C11_icmp_code_iff.

(* integers in str form are read back: pyint (str(z)) = z *)
Theorem C11_pyint_of_decimal_text : forall z, pyint (VStr (dec_of_Z z)) = Some z.
Proof. exact pyint_dec. Qed.
Print Assumptions C11_pyint_of_decimal_text.

(* every validator answers: unconditionally for the fully modelled ones ... *)
Theorem C11_validators_total_modelled : forall s,
  (exists b, is_valid_ipv4 ipv4_strict_default (ARaise AOther) s = AOk b) /\
  (exists b, is_valid_ipv6 s = AOk b) /\
  (exists b, is_valid_mac s = b).
Proof. exact validators_total_modelled. Qed.
Print Assumptions C11_validators_total_modelled.

(* ... under the oracle contract for the ones that consult netaddr.IPNetwork / inet_aton ... *)
Theorem C11_validators_total_oracles : forall aton net net6 s,
  aton_contract aton = true -> net_contract net = true -> net_contract net6 = true ->
  (exists b, is_valid_ipv4 false aton s = AOk b) /\
  (exists b, is_valid_ip aton s = AOk b) /\
  (exists b, is_valid_cidr net s = AOk b) /\
  (exists b, is_valid_ipv6_cidr net6 s = AOk b).
Proof. exact validators_total_oracles. Qed.
Print Assumptions C11_validators_total_oracles.

(* ... and for str, int, bool and None arguments of the port / ICMP validators *)
Theorem C11_int_validators_total : forall v,
  (exists b, gen_is_valid_port v = Ok b) /\ (exists b, gen_is_valid_icmp_type v = Ok b) /\
  (exists b, gen_is_valid_icmp_code v = Ok b).
Proof. exact int_validators_total. Qed.
Print Assumptions C11_int_validators_total.

(* ====================================================================================
   The former library oracles, now modelled (Model/C11.v sections 4 and 5; tied by correspondence
   through the ops aton / na_aton / net / net6) — the validators without oracle arguments:
   valid_ipv4 strict s, valid_ip s, valid_cidr s, valid_ipv6_cidr s. *)

(* socket.inet_aton (glibc): 1..4 C integer literals (decimal / 0 octal / 0x hex) joined by '.',
   the last one filling the remaining bytes; whatever follows the first C white-space character
   is ignored; NUL or a lone surrogate anywhere -> ValueError *)
Theorem C11_inet_aton_iff : forall s,
  inet_aton s = AOk true <->
  cstr_ok s = true /\
  exists ps vs rest, Forall2 c_literal ps vs /\ aton_values vs /\
                     s = dots ps ++ rest /\ (rest = [] \/ exists w t, rest = w :: t /\ c_space w).
Proof. exact inet_aton_iff. Qed.
Print Assumptions C11_inet_aton_iff.

(* is_valid_ipv4(s, strict=False) and is_valid_ip(s), unconditionally *)
Theorem C11_ipv4_nonstrict_iff : forall s,
  valid_ipv4 false s = AOk true <-> s <> [] /\ ~ In 58 s /\ cstr_ok s = true /\ aton_text s.
Proof. exact valid_ipv4_nonstrict_iff. Qed.
Print Assumptions C11_ipv4_nonstrict_iff.

Theorem C11_ip_iff : forall s,
  valid_ip s = AOk true <->
  s <> [] /\ ((~ In 58 s /\ cstr_ok s = true /\ aton_text s) \/ ipv6_scoped_text s).
Proof. exact valid_ip_iff. Qed.
Print Assumptions C11_ip_iff.

(* netaddr's netmask / hostmask bit tests <-> 2^w - 2^j or 2^j - 1 *)
Theorem C11_mask_iff : forall v6 m, m < 2 ^ ip_width v6 ->
  (is_netmask v6 m || is_hostmask m = true <-> exists j, j <= ip_width v6 /\ (m = 2 ^ ip_width v6 - 2 ^ j \/ m = 2 ^ j - 1)).
Proof. exact mask_iff. Qed.
Print Assumptions C11_mask_iff.

(* the integer value of an IPv6 text (used for IPv6 netmasks / hostmasks): model function <-> the
   declarative reading (groups as hexadecimal 16-bit units, dotted quad as two units, "::" as zeros) *)
Theorem C11_ipv6_value_iff : forall s m, pton6_value s = Some m <-> exists us, ipv6_units s us /\ m = units_to_N us.
Proof. exact pton6_value_iff. Qed.
Print Assumptions C11_ipv6_value_iff.

Theorem C11_ipv4_value_iff : forall s m, pton4_value s = Some m <-> quad_value s m.
Proof. exact pton4_value_iff. Qed.
Print Assumptions C11_ipv4_value_iff.

(* netaddr.IPNetwork(text): an address of one family, optionally '/' and a prefix text *)
Theorem C11_ipnetwork_iff : forall s, ipnetwork s = AOk true <-> network_text false s \/ network_text true s.
Proof. exact ipnetwork_iff. Qed.
Print Assumptions C11_ipnetwork_iff.

(* is_valid_cidr, for ALL strings: address '/' prefix, the prefix being an int() literal in
   0..32 / 0..128 or (when int() refuses it) a netmask / hostmask of the same family *)
Theorem C11_cidr_iff : forall s,
  valid_cidr s = AOk true <->
  exists a p, s = a ++ 47 :: p /\
              ((dotted_quad a /\ prefix_text false p) \/ (ipv6_text a /\ prefix_text true p)).
Proof. exact valid_cidr_iff. Qed.
Print Assumptions C11_cidr_iff.

Theorem C11_ipv6_cidr_iff : forall s,
  valid_ipv6_cidr s = AOk true <->
  exists a, ipv6_text a /\ (s = a \/ exists p, s = a ++ 47 :: p /\ prefix_text true p).
Proof. exact valid_ipv6_cidr_iff. Qed.
Print Assumptions C11_ipv6_cidr_iff.

(* the family the property names: address '/' decimal digits — in range or not *)
Theorem C11_cidr_decimal_prefix : forall a n, (dotted_quad a \/ ipv6_text a) ->
  (valid_cidr (a ++ 47 :: dec_of_N n) = AOk true <-> n <= (if in_dec N.eq_dec 58 a then 128 else 32)).
Proof. exact cidr_decimal_prefix. Qed.
Print Assumptions C11_cidr_decimal_prefix.

(* every address validator answers, with no premise *)
Theorem C11_validators_total_closed : forall s,
  (exists b, valid_ipv4 false s = AOk b) /\ (exists b, valid_ip s = AOk b) /\
  (exists b, valid_cidr s = AOk b) /\ (exists b, valid_ipv6_cidr s = AOk b).
Proof. exact validators_total_closed. Qed.
Print Assumptions C11_validators_total_closed.
