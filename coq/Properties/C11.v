Require Import OV.Proofs.C11.
Theorem C11_placeholder : True. Proof. exact placeholder. Qed.
Print Assumptions C11_placeholder.
