(* Properties/C06.v — InspectWrapper is a transparent pipe that isolates inspector faults.
   Property theorems only.  Every theorem is for an ARBITRARY inspector type I and
   ARBITRARY eat / finish / complete / fmatch: "whatever the inspectors do", any number
   of faults, any placement.  [gen_shape], [all_formats], the 'raw' literals are
   regenerated from /repo on every run (Gen/C06_Wrapper.v). Vocabulary (Model/Wrap.v):
     w_step    one call of read()/__next__()/close() after the source has answered
     w_run     any sequence of calls (the reader goes on after exceptions), one record per call
     w_run_stop / run_reads / run_iter   a reader that stops at the first exception
     eat_ev    one eat_chunk call: position of the inspector, its NAME, the chunk, the exception raised
     first_abort i cs   the first chunk at which an inspector in state i fed cs raises (AbFault e)
                        or is complete without matching after a successful eat_chunk (AbMismatch) *)
Require Import OV.Base.Bytes OV.Base.Py OV.Base.C06_WrapShape.
Require Import OV.Gen.C06_Wrapper OV.Gen.C06_Code OV.Model.Wrap OV.Model.C06_CodeLib OV.Proofs.Wrap OV.Proofs.C06 OV.Proofs.C06_Equiv.
Open Scope N_scope.

(* ---- reads_are_identity ------------------------------------------------------------- *)
(* any sequence of calls: whatever a call returns is the chunk its source handed out in
   that very call (close returns None); holds for every shape of _process_chunk *)
Theorem C06_reads_are_identity :
  forall I eat finish complete fmatch (w : wrapper I) inps (w' : wrapper I) recs,
  w_run I eat finish complete fmatch gen_shape w inps = (w', recs) ->
  map sr_in recs = inps /\
  Forall (fun r => match sr_out r with
                   | OutChunk c => sr_in r = InChunk c
                   | OutNone => sr_in r = InClose
                   | OutExn _ => True end) recs.
Proof. exact (fun I eat finish complete fmatch => reads_are_identity I eat finish complete fmatch gen_shape). Qed.
Print Assumptions C06_reads_are_identity.

(* read(size) on a file-like source, reader stopping at the first exception: the bytes
   delivered, followed by the chunk lost in the failing call (if any), are exactly the
   source's bytes between its position before and after; the position advanced by exactly
   that many bytes *)
Theorem C06_reads_are_identity_file :
  forall I eat finish complete fmatch sizes (w : wrapper I) s w' s' tr cs stop,
  run_reads I eat finish complete fmatch gen_shape w s sizes = (w', s', tr, cs, stop) ->
  let lost := match stop with Some (_, t) => opt_bytes t | None => [] end in
  f_data s' = f_data s /\
  f_pos s' = f_pos s + blen (concat cs) + blen lost /\
  concat cs ++ lost = bsub (f_pos s) (f_pos s') (f_data s).
Proof. exact (fun I eat finish complete fmatch => reads_are_identity_file I eat finish complete fmatch gen_shape). Qed.
Print Assumptions C06_reads_are_identity_file.

(* iteration: chunks delivered, then the chunk lost in a failing call, then what is left in
   the source, are the source's chunks in order *)
Theorem C06_reads_are_identity_iter :
  forall I eat finish complete fmatch fuel (w : wrapper I) s w' s' tr cs stop,
  run_iter I eat finish complete fmatch gen_shape fuel w s = (w', s', tr, cs, stop) ->
  i_chunks s = cs ++ (match stop with Some (_, Some c) => [c] | _ => [] end) ++ i_chunks s'.
Proof. exact (fun I eat finish complete fmatch => reads_are_identity_iter I eat finish complete fmatch gen_shape). Qed.
Print Assumptions C06_reads_are_identity_iter.

(* ---- errored_never_fed_again ----------------------------------------------------------- *)
(* in the trace of ALL eat_chunk calls of any session: once a call on an inspector whose NAME
   is not the expected format has raised, no later call is made on that inspector *)
Theorem C06_errored_never_fed_again :
  forall I eat finish complete fmatch (w : wrapper I) inps (w' : wrapper I) recs,
  w_run I eat finish complete fmatch gen_shape w inps = (w', recs) ->
  forall t1 ev t2 e, run_trace recs = t1 ++ ev :: t2 ->
    ev_exn ev = Some e -> name_is (ev_name ev) (w_expected w) = false ->
    forall ev', In ev' t2 -> ev_idx ev' <> ev_idx ev.
Proof. exact (fun I eat finish complete fmatch => errored_never_fed_again I eat finish complete fmatch gen_shape gen_shape_ok). Qed.
Print Assumptions C06_errored_never_fed_again.

(* an inspector that is in the errored set is never fed; every inspector that is fed gets the
   chunk of the current call *)
Theorem C06_errored_not_fed :
  forall I eat finish complete fmatch (w : wrapper I) inps (w' : wrapper I) recs k,
  w_run I eat finish complete fmatch gen_shape w inps = (w', recs) -> err_at I w k = true ->
  forall ev, In ev (run_trace recs) -> ev_idx ev <> k.
Proof. exact (fun I eat finish complete fmatch => errored_not_fed I eat finish complete fmatch gen_shape gen_shape_ok). Qed.
Print Assumptions C06_errored_not_fed.

(* ---- non_expected_faults_never_surface ------------------------------------------------- *)
(* every exception reaching the reader is the source's own (StopIteration / its error), or
   comes from the LAST eat_chunk call of that wrapper call, made on an inspector whose NAME
   is the expected format: the exception it raised, or ImageFormatError when it succeeded *)
Theorem C06_non_expected_faults_never_surface :
  forall I eat finish complete fmatch (w : wrapper I) inps (w' : wrapper I) recs,
  w_run I eat finish complete fmatch gen_shape w inps = (w', recs) ->
  Forall (fun r => forall e, sr_out r = OutExn e ->
            (sr_in r = InStop /\ e = StopIteration) \/ sr_in r = InSrcErr e \/
            exists tr0 ev, sr_tr r = tr0 ++ [ev] /\ name_is (ev_name ev) (w_expected w) = true /\
              (ev_exn ev = Some e \/ (ev_exn ev = None /\ e = ImageFormatError))) recs.
Proof. exact (fun I eat finish complete fmatch => non_expected_faults_never_surface I eat finish complete fmatch gen_shape gen_shape_ok). Qed.
Print Assumptions C06_non_expected_faults_never_surface.

(* without an inspector named like the expected format (expected_format=None, or a name that
   allowed_formats excluded) no call on a chunk ever raises: every chunk is delivered *)
Theorem C06_no_expected_inspector_no_exception :
  forall I eat finish complete fmatch (w : wrapper I) inps (w' : wrapper I) recs,
  (forall s, In s (w_slots w) -> name_is (s_name s) (w_expected w) = false) ->
  w_run I eat finish complete fmatch gen_shape w inps = (w', recs) ->
  Forall (fun r => forall c, sr_in r = InChunk c -> sr_out r = OutChunk c) recs.
Proof. exact (fun I eat finish complete fmatch => no_expected_inspector_no_exception I eat finish complete fmatch gen_shape gen_shape_ok). Qed.
Print Assumptions C06_no_expected_inspector_no_exception.

(* ---- expected format: the stream is cut off at exactly that chunk ---------------------- *)
(* exactly one inspector (s), not errored, carries the expected name; cs are the chunks the
   source will hand out.  The reader gets the chunks before the first chunk j at which s
   fails / is complete without matching, then the exception; the failing call has taken
   chunk j from the source and nothing more (the answers after j are unused); with no such
   chunk everything is delivered.  The other inspectors may do anything. (Instance:
   Proofs/C06.v toy_hypotheses, toy_run.) *)
Theorem C06_expected_abort_exact :
  forall I eat finish complete fmatch (w : wrapper I) n pre s post cs,
  w_expected w = Some n -> w_slots w = pre ++ s :: post -> s_name s = n -> s_err s = false ->
  nonexp I (Some n) pre -> nonexp I (Some n) post ->
  exists w' tr, w_run_stop I eat finish complete fmatch gen_shape w (map InChunk cs) =
    match first_abort I eat complete fmatch (s_insp s) cs with
    | Some (j, a) => (w', tr, firstn j cs, Some (abort_exn a, Some (nth j cs [])), map InChunk (skipn (S j) cs))
    | None => (w', tr, cs, None, [])
    end.
Proof. exact (fun I eat finish complete fmatch => expected_abort_exact I eat finish complete fmatch gen_shape gen_shape_ok). Qed.
Print Assumptions C06_expected_abort_exact.

(* expected_fault_propagates_at_that_chunk *)
Theorem C06_expected_fault_propagates_at_that_chunk :
  forall I eat finish complete fmatch (w : wrapper I) n pre s post cs j e,
  w_expected w = Some n -> w_slots w = pre ++ s :: post -> s_name s = n -> s_err s = false ->
  nonexp I (Some n) pre -> nonexp I (Some n) post ->
  first_abort I eat complete fmatch (s_insp s) cs = Some (j, AbFault e) ->
  exists w' tr, w_run_stop I eat finish complete fmatch gen_shape w (map InChunk cs) =
    (w', tr, firstn j cs, Some (e, Some (nth j cs [])), map InChunk (skipn (S j) cs)).
Proof.
  intros I eat finish complete fmatch w n pre s post cs j e H1 H2 H3 H4 H5 H6 Hf.
  destruct (expected_abort_exact I eat finish complete fmatch gen_shape gen_shape_ok w n pre s post cs H1 H2 H3 H4 H5 H6) as (w' & tr & H).
  rewrite Hf in H. exists w', tr. exact H.
Qed.
Print Assumptions C06_expected_fault_propagates_at_that_chunk.

(* expected_complete_mismatch_aborts_at_that_chunk *)
Theorem C06_expected_complete_mismatch_aborts_at_that_chunk :
  forall I eat finish complete fmatch (w : wrapper I) n pre s post cs j,
  w_expected w = Some n -> w_slots w = pre ++ s :: post -> s_name s = n -> s_err s = false ->
  nonexp I (Some n) pre -> nonexp I (Some n) post ->
  first_abort I eat complete fmatch (s_insp s) cs = Some (j, AbMismatch) ->
  exists w' tr, w_run_stop I eat finish complete fmatch gen_shape w (map InChunk cs) =
    (w', tr, firstn j cs, Some (ImageFormatError, Some (nth j cs [])), map InChunk (skipn (S j) cs)).
Proof.
  intros I eat finish complete fmatch w n pre s post cs j H1 H2 H3 H4 H5 H6 Hf.
  destruct (expected_abort_exact I eat finish complete fmatch gen_shape gen_shape_ok w n pre s post cs H1 H2 H3 H4 H5 H6) as (w' & tr & H).
  rewrite Hf in H. exists w', tr. exact H.
Qed.
Print Assumptions C06_expected_complete_mismatch_aborts_at_that_chunk.

(* the same on a file read with read(size): delivered chunks, exception, and the source
   position, which stands right after chunk j: no further source data is consumed *)
Theorem C06_expected_abort_exact_file :
  forall I eat finish complete fmatch (w : wrapper I) s sizes n pre sl post,
  f_closed s = false ->
  w_expected w = Some n -> w_slots w = pre ++ sl :: post -> s_name sl = n -> s_err sl = false ->
  nonexp I (Some n) pre -> nonexp I (Some n) post ->
  forall w' s' tr delivered stop,
  run_reads I eat finish complete fmatch gen_shape w s sizes = (w', s', tr, delivered, stop) ->
  let cs := f_chunks s sizes in
  match first_abort I eat complete fmatch (s_insp sl) cs with
  | Some (j, a) =>
    delivered = firstn j cs /\ stop = Some (abort_exn a, Some (nth j cs [])) /\
    f_pos s' = f_pos s + blen (concat (firstn (S j) cs))
  | None => delivered = cs /\ stop = None /\ f_pos s' = f_pos s + blen (concat cs)
  end.
Proof. exact (fun I eat finish complete fmatch => expected_abort_exact_file I eat finish complete fmatch gen_shape gen_shape_ok). Qed.
Print Assumptions C06_expected_abort_exact_file.

(* ... and when iterating: what is left in the source is everything after chunk j *)
Theorem C06_expected_abort_exact_iter :
  forall I eat finish complete fmatch (w : wrapper I) s n pre sl post,
  w_expected w = Some n -> w_slots w = pre ++ sl :: post -> s_name sl = n -> s_err sl = false ->
  nonexp I (Some n) pre -> nonexp I (Some n) post ->
  forall w' s' tr delivered stop,
  run_iter I eat finish complete fmatch gen_shape (S (length (i_chunks s))) w s = (w', s', tr, delivered, stop) ->
  let cs := i_chunks s in
  match first_abort I eat complete fmatch (s_insp sl) cs with
  | Some (j, a) =>
    delivered = firstn j cs /\ stop = Some (abort_exn a, Some (nth j cs [])) /\ i_chunks s' = skipn (S j) cs
  | None => delivered = cs /\ stop = Some (StopIteration, None) /\ i_chunks s' = [] /\ w_finished w' = true
  end.
Proof. exact (fun I eat finish complete fmatch => expected_abort_exact_iter I eat finish complete fmatch gen_shape gen_shape_ok). Qed.
Print Assumptions C06_expected_abort_exact_iter.

(* ---- no_read_after_abort --------------------------------------------------------------- *)
(* the run of a reader that stops at the first exception is a prefix of the general run,
   ending with its first exception; the remaining source answers are never requested and no
   inspector is called afterwards *)
Theorem C06_no_read_after_abort :
  forall I eat finish complete fmatch inps (w w' : wrapper I) tr cs stop unused,
  w_run_stop I eat finish complete fmatch gen_shape w inps = (w', tr, cs, stop, unused) ->
  exists used recs, inps = used ++ unused /\
    w_run I eat finish complete fmatch gen_shape w used = (w', recs) /\ run_trace recs = tr /\
    match stop with
    | None => unused = [] /\ Forall (fun r => forall e, sr_out r <> OutExn e) recs
    | Some (e, t) => exists recs0 r, recs = recs0 ++ [r] /\ sr_out r = OutExn e /\ taken (sr_in r) = t /\
                       Forall (fun r => forall e, sr_out r <> OutExn e) recs0
    end.
Proof. exact (fun I eat finish complete fmatch => no_read_after_abort I eat finish complete fmatch gen_shape). Qed.
Print Assumptions C06_no_read_after_abort.

(* ---- finish_on_stop_iteration_and_close; finish reaches every inspector ---------------- *)
Theorem C06_finish_on_stop_iteration :
  forall I eat finish complete fmatch (w : wrapper I) s, i_chunks s = [] ->
  exists w', w_next I eat finish complete fmatch gen_shape w s = (w', s, [], InStop, OutExn StopIteration) /\
    w' = finish_all I finish w /\
    map (@s_insp I) (w_slots w') = map finish (map (@s_insp I) (w_slots w)) /\ w_finished w' = true.
Proof. exact (fun I eat finish complete fmatch => finish_on_stop_iteration I eat finish complete fmatch gen_shape). Qed.
Print Assumptions C06_finish_on_stop_iteration.

Theorem C06_finish_on_close :
  forall I (finish : I -> I) (w : wrapper I),
  (forall s, fst (w_close_f I finish w s) = finish_all I finish w /\ f_closed (snd (w_close_f I finish w s)) = true) /\
  (forall s, fst (w_close_i I finish w s) = finish_all I finish w /\
             (i_has_close s = true -> i_chunks (snd (w_close_i I finish w s)) = [])) /\
  map (@s_insp I) (w_slots (finish_all I finish w)) = map finish (map (@s_insp I) (w_slots w)) /\
  w_finished (finish_all I finish w) = true.
Proof. exact (fun I finish => finish_on_close I finish). Qed.
Print Assumptions C06_finish_on_close.

(* a complete iteration either aborts at a chunk or delivers every chunk, ends with
   StopIteration and leaves the wrapper finished (S (number of chunks) calls suffice) *)
Theorem C06_iteration_complete :
  forall I eat finish complete fmatch (w : wrapper I) s w' s' tr cs stop,
  run_iter I eat finish complete fmatch gen_shape (S (length (i_chunks s))) w s = (w', s', tr, cs, stop) ->
  match stop with
  | None => False
  | Some (e, None) => e = StopIteration /\ cs = i_chunks s /\ i_chunks s' = [] /\
                      w_finished w' = true /\ exists w0, w' = finish_all I finish w0
  | Some (e, Some c) => i_chunks s = cs ++ c :: i_chunks s'
  end.
Proof. exact (fun I eat finish complete fmatch => iteration_complete I eat finish complete fmatch gen_shape). Qed.
Print Assumptions C06_iteration_complete.

(* ---- the inspectors see the stream ----------------------------------------------------- *)
(* after a run in which every chunk was delivered, an inspector that was not errored at the
   start holds the state reached by feeding it the delivered chunks up to its first
   exception, and is in the errored set iff it raised (used by C01/C03) *)
Theorem C06_wrapper_slots_are_feed :
  forall I eat finish complete fmatch cs (w w' : wrapper I) tr unused,
  w_run_stop I eat finish complete fmatch gen_shape w (map InChunk cs) = (w', tr, cs, None, unused) ->
  forall k s, nth_error (w_slots w) k = Some s -> s_err s = false ->
    exists s', nth_error (w_slots w') k = Some s' /\ s_name s' = s_name s /\
      (s_insp s', s_err s') = feed I eat (s_insp s) cs.
Proof. exact (fun I eat finish complete fmatch => wrapper_slots_are_feed I eat finish complete fmatch gen_shape gen_shape_ok). Qed.
Print Assumptions C06_wrapper_slots_are_feed.

(* ---- formats / format (abstract, reused by C03) ---------------------------------------- *)
Theorem C06_format_some_implies_unique_match :
  forall I complete fmatch (w : wrapper I) m,
  format I complete fmatch raw_lit_nonraw raw_lit_raw w = Ok (Some m) ->
  decided I complete raw_lit_nonraw w = true /\
  (matches I fmatch raw_lit_nonraw w = [m] \/
   (matches I fmatch raw_lit_nonraw w = [] /\ filter (is_raw I raw_lit_raw) (w_slots w) = [m])).
Proof. exact (fun I complete fmatch => format_some_implies_unique_match I complete fmatch raw_lit_nonraw raw_lit_raw). Qed.
Print Assumptions C06_format_some_implies_unique_match.

Theorem C06_two_matches_raise :
  forall I complete fmatch (w : wrapper I),
  decided I complete raw_lit_nonraw w = true -> (1 < length (matches I fmatch raw_lit_nonraw w))%nat ->
  format I complete fmatch raw_lit_nonraw raw_lit_raw w = Exn ImageFormatError.
Proof. exact (fun I complete fmatch => two_matches_raise I complete fmatch raw_lit_nonraw raw_lit_raw). Qed.
Print Assumptions C06_two_matches_raise.

Theorem C06_raw_only_when_nothing_matches_and_allowed :
  forall I complete fmatch (w : wrapper I) m,
  format I complete fmatch raw_lit_nonraw raw_lit_raw w = Ok (Some m) -> is_raw I raw_lit_raw m = true ->
  matches I fmatch raw_lit_nonraw w = [] /\ In m (w_slots w) /\ decided I complete raw_lit_nonraw w = true.
Proof. exact (fun I complete fmatch => raw_only_when_nothing_matches_and_allowed I complete fmatch raw_lit_nonraw raw_lit_raw raw_lits_agree). Qed.
Print Assumptions C06_raw_only_when_nothing_matches_and_allowed.

Theorem C06_raw_never_with_others :
  forall I complete fmatch (w : wrapper I) ms,
  formats I complete fmatch raw_lit_nonraw raw_lit_raw w = Some ms ->
  (exists m, In m ms /\ is_raw I raw_lit_raw m = true) ->
  matches I fmatch raw_lit_nonraw w = [] /\ Forall (fun m => is_raw I raw_lit_raw m = true) ms.
Proof. exact (fun I complete fmatch => raw_never_with_others I complete fmatch raw_lit_nonraw raw_lit_raw raw_lits_agree). Qed.
Print Assumptions C06_raw_never_with_others.

Theorem C06_format_total :
  forall I complete fmatch (w : wrapper I),
  (exists r, format I complete fmatch raw_lit_nonraw raw_lit_raw w = Ok r) \/
  format I complete fmatch raw_lit_nonraw raw_lit_raw w = Exn ImageFormatError.
Proof. exact (fun I complete fmatch => format_total I complete fmatch raw_lit_nonraw raw_lit_raw). Qed.
Print Assumptions C06_format_total.

(* allowed_formats: a non-empty list restricts the inspectors to those names; [] (like None)
   allows every format of ALL_FORMATS *)
Theorem C06_allowed_formats_respected :
  forall I (factory : list (str * I)) expected allowed s,
  In s (w_slots (mk_wrapper I factory expected allowed)) -> allowed <> [] -> In (s_name s) allowed.
Proof. exact allowed_formats_respected. Qed.
Print Assumptions C06_allowed_formats_respected.

Theorem C06_allowed_empty_means_all :
  forall I (factory : list (str * I)) expected,
  map (@s_name I) (w_slots (mk_wrapper I factory expected [])) = map fst factory.
Proof. exact allowed_empty_means_all. Qed.
Print Assumptions C06_allowed_empty_means_all.

(* ---- the regenerated tables ------------------------------------------------------------ *)
(* ALL_FORMATS: keys are the class NAMEs, pairwise distinct, and 'raw' is one of them; with
   distinct names the inspector named n splits the collection as the theorems above require *)
Theorem C06_all_formats_wellformed :
  forallb (fun p => beq (fst p) (snd p)) all_formats = true /\ NoDup (map fst all_formats) /\
  In raw_lit_raw (map fst all_formats) /\ raw_lit_nonraw = raw_lit_raw /\ shape_okb gen_shape = true.
Proof. exact (conj all_formats_keys_are_names (conj all_formats_names_distinct (conj raw_is_a_format (conj raw_lits_agree gen_shape_ok)))). Qed.
Print Assumptions C06_all_formats_wellformed.

Theorem C06_unique_name_split :
  forall I (ss : list (slot I)) s n,
  NoDup (map (@s_name I) ss) -> In s ss -> s_name s = n ->
  exists pre post, ss = pre ++ s :: post /\ nonexp I (Some n) pre /\ nonexp I (Some n) post.
Proof. exact unique_name_split. Qed.
Print Assumptions C06_unique_name_split.

(* ---- a freshly constructed wrapper ----------------------------------------------------- *)
(* InspectWrapper(source, expected_format=n, allowed_formats=allowed) over a table with
   distinct names (ALL_FORMATS: C06_all_formats_wellformed) in which n is present and allowed *)
Theorem C06_expected_abort_exact_fresh :
  forall I eat finish complete fmatch (factory : list (str * I)) allowed n i0 cs,
  NoDup (map fst factory) -> In (n, i0) factory -> allowed_key allowed n = true ->
  exists w' tr,
    w_run_stop I eat finish complete fmatch gen_shape (mk_wrapper I factory (Some n) allowed) (map InChunk cs) =
    match first_abort I eat complete fmatch i0 cs with
    | Some (j, a) => (w', tr, firstn j cs, Some (abort_exn a, Some (nth j cs [])), map InChunk (skipn (S j) cs))
    | None => (w', tr, cs, None, [])
    end.
Proof. exact (fun I eat finish complete fmatch => expected_abort_exact_fresh I eat finish complete fmatch gen_shape gen_shape_ok). Qed.
Print Assumptions C06_expected_abort_exact_fresh.

(* expected_format=None: whatever the inspectors do, every chunk of every call is delivered *)
Theorem C06_no_expectation_no_exception :
  forall I eat finish complete fmatch (factory : list (str * I)) allowed inps w' recs,
  w_run I eat finish complete fmatch gen_shape (mk_wrapper I factory None allowed) inps = (w', recs) ->
  Forall (fun r => forall c, sr_in r = InChunk c -> sr_out r = OutChunk c) recs.
Proof. exact (fun I eat finish complete fmatch => no_expectation_no_exception I eat finish complete fmatch gen_shape gen_shape_ok). Qed.
Print Assumptions C06_no_expectation_no_exception.

(* ---- detect_file_format ---------------------------------------------------------------- *)
(* for every file content and whatever the inspectors do: the function returns the NAME of
   one inspector or raises ImageFormatError (never None, never an inspector's exception); the
   file has been closed and every inspector finished (close() in the finally clause).  The
   chunk size is the regenerated one; only its positivity is used. *)
Theorem C06_detect_file_format_total :
  forall I eat finish complete fmatch (factory : list (str * I)) data,
  let '(w, s, tr, r) := detect_file_format I eat finish complete fmatch gen_shape raw_lit_nonraw raw_lit_raw
                          detect_chunk_size factory data in
  ((exists nm, r = Ok (Some nm)) \/ r = Exn ImageFormatError) /\
  f_closed s = true /\ w_finished w = true /\ f_data s = data.
Proof.
  exact (fun I eat finish complete fmatch factory data =>
    detect_file_format_total I eat finish complete fmatch gen_shape gen_shape_ok raw_lit_nonraw raw_lit_raw
      detect_chunk_size factory data detect_chunk_size_pos).
Qed.
Print Assumptions C06_detect_file_format_total.

(* ---- what [first_abort] means ---------------------------------------------------------- *)
(* first_abort i cs = Some (j, a): feeding the inspector ALONE, chunks 0..j-1 are eaten without
   exception and after none of them it is complete without matching; chunk j makes it raise
   e (a = AbFault e) or is eaten and leaves it complete without matching (a = AbMismatch) *)
Theorem C06_first_abort_spec :
  forall I eat complete fmatch cs (i : I) j a,
  first_abort I eat complete fmatch i cs = Some (j, a) ->
  snd (feed I eat i (firstn j cs)) = false /\
  (forall k, (0 < k <= j)%nat ->
     let ik := fst (feed I eat i (firstn k cs)) in complete ik && negb (fmatch ik) = false) /\
  let ij := fst (feed I eat i (firstn j cs)) in
  match a with
  | AbFault e => snd (eat ij (nth j cs [])) = Some e
  | AbMismatch => snd (eat ij (nth j cs [])) = None /\
                  complete (fst (eat ij (nth j cs []))) && negb (fmatch (fst (eat ij (nth j cs [])))) = true
  end.
Proof. exact (fun I eat complete fmatch => first_abort_spec I eat (fun x => x) complete fmatch gen_shape gen_shape_ok). Qed.
Print Assumptions C06_first_abort_spec.

Theorem C06_first_abort_none_spec :
  forall I eat complete fmatch cs (i : I),
  first_abort I eat complete fmatch i cs = None ->
  snd (feed I eat i cs) = false /\
  (forall k, (0 < k <= length cs)%nat ->
     let ik := fst (feed I eat i (firstn k cs)) in complete ik && negb (fmatch ik) = false).
Proof. exact (fun I eat complete fmatch => first_abort_none_spec I eat (fun x => x) complete fmatch gen_shape gen_shape_ok). Qed.
Print Assumptions C06_first_abort_none_spec.

(* ---- the tie: the statement-level translation of the source IS the model -------------- *)
(* Gen/C06_Code.v is regenerated from the source text of InspectWrapper on every run
   (tools/gen/gen_C06_code.py); Proofs/C06_Equiv.v proves every translated method equal to
   the model the theorems above are about (further *_equiv lemmas there: __next__, close,
   __init__, _finish, formats, detect_file_format).  Here: _process_chunk, read, format. *)
Theorem C06_translation_is_the_model :
  forall I eat finish complete fmatch (w : wrapper I),
  (forall chunk, gen_process_chunk I eat complete fmatch w chunk =
     let '(w', tr, r) := process_chunk I eat complete fmatch gen_shape w chunk in (w', exn_res r)) /\
  (forall s size, gen_read I eat complete fmatch fsrc f_read w s size =
     let '(w', s', tr, inp, o) := w_read I eat finish complete fmatch gen_shape w s size in (w', s', out_res o)) /\
  (forall s, gen_next I eat finish complete fmatch isrc i_next w s =
     let '(w', s', tr, inp, o) := w_next I eat finish complete fmatch gen_shape w s in (w', s', out_res o)) /\
  gen_finish I finish w = (finish_all I finish w, Ok tt) /\
  gen_format I complete fmatch w = format I complete fmatch raw_lit_nonraw raw_lit_raw w.
Proof.
  exact (fun I eat finish complete fmatch w =>
    conj (gen_process_chunk_equiv I eat complete fmatch w)
   (conj (gen_read_file_equiv I eat finish complete fmatch w)
   (conj (gen_next_iter_equiv I eat finish complete fmatch w)
   (conj (gen_finish_equiv I finish w) (gen_format_equiv I complete fmatch w))))).
Qed.
Print Assumptions C06_translation_is_the_model.

(* ---- source faults --------------------------------------------------------------------- *)
(* The source's own read()/next() may raise ANY exception at ANY call and go on afterwards
   (a transient error, a resumable iterator).  Such a call gives the reader that exception
   and leaves the wrapper exactly as it was: the rest of the session is what it would be had
   the failed call not happened (only StopIteration from next() finishes the inspectors). *)
Theorem C06_source_fault_transparent :
  forall I eat finish complete fmatch (w : wrapper I) l1 e l2,
  w_step I eat finish complete fmatch gen_shape w (InSrcErr e) = (w, [], OutExn e) /\
  w_run I eat finish complete fmatch gen_shape w (l1 ++ InSrcErr e :: l2) =
    (let (w1, r1) := w_run I eat finish complete fmatch gen_shape w l1 in
     let (w2, r2) := w_run I eat finish complete fmatch gen_shape w1 l2 in
     (w2, r1 ++ {| sr_in := InSrcErr e; sr_tr := []; sr_out := OutExn e |} :: r2)) /\
  w_run I eat finish complete fmatch gen_shape w (l1 ++ l2) =
    (let (w1, r1) := w_run I eat finish complete fmatch gen_shape w l1 in
     let (w2, r2) := w_run I eat finish complete fmatch gen_shape w1 l2 in (w2, r1 ++ r2)).
Proof. exact (fun I eat finish complete fmatch => source_fault_transparent I eat finish complete fmatch gen_shape). Qed.
Print Assumptions C06_source_fault_transparent.

(* read()/__next__() as TRANSLATED from the source, over any source whatsoever: what reaches
   the wrapper core is InChunk for a chunk, InStop for StopIteration from next() only, and
   InSrcErr e (wrapper untouched) for every other exception *)
Theorem C06_translated_read_next_any_source :
  forall I eat finish complete fmatch (Src : Type) (w : wrapper I) (s : Src),
  (forall src_read size, gen_read I eat complete fmatch Src src_read w s size =
     let '(w', s', tr, inp, o) := w_read_on I eat finish complete fmatch gen_shape Src src_read w s size in (w', s', out_res o)) /\
  (forall src_next, gen_next I eat finish complete fmatch Src src_next w s =
     let '(w', s', tr, inp, o) := w_next_on I eat finish complete fmatch gen_shape Src src_next w s in (w', s', out_res o)).
Proof.
  exact (fun I eat finish complete fmatch Src w s =>
    conj (fun src_read size => gen_read_equiv I eat finish complete fmatch Src src_read w s size)
         (fun src_next => gen_next_equiv I eat finish complete fmatch Src src_next w s)).
Qed.
Print Assumptions C06_translated_read_next_any_source.
