Require Import OV.Base.Bytes OV.Base.Py OV.Base.C06_WrapShape.
Require Import OV.Gen.C06_Wrapper OV.Model.Wrap.
Theorem C06_placeholder : shape_okb gen_shape = true.
Proof. reflexivity. Qed.
Print Assumptions C06_placeholder.
