(* Properties/C08.v — property theorems only; each is closed by [exact] of a lemma
   from Proofs/C08.v and followed by Print Assumptions.

   C08: for any nested mapping, mask_dict_password returns a new dict with the same keys at
   every level in which every non-mapping value stored under a string key that contains a
   sanitize key (case-insensitively) is replaced by the mask, every other string value has been
   passed through mask_password, nested mappings are processed the same way and all other
   values are returned as they are; [the argument is left unmodified: harness only — aliasing
   has no meaning in a functional model]. A non-mapping argument raises TypeError.

   mdp is the model (Model/C08.v); its loop body is the term regenerated from the source
   (Gen/C08_Shape.gen_body), its key list the regenerated Gen/C08_Keys.gen_keys.
   mask_password is any function (mp).  wf d: no mapping in d has two equal keys (true of
   every Python Mapping).  Non-vacuity instances: Proofs/C08.v section 7 (ex_d ...). *)
Require Import OV.Base.Bytes OV.Base.Py OV.Base.Str.
Require Import OV.Model.C08_Syntax OV.Gen.C08_Keys OV.Gen.C08_Shape OV.Gen.C08_Frame OV.Model.C08 OV.Proofs.C08.
Require Import OV.Model.C08_Heap OV.Proofs.C08_Heap.

(* the result of a mapping argument exists (no exception) and is related to the argument by
   the four rules of Masked, at every depth — no bound on depth or width *)
Theorem C08_mdp_sound : forall (mp : str -> str -> str) (secret : str) (d : value),
  wf d = true -> is_mapping d = true ->
  exists r, mdp mp secret d = Ok r /\ Masked mp secret d r.
Proof. exact mdp_sound. Qed.
Print Assumptions C08_mdp_sound.

(* the four rules determine the result: Masked is functional ... *)
Theorem C08_mdp_unique : forall (mp : str -> str -> str) (secret : str) (d r1 r2 : value),
  Masked mp secret d r1 -> Masked mp secret d r2 -> r1 = r2.
Proof. exact mdp_unique. Qed.
Print Assumptions C08_mdp_unique.

(* ... so anything the rules allow is what the function returns *)
Theorem C08_mdp_complete : forall (mp : str -> str -> str) (secret : str) (d r : value),
  wf d = true -> Masked mp secret d r -> mdp mp secret d = Ok r.
Proof. exact mdp_complete. Qed.
Print Assumptions C08_mdp_complete.

(* the same, read off the function: under each key of the argument the result holds
   - for a mapping value: what the function returns for that mapping (whatever the key);
   - for a non-mapping value under a secret str key: the mask;
   - for any other str value: mask_password of it;  - for anything else: the value itself *)
Theorem C08_entry_rules : forall (mp : str -> str -> str) (secret : str) kd items k v,
  wf (VMap kd items) = true -> In (k, v) items ->
  exists out v',
    mdp mp secret (VMap kd items) = Ok (VMap dict_kind out) /\ In (k, v') out /\
    (is_mapping v = true -> mdp mp secret v = Ok v') /\
    (is_mapping v = false -> secret_key k = true -> v' = VStr secret) /\
    (secret_key k = false -> forall s, v = VStr s -> v' = VStr (mp s secret)) /\
    (secret_key k = false -> forall t, v = VOther t -> v' = VOther t).
Proof. exact entry_rules. Qed.
Print Assumptions C08_entry_rules.

(* same keys, in the same order, at every level; every container of the result is a dict *)
Theorem C08_keys_preserved_at_every_level : forall (mp : str -> str -> str) (secret : str) (d r : value),
  wf d = true -> mdp mp secret d = Ok r -> skel r = skel d /\ all_dict r = true.
Proof. exact keys_preserved_at_every_level. Qed.
Print Assumptions C08_keys_preserved_at_every_level.

(* a mapping stored under a secret key is not replaced by the mask: the result holds, under
   the same key, what the function returns for that mapping *)
Theorem C08_mapping_under_secret_key_is_recursed :
  forall (mp : str -> str -> str) (secret : str) kd items k kd' sub,
  wf (VMap kd items) = true -> In (k, VMap kd' sub) items -> secret_key k = true ->
  exists out sub',
    mdp mp secret (VMap kd items) = Ok (VMap dict_kind out) /\
    mdp mp secret (VMap kd' sub) = Ok (VMap dict_kind sub') /\
    In (k, VMap dict_kind sub') out /\ Masked mp secret (VMap kd' sub) (VMap dict_kind sub').
Proof. exact mapping_under_secret_key_is_recursed. Qed.
Print Assumptions C08_mapping_under_secret_key_is_recursed.

(* a non-mapping argument raises TypeError *)
Theorem C08_non_mapping_argument_TypeError : forall (mp : str -> str -> str) (secret : str) (d : value),
  is_mapping d = false -> mdp mp secret d = Exn TypeError.
Proof. exact mdp_non_mapping. Qed.
Print Assumptions C08_non_mapping_argument_TypeError.

(* the 35 documented sanitize keys are all in the list the source defines *)
Theorem C08_uses_all_spec_keys : incl spec_keys_35 gen_keys /\ length spec_keys_35 = 35%nat.
Proof. exact (conj uses_all_spec_keys spec_keys_35_length). Qed.
Print Assumptions C08_uses_all_spec_keys.

(* "contains a sanitize key (case-insensitively)" is: a key of the source's list is a
   substring of k.lower(); keys that are not str never qualify *)
Theorem C08_secret_key_is_substring_of_lower : forall s : str,
  secret_key (KStr s) = true <-> exists sk p q, In sk gen_keys /\ py_lower s = p ++ sk ++ q.
Proof. exact secret_key_iff_substring_of_lower. Qed.
Print Assumptions C08_secret_key_is_substring_of_lower.

(* every documented key, in any mix of cases, at any position of a str key *)
Theorem C08_secret_key_case_insensitive : forall sk pre u post : str,
  In sk spec_keys_35 -> lower_ascii u = sk -> secret_key (KStr (pre ++ u ++ post)) = true.
Proof. exact secret_key_case_insensitive_substring. Qed.
Print Assumptions C08_secret_key_case_insensitive.

(* the one place where py_lower is not CPython's lower() (final sigma) cannot change the test *)
Theorem C08_final_sigma_irrelevant : forall (keys : list str) (t s : str),
  sigma_free keys = true -> map sig_norm t = map sig_norm s -> contains_any keys t = contains_any keys s.
Proof. exact final_sigma_irrelevant. Qed.
Print Assumptions C08_final_sigma_irrelevant.

(* ====================================================================================== *)
(* Object identity (Model/C08_Heap.v): a heap of objects, values are references, the       *)
(* function evaluated in store-passing style; where it writes and what it returns are      *)
(* regenerated from the source (Gen/C08_Frame.v).  mp_h is mask_password on the heap, an    *)
(* arbitrary function meeting its contract (it only allocates; the reference it returns     *)
(* holds mask_password(message, secret)).  Instances: Proofs/C08_Heap.v section 4.          *)
(* ====================================================================================== *)

(* "the argument and everything reachable from it is left unmodified": EVERY location that
   existed before the call — reachable from the argument or not — holds the same object
   afterwards.  No hypothesis on the heap: any sharing, cycles included; any fuel. *)
Theorem C08_argument_unmodified :
  forall (mp_h : heap -> loc -> loc -> heap * loc),
  (forall h m s, exists e, fst (mp_h h m s) = h ++ e) ->
  forall fuel h secret d h' r,
  mdp_h mp_h fuel h secret d = Ok (h', r) ->
  (length h <= length h')%nat /\ forall l, (l < length h)%nat -> hget h' l = hget h l.
Proof. exact mdp_h_frame. Qed.
Print Assumptions C08_argument_unmodified.

(* For an argument d that is the root of a finite structure unfolding to the tree t
   (Den 0 h d t: acyclic, arbitrarily shared — decidable through [denote], C08_denote_sound),
   with enough fuel for its height:
   - the call succeeds and returns a location r allocated by the call (r = length h);
   - C08_heap_agrees_with_tree: r reads back as exactly the tree the functional model mdp
     returns for t (so every theorem above transfers to the heap model);
   - C08_result_fresh: in that reading every DICT location — r and every dict reachable from it
     through dict edges — is >= length h, i.e. was allocated by the call: no mapping of the
     argument is aliased by the result.  (Non-mapping values are NOT copied: see C08_result_sharing.) *)
Theorem C08_heap_agrees_with_tree_and_result_fresh :
  forall (mp : str -> str -> str) (mp_h : heap -> loc -> loc -> heap * loc),
  (forall h m s, exists e, fst (mp_h h m s) = h ++ e) ->
  (forall h m s ms ss, hget h m = Some (PStr ms) -> hget h s = Some (PStr ss) ->
     hget (fst (mp_h h m s)) (snd (mp_h h m s)) = Some (PStr (mp ms ss))) ->
  forall fuel h d secret ss t,
  Den 0 h d t -> is_mapping t = true -> hget h secret = Some (PStr ss) -> (height t < fuel)%nat ->
  exists h' r t',
    mdp_h mp_h fuel h secret d = Ok (h', r) /\ mdp mp ss t = Ok t' /\
    Den (length h) h' r t' /\ r = length h.
Proof. exact heap_agrees_with_tree. Qed.
Print Assumptions C08_heap_agrees_with_tree_and_result_fresh.

(* the hypothesis Den 0 h d t is decidable: read d back with fuel (S (length h) suffices for
   every acyclic structure) *)
Theorem C08_denote_sound : forall n h l v, denote n h l = Some v -> Den 0 h l v.
Proof. exact denote_sound. Qed.
Print Assumptions C08_denote_sound.

(* what the code does on a structure that contains itself (excluded above by Den): it
   recurses until the interpreter's limit — RecursionError (a RuntimeError), for any fuel *)
Theorem C08_cycle_RecursionError :
  forall (mp_h : heap -> loc -> loc -> heap * loc) k kd rest d fuel h secret,
  hget h d = Some (PDict kd ((k, d) :: rest)) -> mdp_h mp_h fuel h secret d = Exn RuntimeError.
Proof. exact cycle_RecursionError. Qed.
Print Assumptions C08_cycle_RecursionError.

(* C08_result_sharing — which result slots are which objects, at every depth (Shr, Model/C08_Heap.v):
   under each key, a mapping value is replaced by a dict allocated by the call (and so on inside it);
   a non-mapping value under a secret key IS the secret reference; any other non-string value
   (list, bytes, number, None, ...) IS the argument's own reference — the result aliases the
   lists etc. of the argument, that is what "returned as they are" means; for other strings the
   reference is whatever mask_password returned.  Hypothesis wf t: no mapping has two equal keys. *)
Theorem C08_result_sharing :
  forall (mp_h : heap -> loc -> loc -> heap * loc),
  (forall h m s, exists e, fst (mp_h h m s) = h ++ e) ->
  forall fuel h d secret ss t h' r,
  Den 0 h d t -> wf t = true -> is_mapping t = true -> hget h secret = Some (PStr ss) ->
  mdp_h mp_h fuel h secret d = Ok (h', r) -> Shr (length h) secret h h' d r t.
Proof. exact result_sharing. Qed.
Print Assumptions C08_result_sharing.
