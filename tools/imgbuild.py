# imgbuild -- synthetic disk-image builder for the format_inspector properties
# (C01, C02, C03, C05, C07).  Pure Python, stdlib only, deterministic: every
# random choice comes from the random.Random instance handed in.
#
# Nothing here runs the inspected code except run_inspector()/run_all() (used by
# the self-test).  All ground truth (declared size, expected acceptance, expected
# signature matches) is derived from the layout parameters and the PROPERTY TEXT,
# never from the implementation.
#
# ---------------------------------------------------------------------------
# API
# ---------------------------------------------------------------------------
# Image                       result object: .data .fmt .declared_size .boundaries .traits
#                             .wellformed .expect_accept .fields .params ; .zones ; .replace(**kw)
#   .declared_size            what virtual_size must report for a well-formed image (C07); None when the
#                             C07 statement does not define one (qed, text-only vmdk, malformed layouts)
#   .boundaries               sorted offsets of every structure boundary the inspector cares about
#   .traits                   dict of ground truth: 'reject' (reasons the property text demands non-acceptance),
#                             'unspecified' (reasons the text says nothing: expect_accept None), 'defects'
#                             (reasons the image is not well-formed for C07), 'complete_at' (shortest prefix
#                             that contains everything the inspector needs; None = never), 'size_known_at' (shortest
#                             prefix containing the structure that carries the size: C07 "0 while unknown"), 'tail_sensitive'
#                             (verdict depends on the last bytes of the stream), 'zones' (known-finding zones
#                             F1..F4 the bytes fall into) + format specific values
#   .expect_accept            True: C02 says safety_check() must return; False: must not; None: text is silent
#   .fields                   name -> Field(off,size,kind,role,specials): byte-level map used by mutate_fields
# FORMATS                     the ten format names
# build(fmt, rng=None, **params) -> Image      one layout builder per format, see build_<fmt> docstrings
#   build_raw build_qcow2 build_qed build_vhd build_vdi build_iso build_gpt build_luks build_vmdk build_vhdx
# vmdk_descriptor(...) -> (bytes, info)        descriptor text from classified lines
# L_comment L_blank L_ddb L_header L_extent L_junk L_quirk   descriptor line constructors
# random_wellformed(fmt, rng) -> Image         random well-formed (and safe, except qed) image
# size_values(fmt, rng, n_random=4) -> [int]   declared sizes over the field's full range (C07)
# boundary_values(width_bytes) -> [int]        0,1,max,max-1,2^31,2^32+-1,2^63,2^64-1,... that fit the width
# mutate_fields(img, rng, k=None, names=None) -> Image    set 1..3 fields to boundary / off-by-one values
# truncations(img) -> iter[Image]              every boundary +-1 and 0
# extend(img, n, rng, fill='random') -> Image  append n bytes
# overlay(sigs, background, length, rng, ...) -> Image     polyglots; traits['expected_matches']
# OVERLAY_LENGTHS, SIGNATURES, BACKGROUNDS     families for overlay()
# overlays(rng, tier) -> iter[Image]           a bounded family of overlays
# unstructured(rng, kind=None, length=None) -> Image      text / binary noise
# signature_present(fmt, data) -> bool|None    reference predicate "format's signature is present" (C03)
# expected_matches(data) -> {fmt: bool|None}   for the nine non-raw formats
# trait_space(fmt, rng, tier) -> iter[dict]    C02 trait dicts (= build() parameters) for a format
# trait_image(fmt, traits, rng) -> Image       image with those traits; .expect_accept is the ground truth
# trait_images(fmt, rng, tier) -> iter[Image]
# mbr_family(rng, tier) -> iter[list[dict]]    bounded family of 4-entry partition tables
# hostile_images(rng, tier) -> iter[Image]     C05: maximal length/count/offset fields, multi-MiB streams
# chunkings(n, boundaries, rng, tier, max_chunks=4096) -> iter[list[int]]   chunk length lists summing to n
# split(data, chunks) -> [bytes]
# zones_of(data) -> set                        advisory byte predicates for F1..F4 (property plugins own the
#   zone_vmdk_text zone_vmdk_shortfoot zone_vhdx_backptr zone_vhdx_metasig      canonical ones) + 'F1n'
#   zone_vmdk_earlyparse; ZONE_FORMAT, zones_for(fmt, zones): which inspector a zone concerns
# run_inspector(fmt, data, chunks=None, finish=True) -> inspector   fresh REAL inspector fed the chunks;
#                             .imgbuild_error = first exception raised by eat_chunk (feeding stops there)
# run_all(data, chunks=None) -> {fmt: inspector}
# safety_outcome(inspector) -> 'pass' | 'fail:<check names>' | 'refused' | 'crash:<Exc>'
# helpers: pte(...), PROTECTIVE, EMPTY_PTE, MBR_TYPES, gpt_table_verdict(ptes); guid_bytes(str), GUID_*; set_field(img, name,
#   value), field_values(field); VMDK_SAFE_TYPES, VMDK_OTHER_TYPES, VMDK_FOOTER_CHECKED/UNCHECKED, GD_AT_END; ISO_IDENTS
# ---------------------------------------------------------------------------

import struct
import uuid
import random as _random

FORMATS = ('raw', 'qcow2', 'vhd', 'vhdx', 'vmdk', 'vdi', 'qed', 'iso', 'gpt', 'luks')

KiB = 1024
MiB = 1024 * 1024
U16, U32, U64 = (1 << 16) - 1, (1 << 32) - 1, (1 << 64) - 1


# ---------------------------------------------------------------------------
# basic objects
# ---------------------------------------------------------------------------
class Field:
    """A byte field of a built image.  kind: 'be'/'le' unsigned integer or 'raw'.
    role: 'irrelevant' (no inspector reads it), 'size', 'structural', 'safety'.
    specials: values around constants the code compares the field against."""
    __slots__ = ('name', 'off', 'size', 'kind', 'role', 'specials')

    def __init__(self, name, off, size, kind, role='irrelevant', specials=()):
        self.name, self.off, self.size, self.kind = name, off, size, kind
        self.role, self.specials = role, tuple(specials)

    def __repr__(self):
        return 'Field(%s@%d+%d %s %s)' % (self.name, self.off, self.size, self.kind, self.role)


class Image:
    def __init__(self, fmt, data, declared_size, boundaries, traits, wellformed,
                 expect_accept=None, fields=None, params=None):
        self.fmt = fmt
        self.data = bytes(data)
        self.declared_size = declared_size
        n = len(self.data)
        self.boundaries = sorted({b for b in boundaries if 0 <= b <= n} | {0, n})
        self.traits = traits
        self.wellformed = bool(wellformed)
        self.expect_accept = expect_accept
        self.fields = fields or {}
        self.params = params or {}

    @property
    def zones(self):
        return self.traits.get('zones', set())

    def replace(self, **kw):
        d = dict(fmt=self.fmt, data=self.data, declared_size=self.declared_size,
                 boundaries=list(self.boundaries), traits=dict(self.traits),
                 wellformed=self.wellformed, expect_accept=self.expect_accept,
                 fields=dict(self.fields), params=dict(self.params))
        d.update(kw)
        return Image(**d)

    def __repr__(self):
        return 'Image(%s, %d bytes, declared=%r, wf=%r, accept=%r)' % (
            self.fmt, len(self.data), self.declared_size, self.wellformed, self.expect_accept)


def _rng(rng):
    return rng if rng is not None else _random.Random(0)


def _fill(rng, n, how):
    """n bytes of 'zero' | 'random' | 'text' | 'ff' | explicit bytes (repeated/truncated)."""
    if n <= 0:
        return bytearray()
    if isinstance(how, (bytes, bytearray)):
        if not how:
            return bytearray(n)
        return bytearray((bytes(how) * (n // len(how) + 1))[:n])
    if how == 'zero':
        return bytearray(n)
    if how == 'ff':
        return bytearray(b'\xff' * n)
    if how == 'random':
        return bytearray(rng.randbytes(n))
    if how == 'text':
        return bytearray(_text(rng, n))
    raise ValueError('unknown fill %r' % (how,))


_WORDS = ('disk image lorem ipsum dolor sit amet version extent sparse header table '
          'offset size sector cluster 0123456789 alpha beta gamma delta = # " \' { } [ ]').split()


def _text(rng, n):
    if n > 32768:                       # long texts: tile a random 16 KiB block (keeps multi-MiB streams cheap)
        block = _text(rng, 16384)
        block = block[:block.rfind(b'\n') + 1] or block
        return (block * (n // len(block) + 1))[:n]
    out = []
    tot = 0
    while tot < n:
        k = rng.randint(1, 12)
        line = ' '.join(rng.choice(_WORDS) for _ in range(k)) + rng.choice(['\n', '\n', '\r\n', '\t\n'])
        out.append(line)
        tot += len(line)
    return ''.join(out).encode('ascii')[:n]


def _put(buf, off, b):
    """Write b at off, growing nothing: bytes beyond the end are dropped."""
    n = len(buf)
    if off >= n or off < 0:
        return
    b = bytes(b)[:n - off]
    buf[off:off + len(b)] = b


def _u(v, size, kind):
    v &= (1 << (8 * size)) - 1
    return v.to_bytes(size, 'big' if kind == 'be' else 'little')


def _check_params(name, params, allowed):
    bad = set(params) - set(allowed)
    if bad:
        raise TypeError('%s: unknown parameter(s) %s' % (name, sorted(bad)))


def boundary_values(width_bytes):
    """Boundary values representable in an unsigned field of that width."""
    mx = (1 << (8 * width_bytes)) - 1
    c = {0, 1, 2, mx, mx - 1, mx // 2, mx // 2 + 1}
    for k in (7, 8, 15, 16, 31, 32, 63, 64):
        for d in (-1, 0, 1):
            c.add((1 << k) + d)
    return sorted(v for v in c if 0 <= v <= mx)


def size_values(fmt, rng, n_random=4):
    """Declared sizes over the field's full range (C07): 0, 1, 2^k+-1, 2^32+-1, 2^63, 2^64-1, random.
    For vmdk the values are capacities in SECTORS, for iso (blocks, block_size) pairs, for luks
    payload sizes in bytes after the payload offset, for raw/gpt stream lengths (kept small)."""
    rng = _rng(rng)
    if fmt in ('qcow2', 'vhd', 'vdi', 'vhdx', 'vmdk', 'qed'):
        vals = [0, 1, 511, 512, 513, (1 << 31) - 1, 1 << 31, U32 - 1, U32, U32 + 1, U32 + 2,
                (1 << 63) - 1, 1 << 63, (1 << 63) + 1, U64 - 1, U64]
        vals += [(1 << k) + d for k in (9, 20, 30, 40, 55) for d in (-1, 0, 1)]
        vals += [rng.getrandbits(rng.choice([8, 24, 40, 64])) for _ in range(n_random)]
        return vals
    if fmt == 'iso':
        bl = [0, 1, 2, 16, 17, 65535, 65536, (1 << 31) - 1, 1 << 31, U32 - 1, U32]
        bs = [0, 1, 512, 1024, 2047, 2048, 2049, 4096, 32768, U16 - 1, U16]
        out = [(b, 2048) for b in bl] + [(1000, s) for s in bs] + [(U32, U16), (0, 0)]
        out += [(rng.getrandbits(32), rng.choice(bs + [rng.getrandbits(16)])) for _ in range(n_random)]
        return out
    if fmt == 'luks':
        return [0, 1, 511, 512, 513, 4096] + [rng.randrange(0, 20000) for _ in range(n_random)]
    if fmt == 'raw':
        return [0, 1, 511, 512, 513, 4096, 65537] + [rng.randrange(0, 100000) for _ in range(n_random)]
    if fmt == 'gpt':
        return [512, 513, 1023, 1024, 1025, 4096, 17408] + [rng.randrange(512, 100000) for _ in range(n_random)]
    raise ValueError(fmt)


def _result(fmt, data, declared, bounds, fields, params, reject, unspecified, defects,
            complete_at, tail_sensitive=False, extra=None, size_known_at=None, scrub_gpt=True):
    """Assemble the Image; expect_accept strictly from the property text of C02."""
    n = len(data)
    if scrub_gpt and fmt != 'gpt' and n >= 512 and bytes(data[510:512]) == b'\x55\xaa':
        data = bytearray(data)           # accidental MBR signature in random filler: not a polyglot on purpose
        data[510] ^= 0x01
    reject = list(reject)
    if complete_at is None or n < complete_at:
        reject.append('incomplete')
        if 'incomplete' not in defects:
            defects = list(defects) + ['incomplete']
    if fmt == 'qed':
        reject.append('qed_banned')
    if reject:
        exp = False
    elif unspecified:
        exp = None
    else:
        exp = True
    wf = not defects
    traits = dict(reject=reject, unspecified=list(unspecified), defects=list(defects),
                  complete_at=complete_at, tail_sensitive=tail_sensitive,
                  size_known_at=complete_at if size_known_at is None else size_known_at)
    if extra:
        traits.update(extra)
    traits['zones'] = zones_of(bytes(data))
    return Image(fmt, data, declared if wf else None, bounds, traits, wf, exp, fields, params)


# ---------------------------------------------------------------------------
# raw
# ---------------------------------------------------------------------------
def build_raw(rng=None, **params):
    """raw: length=int, content='zero'|'random'|'text'|bytes.  Any accidental signature of another format
    is scrubbed so that the stream matches nothing else.  declared_size = stream length."""
    rng = _rng(rng)
    _check_params('build_raw', params, ('length', 'content'))
    n = params.get('length')
    if n is None:
        n = rng.choice([0, 1, 511, 512, 513, 4096, 40000])
    content = params.get('content', rng.choice(['zero', 'random', 'text']))
    buf = _fill(rng, n, content)
    _scrub(buf)
    return _result('raw', buf, n, [0, n], {}, dict(params, length=n, content=content if isinstance(content, str) else 'bytes'),
                   [], [], [], 0, extra={'content': content if isinstance(content, str) else 'bytes'})


def _scrub(buf):
    """Remove accidental signatures (used by raw/unstructured builders)."""
    for _ in range(4):
        em = expected_matches(bytes(buf))
        hit = [f for f, v in em.items() if v is not False]
        if not hit:
            return
        for f in hit:
            if f == 'gpt':
                buf[510] ^= 0x01
            elif f == 'vdi':
                buf[0x40] ^= 0x01
            elif f == 'iso':
                buf[32769] ^= 0x20
            else:
                buf[0] ^= 0x20


# ---------------------------------------------------------------------------
# qcow2
# ---------------------------------------------------------------------------
QCOW2_MAGIC = b'QFI\xfb'
QCOW2_KNOWN_HARMLESS_BITS = (0, 1, 3)      # dirty, corrupt, compression type: accepted by the code, text silent
QCOW2_DATAFILE_BIT = 2


def build_qcow2(rng=None, **params):
    """qcow2 header (big-endian), captured region [0,512).
    params: magic=b'QFI\\xfb', version=3, backing_offset=0, backing_size=None, backing_name=None,
    size=<u64>, incompat=0 (64-bit word at 0x48, bit i = 1<<i; or feature_bits=[i,...]), compat=None,
    autoclear=None (random), cluster_bits=16, header_length=None, length=None (>=512 for a complete
    image), fill='random'|'zero', irrelevant='random'|'zero'.
    For version != 3 the words at 0x48.. are written only if given explicitly (default zero)."""
    rng = _rng(rng)
    _check_params('build_qcow2', params, ('magic', 'version', 'backing_offset', 'backing_size', 'backing_name',
                                          'size', 'incompat', 'feature_bits', 'compat', 'autoclear', 'cluster_bits',
                                          'header_length', 'length', 'fill', 'irrelevant'))
    p = dict(params)
    magic = p.get('magic', QCOW2_MAGIC)
    version = p.get('version', 3)
    bf_off = p.get('backing_offset', 0)
    size = p.get('size', rng.getrandbits(rng.choice([20, 34, 64])))
    incompat = p.get('incompat', 0)
    for b in p.get('feature_bits', ()):
        incompat |= 1 << b
    irr = p.get('irrelevant', 'random')
    rnd = (lambda bits: rng.getrandbits(bits)) if irr == 'random' else (lambda bits: 0)
    v3 = version == 3
    compat = p.get('compat', rnd(64) if v3 else 0)
    autoclear = p.get('autoclear', rnd(64) if v3 else 0)
    cluster_bits = p.get('cluster_bits', 16)
    bname = p.get('backing_name')
    if bname is None:
        bname = b'/etc/passwd' if bf_off else b''
    bf_sz = p.get('backing_size', len(bname) if bf_off else 0)
    hlen = p.get('header_length', 104 if v3 else 0)
    length = p.get('length')
    if length is None:
        length = rng.choice([512, 513, 1024, 4096, 65536])
    buf = _fill(rng, length, p.get('fill', 'random'))
    hdr = struct.pack('>4sIQIIQIIQQIIQ', bytes(magic)[:4].ljust(4, b'\0'), version & U32, bf_off & U64, bf_sz & U32,
                      cluster_bits & U32, size & U64, rnd(1), rnd(20), rnd(40) & ~0xFFFF, rnd(40) & ~0xFFFF,
                      rnd(8), rnd(4), rnd(40))
    hdr += struct.pack('>QQQII', incompat & U64, compat & U64, autoclear & U64, rnd(3) if v3 else 0, hlen & U32)
    hdr += bytes(8) if irr == 'zero' else b''
    _put(buf, 0, hdr)
    if bf_off and bf_off + len(bname) <= length and bf_off >= 104:
        _put(buf, bf_off, bname)
    F = Field
    fields = {f.name: f for f in [
        F('magic', 0, 4, 'raw', 'structural'),
        F('version', 4, 4, 'be', 'safety', (0, 1, 2, 3, 4, 5, 0x02000000, 0x03000000)),
        F('backing_offset', 8, 8, 'be', 'safety', (0, 1, 104, 512)),
        F('backing_size', 16, 4, 'be'), F('cluster_bits', 20, 4, 'be'),
        F('size', 24, 8, 'be', 'size'),
        F('crypt_method', 32, 4, 'be'), F('l1_size', 36, 4, 'be'), F('l1_table_offset', 40, 8, 'be'),
        F('refcount_table_offset', 48, 8, 'be'), F('refcount_table_clusters', 56, 4, 'be'),
        F('nb_snapshots', 60, 4, 'be'), F('snapshots_offset', 64, 8, 'be'),
        F('incompat', 72, 8, 'be', 'safety', tuple(1 << k for k in range(64)) + (0xF, 0x10, 0x1F, 0xB)),
        F('compat', 80, 8, 'be'), F('autoclear', 88, 8, 'be'),
        F('refcount_order', 96, 4, 'be'), F('header_length', 100, 4, 'be')]}
    reject, unspec, defects = [], [], []
    if bytes(magic)[:4] != QCOW2_MAGIC:
        reject.append('mismatch'); defects.append('bad_magic')
    if version not in (2, 3):
        reject.append('qcow2_version'); defects.append('bad_version')
    if bf_off != 0:
        reject.append('qcow2_backing_file')
    bits = [i for i in range(64) if incompat >> i & 1]
    if version == 3:
        if QCOW2_DATAFILE_BIT in bits:
            reject.append('qcow2_data_file')
        if any(b >= 4 for b in bits):
            reject.append('qcow2_unknown_feature')
        if any(b in QCOW2_KNOWN_HARMLESS_BITS for b in bits):
            unspec.append('qcow2_known_feature_bit')
    elif bits:
        unspec.append('qcow2_feature_word_without_v3')
    bounds = [0, 4, 8, 16, 24, 32, 72, 79, 80, 104, 512]
    return _result('qcow2', buf, size & U64, bounds, fields,
                   dict(p, version=version, backing_offset=bf_off, size=size, incompat=incompat, length=length),
                   reject, unspec, defects, 512,
                   extra=dict(version=version, backing_offset=bf_off, incompat=incompat, feature_bits=bits))


# ---------------------------------------------------------------------------
# qed
# ---------------------------------------------------------------------------
def build_qed(rng=None, **params):
    """qed header (little-endian), captured region [0,512).  params: magic=b'QED\\0', image_size, length, fill.
    C07 does not name QED: declared_size is None (the base class reports the stream length); never accepted."""
    rng = _rng(rng)
    _check_params('build_qed', params, ('magic', 'image_size', 'length', 'fill', 'backing_offset'))
    magic = params.get('magic', b'QED\0')
    size = params.get('image_size', rng.getrandbits(40))
    length = params.get('length')
    if length is None:
        length = rng.choice([512, 513, 4096, 65536])
    buf = _fill(rng, length, params.get('fill', 'random'))
    hdr = struct.pack('<4sIIIQQQQQII', bytes(magic)[:4].ljust(4, b'\0'), 65536, 4, 1, rng.getrandbits(3), 0, 0,
                      65536, size & U64, params.get('backing_offset', 0), 0)
    _put(buf, 0, hdr)
    fields = {f.name: f for f in [Field('magic', 0, 4, 'raw', 'structural'),
                                  Field('cluster_size', 4, 4, 'le'), Field('features', 16, 8, 'le'),
                                  Field('image_size', 48, 8, 'le')]}
    defects = []
    reject = []
    if bytes(magic)[:4] != b'QED\0':
        reject.append('mismatch'); defects.append('bad_magic')
    return _result('qed', buf, None, [0, 4, 512], fields, dict(params, length=length, image_size=size),
                   reject, [], defects, 512, extra=dict(image_size=size, stream_length=length,
                                                        matches=bytes(magic)[:4] == b'QED\0' and length >= 512))


# ---------------------------------------------------------------------------
# vhd
# ---------------------------------------------------------------------------
def build_vhd(rng=None, **params):
    """VHD (dynamic layout: footer copy at offset 0, big-endian), captured region [0,512).
    params: cookie=b'conectix', size=<u64> (original size, offset 40: the field the property/inspector use),
    current_size=None (offset 48; default = size; when different traits['vhd_resized']=True), length, fill."""
    rng = _rng(rng)
    _check_params('build_vhd', params, ('cookie', 'size', 'current_size', 'length', 'fill', 'disk_type'))
    cookie = params.get('cookie', b'conectix')
    size = params.get('size', rng.getrandbits(rng.choice([20, 34, 64])))
    cur = params.get('current_size', size)
    length = params.get('length')
    if length is None:
        length = rng.choice([512, 513, 1536, 4096, 65536])
    buf = _fill(rng, length, params.get('fill', 'random'))
    foot = struct.pack('>8sIIQI4sI4sQQHBBII16sB', bytes(cookie)[:8].ljust(8, b'\0'), 2, 0x00010000, 512,
                       rng.getrandbits(32), b'qem2', 0x00050003, b'Wi2k', size & U64, cur & U64,
                       rng.getrandbits(16), rng.getrandbits(8), rng.getrandbits(8),
                       params.get('disk_type', 3), rng.getrandbits(32), rng.randbytes(16), 0)
    _put(buf, 0, foot.ljust(512, b'\0'))
    if length >= 1536:
        _put(buf, 512, b'cxsparse')
    if length >= 2048:
        _put(buf, length - 512, foot.ljust(512, b'\0'))
    fields = {f.name: f for f in [Field('cookie', 0, 8, 'raw', 'structural'), Field('features', 8, 4, 'be'),
                                  Field('data_offset', 16, 8, 'be'), Field('timestamp', 24, 4, 'be'),
                                  Field('orig_size', 40, 8, 'be', 'size'), Field('current_size', 48, 8, 'be'),
                                  Field('geometry', 56, 4, 'be'), Field('disk_type', 60, 4, 'be'),
                                  Field('checksum', 64, 4, 'be')]}
    reject, defects, unspec = [], [], []
    if bytes(cookie)[:8] != b'conectix':
        reject.append('mismatch'); defects.append('bad_cookie')
    return _result('vhd', buf, size & U64, [0, 8, 40, 48, 56, 512], fields,
                   dict(params, size=size, current_size=cur, length=length), reject, unspec, defects, 512,
                   extra=dict(vhd_resized=(cur != size), current_size=cur))


# ---------------------------------------------------------------------------
# vdi
# ---------------------------------------------------------------------------
VDI_SIGNATURE = 0xbeda107f


def build_vdi(rng=None, **params):
    """VDI header (little-endian), captured region [0,512).
    params: signature=0xbeda107f (u32 at 0x40), size=<u64> (at 0x170), text=<first 64 bytes>, length, fill."""
    rng = _rng(rng)
    _check_params('build_vdi', params, ('signature', 'size', 'text', 'length', 'fill'))
    sig = params.get('signature', VDI_SIGNATURE)
    size = params.get('size', rng.getrandbits(rng.choice([20, 34, 64])))
    text = params.get('text', b'<<< Oracle VM VirtualBox Disk Image >>>\n')
    length = params.get('length')
    if length is None:
        length = rng.choice([512, 513, 4096, 65536])
    buf = _fill(rng, length, params.get('fill', 'random'))
    hdr = bytearray(rng.randbytes(512))
    hdr[0:64] = bytes(text)[:64].ljust(64, b'\0')
    hdr[0x40:0x44] = _u(sig, 4, 'le')
    hdr[0x44:0x48] = _u(0x00010001, 4, 'le')
    hdr[0x48:0x4c] = _u(0x190, 4, 'le')
    hdr[0x170:0x178] = _u(size, 8, 'le')
    _put(buf, 0, hdr)
    fields = {f.name: f for f in [Field('text', 0, 64, 'raw'),
                                  Field('signature', 0x40, 4, 'le', 'structural',
                                        (VDI_SIGNATURE, VDI_SIGNATURE - 1, VDI_SIGNATURE + 1, 0x7f10dabe)),
                                  Field('version', 0x44, 4, 'le'), Field('header_size', 0x48, 4, 'le'),
                                  Field('image_type', 0x4c, 4, 'le'), Field('offset_data', 0x158, 4, 'le'),
                                  Field('disk_size', 0x170, 8, 'le', 'size'), Field('block_size', 0x178, 4, 'le')]}
    reject, defects = [], []
    if sig & U32 != VDI_SIGNATURE:
        reject.append('mismatch'); defects.append('bad_signature')
    return _result('vdi', buf, size & U64, [0, 64, 0x40, 0x44, 0x170, 0x178, 512], fields,
                   dict(params, size=size, length=length), reject, [], defects, 512)


# ---------------------------------------------------------------------------
# iso
# ---------------------------------------------------------------------------
ISO_IDENTS = (b'CD001', b'NSR02', b'NSR03')


def build_iso(rng=None, **params):
    """ISO 9660 / UDF: system area [0,32768) + volume descriptor [32768,34816).
    params: descriptor_type=1 (byte 0 of the descriptor), ident=b'CD001'|b'NSR02'|b'NSR03'|other,
    block_size=2048 (u16 at 128, both-endian), blocks=<u32> (at 80, both-endian), be_consistent=True
    (False: big-endian halves carry different values), system_area='zero'|'random'|'text'|bytes (embed an MBR
    or another header here for polyglots), length=None (>= 34816 to be complete), fill, terminator=True.
    declared_size = blocks*block_size when the descriptor is a primary one (type 1) with a known ident."""
    rng = _rng(rng)
    _check_params('build_iso', params, ('descriptor_type', 'ident', 'block_size', 'blocks', 'be_consistent',
                                        'system_area', 'length', 'fill', 'terminator'))
    dtype = params.get('descriptor_type', 1)
    ident = params.get('ident', b'CD001')
    bs = params.get('block_size', 2048)
    blocks = params.get('blocks', rng.getrandbits(rng.choice([8, 20, 32])))
    bec = params.get('be_consistent', True)
    sysa = params.get('system_area', rng.choice(['zero', 'random']))
    length = params.get('length')
    if length is None:
        length = 34816 + rng.choice([0, 1, 2048, 4096, 10000])
    buf = _fill(rng, length, params.get('fill', 'zero'))
    sa = _fill(rng, 32768, sysa)
    if not isinstance(sysa, (bytes, bytearray)):
        _scrub_head(sa)
    _put(buf, 0, sa)
    d = bytearray(2048)
    d[0] = dtype & 0xFF
    d[1:6] = bytes(ident)[:5].ljust(5, b'\0')
    d[6] = 1
    d[8:40] = b'LINUX'.ljust(32)
    d[40:72] = b'CDROM'.ljust(32)
    d[80:84] = _u(blocks, 4, 'le')
    d[84:88] = _u(blocks if bec else rng.getrandbits(32), 4, 'be')
    d[120:124] = b'\x01\x00\x00\x01'
    d[124:128] = b'\x01\x00\x00\x01'
    d[128:130] = _u(bs, 2, 'le')
    d[130:132] = _u(bs if bec else rng.getrandbits(16), 2, 'be')
    _put(buf, 32768, d)
    if params.get('terminator', True) and length >= 34816 + 2048:
        _put(buf, 34816, b'\xffCD001\x01')
    o = 32768
    fields = {f.name: f for f in [Field('descriptor_type', o, 1, 'le', 'size', (0, 1, 2, 3, 255)),
                                  Field('ident', o + 1, 5, 'raw', 'structural'), Field('desc_version', o + 6, 1, 'le'),
                                  Field('blocks_le', o + 80, 4, 'le', 'size'), Field('blocks_be', o + 84, 4, 'be'),
                                  Field('block_size_le', o + 128, 2, 'le', 'size', (0, 512, 2047, 2048, 2049)),
                                  Field('block_size_be', o + 130, 2, 'be')]}
    reject, defects = [], []
    known = bytes(ident)[:5] in ISO_IDENTS and len(ident) >= 5
    if not known:
        reject.append('mismatch'); defects.append('bad_ident')
    if dtype & 0xFF != 1:
        defects.append('not_primary_descriptor')
    bounds = [0, 512, 32768, o + 1, o + 6, o + 80, o + 84, o + 88, o + 128, o + 130, o + 132, 34816]
    return _result('iso', buf, (blocks & U32) * (bs & U16), bounds, fields,
                   dict(params, blocks=blocks, block_size=bs, length=length), reject, [], defects, 34816,
                   scrub_gpt=not isinstance(sysa, (bytes, bytearray)), extra=dict(descriptor_type=dtype, ident=bytes(ident),
                              size_if_matched=((blocks & U32) * (bs & U16) if dtype & 0xFF == 1 else 0)))


def _scrub_head(sa):
    """Make a generated system area / boot code free of accidental signatures at offset 0, 0x40 and 510."""
    if len(sa) >= 8 and bytes(sa[:4]) in (QCOW2_MAGIC, b'QED\0', b'KDMV') or bytes(sa[:8]) in (b'conectix', b'vhdxfile') \
            or bytes(sa[:6]) == b'LUKS\xba\xbe':
        sa[0] ^= 0x20
    if len(sa) >= 0x44 and bytes(sa[0x40:0x44]) == _u(VDI_SIGNATURE, 4, 'le'):
        sa[0x40] ^= 1
    if len(sa) >= 512 and bytes(sa[510:512]) == b'\x55\xaa':
        sa[510] ^= 1
    # a text-looking head would put the VMDK inspector into its text mode (zone F1): make byte 0 binary
    if len(sa) >= 1 and all(_is_textbyte(c) for c in sa[:64]):
        sa[0] = 0xEB if len(sa) > 0 else 0


def _is_textbyte(c):
    return c < 128 and (chr(c).isprintable() or chr(c).isspace())


# ---------------------------------------------------------------------------
# gpt / mbr
# ---------------------------------------------------------------------------
MBR_PTE_START = 446
PROTECTIVE = dict(boot=0, chs_start=(0, 2, 0), type=0xEE, chs_end=(0xFF, 0xFF, 0xFF), lba=1, size=0xFFFFFFFF)
EMPTY_PTE = dict(boot=0, chs_start=(0, 0, 0), type=0, chs_end=(0, 0, 0), lba=0, size=0)
MBR_TYPES = (0x83, 0x82, 0x8E, 0x07, 0x0B, 0x0C, 0x05, 0x0F, 0xA5, 0xAF, 0xEF, 0xED, 0xFD, 0x01, 0xFF)


def pte(boot=0, type=0x83, lba=2048, size=204800, chs_start=(0x20, 0x21, 0x00), chs_end=(0xFE, 0xFF, 0xFF)):
    """One partition table entry as a dict (boot flag, CHS start 3 raw bytes, type, CHS end, LBA, size)."""
    return dict(boot=boot, chs_start=tuple(chs_start), type=type, chs_end=tuple(chs_end), lba=lba, size=size)


def _pte_bytes(e):
    e = dict(EMPTY_PTE, **e)
    return struct.pack('<B3BB3BII', e['boot'] & 0xFF, *[x & 0xFF for x in e['chs_start']], e['type'] & 0xFF,
                       *[x & 0xFF for x in e['chs_end']], e['lba'] & U32, e['size'] & U32)


def gpt_table_verdict(ptes):
    """Ground truth from the C02 text for a 4-entry table: (reject reasons, unspecified reasons)."""
    reject = []
    ptes = [dict(EMPTY_PTE, **e) for e in ptes]
    if any(e['boot'] & 0xFF not in (0x00, 0x80) for e in ptes):
        reject.append('mbr_invalid_boot_flag')
    used = [i for i, e in enumerate(ptes) if e['type'] & 0xFF != 0]
    prot = [i for i, e in enumerate(ptes) if e['type'] & 0xFF == 0xEE]
    if prot:
        if prot != [0]:
            reject.append('gpt_protective_misplaced')
        for i in prot:
            e = ptes[i]
            if tuple(x & 0xFF for x in e['chs_start']) != (0, 2, 0) or e['lba'] & U32 != 1:
                if 'gpt_protective_misplaced' not in reject:
                    reject.append('gpt_protective_misplaced')
        if len(used) > 1:
            reject.append('gpt_protective_accompanied')
    if not used:
        reject.append('mbr_no_partition')
    return reject, []


def build_gpt(rng=None, **params):
    """MBR / protective MBR, captured region [0,512).
    params: kind='gpt'|'mbr' (default table), ptes=[4 dicts from pte()/PROTECTIVE/EMPTY_PTE], signature=0xAA55
    (u16 LE at 510), b10=None, b15=None (bytes 0x10 / 0x15: the FAT look-alike is b10==2 and b15==0xF8; by default
    they are random but never that pair), boot_code='random'|'zero'|bytes, gpt_header=True ('EFI PART' at 512),
    length=None, fill.  declared_size = stream length."""
    rng = _rng(rng)
    _check_params('build_gpt', params, ('kind', 'ptes', 'signature', 'b10', 'b15', 'boot_code', 'gpt_header',
                                        'length', 'fill'))
    kind = params.get('kind', rng.choice(['gpt', 'mbr']))
    ptes = params.get('ptes')
    if ptes is None:
        if kind == 'gpt':
            ptes = [dict(PROTECTIVE, boot=rng.choice([0, 0, 0x80]), size=rng.choice([0xFFFFFFFF, rng.getrandbits(32)]),
                         chs_end=tuple(rng.randbytes(3)))] + [dict(EMPTY_PTE)] * 3
        else:
            ptes = [dict(EMPTY_PTE) for _ in range(4)]
            for i in rng.sample(range(4), rng.randint(1, 4)):
                ptes[i] = pte(boot=rng.choice([0, 0x80]), type=rng.choice(MBR_TYPES), lba=rng.getrandbits(32),
                              size=rng.getrandbits(32), chs_start=tuple(rng.randbytes(3)),
                              chs_end=tuple(rng.randbytes(3)))
    ptes = [dict(EMPTY_PTE, **e) for e in ptes]
    while len(ptes) < 4:
        ptes.append(dict(EMPTY_PTE))
    sig = params.get('signature', 0xAA55)
    length = params.get('length')
    if length is None:
        length = rng.choice([512, 513, 1024, 1536, 17408, 40000])
    buf = _fill(rng, length, params.get('fill', 'zero'))
    bc = params.get('boot_code', 'random')
    mbr = bytearray(512)
    mbr[0:446] = _fill(rng, 446, bc)
    if not isinstance(bc, (bytes, bytearray)):
        _scrub_head(mbr)
    b10, b15 = params.get('b10'), params.get('b15')
    if b10 is None and b15 is None and mbr[0x10] == 2 and mbr[0x15] == 0xF8:
        mbr[0x15] = 0xF0
    if b10 is not None:
        mbr[0x10] = b10 & 0xFF
    if b15 is not None:
        mbr[0x15] = b15 & 0xFF
    for i, e in enumerate(ptes[:4]):
        mbr[446 + 16 * i:462 + 16 * i] = _pte_bytes(e)
    mbr[510:512] = _u(sig, 2, 'le')
    _put(buf, 0, mbr)
    if params.get('gpt_header', kind == 'gpt') and length >= 1024:
        _put(buf, 512, b'EFI PART\x00\x00\x01\x00\x5c\x00\x00\x00')
    F = Field
    fl = [F('b10', 0x10, 1, 'le', 'structural', (1, 2, 3)), F('b15', 0x15, 1, 'le', 'structural', (0xF7, 0xF8, 0xF9)),
          F('signature', 510, 2, 'le', 'structural', (0xAA55, 0x55AA, 0xAA54, 0xAA56, 0, 0xFFFF))]
    bounds = [0, 0x10, 0x11, 0x15, 0x16, 446, 510, 512, 1024]
    for i in range(4):
        o = 446 + 16 * i
        bounds += [o, o + 1, o + 4, o + 5, o + 8, o + 12]
        fl += [F('pte%d_boot' % i, o, 1, 'le', 'safety', (0, 0x80, 0x7F, 0x81, 1, 0xFF)),
               F('pte%d_chs_h' % i, o + 1, 1, 'le', 'safety', (0, 1)), F('pte%d_chs_s' % i, o + 2, 1, 'le', 'safety', (1, 2, 3)),
               F('pte%d_chs_c' % i, o + 3, 1, 'le', 'safety', (0, 1)),
               F('pte%d_type' % i, o + 4, 1, 'le', 'safety', (0, 0xEE, 0xED, 0xEF, 0x83, 0xFF)),
               F('pte%d_chs_end' % i, o + 5, 3, 'raw'),
               F('pte%d_lba' % i, o + 8, 4, 'le', 'safety', (0, 1, 2, 0x01000000)), F('pte%d_size' % i, o + 12, 4, 'le')]
    fields = {f.name: f for f in fl}
    reject, unspec = gpt_table_verdict(ptes[:4])
    defects = []
    fat = mbr[0x10] == 2 and mbr[0x15] == 0xF8
    if sig & U16 != 0xAA55 or fat:
        reject.append('mismatch'); defects.append('bad_signature' if not fat else 'fat_lookalike')
    return _result('gpt', buf, length, bounds, fields, dict(params, kind=kind, ptes=ptes, length=length),
                   reject, unspec, defects, 512, extra=dict(ptes=ptes[:4], fat_lookalike=fat, kind=kind))


def mbr_family(rng, tier='quick'):
    """Bounded family of partition tables: every subset of occupied slots (2^4) x partition type x boot flag,
    plus protective-entry placements and start-address perturbations.  Yields lists of four pte dicts."""
    rng = _rng(rng)
    types = (0x83, 0xEE, 0x07) if tier == 'quick' else (0x83, 0xEE, 0x07, 0xEF, 0xED, 0x01, 0xFF)
    boots = (0x00, 0x80, 0x01, 0x7F, 0x81, 0xFF) if tier != 'quick' else (0x00, 0x80, 0x01, 0x81)
    for mask in range(16):
        for t in types:
            for b in boots:
                tab = []
                for i in range(4):
                    if mask >> i & 1:
                        e = dict(PROTECTIVE) if t == 0xEE else pte(type=t, lba=rng.getrandbits(32), size=rng.getrandbits(32))
                        e['boot'] = b
                    else:
                        e = dict(EMPTY_PTE)
                    tab.append(e)
                yield tab
    # boot flag invalid on an EMPTY entry, next to a valid partition
    for i in range(4):
        for b in (0x01, 0x7F, 0x81, 0xFF):
            tab = [pte(type=0x83)] + [dict(EMPTY_PTE) for _ in range(3)]
            if i == 0:
                tab[0]['boot'] = b
            else:
                tab[i] = dict(EMPTY_PTE, boot=b)
            yield tab
    # protective entry: slot x start CHS x start LBA x companion
    for slot in range(4):
        for chs in ((0, 2, 0), (0, 1, 0), (0, 3, 0), (1, 2, 0), (0, 2, 1), (0, 0, 0)):
            for lba in (1, 0, 2, 0x01000000, U32):
                if tier == 'quick' and chs != (0, 2, 0) and lba != 1:
                    continue
                for companion in (None, 0x83, 0xEE):
                    tab = [dict(EMPTY_PTE) for _ in range(4)]
                    tab[slot] = dict(PROTECTIVE, chs_start=chs, lba=lba)
                    if companion is not None:
                        other = (slot + 1 + rng.randrange(3)) % 4
                        tab[other] = dict(PROTECTIVE) if companion == 0xEE else pte(type=companion)
                    yield tab
    # mixed random tables
    for _ in range(20 if tier == 'quick' else 300):
        tab = []
        for i in range(4):
            r = rng.random()
            if r < 0.35:
                tab.append(dict(EMPTY_PTE, boot=rng.choice([0, 0, 0, 0x80, 1])))
            elif r < 0.5:
                tab.append(dict(PROTECTIVE, boot=rng.choice([0, 0x80]), lba=rng.choice([1, 1, 1, 2]),
                                chs_start=rng.choice([(0, 2, 0), (0, 2, 0), (0, 1, 0)])))
            else:
                tab.append(pte(boot=rng.choice([0, 0x80, 0x80, 2]), type=rng.choice(MBR_TYPES)))
        yield tab


# ---------------------------------------------------------------------------
# luks
# ---------------------------------------------------------------------------
LUKS_MAGIC = b'LUKS\xba\xbe'


def build_luks(rng=None, **params):
    """LUKS v1 header (big-endian), captured region [0,592).
    params: magic, version=1 (int16 at 6, stored modulo 2^16: 0xFFFF reads back as -1), payload_offset=None
    (u32 sectors at 104), length=None, payload_size=None (alternative to length: bytes after the payload offset),
    fill.  declared_size = stream length - payload_offset*512 (well-formed needs it >= 0 and length >= 592)."""
    rng = _rng(rng)
    _check_params('build_luks', params, ('magic', 'version', 'payload_offset', 'length', 'payload_size', 'fill'))
    magic = params.get('magic', LUKS_MAGIC)
    version = params.get('version', 1)
    po = params.get('payload_offset')
    if po is None:
        po = rng.choice([2, 3, 8, 16, 64])
    length = params.get('length')
    if length is None:
        ps = params.get('payload_size')
        if ps is None:
            ps = rng.choice([0, 1, 512, 4096, rng.randrange(0, 20000)])
        length = po * 512 + ps
    buf = _fill(rng, length, params.get('fill', 'random'))
    hdr = struct.pack('>6sH32s32s32sII20s32sI40s', bytes(magic)[:6].ljust(6, b'\0'), version & U16, b'aes', b'xts-plain64',
                      b'sha256', po & U32, 64, rng.randbytes(20), rng.randbytes(32), rng.getrandbits(20),
                      b'01234567-89ab-cdef-0123-456789abcdef')
    hdr += b''.join(struct.pack('>II32sII', rng.choice([0x0000DEAD, 0x00AC71F3]), rng.getrandbits(20),
                                rng.randbytes(32), 8 + 256 * i, 4000) for i in range(8))
    assert len(hdr) == 592
    _put(buf, 0, hdr)
    fields = {f.name: f for f in [Field('magic', 0, 6, 'raw', 'structural'),
                                  Field('version', 6, 2, 'be', 'safety', (0, 1, 2, 0x0100, 0x7FFF, 0x8000, 0xFFFF)),
                                  Field('cipher_name', 8, 32, 'raw'), Field('cipher_mode', 40, 32, 'raw'),
                                  Field('hash_spec', 72, 32, 'raw'),
                                  Field('payload_offset', 104, 4, 'be', 'size', (0, 1, 2, length // 512, length // 512 + 1)),
                                  Field('key_bytes', 108, 4, 'be'), Field('mk_iterations', 164, 4, 'be')]}
    reject, defects = [], []
    if bytes(magic)[:6] != LUKS_MAGIC:
        reject.append('mismatch'); defects.append('bad_magic')
    if version & U16 != 1:
        reject.append('luks_version')
    if (po & U32) * 512 > length:
        defects.append('payload_beyond_stream')
    return _result('luks', buf, length - (po & U32) * 512, [0, 6, 8, 104, 108, 592, (po & U32) * 512], fields,
                   dict(params, version=version, payload_offset=po, length=length), reject, [], defects, 592,
                   extra=dict(version=version, payload_offset=po))


# ---------------------------------------------------------------------------
# vmdk
# ---------------------------------------------------------------------------
VMDK_MAGIC = b'KDMV'
GD_AT_END = 0xffffffffffffffff
VMDK_DESC_MAX = (1 << 20) - 1
VMDK_SAFE_TYPES = ('monolithicSparse', 'streamOptimized')
VMDK_OTHER_TYPES = ('monolithicFlat', 'twoGbMaxExtentSparse', 'twoGbMaxExtentFlat', 'vmfs', 'vmfsSparse',
                    'vmfsRaw', 'vmfsRawDeviceMap', 'fullDevice', 'partitionedDevice', 'custom', '', ' ',
                    'monolithicSparse ', ' monolithicSparse', 'monolithicSparse2', 'monolithic', 'Sparse',
                    'streamOptimised', 'monolithicsparse\tx')


# Descriptor lines are (class, text) pairs; the class is the ground truth used for expect_accept.
#   comment blank ddb header extent : recognised line classes (C02: anything else is "an unrecognised line")
#   junk   : unrecognised line  -> must be rejected
#   quirk  : oddly spelled line the property text does not classify -> expect_accept None
# An extent carries path = 'none' | 'slash' (names a path: must be rejected) | 'backslash' | 'otherfile' | 'odd'
def L_comment(text='# Disk DescriptorFile'):
    return ('comment', text)


def L_blank(text=''):
    return ('blank', text)


def L_ddb(text='ddb.adapterType = "ide"'):
    return ('ddb', text)


def L_header(text='version=1'):
    return ('header', text)


def L_extent(access='RW', sectors=2048, kind='SPARSE', name='disk.vmdk', offset=None, path=None, text=None):
    """Extent line.  path classification is inferred from the file name unless given."""
    if text is None:
        text = '%s %d %s' % (access, sectors, kind)
        if name is not None:
            text += ' "%s"' % name
        if offset is not None:
            text += ' %d' % offset
    if path is None:
        nm = name if name is not None else ''
        if '/' in text:
            path = 'slash'
        elif '\\' in nm:
            path = 'backslash'
        else:
            path = 'none'
    return ('extent:' + path, text)


def L_junk(text='this line is not part of a descriptor'):
    return ('junk', text)


def L_quirk(text):
    return ('quirk', text)


def vmdk_descriptor(rng=None, create_type='monolithicSparse', create_type_form='quoted', create_type_pos=None,
                    lines=None, extents=None, newline='\n', trailing_newline=True, capacity=2048):
    """Build descriptor text.  Returns (bytes, info) where info has 'reject', 'unspecified' reason lists.
    create_type_form: 'quoted' createType="X" | 'absent' | 'unquoted' createType=X | 'spaced' createType = "X" |
                      'noclose' createType="X (no closing quote) | 'upperkey' CREATETYPE="X" | 'raw' (create_type is
                      the full line).
    lines: list of (class, text) from the L_* constructors (default: a realistic qemu-img style descriptor);
    extents: list of L_extent(...) (default one clean extent) - appended after `lines` when lines is None."""
    rng = _rng(rng)
    if extents is None:
        extents = [L_extent('RW', capacity, 'SPARSE', 'disk.vmdk')]
    if lines is None:
        lines = [L_comment('# Disk DescriptorFile'), L_header('version=1'),
                 L_header('CID=%08x' % rng.getrandbits(32)), L_header('parentCID=ffffffff'),
                 L_blank(), L_comment('# Extent description')] + list(extents) + \
                [L_blank(), L_comment('# The Disk Data Base'), L_comment('#DDB'), L_blank(),
                 L_ddb('ddb.virtualHWVersion = "4"'), L_ddb('ddb.geometry.cylinders = "%d"' % rng.randrange(1, 16384)),
                 L_ddb('ddb.geometry.heads = "16"'), L_ddb('ddb.geometry.sectors = "63"'),
                 L_ddb('ddb.adapterType = "ide"')]
        default_pos = 4
    else:
        lines = list(lines)
        default_pos = 0
    reject, unspec = [], []
    form = create_type_form
    if form == 'quoted':
        ct = ('createtype', 'createType="%s"' % create_type)
    elif form == 'upperkey':
        ct = ('createtype', 'CREATETYPE="%s"' % create_type)
    elif form == 'unquoted':
        ct = ('createtype', 'createType=%s' % create_type)
    elif form == 'spaced':
        ct = ('createtype', 'createType = "%s"' % create_type)
    elif form == 'noclose':
        ct = ('createtype', 'createType="%s' % create_type)
    elif form == 'raw':
        ct = ('createtype', create_type)
    elif form == 'absent':
        ct = None
    else:
        raise ValueError(form)
    if ct is not None:
        pos = default_pos if create_type_pos is None else create_type_pos
        pos = max(0, min(len(lines), pos if pos >= 0 else len(lines) + 1 + pos))
        lines.insert(pos, ct)
    # ---- ground truth from the property text
    if form == 'absent':
        reject.append('vmdk_createtype_absent')
    elif form == 'raw':
        unspec.append('vmdk_createtype_raw_line')
    elif create_type in VMDK_SAFE_TYPES:
        if form in ('unquoted', 'spaced', 'noclose', 'upperkey'):
            unspec.append('vmdk_createtype_spelling_' + form)
    elif create_type.lower() in [t.lower() for t in VMDK_SAFE_TYPES]:
        unspec.append('vmdk_createtype_case')
    else:
        reject.append('vmdk_createtype_other')
    n_ext = 0
    seen_real = shadowed = False
    for cls, text in lines:
        if cls == 'junk':
            reject.append('vmdk_unrecognised_line')
        elif cls == 'quirk':
            unspec.append('vmdk_quirky_line')
        elif cls.startswith('extent:'):
            n_ext += 1
            path = cls.split(':', 1)[1]
            if path == 'slash':
                reject.append('vmdk_extent_path')
            elif path != 'none':
                unspec.append('vmdk_extent_' + path)
        if cls != 'createtype' and 'createtype="' in text.lower():
            # a second createType token (in a comment, a value, a duplicate line): the text does not say which counts
            unspec.append('vmdk_createtype_duplicate')
            if not seen_real:
                shadowed = True
        if cls == 'createtype':
            seen_real = True
    if n_ext == 0:
        reject.append('vmdk_no_extent')
    if shadowed:
        # the other token comes first: whether the declared (later) type counts is not settled by the property text
        unspec += [r + '_shadowed' for r in reject if r.startswith('vmdk_createtype')]
        reject = [r for r in reject if not r.startswith('vmdk_createtype')]
    text = newline.join(t for _c, t in lines)
    if trailing_newline:
        text += newline
    data = text.encode('latin-1')
    return data, dict(reject=reject, unspecified=unspec, lines=lines, n_extents=n_ext)


def _vmdk_header(sig, version, flags, capacity, grain, desc_sec, desc_num, num_gtes, rgd, gd, overhead, extra):
    h = struct.pack('<4sIIQQQQIQQQB4sH', bytes(sig)[:4].ljust(4, b'\0'), version & U32, flags & U32, capacity & U64,
                    grain & U64, desc_sec & U64, desc_num & U64, num_gtes & U32, rgd & U64, gd & U64, overhead & U64,
                    0, b'\n \r\n', extra & U16)
    return h.ljust(512, b'\0')


def _vmdk_fields(base, prefix, role_safety):
    F = Field
    rs = 'safety' if role_safety else 'irrelevant'
    return [F(prefix + 'signature', base, 4, 'raw', 'structural'),
            F(prefix + 'version', base + 4, 4, 'le', 'structural', (0, 1, 2, 3, 4, 0x01000000)),
            F(prefix + 'flags', base + 8, 4, 'le', 'irrelevant', (0, 3, 0x30003, 0x20000, 0x10000)),
            F(prefix + 'capacity', base + 12, 8, 'le', 'size' if not prefix else 'irrelevant'),
            F(prefix + 'grain', base + 20, 8, 'le'),
            F(prefix + 'desc_sec', base + 28, 8, 'le', 'structural', (0, 1, 2, 1 << 55, (1 << 55) + 1)),
            F(prefix + 'desc_num', base + 36, 8, 'le', 'structural',
              (0, 1, 2, 20, 2047, 2048, 2049, 1 << 55, (1 << 55) + 1, U64 // 512, U64 // 512 + 1, U64)),
            F(prefix + 'num_gtes', base + 44, 4, 'le'), F(prefix + 'rgd_offset', base + 48, 8, 'le'),
            F(prefix + 'gd_offset', base + 56, 8, 'le', 'structural' if not prefix else rs,
              (GD_AT_END, GD_AT_END - 1, 0, 1)),
            F(prefix + 'overhead', base + 64, 8, 'le')]


VMDK_FOOTER_CHECKED = ('signature', 'version', 'desc_sec', 'desc_num', 'gd_offset')
VMDK_FOOTER_UNCHECKED = ('flags', 'capacity', 'grain', 'num_gtes', 'rgd_offset', 'overhead')


def build_vmdk(rng=None, **params):
    """VMDK.  subformat='monolithicSparse' (header + descriptor + body), 'streamOptimized' (gdOffset=GD_AT_END,
    + footer marker, footer, end-of-stream marker) or 'text' (descriptor-only file, no binary header).
    Header params (little-endian sparse extent header, [0,512), the inspector parses its first 64 bytes):
      signature=b'KDMV', version=1 (valid 1..3), flags, capacity=<u64 sectors>, grain=128, desc_sec=1 (must be 1:
      descriptor at 0x200), desc_num=None (sectors; default ceil(text)+slack; capture length is
      min(desc_num*512, 2^20-1)), num_gtes=512, rgd_offset, gd_offset=None (GD_AT_END for streamOptimized),
      overhead.
    Descriptor params: descriptor=<bytes> (verbatim; classification then needs desc_reject/desc_unspecified lists)
      or the keyword arguments of vmdk_descriptor(): create_type (default = subformat), create_type_form,
      create_type_pos, lines, extents, newline, trailing_newline.  desc_pad=b'\\0' padding byte(s) after the text,
      nul_at=None (insert a NUL at that text offset: the rest of the text is then behind the terminator),
      desc_area=None (bytes physically laid out for the descriptor area; default min(desc_num*512, 2 MiB)).
    Body: body_len=None, body_fill='random'.
    Footer (streamOptimized): has_footer=None (default: gd_offset == GD_AT_END), footer={field: value} overriding the
      footer's copy of the header (signature version flags capacity grain desc_sec desc_num num_gtes rgd_offset
      gd_offset overhead; default gd_offset = real directory sector), footer_marker={val,size,type,pad},
      eos={val,size,type,pad}, tail=b'' (bytes appended after the end-of-stream marker), length=None (final
      truncation/extension of the whole stream with zero bytes).
    declared_size = capacity*512."""
    rng = _rng(rng)
    allowed = ('subformat', 'signature', 'version', 'flags', 'capacity', 'grain', 'desc_sec', 'desc_num', 'num_gtes',
               'rgd_offset', 'gd_offset', 'overhead', 'descriptor', 'desc_reject', 'desc_unspecified', 'create_type',
               'create_type_form', 'create_type_pos', 'lines', 'extents', 'newline', 'trailing_newline', 'desc_pad',
               'nul_at', 'desc_area', 'body_len', 'body_fill', 'has_footer', 'footer', 'footer_marker', 'eos', 'tail', 'length')
    _check_params('build_vmdk', params, allowed)
    p = dict(params)
    sub = p.get('subformat', 'monolithicSparse')
    text_mode = sub == 'text'
    capacity = p.get('capacity', rng.getrandbits(rng.choice([12, 24, 40, 55])))
    reject, unspec, defects = [], [], []
    # ---- descriptor text
    if 'descriptor' in p:
        text = bytes(p['descriptor'])
        reject += list(p.get('desc_reject', ()))
        unspec += list(p.get('desc_unspecified', ()))
        if 'desc_reject' not in p and 'desc_unspecified' not in p:
            unspec.append('vmdk_verbatim_descriptor')
        dinfo = dict(lines=None, n_extents=None)
    else:
        kw = {k: p[k] for k in ('create_type_form', 'create_type_pos', 'lines', 'extents', 'newline',
                                'trailing_newline') if k in p}
        ct = p.get('create_type', 'monolithicSparse' if text_mode else sub)
        text, dinfo = vmdk_descriptor(rng, create_type=ct, capacity=capacity & U64, **kw)
        reject += dinfo['reject']
        unspec += dinfo['unspecified']
    nul_at = p.get('nul_at')
    if nul_at is not None:
        nul_at = max(0, min(len(text), nul_at))
        if text[nul_at:].strip(b'\0'):
            # what lies behind the terminator is not part of the descriptor: the line-level ground truth no longer
            # applies, the property text does not say what must happen
            unspec += reject + ['vmdk_text_after_nul']
            reject = []
        text = text[:nul_at] + b'\0' + text[nul_at:]
    try:
        text.split(b'\0')[0].decode('ascii')
    except UnicodeDecodeError:
        reject.append('vmdk_descriptor_not_ascii')
    F = Field
    if text_mode:
        # descriptor-only file: no header; the bytes are the text (optionally padded)
        length = p.get('length')
        buf = bytearray(text)
        if length is not None:
            buf = buf[:length] + bytearray(_fill(rng, max(0, length - len(buf)), p.get('desc_pad', b'\0')))
        unspec.append('vmdk_text_only_descriptor')
        defects.append('text_only_has_no_capacity')
        bounds = [0, 4, 64, 512, len(text)]
        fields = {'text': F('text', 0, min(len(buf), 512), 'raw', 'structural')}
        return _result('vmdk', buf, None, bounds, fields, dict(p, subformat=sub), reject, unspec, defects, 64,
                       extra=dict(text_only=True, descriptor_len=len(text), desc=dinfo))
    # ---- sparse header
    sig = p.get('signature', VMDK_MAGIC)
    version = p['version'] if 'version' in p else rng.choice([1, 1, 2, 3])
    stream = sub == 'streamOptimized'
    gd = p.get('gd_offset')
    if gd is None:
        gd = GD_AT_END if stream else rng.randrange(21, 1 << 20)
    flags = p.get('flags', 0x30003 if stream else 3)
    grain = p.get('grain', 128)
    desc_sec = p.get('desc_sec', 1)
    desc_num = p.get('desc_num')
    if desc_num is None:
        desc_num = (len(text) + 511) // 512 + rng.choice([0, 0, 1, 3, 19])
        if desc_num == 0:
            desc_num = 1
    rgd = p.get('rgd_offset', 0 if stream else rng.randrange(21, 1 << 20))
    num_gtes = p.get('num_gtes', 512)
    overhead = p.get('overhead', rng.randrange(1, 1 << 12))
    hdr = _vmdk_header(sig, version, flags, capacity, grain, desc_sec, desc_num, num_gtes, rgd, gd, overhead,
                       1 if stream else 0)
    desc_size = min((desc_num & U64) * 512, VMDK_DESC_MAX)
    nominal = p.get('desc_area')                           # bytes we physically lay out for the descriptor area
    if nominal is None:
        nominal = min((desc_num & U64) * 512, 2 * MiB)
    pad = p.get('desc_pad', b'\0')
    area = bytearray(text[:nominal]) + _fill(rng, max(0, nominal - len(text)), pad)
    body_len = p.get('body_len')
    if body_len is None:
        body_len = rng.choice([0, 512, 1024, 4096, 65536])
    body = _fill(rng, body_len, p.get('body_fill', 'random'))
    buf = bytearray(hdr) + area + body
    has_footer = p.get('has_footer')
    if has_footer is None:
        has_footer = (gd & U64) == GD_AT_END
    fields_l = _vmdk_fields(0, '', False)
    bounds = [0, 4, 8, 12, 20, 28, 36, 44, 56, 64, 512, 512 + len(text), 512 + desc_size, 512 + nominal]
    tail_sensitive = (gd & U64) == GD_AT_END
    foot_base = None
    if has_footer:
        fm = dict(val=1, size=0, type=3, pad=bytes(496))
        fm.update(p.get('footer_marker', {}))
        es = dict(val=0, size=0, type=0, pad=bytes(496))
        es.update(p.get('eos', {}))
        fo = dict(signature=sig, version=version, flags=flags, capacity=capacity, grain=grain, desc_sec=desc_sec,
                  desc_num=desc_num, num_gtes=num_gtes, rgd_offset=rgd, gd_offset=max(1, len(buf) // 512 - 1),
                  overhead=overhead)
        fov = dict(p.get('footer', {}))
        fo.update(fov)
        mk = lambda m: struct.pack('<QII', m['val'] & U64, m['size'] & U32, m['type'] & U32) + bytes(m['pad'])[:496].ljust(496, b'\0')
        mstart = len(buf)
        buf += mk(fm)
        foot_base = len(buf)
        buf += _vmdk_header(fo['signature'], fo['version'], fo['flags'], fo['capacity'], fo['grain'], fo['desc_sec'],
                            fo['desc_num'], fo['num_gtes'], fo['rgd_offset'], fo['gd_offset'], fo['overhead'], 1)
        estart = len(buf)
        buf += mk(es)
        bounds += [mstart, mstart + 8, mstart + 12, mstart + 16, foot_base, foot_base + 64, estart, estart + 16,
                   estart + 512]
        fields_l += _vmdk_fields(foot_base, 'footer_', True)
        fields_l += [F('fmarker_val', mstart, 8, 'le'), F('fmarker_size', mstart + 8, 4, 'le', 'safety', (0, 1)),
                     F('fmarker_type', mstart + 12, 4, 'le', 'safety', (0, 1, 2, 3, 4)),
                     F('fmarker_pad', mstart + 16, 496, 'raw', 'safety'),
                     F('eos_val', estart, 8, 'le', 'safety', (0, 1)), F('eos_size', estart + 8, 4, 'le', 'safety', (0, 1)),
                     F('eos_type', estart + 12, 4, 'le', 'safety', (0, 1, 3)), F('eos_pad', estart + 16, 496, 'raw', 'safety')]
        # ground truth: "whose footer contradicts its header"
        for k in VMDK_FOOTER_CHECKED:
            if k == 'gd_offset':
                if fo['gd_offset'] & U64 == GD_AT_END:
                    reject.append('vmdk_footer_points_to_footer')
            elif (bytes(fo[k]) if k == 'signature' else fo[k]) != (bytes(sig) if k == 'signature' else
                                                                    {'version': version, 'desc_sec': desc_sec,
                                                                     'desc_num': desc_num}[k]):
                reject.append('vmdk_footer_contradicts_' + k)
        for k in VMDK_FOOTER_UNCHECKED:
            if k in fov and fov[k] != dict(flags=flags, capacity=capacity, grain=grain, num_gtes=num_gtes,
                                           rgd_offset=rgd, overhead=overhead)[k]:
                unspec.append('vmdk_footer_differs_' + k)
        if fm['size'] & U32 != 0 or fm['type'] & U32 != 3 or bytes(fm['pad'])[:496].strip(b'\0'):
            reject.append('vmdk_footer_marker_invalid')
        if es['val'] & U64 or es['size'] & U32 or es['type'] & U32 or bytes(es['pad'])[:496].strip(b'\0'):
            reject.append('vmdk_eos_marker_invalid')
        tail = bytes(p.get('tail', b''))
        if tail:
            buf += tail
            reject.append('vmdk_footer_not_at_end')
        if (gd & U64) != GD_AT_END:
            unspec.append('vmdk_footer_without_flag')
    elif (gd & U64) == GD_AT_END:
        reject.append('vmdk_footer_missing')
    length = p.get('length')
    if length is not None:
        if length < len(buf):
            buf = buf[:length]
            if (gd & U64) == GD_AT_END and 'vmdk_footer_missing' not in reject:
                reject.append('vmdk_footer_missing')
        else:
            if length > len(buf) and has_footer and 'vmdk_footer_not_at_end' not in reject:
                unspec.append('vmdk_zero_extension_after_eos')
            buf += bytes(length - len(buf))
    # ---- header ground truth
    if bytes(sig)[:4] != VMDK_MAGIC:
        reject.append('mismatch'); defects.append('bad_signature')
    if version & U32 not in (1, 2, 3):
        reject.append('vmdk_version'); defects.append('bad_version')
    if desc_sec & U64 != 1:
        reject.append('vmdk_descriptor_misplaced'); defects.append('descriptor_misplaced')
    if desc_num & U64 == 0:
        reject.append('vmdk_descriptor_missing'); defects.append('descriptor_missing')
    if (desc_num & U64) * 512 > VMDK_DESC_MAX and not text[:desc_size].count(b'\0') and len(text) > desc_size:
        unspec.append('vmdk_descriptor_longer_than_cap')
    if any(r.startswith('vmdk_createtype') or r == 'vmdk_descriptor_not_ascii' for r in reject) or \
            any(u.startswith('vmdk_createtype') or u in ('vmdk_verbatim_descriptor', 'vmdk_text_after_nul') for u in unspec):
        defects.append('descriptor_type_not_plainly_sparse')
    if any(r.startswith('vmdk_footer') or r.startswith('vmdk_eos') for r in reject):
        defects.append('footer_broken')
    complete_at = 512 + desc_size
    if tail_sensitive:
        complete_at = max(complete_at, min(len(buf), 1536))
        if len(buf) < 1536:
            complete_at = None
    bounds += [len(buf) - 1536, len(buf) - 1024, len(buf) - 512]
    fields = {f.name: f for f in fields_l}
    return _result('vmdk', buf, (capacity & U64) * 512, bounds, fields,
                   dict(p, subformat=sub, capacity=capacity, desc_num=desc_num, version=version, gd_offset=gd),
                   reject, unspec, defects, complete_at, tail_sensitive=tail_sensitive, size_known_at=512 + desc_size,
                   extra=dict(text_only=False, descriptor_len=len(text), desc_size=desc_size, has_footer=has_footer,
                              footer_offset=foot_base, desc=dinfo, capacity=capacity & U64))


# ---------------------------------------------------------------------------
# vhdx
# ---------------------------------------------------------------------------
GUID_METAREGION = '8B7CA206-4790-4B9A-B8FE-575F050F886E'
GUID_BAT = '2DC27766-F623-4200-9D64-115E9BFD4A08'
GUID_VDS = '2FA54224-CD1B-4876-B211-5DBED83BF4B8'
GUID_FILE_PARAMS = 'CAA16737-FA36-4D43-B3B6-33F0AA44E76B'
GUID_LOGICAL_SECTOR = '8141BF1D-A96F-4709-BA47-F233A8FAAB5F'
GUID_PHYSICAL_SECTOR = 'CDA348C7-445D-4471-9CC9-E9885251C556'
GUID_PAGE83 = 'BECA12AB-B2E6-4523-93EF-C309E000C746'
VHDX_HEADER_OFF = 192 * KiB
VHDX_HEADER_END = 256 * KiB
VHDX_META_CAP = 64 * KiB


def guid_bytes(s):
    """MSFT mixed-endian encoding of a GUID string (inverse of VHDXInspector._guid)."""
    return uuid.UUID(s).bytes_le


def _rand_guid(rng, avoid):
    while True:
        g = rng.randbytes(16)
        if g not in avoid:
            return g


def build_vhdx(rng=None, **params):
    """VHDX (little-endian).  Regions the inspector captures: ident [0,32), region table [192K,256K),
    metadata table [meta_offset, +64K) (shrunk once the size item is located), the size item [meta_offset+item_offset,+item_length).
    params: ident=b'vhdxfile', size=<u64>,
      region_sig=b'regi', region_pad_before=None (0..2046 other entries before the metadata entry), region_pad_after=None,
      region_count=None (stored count; default = number of entries written), include_meta_entry=True,
      region_entries=None (explicit list of (guid16, offset, length, required) replacing the generated table),
      meta_offset=None (anywhere >= 256 KiB; smaller values are zone F2), meta_length=1 MiB (entry field, unused),
      meta_sig=b'metadata', meta_pad_before=None (0..2046 other items before the size item), meta_pad_after=None,
      meta_count=None (stored u16 count), include_vds_entry=True,
      meta_entries=None (explicit list of (guid16, offset, length) replacing the generated item table),
      item_offset=None (relative to meta_offset; default 64 KiB.. ; any value >= 32+32*count is a forward pointer),
      item_length=8, tail=None (bytes after the item), length=None (final truncation / zero extension), fill='zero'|'random'.
    declared_size = size."""
    rng = _rng(rng)
    allowed = ('ident', 'size', 'region_sig', 'region_pad_before', 'region_pad_after', 'region_count',
               'include_meta_entry', 'region_entries', 'meta_offset', 'meta_length', 'meta_sig', 'meta_pad_before',
               'meta_pad_after', 'meta_count', 'include_vds_entry', 'meta_entries', 'item_offset', 'item_length',
               'tail', 'length', 'fill', 'creator')
    _check_params('build_vhdx', params, allowed)
    p = dict(params)
    ident = p.get('ident', b'vhdxfile')
    size = p.get('size', rng.getrandbits(rng.choice([20, 34, 64])))
    special = (guid_bytes(GUID_METAREGION), guid_bytes(GUID_VDS))
    # ---- region table
    meta_offset = p.get('meta_offset')
    if meta_offset is None:
        meta_offset = rng.choice([256 * KiB, 256 * KiB + 1, 256 * KiB + 4096, 320 * KiB, 320 * KiB + 513, 1 * MiB])
    rpb = p.get('region_pad_before')
    if rpb is None:
        rpb = rng.choice([0, 0, 1, 1, 2, 5])
    rpa = p.get('region_pad_after')
    if rpa is None:
        rpa = max(0, min(rng.choice([0, 1, 1, 2]), 2046 - rpb))
    inc_meta = p.get('include_meta_entry', True)
    rents = p.get('region_entries')
    if rents is None:
        rents = []
        for i in range(rpb):
            g = guid_bytes(GUID_BAT) if i == 0 and rng.random() < 0.7 else _rand_guid(rng, special)
            rents.append((g, rng.randrange(1, 1 << 30) * MiB, rng.getrandbits(20), rng.getrandbits(1)))
        meta_idx = len(rents) if inc_meta else None
        if inc_meta:
            rents.append((guid_bytes(GUID_METAREGION), meta_offset, p.get('meta_length', MiB), 1))
        for i in range(rpa):
            g = guid_bytes(GUID_BAT) if rpb == 0 and i == 0 else _rand_guid(rng, special)
            rents.append((g, rng.randrange(1, 1 << 30) * MiB, rng.getrandbits(20), rng.getrandbits(1)))
    else:
        rents = list(rents)
        meta_idx = next((i for i, e in enumerate(rents) if e[0] == guid_bytes(GUID_METAREGION)), None)
        if meta_idx is not None:
            meta_offset = rents[meta_idx][1]
    rcount = p.get('region_count', len(rents))
    rsig = p.get('region_sig', b'regi')
    rtab = bytearray(struct.pack('<4sIII', bytes(rsig)[:4].ljust(4, b'\0'), rng.getrandbits(32), rcount & U32, 0))
    for g, off, ln, req in rents:
        rtab += struct.pack('<16sQII', g, off & U64, ln & U32, req & U32)
    rtab = rtab[:64 * KiB]
    # ---- metadata table
    mpb = p.get('meta_pad_before')
    if mpb is None:
        mpb = rng.choice([0, 1, 2, 4, 4])
    mpa = p.get('meta_pad_after')
    if mpa is None:
        mpa = max(0, min(rng.choice([0, 0, 1, 3]), 2046 - mpb))
    inc_vds = p.get('include_vds_entry', True)
    item_length = p.get('item_length', 8)
    ments = p.get('meta_entries')
    known_items = [GUID_FILE_PARAMS, GUID_LOGICAL_SECTOR, GUID_PHYSICAL_SECTOR, GUID_PAGE83]
    n_written = (mpb + mpa + (1 if inc_vds else 0)) if ments is None else len(ments)
    mcount = p.get('meta_count', n_written)
    entries_size = 32 + 32 * (mcount & U16)
    item_offset = p.get('item_offset')
    if item_offset is None:
        lo = max(64 * KiB, entries_size)
        item_offset = rng.choice([lo, lo + 8, lo + 4096 + 16, lo + rng.randrange(0, 65536), entries_size,
                                  entries_size + rng.randrange(0, 4096)])
    if ments is None:
        ments = []
        for i in range(mpb):
            g = guid_bytes(known_items[i]) if i < len(known_items) else _rand_guid(rng, special)
            ments.append((g, 64 * KiB + 16 * rng.randrange(1, 4000), rng.choice([4, 8, 16]), rng.getrandbits(3)))
        vds_idx = len(ments) if inc_vds else None
        if inc_vds:
            ments.append((guid_bytes(GUID_VDS), item_offset, item_length, 6))
        for i in range(mpa):
            ments.append((_rand_guid(rng, special), 64 * KiB + 16 * rng.randrange(1, 4000), rng.choice([4, 8, 16]), 0))
    else:
        ments = [tuple(e) + (0,) * (4 - len(e)) for e in ments]
        vds_idx = next((i for i, e in enumerate(ments) if e[0] == guid_bytes(GUID_VDS)), None)
        if vds_idx is not None:
            item_offset, item_length = ments[vds_idx][1], ments[vds_idx][2]
    msig = p.get('meta_sig', b'metadata')
    mtab = bytearray(struct.pack('<8sHH20s', bytes(msig)[:8].ljust(8, b'\0'), 0, mcount & U16, bytes(20)))
    for g, off, ln, flg in ments:
        mtab += struct.pack('<16sIIII', g, off & U32, ln & U32, flg & U32, 0)
    mtab = mtab[:VHDX_META_CAP + 64]
    # ---- physical layout
    mo, io = meta_offset & U64, item_offset & U32
    phys_meta = mo < 64 * MiB            # do not materialise absurd offsets
    need = VHDX_HEADER_END
    if phys_meta:
        need = max(need, mo + len(mtab))
        if vds_idx is not None and mo + io + 8 < 64 * MiB:
            need = max(need, mo + io + max(8, min(item_length & U32, 8)))
    tail = p.get('tail')
    if tail is None:
        tail = rng.choice([0, 0, 1, 512, 4096])
    fill = p.get('fill', 'zero')
    buf = _fill(rng, need + (tail if isinstance(tail, int) else 0), fill)
    if not isinstance(tail, int):
        buf += bytes(tail)
    creator = p.get('creator', 'QEMU v7.2.0'.encode('utf-16-le'))
    _put(buf, 0, bytes(ident)[:8].ljust(8, b'\0') + bytes(creator)[:512])
    for o in (64 * KiB, 128 * KiB):
        _put(buf, o, b'head' + rng.randbytes(4) + struct.pack('<Q', rng.getrandbits(16)))
    _put(buf, VHDX_HEADER_OFF, rtab)
    if phys_meta:
        _put(buf, mo, mtab)
        if vds_idx is not None:
            _put(buf, mo + io, struct.pack('<Q', size & U64))
    length = p.get('length')
    if length is not None:
        buf = buf[:length] + bytearray(max(0, length - len(buf)))
    # ---- fields, boundaries
    F = Field
    H = VHDX_HEADER_OFF
    fl = [F('ident', 0, 8, 'raw', 'structural'), F('region_sig', H, 4, 'raw', 'structural'),
          F('region_checksum', H + 4, 4, 'le'),
          F('region_count', H + 8, 4, 'le', 'structural', (0, 1, len(rents) - 1, len(rents), len(rents) + 1, 2046, 2047, 2048, 65535, U32))]
    bounds = [0, 8, 32, 64 * KiB, 128 * KiB, H, H + 4, H + 8, H + 12, H + 16, H + 16 + 32 * len(rents), VHDX_HEADER_END]
    if meta_idx is not None and 16 + 32 * (meta_idx + 1) <= 64 * KiB:
        e = H + 16 + 32 * meta_idx
        bounds += [e, e + 16, e + 24, e + 32]
        fl += [F('meta_entry_guid', e, 16, 'raw', 'structural'),
               F('meta_offset', e + 16, 8, 'le', 'structural',
                 (0, 32, H, H + 16, VHDX_HEADER_END - 1, VHDX_HEADER_END, VHDX_HEADER_END + 1, len(buf) - 1, len(buf), U64)),
               F('meta_length', e + 24, 4, 'le'), F('meta_required', e + 28, 4, 'le')]
    if phys_meta:
        bounds += [mo, mo + 8, mo + 10, mo + 12, mo + 32, mo + entries_size, mo + VHDX_META_CAP]
        fl += [F('meta_sig', mo, 8, 'raw', 'structural'),
               F('meta_count', mo + 10, 2, 'le', 'structural', (0, 1, n_written - 1, n_written, n_written + 1, 2046, 2047, 2048, 65535))]
        if vds_idx is not None and 32 + 32 * (vds_idx + 1) <= len(mtab):
            e = mo + 32 + 32 * vds_idx
            bounds += [e, e + 16, e + 20, e + 24, e + 32, mo + io, mo + io + 8]
            fl += [F('vds_guid', e, 16, 'raw', 'structural'),
                   F('item_offset', e + 16, 4, 'le', 'structural',
                     (0, 31, 32, entries_size - 1, entries_size, entries_size + 1, 65535, 65536, U32)),
                   F('item_length', e + 20, 4, 'le', 'structural', (0, 7, 8, 9, 65535, 65536, 65537, U32)),
                   F('size', mo + io, 8, 'le', 'size')]
    fields = {f.name: f for f in fl if f.off + f.size <= len(buf)}
    # ---- ground truth
    reject, unspec, defects = [], [], []
    if bytes(ident)[:8] != b'vhdxfile':
        reject.append('mismatch'); defects.append('bad_ident')
    if bytes(rsig)[:4] != b'regi':
        reject.append('vhdx_region_signature'); defects.append('bad_region_signature')
    if rcount & U32 >= 2048:
        reject.append('vhdx_region_count'); defects.append('bad_region_count')
    found_meta = meta_idx is not None and meta_idx < (rcount & U32)
    complete_at = VHDX_HEADER_END
    if not found_meta:
        defects.append('no_metadata_region')
        unspec.append('vhdx_no_metadata_region')
    else:
        if mo < VHDX_HEADER_END:
            defects.append('metadata_pointer_backward'); unspec.append('vhdx_backward_pointer')
        if bytes(msig)[:8] != b'metadata':
            reject.append('vhdx_metadata_signature'); defects.append('bad_metadata_signature')
        found_vds = vds_idx is not None and vds_idx < (mcount & U16) and (mcount & U16) < 2048
        if not found_vds:
            defects.append('no_size_item'); unspec.append('vhdx_no_size_item')
            complete_at = mo + VHDX_META_CAP
        else:
            if io < entries_size:
                defects.append('item_pointer_backward'); unspec.append('vhdx_backward_pointer')
            if item_length & U32 != 8:
                defects.append('item_length_not_8'); unspec.append('vhdx_item_length')
            complete_at = max(mo + entries_size, mo + io + min(item_length & U32, VHDX_META_CAP))
    return _result('vhdx', buf, size & U64, bounds, fields,
                   dict(p, size=size, meta_offset=meta_offset, item_offset=item_offset, item_length=item_length,
                        region_pad_before=rpb, meta_pad_before=mpb),
                   reject, unspec, defects, complete_at,
                   extra=dict(meta_offset=mo, item_offset=io, item_length=item_length & U32, entries_size=entries_size,
                              region_entries=len(rents), region_count=rcount, meta_entries=len(ments), meta_count=mcount,
                              meta_index=meta_idx, vds_index=vds_idx))


# ---------------------------------------------------------------------------
# dispatcher, random well-formed images
# ---------------------------------------------------------------------------
BUILDERS = {'raw': build_raw, 'qcow2': build_qcow2, 'qed': build_qed, 'vhd': build_vhd, 'vhdx': build_vhdx,
            'vmdk': build_vmdk, 'vdi': build_vdi, 'iso': build_iso, 'gpt': build_gpt, 'luks': build_luks}


def build(fmt, rng=None, **params):
    """Build an image of the given format from layout parameters (see build_<fmt>)."""
    return BUILDERS[fmt](rng, **params)


def random_wellformed(fmt, rng):
    """A random well-formed, safe image of the format (qed: well-formed but never acceptable), with the declared
    size drawn from size_values() and the layout parameters drawn over their admissible ranges."""
    rng = _rng(rng)
    pick = lambda: rng.choice(size_values(fmt, rng))
    if fmt == 'raw':
        return build_raw(rng, length=pick())
    if fmt == 'qcow2':
        v = rng.choice([2, 3, 3])
        return build_qcow2(rng, version=v, size=pick())
    if fmt == 'qed':
        return build_qed(rng, image_size=pick())
    if fmt == 'vhd':
        sz = pick()
        # half of the images carry a different "current size" (offset 48): the property and the inspector use the
        # size at offset 40 (traits['vhd_resized'] tells)
        return build_vhd(rng, size=sz, current_size=sz if rng.random() < 0.5 else rng.getrandbits(40))
    if fmt == 'vdi':
        return build_vdi(rng, size=pick())
    if fmt == 'iso':
        bl, bs = pick()
        return build_iso(rng, blocks=bl, block_size=bs, ident=rng.choice([b'CD001'] * 4 + [b'NSR02', b'NSR03']),
                         system_area=rng.choice(['zero', 'random']))
    if fmt == 'gpt':
        return build_gpt(rng, length=pick())
    if fmt == 'luks':
        return build_luks(rng, payload_size=pick())
    if fmt == 'vmdk':
        sub = rng.choice(VMDK_SAFE_TYPES)
        ct = rng.choice([sub, rng.choice(VMDK_SAFE_TYPES)])
        ext = [L_extent(rng.choice(['RW', 'RDONLY', 'NOACCESS']), rng.getrandbits(30), 'SPARSE',
                        rng.choice(['disk.vmdk', 'a b c.vmdk', 'x-s001.vmdk'])) for _ in range(rng.choice([1, 1, 2]))]
        kw = dict(subformat=sub, create_type=ct, extents=ext, capacity=pick(), newline=rng.choice(['\n', '\n', '\r\n']))
        r = rng.random()
        if r < 0.1:
            kw['desc_num'] = 2048 + rng.choice([0, 1, 5])        # capture clamped to 2^20-1
        elif r < 0.2:
            kw['desc_pad'] = b' '                                # no NUL terminator inside the region
            kw['trailing_newline'] = True
        return build_vmdk(rng, **kw)
    if fmt == 'vhdx':
        kw = dict(size=pick())
        r = rng.random()
        if r < 0.08:
            kw['region_pad_before'] = rng.choice([2045, 2046])
        elif r < 0.16:
            kw['meta_pad_before'] = rng.choice([2045, 2046])
        elif r < 0.3:
            kw['region_pad_before'] = rng.randrange(0, 300)
            kw['meta_pad_before'] = rng.randrange(0, 300)
        if rng.random() < 0.3:
            kw['meta_offset'] = 256 * KiB + rng.randrange(0, 256 * KiB)
        if rng.random() < 0.3:
            kw['fill'] = 'random'
        return build_vhdx(rng, **kw)
    raise ValueError(fmt)


# ---------------------------------------------------------------------------
# advisory zone predicates (DESIGN section 6: F1..F4), on bytes
# ---------------------------------------------------------------------------
def zone_vmdk_text(b):
    """F1: no KDMV signature and the first 64 bytes are printable ASCII / whitespace."""
    return len(b) >= 4 and b[:4] != VMDK_MAGIC and all(_is_textbyte(c) for c in b[:64])


def zone_vmdk_shortfoot(b):
    """F3: sparse header announcing a footer (gdOffset = GD_AT_END) on a stream shorter than 63+1536 bytes."""
    if len(b) < 64 or b[:4] != VMDK_MAGIC or len(b) >= 63 + 1536:
        return False
    ver, = struct.unpack('<I', b[4:8])
    gd, = struct.unpack('<Q', b[56:64])
    return ver in (1, 2, 3) and gd == GD_AT_END


def zone_vmdk_earlyparse(b):
    """F1n (found while building this library, same root cause as F1): no KDMV signature and a createType token in
    the ASCII text before the first NUL.  The BOF descriptor region (min_length=4) is parsed once, on whatever the first
    chunks delivered, so vmdktype / virtual_size depend on the chunking even when the head is not all printable."""
    if len(b) < 4 or b[:4] == VMDK_MAGIC:
        return False
    head = bytes(b[:VMDK_DESC_MAX]).split(b'\0')[0]
    return b'createtype="' in head.lower()


ZONE_FORMAT = {'F1': 'vmdk', 'F1n': 'vmdk', 'F3': 'vmdk', 'F2': 'vhdx', 'F4': 'vhdx'}


def zones_for(fmt, zones):
    """The subset of zone names that concern the inspector of that format."""
    return {z for z in zones if ZONE_FORMAT.get(z) == fmt}


def _vhdx_walk(b):
    """(meta_offset|None, meta_sig_ok|None, entries_size|None, item_offset|None) by a whole-buffer table walk."""
    if len(b) < VHDX_HEADER_END:
        return None, None, None, None
    h = b[VHDX_HEADER_OFF:VHDX_HEADER_END]
    sig, _ck, count, _r = struct.unpack('<4sIII', h[:16])
    if sig != b'regi' or count >= 2048:
        return None, None, None, None
    mg = guid_bytes(GUID_METAREGION)
    mo = None
    for i in range(count):
        e = h[16 + 32 * i:48 + 32 * i]
        if e[:16] == mg:
            mo, = struct.unpack('<Q', e[16:24])
            break
    if mo is None:
        return None, None, None, None
    m = b[mo:mo + VHDX_META_CAP]
    if len(m) < 32:
        return mo, None, None, None
    if m[:8] != b'metadata':
        return mo, False, None, None
    cnt, = struct.unpack('<H', m[10:12])
    es = 32 + 32 * cnt
    if len(m) < es or cnt >= 2048:
        return mo, True, es, None
    vg = guid_bytes(GUID_VDS)
    for i in range(cnt):
        e = m[32 + 32 * i:64 + 32 * i]
        if e[:16] == vg:
            io, = struct.unpack('<I', e[16:20])
            return mo, True, es, io
    return mo, True, es, None


def zone_vhdx_backptr(b):
    """F2: metadata region offset below 256 KiB, or size item offset inside the item table."""
    mo, ok, es, io = _vhdx_walk(b)
    if mo is None:
        return False
    if mo < VHDX_HEADER_END:
        return True
    return bool(ok and io is not None and io < es)


def zone_vhdx_metasig(b):
    """F4: a reachable metadata region (>= 32 bytes of it in the stream) without the 'metadata' signature."""
    mo, ok, es, io = _vhdx_walk(b)
    return mo is not None and mo >= VHDX_HEADER_END and ok is False


def zones_of(b):
    z = set()
    if zone_vmdk_text(b):
        z.add('F1')
    if zone_vmdk_shortfoot(b):
        z.add('F3')
    if zone_vmdk_earlyparse(b):
        z.add('F1n')
    if len(b) >= VHDX_HEADER_END:
        if zone_vhdx_backptr(b):
            z.add('F2')
        if zone_vhdx_metasig(b):
            z.add('F4')
    return z


# ---------------------------------------------------------------------------
# signatures (C03)
# ---------------------------------------------------------------------------
SIGNATURES = {
    'qcow2': [(0, QCOW2_MAGIC)], 'qed': [(0, b'QED\0')], 'vhd': [(0, b'conectix')], 'vhdx': [(0, b'vhdxfile')],
    'vmdk': [(0, VMDK_MAGIC)], 'vdi': [(0x40, struct.pack('<I', VDI_SIGNATURE))], 'iso': [(32769, b'CD001')],
    'gpt': [(510, b'\x55\xaa')], 'luks': [(0, LUKS_MAGIC)],
    'fat': [(510, b'\x55\xaa'), (0x10, b'\x02'), (0x15, b'\xf8')],
}
BACKGROUNDS = ('zero', 'random', 'text')
# lengths on both sides of each inspector's decision point
OVERLAY_LENGTHS = (0, 3, 4, 5, 6, 7, 8, 9, 63, 64, 65, 67, 68, 511, 512, 513, 591, 592, 593, 4096, 32768, 32774,
                   34815, 34816, 34817, 262143, 262144, 262145, 327680)


def signature_present(fmt, b):
    """Reference predicate: the format's signature is present in the content in the sense of C03 (enough of the stream
    to hold the structure that carries it).  None = not decidable from the property text (VMDK text-descriptor mode
    with a createType token: known-finding zone F1)."""
    n = len(b)
    if fmt == 'raw':
        return True
    if fmt == 'qcow2':
        return n >= 512 and b[:4] == QCOW2_MAGIC
    if fmt == 'qed':
        return n >= 512 and b[:4] == b'QED\0'
    if fmt == 'vhd':
        return b[:8] == b'conectix'
    if fmt == 'vhdx':
        return b[:8] == b'vhdxfile'
    if fmt == 'vmdk':
        if b[:4] == VMDK_MAGIC:
            return True
        if b'createtype="' in bytes(b[:VMDK_DESC_MAX]).lower() and all(_is_textbyte(c) for c in b[:64]) and n >= 4:
            return None
        return False
    if fmt == 'vdi':
        return n >= 512 and b[0x40:0x44] == struct.pack('<I', VDI_SIGNATURE)
    if fmt == 'iso':
        return n >= 34816 and b[32769:32774] in ISO_IDENTS
    if fmt == 'gpt':
        return n >= 512 and b[510:512] == b'\x55\xaa' and not (b[0x10] == 2 and b[0x15] == 0xF8)
    if fmt == 'luks':
        return b[:6] == LUKS_MAGIC
    raise ValueError(fmt)


def expected_matches(b):
    """{fmt: True|False|None} for the nine non-raw formats."""
    return {f: signature_present(f, b) for f in FORMATS if f != 'raw'}


def _background(rng, kind, length, late_nonascii=None):
    buf = _fill(rng, length, kind)
    if kind == 'text' and late_nonascii is not None and length > 0:
        buf[min(length - 1, late_nonascii)] = 0xFF
    return buf


def overlay(sigs, background, length, rng, iso_ident=b'CD001', late_nonascii=None, plausible=False):
    """Polyglot: write the signatures of `sigs` (names from SIGNATURES incl. 'fat', applied in the given order: a later
    one overwrites an earlier one where they overlap) onto a 'zero'|'random'|'text' background of the given length.
    Signatures that do not fit are dropped.  late_nonascii=k puts a 0xFF byte at offset k of a text background.
    plausible=True also writes the few header fields that keep the VMDK/VHDX inspectors from raising.
    traits: 'requested', 'expected_matches' ({fmt: bool|None} recomputed from the final bytes),
    'expected_set' (formats with True), 'undecided' (formats with None)."""
    rng = _rng(rng)
    buf = _background(rng, background, length, late_nonascii)
    if background == 'random':
        for f, v in expected_matches(bytes(buf)).items():   # no accidental signatures
            if v:
                _scrub(buf)
                break
    for s in sigs:
        for off, val in SIGNATURES[s]:
            if s == 'iso':
                val = iso_ident
            if off + len(val) <= length:
                buf[off:off + len(val)] = val
        if plausible and s == 'vmdk' and length >= 64:
            buf[4:8] = _u(1, 4, 'le')
            buf[28:36] = _u(1, 8, 'le')
            buf[36:44] = _u(1, 8, 'le')
            buf[56:64] = _u(21, 8, 'le')
    data = bytes(buf)
    em = expected_matches(data)
    traits = dict(requested=tuple(sigs), background=background, expected_matches=em,
                  expected_set=sorted(f for f, v in em.items() if v is True),
                  undecided=sorted(f for f, v in em.items() if v is None), zones=zones_of(data),
                  reject=[], unspecified=['overlay'], defects=['overlay'], complete_at=None, tail_sensitive=False)
    bounds = [0, 4, 6, 8, 64, 0x40, 0x44, 510, 512, 592, 32768, 32769, 32774, 34816, VHDX_HEADER_OFF, VHDX_HEADER_END]
    return Image('overlay', data, None, bounds, traits, False, None, {}, dict(sigs=tuple(sigs), background=background,
                                                                             length=length))


def overlays(rng, tier='quick'):
    """Bounded family: every single signature and every pair (both orders), random triples, on every background, at
    lengths on both sides of each decision point (quick: a sample of the lengths per combination)."""
    rng = _rng(rng)
    names = list(SIGNATURES)
    combos = [()] + [(a,) for a in names] + [(a, b) for a in names for b in names if a != b]
    combos += [tuple(rng.sample(names, 3)) for _ in range(10 if tier == 'quick' else 100)]
    combos += [tuple(rng.sample(names, rng.randint(4, len(names)))) for _ in range(4 if tier == 'quick' else 40)]
    for c in combos:
        lens = OVERLAY_LENGTHS if tier != 'quick' else rng.sample(OVERLAY_LENGTHS, 3) + [rng.choice([512, 34816, 262145])]
        for n in lens:
            for bg in (BACKGROUNDS if tier != 'quick' else [rng.choice(BACKGROUNDS)]):
                ln = None
                if bg == 'text' and n > 600 and rng.random() < 0.3:
                    ln = rng.randrange(0, n)
                yield overlay(c, bg, n, rng, iso_ident=rng.choice(ISO_IDENTS), late_nonascii=ln,
                              plausible=rng.random() < 0.3)


UNSTRUCTURED_KINDS = ('zero', 'random', 'text', 'text_late_nonascii', 'text_early_nonascii', 'utf8', 'repeated',
                      'descriptor_like', 'ff')


def unstructured(rng, kind=None, length=None):
    """Arbitrary text / binary content (fmt 'raw'; accidental signatures are NOT scrubbed: traits carry
    expected_matches recomputed from the bytes)."""
    rng = _rng(rng)
    kind = kind or rng.choice(UNSTRUCTURED_KINDS)
    if length is None:
        length = rng.choice([0, 1, 3, 4, 5, 63, 64, 65, 100, 511, 512, 513, 600, 4096, 5000, 40000, 300000])
    if kind in ('zero', 'random', 'text', 'ff'):
        buf = _fill(rng, length, kind)
    elif kind == 'text_late_nonascii':
        buf = _fill(rng, length, 'text')
        if length > 64:
            buf[rng.randrange(64, length)] = rng.choice([0xFF, 0x80, 0x00, 0x01])
    elif kind == 'text_early_nonascii':
        buf = _fill(rng, length, 'text')
        if length:
            buf[rng.randrange(0, min(64, length))] = rng.choice([0xFF, 0x80, 0x00, 0x01])
    elif kind == 'utf8':
        buf = bytearray(('héllo wörld 世界\n' * (length // 10 + 1)).encode('utf-8')[:length])
    elif kind == 'repeated':
        buf = _fill(rng, length, rng.randbytes(rng.randint(1, 7)))
    elif kind == 'descriptor_like':
        t, _i = vmdk_descriptor(rng, create_type=rng.choice(VMDK_SAFE_TYPES + VMDK_OTHER_TYPES[:3]))
        buf = _fill(rng, length, t)
    else:
        raise ValueError(kind)
    data = bytes(buf)
    em = expected_matches(data)
    traits = dict(kind=kind, expected_matches=em, expected_set=sorted(f for f, v in em.items() if v is True),
                  undecided=sorted(f for f, v in em.items() if v is None), zones=zones_of(data),
                  reject=[], unspecified=['unstructured'], defects=[], complete_at=0, tail_sensitive=False)
    return Image('raw', data, len(data), [0, 4, 64, 512, 592, 34816, len(data)], traits, True, None, {},
                 dict(kind=kind, length=length))


# ---------------------------------------------------------------------------
# mutators
# ---------------------------------------------------------------------------
def _lost_truth(img, data, why, keep=False, **kw):
    """Derived image whose ground truth is no longer known (unless keep)."""
    tr = dict(img.traits)
    tr['zones'] = zones_of(data)
    tr.setdefault('history', [])
    tr['history'] = list(tr['history']) + [why]
    if keep:
        return img.replace(data=data, traits=tr, **kw)
    tr['defects'] = list(tr.get('defects', [])) + ['mutated']
    tr['unspecified'] = list(tr.get('unspecified', [])) + ['mutated']
    return img.replace(data=data, traits=tr, wellformed=False, declared_size=None, expect_accept=None, **kw)


def field_values(f, rng=None):
    """Candidate values for a field: its specials (off-by-one around the constants the code compares it with) and the
    generic boundary values of its width."""
    if f.kind == 'raw':
        return []
    return sorted(set(boundary_values(f.size)) | {v & ((1 << (8 * f.size)) - 1) for v in f.specials})


def set_field(img, name, value, rng=None):
    """Return a copy of img with one field overwritten (int for be/le fields, bytes for raw fields).  Ground truth is
    kept only for 'irrelevant' fields."""
    f = img.fields[name]
    buf = bytearray(img.data)
    if f.off + f.size > len(buf):
        return img
    if f.kind == 'raw':
        val = bytes(value)[:f.size].ljust(f.size, b'\0')
    else:
        val = _u(value, f.size, f.kind)
    buf[f.off:f.off + f.size] = val
    return _lost_truth(img, bytes(buf), ('set', name, value if f.kind != 'raw' else val.hex()),
                       keep=(f.role == 'irrelevant'))


def mutate_fields(img, rng, k=None, names=None):
    """Set one or several (k, default 1..3) fields to boundary values: 0, 1, max, max-1, 2^31, 2^32+-1, 2^63, 2^64-1 (as
    far as they fit the field) and off-by-one values around the constants the inspector compares the field with; raw
    fields get a byte flipped, zeroed, case-swapped or randomised.  names restricts the candidate fields."""
    rng = _rng(rng)
    cand = sorted(n for n in (names or img.fields) if n in img.fields
                  and img.fields[n].off + img.fields[n].size <= len(img.data))
    if not cand:
        return _lost_truth(img, img.data, ('mutate', 'nothing'), keep=True)
    if k is None:
        k = rng.choice([1, 1, 1, 2, 3])
    out = img
    for name in rng.sample(cand, min(k, len(cand))):
        f = img.fields[name]
        if f.kind == 'raw':
            cur = bytearray(out.data[f.off:f.off + f.size])
            how = rng.choice(['flip', 'zero', 'swapcase', 'random', 'lastbyte'])
            if how == 'flip':
                cur[rng.randrange(len(cur))] ^= 1 << rng.randrange(8)
            elif how == 'zero':
                cur = bytearray(len(cur))
            elif how == 'swapcase':
                cur = bytearray(bytes(cur).swapcase())
            elif how == 'random':
                cur = bytearray(rng.randbytes(len(cur)))
            else:
                cur[-1] ^= 0xFF
            out = set_field(out, name, bytes(cur))
        else:
            vals = field_values(f)
            if f.specials and rng.random() < 0.6:
                v = rng.choice(f.specials)
            else:
                v = rng.choice(vals)
            out = set_field(out, name, v)
    return out


def truncations(img):
    """Every prefix cut at 0 and at each structure boundary +-1 (and the boundary itself), shorter than the image.
    Ground truth: a cut below traits['complete_at'] (or any cut of a tail-sensitive image) must not be accepted; a cut
    at or above it keeps the verdict (declared_size follows the stream length for raw/gpt/luks)."""
    n = len(img.data)
    cuts = sorted({c for b in img.boundaries for c in (b - 1, b, b + 1) if 0 <= c < n} | ({0} if n else set()))
    ca = img.traits.get('complete_at')
    for c in cuts:
        data = img.data[:c]
        tr = dict(img.traits)
        tr['history'] = list(tr.get('history', [])) + [('truncate', c)]
        tr['zones'] = zones_of(data)
        if img.fmt in ('overlay',) or 'expected_matches' in tr:
            em = expected_matches(data)
            tr['expected_matches'] = em
            tr['expected_set'] = sorted(f for f, v in em.items() if v is True)
            tr['undecided'] = sorted(f for f, v in em.items() if v is None)
            yield img.replace(data=data, traits=tr, declared_size=(c if img.fmt == 'raw' else None))
            continue
        if img.traits.get('tail_sensitive') or ca is None or c < ca:
            tr['reject'] = list(tr.get('reject', [])) + ['incomplete']
            tr['defects'] = list(tr.get('defects', [])) + ['incomplete']
            yield img.replace(data=data, traits=tr, wellformed=False, declared_size=None, expect_accept=False)
        else:
            ds = img.declared_size
            wf = img.wellformed
            if ds is not None and img.fmt in ('raw', 'gpt', 'luks'):
                ds = ds - (n - c)
                if img.fmt == 'luks' and ds < 0:
                    wf, ds = False, None
            yield img.replace(data=data, traits=tr, declared_size=ds, wellformed=wf)


def extend(img, n, rng, fill='random'):
    """Append n bytes ('random'|'zero'|'text'|bytes).  raw/gpt/luks: declared_size grows with the stream; a VMDK that
    announces a footer loses its ground truth (the footer is no longer at the end); everything else keeps it."""
    rng = _rng(rng)
    data = img.data + bytes(_fill(rng, n, fill))
    why = ('extend', n, fill if isinstance(fill, str) else 'bytes')
    if n == 0:
        return _lost_truth(img, data, why, keep=True)
    if img.traits.get('tail_sensitive') or img.fmt == 'overlay':
        out = _lost_truth(img, data, why)
    else:
        ca = img.traits.get('complete_at')
        if ca is not None and len(img.data) < ca:
            out = _lost_truth(img, data, why)          # the extension now fills a structure: unknown content
        else:
            ds = img.declared_size
            if ds is not None and img.fmt in ('raw', 'gpt', 'luks'):
                ds += n
            out = _lost_truth(img, data, why, keep=True, declared_size=ds)
    if 'expected_matches' in out.traits:
        em = expected_matches(data)
        out.traits.update(expected_matches=em, expected_set=sorted(f for f, v in em.items() if v is True),
                          undecided=sorted(f for f, v in em.items() if v is None))
    return out


# ---------------------------------------------------------------------------
# trait-driven generators (C02)
# ---------------------------------------------------------------------------
def trait_image(fmt, traits, rng):
    """Build the image described by a trait dict (= build() parameters, plus optional 'cut': truncate to that many
    bytes).  The ground truth .expect_accept comes from the property text of C02 (see each builder)."""
    t = dict(traits)
    cut = t.pop('cut', None)
    img = build(fmt, _rng(rng), **t)
    if cut is not None and cut < 0:                      # negative: counted from the end of the stream
        cut = max(0, len(img.data) + cut)
    if cut is not None and cut < len(img.data):
        data = img.data[:cut]
        tr = dict(img.traits)
        tr['zones'] = zones_of(data)
        ca = tr.get('complete_at')
        if tr.get('tail_sensitive') or ca is None or cut < ca:
            tr['reject'] = list(tr['reject']) + ['incomplete']
            tr['defects'] = list(tr['defects']) + ['incomplete']
            return img.replace(data=data, traits=tr, wellformed=False, declared_size=None, expect_accept=False)
        ds = img.declared_size
        if ds is not None and fmt in ('raw', 'gpt', 'luks'):
            ds -= len(img.data) - cut
        return img.replace(data=data, traits=tr, declared_size=ds)
    return img


def trait_space(fmt, rng, tier='quick'):
    """Yield trait dicts for a format: every safe/unsafe trait value named by C02, alone and in combinations, with
    random irrelevant fields (they are drawn by the builder from rng)."""
    rng = _rng(rng)
    big = tier != 'quick'
    if fmt == 'qcow2':
        for v in (2, 3):
            yield dict(version=v)
            yield dict(version=v, length=512)
        for bit in range(64):                                   # every incompatible-feature bit, v3 and v2
            yield dict(version=3, feature_bits=[bit])
            yield dict(version=2, feature_bits=[bit])
            if big:
                yield dict(version=3, feature_bits=[bit, rng.randrange(64)])
                yield dict(version=3, feature_bits=sorted({bit, 0, 1, 3}))
        for s in range(1, 8):                                   # subsets of the known harmless bits
            yield dict(version=3, feature_bits=[b for i, b in enumerate((0, 1, 3)) if s >> i & 1])
        for _ in range(64 if big else 16):
            yield dict(version=3, incompat=rng.getrandbits(64))
            yield dict(version=3, feature_bits=rng.sample(range(64), rng.randint(1, 6)))
            yield dict(version=3, feature_bits=rng.sample(range(4, 64), rng.randint(1, 3)))
        yield dict(version=3, incompat=U64)
        yield dict(version=3, incompat=U64 & ~0xF)
        yield dict(version=3, incompat=0xF)
        yield dict(version=3, incompat=0xB)
        for v in (0, 1, 4, 5, 6, 255, 256, 0x02000000, 0x03000000, 1 << 31, U32 - 1, U32):
            yield dict(version=v)
            yield dict(version=v, feature_bits=[rng.randrange(64)])
        for off in (1, 7, 8, 72, 104, 511, 512, 513, 4096, (1 << 31), U32, U32 + 1, 1 << 63, U64 - 1, U64,
                    rng.getrandbits(64) | 1):
            for v in (2, 3):
                yield dict(version=v, backing_offset=off)
            if big:
                yield dict(version=3, backing_offset=off, backing_size=0)
                yield dict(version=3, backing_offset=off, backing_size=1023, backing_name=b'../../x')
        yield dict(version=3, backing_offset=104, feature_bits=[2])
        yield dict(version=4, backing_offset=104, feature_bits=[2, 40])
        for cut in (0, 1, 3, 4, 8, 16, 32, 72, 79, 80, 104, 510, 511, 512, 513):
            yield dict(version=3, cut=cut, length=600)
            yield dict(version=2, cut=cut, length=600)
        for m in (b'QFI\xfa', b'qfi\xfb', b'QFI\x00', b'\x00\x00\x00\x00', b'\xfbIFQ', b'QED\x00'):
            yield dict(magic=m)
    elif fmt == 'qed':
        for _ in range(8 if not big else 40):
            yield dict()
        yield dict(length=512)
        yield dict(length=511)
        yield dict(magic=b'QED\x01')
        yield dict(backing_offset=64)
    elif fmt == 'luks':
        for v in (1, 0, 2, 3, 0x0100, 0x7FFF, 0x8000, 0xFFFF, 0x0101, 257, rng.getrandbits(16)):
            yield dict(version=v)
            yield dict(version=v, payload_offset=rng.choice([2, 4096]), payload_size=0)
        for cut in (0, 5, 6, 7, 8, 107, 108, 591, 592, 593):
            yield dict(version=1, cut=cut, payload_size=100)
        for m in (b'LUKS\xba\xbf', b'luks\xba\xbe', b'LUKS\xbe\xba', b'SKUL\xba\xbe'):
            yield dict(magic=m)
        yield dict(version=1, payload_offset=0, length=592)
        yield dict(version=1, payload_offset=U32, length=592)
    elif fmt == 'gpt':
        for tab in mbr_family(rng, tier):
            yield dict(ptes=tab, kind='mbr', gpt_header=any(e['type'] == 0xEE for e in tab))
        yield dict(kind='gpt')
        yield dict(kind='mbr')
        for sig in (0x55AA, 0xAA54, 0xAA56, 0, 0xFFFF, 0xAB55):
            yield dict(kind='gpt', signature=sig)
        for b10, b15 in ((2, 0xF8), (1, 0xF8), (3, 0xF8), (2, 0xF7), (2, 0xF9), (2, 0xF0), (0, 0)):
            yield dict(kind='mbr', b10=b10, b15=b15)
            yield dict(kind='gpt', b10=b10, b15=b15)
        for cut in (0, 1, 446, 447, 462, 509, 510, 511, 512, 513):
            yield dict(kind='gpt', cut=cut, length=1024)
    elif fmt == 'vmdk':
        for d in _vmdk_trait_space(rng, big):
            yield d
    elif fmt in ('vhd', 'vdi', 'iso', 'raw', 'vhdx'):
        for _ in range(6 if not big else 30):
            yield dict()
        if fmt == 'vhd':
            yield dict(cookie=b'Conectix'); yield dict(cookie=b'conectiy'); yield dict(cut=511, length=600)
            yield dict(cut=8, length=600); yield dict(cut=512, length=600); yield dict(size=0, current_size=1 << 40)
        if fmt == 'vdi':
            yield dict(signature=VDI_SIGNATURE ^ 1); yield dict(signature=0x7f10dabe)
            for cut in (0, 0x43, 0x44, 0x177, 0x178, 511, 512):
                yield dict(cut=cut, length=600)
        if fmt == 'iso':
            for ident in ISO_IDENTS + (b'CD002', b'cd001', b'BEA01', b'TEA01', b'NSR01', b'\0\0\0\0\0'):
                for dt in (0, 1, 2, 255):
                    yield dict(ident=ident, descriptor_type=dt)
            for cut in (0, 32767, 32768, 32769, 32774, 34815, 34816, 34817):
                yield dict(cut=cut, length=36000)
            yield dict(system_area='text'); yield dict(be_consistent=False)
        if fmt == 'raw':
            for n in (0, 1, 512, 40000):
                for c in ('zero', 'random', 'text'):
                    yield dict(length=n, content=c)
        if fmt == 'vhdx':
            yield dict(ident=b'VHDXFILE'); yield dict(ident=b'vhdxfilf'); yield dict(region_sig=b'regj')
            yield dict(region_count=2047, region_pad_before=2046); yield dict(region_count=2048); yield dict(region_count=0)
            yield dict(include_meta_entry=False); yield dict(include_vds_entry=False); yield dict(meta_sig=b'metadatb')
            yield dict(meta_count=2047, meta_pad_before=2046); yield dict(meta_count=2048); yield dict(meta_count=0)
            yield dict(item_length=4); yield dict(item_length=16)
            base = dict(meta_offset=320 * KiB, item_offset=64 * KiB, tail=100)
            for cut in (0, 7, 8, 31, 32, 192 * KiB, 256 * KiB - 1, 256 * KiB, 320 * KiB, 320 * KiB + 32, 384 * KiB,
                        384 * KiB + 7, 384 * KiB + 8, 384 * KiB + 9):
                yield dict(base, cut=cut)
    else:
        raise ValueError(fmt)


def _vmdk_trait_space(rng, big):
    S, T = 'monolithicSparse', 'streamOptimized'
    # clean
    for sub in (S, T):
        yield dict(subformat=sub)
        for v in (1, 2, 3):
            yield dict(subformat=sub, version=v)
        yield dict(subformat=sub, newline='\r\n')
        yield dict(subformat=sub, create_type=T if sub == S else S)      # createType need not equal the layout
        yield dict(subformat=sub, extents=[L_extent('RDONLY', 10), L_extent('NOACCESS', 20), L_extent('RW', 30)])
        yield dict(subformat=sub, create_type_pos=0); yield dict(subformat=sub, create_type_pos=-1)
        yield dict(subformat=sub, desc_num=1, lines=[L_extent()], create_type_pos=0)
        yield dict(subformat=sub, desc_num=2048)
    # header
    for v in (0, 4, 5, 0x01000000, U32):
        yield dict(version=v)
    for ds in (0, 2, 3, 1 << 55, (1 << 55) + 1, U64):
        yield dict(desc_sec=ds)
    yield dict(desc_num=0)
    yield dict(desc_num=1 << 55)            # desc_num*512 overflows 64 bits in C; Python: clamped to the cap
    for sig in (b'kdmv', b'KDMW', b'VMDK', b'\0\0\0\0'):
        yield dict(signature=sig)
    # createType
    for ct in VMDK_OTHER_TYPES:
        yield dict(create_type=ct)
        yield dict(subformat=T, create_type=ct)
    for ct in ('MONOLITHICSPARSE', 'monolithicsparse', 'MonolithicSparse', 'STREAMOPTIMIZED', 'streamoptimized'):
        yield dict(create_type=ct)
    for form in ('absent', 'unquoted', 'spaced', 'noclose', 'upperkey'):
        for ct in (S, 'monolithicFlat'):
            yield dict(create_type=ct, create_type_form=form)
    for n in (62, 63, 64, 65, 200):
        yield dict(create_type='x' * n)
        yield dict(create_type=(S + 'x' * n)[:n])
    yield dict(create_type='monolithicFlat', lines=[L_comment('# createType="monolithicSparse"'), L_extent()],
               create_type_pos=-1)
    yield dict(create_type=S, lines=[L_extent(), L_header('createType="monolithicFlat"')], create_type_pos=0)
    yield dict(create_type='monolithicFlat', lines=[L_extent(), L_header('createType="monolithicSparse"')],
               create_type_pos=0)
    # lines
    junk = ['garbage', 'hello world', 'RWX 1 SPARSE "a.vmdk"', 'change tracking file',
            'foo bar=baz', '"', '\x01\x02', 'extent RW 1 SPARSE "a"', 'dd b.x = "1"', '[section]',
            '//comment', '; comment', 'REM comment', '-- comment']
    for j in junk:
        yield dict(lines=[L_junk(j), L_extent()])
        yield dict(subformat=T, lines=[L_comment(), L_header('version=1'), L_extent(), L_ddb(), L_junk(j)])
    quirks = ['ddbfoo /etc/passwd', 'ddb', 'parentFileNameHint="/etc/passwd"', 'parentFileNameHint="base.vmdk"',
              'key=', '=', '= value', 'a=b=c', 'rw', 'rw\t1 SPARSE "a.vmdk"', 'rdonly', 'noaccess 0', 'RW 0', 'key="value with spaces"',
              'changeTrackPath="/tmp/x-ctk.vmdk"']
    for q in quirks:
        yield dict(lines=[L_quirk(q), L_extent()])
    for cls_line in (L_comment('#'), L_comment('#no space'), L_comment('   # indented'), L_blank(''), L_blank('   '),
                     L_blank('\t'), L_ddb('ddb.uuid = "60 00 C2 9c"'), L_ddb('ddb.longContentID = "abc/def"'),
                     L_header('CID=fffffffe'), L_header('encoding="UTF-8"'), L_header('parentCID=ffffffff')):
        yield dict(lines=[cls_line, L_extent(), cls_line])
    # extents
    yield dict(lines=[L_header('version=1')])                               # no extent at all
    yield dict(lines=[L_comment('# RW 1 SPARSE "x.vmdk"')])                 # only a commented-out extent
    for name in ('/etc/passwd', '../other.vmdk', 'sub/dir/disk.vmdk', './disk.vmdk', '/dev/sda', 'a/', '/',
                 'disk.vmdk/..', 'nbd://host/export', 'file:///etc/passwd'):
        for acc in ('RW', 'RDONLY', 'NOACCESS'):
            yield dict(extents=[L_extent(acc, 100, 'FLAT', name, 0)])
        yield dict(subformat=T, extents=[L_extent(), L_extent('RW', 100, 'SPARSE', name)])
        yield dict(extents=[L_extent('RW', 100, 'SPARSE', name), L_extent()])
    yield dict(extents=[L_extent(text='RW 100 FLAT /etc/passwd 0')])        # unquoted path
    yield dict(extents=[L_extent(text='RW 100 FLAT "disk.vmdk" 0 /etc/passwd')])
    for name in ('C:\\other.vmdk', '..\\other.vmdk'):
        yield dict(extents=[L_extent('RW', 100, 'FLAT', name, 0)])
    yield dict(extents=[L_extent('RW', 100, 'FLAT', 'other-flat.vmdk', 0, path='otherfile')])
    yield dict(extents=[L_extent('RW', 100, 'ZERO', None, path='odd')])
    yield dict(extents=[L_extent(text='RW', path='odd')])
    # descriptor bytes
    yield dict(descriptor=b'createType="monolithicSparse"\nRW 1 SPARSE "a\xff.vmdk"\n',
               desc_reject=['vmdk_descriptor_not_ascii'])
    yield dict(descriptor=b'\xff' * 100, desc_reject=['vmdk_descriptor_not_ascii'])
    yield dict(descriptor=b'', desc_reject=['vmdk_descriptor_missing'])
    yield dict(descriptor=b'\n\n\n', desc_reject=['vmdk_createtype_absent'])
    yield dict(extents=[L_extent(), L_extent('RW', 1, 'FLAT', '/etc/passwd', 0)], nul_at=40)
    yield dict(desc_pad=b' ')
    yield dict(desc_pad=b'\n')
    yield dict(desc_pad=b'#')                                               # padding glued to the last line
    # truncation of the descriptor area / stream
    for cut in (0, 3, 4, 63, 64, 65, 511, 512, 513, 1023, 1024):
        yield dict(subformat=S, desc_num=2, body_len=0, cut=cut)
    yield dict(subformat=S, desc_num=2, body_len=0)
    yield dict(subformat=S, desc_num=20, desc_area=512, body_len=0)         # announced longer than the stream
    # footer
    base = dict(subformat=T, body_len=1024)
    yield dict(base)
    for k, vals in (('signature', (b'KDMW', b'\0\0\0\0')), ('version', (0, 2, 3, 4)), ('desc_sec', (0, 2)),
                    ('desc_num', (0, 1, 21, U64)), ('gd_offset', (GD_AT_END,)), ('capacity', (0, 1, U64)),
                    ('flags', (0,)), ('grain', (0, 1)), ('num_gtes', (0,)), ('rgd_offset', (1,)), ('overhead', (0,))):
        for v in vals:
            yield dict(base, version=1, desc_num=20, footer={k: v})
    for k, vals in (('val', (0, 2, U64)), ('size', (1, U32)), ('type', (0, 1, 2, 4, U32)),
                    ('pad', (b'\x01', bytes(495) + b'\x01'))):
        for v in vals:
            yield dict(base, footer_marker={k: v})
    for k, vals in (('val', (1, U64)), ('size', (1,)), ('type', (1, 3)), ('pad', (b'\x01', bytes(495) + b'\x01'))):
        for v in vals:
            yield dict(base, eos={k: v})
    yield dict(base, has_footer=False)                                      # flag without footer
    yield dict(base, has_footer=False, body_fill='zero', body_len=4096)
    yield dict(base, tail=b'\0')
    yield dict(base, tail=bytes(512))
    yield dict(base, tail=b'x' * 1536)
    for cut in (1, 511, 512, 513, 1024, 1535, 1536):
        yield dict(base, cut=-cut)
    yield dict(subformat=S, has_footer=True)                                # footer present, not announced
    yield dict(subformat=T, desc_num=1, lines=[L_extent()], create_type_pos=0, body_len=0)   # 2048+... short stream
    # text-only descriptors (zone F1)
    yield dict(subformat='text')
    yield dict(subformat='text', create_type='monolithicFlat')
    yield dict(subformat='text', extents=[L_extent('RW', 1, 'FLAT', '/etc/passwd', 0)])
    yield dict(subformat='text', lines=[L_comment('# ' + 'x' * 70)] * 70 + [L_extent('RW', 1, 'FLAT', '/etc/passwd', 0)],
               create_type_pos=0)
    yield dict(subformat='text', create_type_form='absent')
    if big:
        for _ in range(200):
            yield dict(subformat=rng.choice([S, T]), create_type=rng.choice(VMDK_SAFE_TYPES + VMDK_OTHER_TYPES[:4]),
                       extents=[L_extent(rng.choice(['RW', 'RDONLY', 'NOACCESS']), rng.getrandbits(20), 'SPARSE',
                                         rng.choice(['a.vmdk', 'b.vmdk', '/abs/c.vmdk', 'd/e.vmdk']))
                                for _ in range(rng.randint(0, 3))],
                       version=rng.choice([1, 2, 3, 3, 4]), desc_sec=rng.choice([1, 1, 1, 2]))


def trait_images(fmt, rng, tier='quick'):
    """trait_space(fmt) mapped through trait_image."""
    rng = _rng(rng)
    for t in trait_space(fmt, rng, tier):
        yield trait_image(fmt, t, rng)


# ---------------------------------------------------------------------------
# hostile sizes (C05)
# ---------------------------------------------------------------------------
def hostile_images(rng, tier='quick'):
    """Images whose length / count / offset fields announce structures far larger than the stream or than any sane
    image, and multi-MiB text / random streams.  Meant to be fed to EVERY inspector (and to the matching one)."""
    rng = _rng(rng)
    big = tier != 'quick'
    long_len = (3 if not big else 6) * MiB
    # -- vmdk: descriptor sector counts
    for dn in (2047, 2048, 2049, 4096, 1 << 32, (1 << 55) - 1, 1 << 55, (1 << 55) + 1, 1 << 63, U64 - 1, U64):
        for after in (('zero', 0), ('text', VMDK_DESC_MAX + 4096), ('random', VMDK_DESC_MAX + 4096)) + \
                ((('text', long_len),) if big or dn in (2048, U64) else ()):
            fill, ln = after
            yield build_vmdk(rng, desc_num=dn, desc_area=min(dn * 512, ln) if ln else 1024, desc_pad=fill if fill != 'zero' else b'\0',
                             body_len=0)
        yield build_vmdk(rng, subformat='streamOptimized', desc_num=dn, desc_area=VMDK_DESC_MAX + 1025, desc_pad='text',
                         body_len=65536)
    for ds in (0, 2, 1 << 55, U64):
        yield build_vmdk(rng, desc_sec=ds, desc_num=U64, desc_area=4096)
    yield build_vmdk(rng, capacity=U64, grain=U64, num_gtes=U32, rgd_offset=U64, overhead=U64, flags=U32)
    # a descriptor made of one enormous line / enormous createType
    yield build_vmdk(rng, desc_num=4096, descriptor=b'createType="' + b'A' * (2 * MiB), desc_area=2 * MiB + 600,
                     desc_reject=['vmdk_createtype_other'])
    yield build_vmdk(rng, desc_num=4096, descriptor=b'#' * (2 * MiB), desc_area=2 * MiB, desc_reject=['vmdk_createtype_absent'])
    # text-only descriptor of several MiB, one chunk keeps at most 2^20-1 bytes of it
    t, _i = vmdk_descriptor(rng)
    yield build_vmdk(rng, subformat='text', descriptor=t + _text(rng, long_len), desc_unspecified=['huge_text'])
    # -- vhdx: table counts, item length, offsets
    for rc in (2047, 2048, 65535, U32):
        yield build_vhdx(rng, region_count=rc, region_pad_before=min(rc, 2046) if rc < 2048 else 3, tail=70000, fill='random')
    for mc in (2047, 2048, 65535):
        yield build_vhdx(rng, meta_count=mc, meta_pad_before=2046 if mc == 2047 else 3, tail=140000, fill='random')
    for il in (0, 7, 9, 65535, 65536, 65537, 1 << 31, U32):
        yield build_vhdx(rng, item_length=il, tail=200000, fill='random')
        yield build_vhdx(rng, item_length=il, item_offset=32 + 32 * 8, meta_count=8, meta_pad_before=7, tail=200000)
    for io in (0, 32, 65535, 1 << 20, U32):
        yield build_vhdx(rng, item_offset=io, item_length=U32, tail=70000 if io < MiB else 0)
    for mo in (0, 32, 192 * KiB, 256 * KiB - 1, 2 * MiB, 1 << 40, 1 << 63, U64):
        yield build_vhdx(rng, meta_offset=mo, item_length=U32)
    yield build_vhdx(rng, meta_length=U32, item_length=U32, tail=long_len, fill='zero')
    # all 2047 region entries are metadata entries / all items are size items
    mg, vg = guid_bytes(GUID_METAREGION), guid_bytes(GUID_VDS)
    yield build_vhdx(rng, region_entries=[(mg, 256 * KiB + 64 * KiB * i, U32, 1) for i in range(2047)], tail=200000)
    yield build_vhdx(rng, meta_entries=[(vg, 65536 + 8 * i, U32) for i in range(2047)], tail=200000)
    # -- every other format followed by a long stream
    for fmt in ('qcow2', 'qed', 'vhd', 'vdi', 'luks', 'gpt', 'iso'):
        img = random_wellformed(fmt, rng)
        yield extend(img, long_len if big else MiB + 4097, rng, fill=rng.choice(['zero', 'random', 'text']))
    yield build_luks(rng, payload_offset=U32, length=2 * MiB)
    yield build_iso(rng, blocks=U32, block_size=U16, length=long_len, fill='random', system_area='random')
    # -- plain streams
    for kind in ('text', 'random', 'zero', 'ff'):
        yield unstructured(rng, kind, long_len)
    yield unstructured(rng, 'text_late_nonascii', long_len)
    yield unstructured(rng, 'descriptor_like', long_len)
    for sig in ('vmdk', 'vhdx', 'luks', 'iso'):
        yield overlay((sig,), 'text', long_len, rng, plausible=True)
        yield overlay((sig,), 'random', long_len, rng, plausible=True)
        yield overlay((sig,), 'ff', long_len, rng)


# ---------------------------------------------------------------------------
# chunkings
# ---------------------------------------------------------------------------
def split(data, chunks):
    """Cut data into the given chunk lengths (they must sum to len(data))."""
    out, pos = [], 0
    for c in chunks:
        out.append(data[pos:pos + c])
        pos += c
    assert pos == len(data), 'chunk lengths sum to %d, stream has %d bytes' % (pos, len(data))
    return out


def _from_cuts(n, cuts):
    cuts = sorted(c for c in set(cuts) if 0 < c < n)
    out, prev = [], 0
    for c in cuts + [n]:
        out.append(c - prev)
        prev = c
    return out


def _with_empties(ch, rng):
    out = []
    for c in ch:
        while rng.random() < 0.35:
            out.append(0)
        out.append(c)
    while rng.random() < 0.5:
        out.append(0)
    return out


def chunkings(n, boundaries, rng, tier='quick', max_chunks=4096):
    """Yield lists of chunk lengths summing to n: the single chunk; 1-byte chunks (only when n <= max_chunks); fixed
    sizes; one cut at -1/0/+1 of every boundary; pairs of such cuts (all pairs when few, else a sample); all boundaries
    at once; random compositions; and variants of those with empty chunks interleaved (also leading and trailing).
    No list has more than max_chunks chunks, so large streams are never fed in tiny pieces."""
    rng = _rng(rng)
    big = tier != 'quick'
    seen = set()

    def emit(ch):
        t = tuple(ch)
        if t in seen or len(t) > max_chunks + 64:
            return None
        seen.add(t)
        assert sum(t) == n
        return list(t)

    def out(ch):
        r = emit(ch)
        return [r] if r is not None else []

    if n == 0:
        for ch in ([], [0], [0, 0, 0]):
            yield from out(ch)
        return
    yield from out([n])
    if n <= max_chunks:
        yield from out([1] * n)
    for s in (2, 3, 7, 17, 64, 100, 511, 512, 513, 4096, 65536, 100000, MiB, n - 1):
        if 0 < s < n and (n + s - 1) // s <= max_chunks:
            yield from out([s] * (n // s) + ([n % s] if n % s else []))
    pts = sorted({b + d for b in boundaries for d in (-1, 0, 1) if 0 < b + d < n})
    for c in pts:
        yield from out([c, n - c])
    pairs = [(a, b) for i, a in enumerate(pts) for b in pts[i + 1:]]
    limit = 4000 if big else 40
    if len(pairs) > limit:
        pairs = rng.sample(pairs, limit)
    for a, b in pairs:
        yield from out(_from_cuts(n, [a, b]))
    bl = [b for b in boundaries if 0 < b < n]
    if len(bl) <= max_chunks:
        yield from out(_from_cuts(n, bl))
        yield from out(_from_cuts(n, [b - 1 for b in bl]))
        yield from out(_from_cuts(n, [b + 1 for b in bl]))
    if len(pts) <= max_chunks:
        yield from out(_from_cuts(n, pts))
    for _ in range(40 if big else 6):
        k = rng.randint(1, min(12, n))
        cuts = [rng.randrange(1, n) for _ in range(k)] if n > 1 else []
        if pts and rng.random() < 0.5:
            cuts += rng.sample(pts, min(len(pts), rng.randint(1, 3)))
        yield from out(_from_cuts(n, cuts))
    if n <= 4 * max_chunks:
        for _ in range(6 if big else 2):                      # many small random chunks
            ch, left = [], n
            hi = max(2, min(64, n // 8 + 2)) if n <= max_chunks else max(8, 2 * (n // max_chunks + 1))
            while left:
                c = min(left, rng.randint(1, hi))
                ch.append(c)
                left -= c
            yield from out(ch)
    # empty chunks interleaved
    yield from out([0, n])
    yield from out([n, 0])
    yield from out([0, 0, n, 0, 0])
    base = [list(t) for t in seen if 1 < len(t) <= 64]
    base.sort()
    for ch in rng.sample(base, min(len(base), 30 if big else 5)):
        yield from out(_with_empties(ch, rng))


# ---------------------------------------------------------------------------
# running the real inspectors (self-test helper; the canonical observation is defined elsewhere)
# ---------------------------------------------------------------------------
def _fi():
    import logging
    logging.getLogger('oslo_utils.imageutils.format_inspector').setLevel(logging.CRITICAL + 1)
    from oslo_utils.imageutils import format_inspector
    return format_inspector


def run_inspector(fmt, data, chunks=None, finish=True):
    """Feed a fresh real inspector of that format with data cut into `chunks` (list of lengths, default one chunk) and
    return it.  If eat_chunk raises, feeding stops (as InspectWrapper does) and the exception is stored in
    inspector.imgbuild_error (else None)."""
    fi = _fi()
    insp = fi.ALL_FORMATS[fmt]()
    insp.imgbuild_error = None
    for c in split(data, [len(data)] if chunks is None else chunks):
        try:
            insp.eat_chunk(c)
        except Exception as e:           # noqa
            insp.imgbuild_error = e
            break
    if finish:
        insp.finish()
    return insp


def run_all(data, chunks=None):
    """{fmt: inspector} for all ten formats, each fed independently (errors freeze that inspector only)."""
    return {f: run_inspector(f, data, chunks) for f in FORMATS}


def safety_outcome(insp):
    """'pass' | 'fail:<sorted check names>' | 'refused' | 'crash:<Exc>' (self-test helper)."""
    fi = _fi()
    try:
        insp.safety_check()
        return 'pass'
    except fi.SafetyCheckFailed as e:
        return 'fail:' + ','.join(sorted(e.failures))
    except fi.ImageFormatError:
        return 'refused'
    except Exception as e:               # noqa
        return 'crash:' + type(e).__name__
