#!/bin/bash
# tools/run_all.sh quick|thorough [parallel] : runs every claimed check, prints one summary line per property
tier=${1:-quick}; par=${2:-3}
cd "$(dirname "$0")/.."
ids=$(python3 -c "import json; print(' '.join(c['property_id'] for c in json.load(open('MANIFEST.json'))['checks']))")
mkdir -p build/runall
echo $ids | tr ' ' '\n' | xargs -P $par -I{} bash -c "/usr/bin/time -f '%e s' ./check {} $tier > build/runall/{}.$tier.log 2>&1; echo \"{} rc=\$? \$(grep -c ^VIOLATION build/runall/{}.$tier.log) violations :: \$(grep -E '^C[0-9]+ (quick|thorough):' build/runall/{}.$tier.log | tail -1) [\$(tail -1 build/runall/{}.$tier.log)]\""
