#!/usr/bin/env python3
"""Evaluate seeded mutants against the committed checks.

  tools/mut/eval.py <pid> <mutant-out-dir> [--verif DIR] [--keep-name PREFIX] [--tier quick]

For every m<k>.diff in <mutant-out-dir>: scratch worktree of /repo (under /var/tmp/rc), apply the diff,
confirm (a) demo fails on the mutated tree and passes on the clean tree, (b) the pinned suite still has the
baseline outcome, then run `VERIF_REPO=<scratch> ./check <pid> <tier>` in --verif (default: a dedicated
worktree /var/tmp/vw/eval of /verif's HEAD) and record what happened into /verif/seeded/<pid>/<name>/.
Nothing is ever applied to /repo itself.
"""
import sys, os, json, subprocess, shutil, glob, re, time, argparse

def sh(cmd, cwd=None, env=None, timeout=3600):
    p = subprocess.run(cmd, shell=True, cwd=cwd, env=env, stdout=subprocess.PIPE, stderr=subprocess.STDOUT, text=True, errors='replace', timeout=timeout)
    return p.returncode, p.stdout

def suite(tree):
    rc, out = sh('/venv/bin/python -m pytest -q -p no:cacheprovider --timeout=900 --continue-on-collection-errors 2>&1 | tail -12', cwd=tree,
                 env=dict(os.environ, PYTHONDONTWRITEBYTECODE='1'))
    failed = sorted(re.findall(r'^FAILED (\S+)', out, re.M))
    m = re.search(r'(\d+) failed, (\d+) passed', out)
    return (int(m.group(1)), int(m.group(2))) if m else None, failed

def main():
    ap = argparse.ArgumentParser()
    ap.add_argument('pid'); ap.add_argument('outdir')
    ap.add_argument('--verif', default='/var/tmp/vw/eval')
    ap.add_argument('--name', default=None)
    ap.add_argument('--tier', default='quick')
    ap.add_argument('--checks', default=None, help='comma list of property ids to run (default: pid)')
    a = ap.parse_args()
    verif = a.verif
    if not os.path.exists(verif):
        rc, out = sh('git -C /verif worktree add -f --detach %s HEAD' % verif); print(out)
        rc, out = sh('./setup.sh', cwd=verif); print(out[-500:])
    base_counts, base_failed = suite('/repo')
    print('baseline suite:', base_counts)
    results = []
    for diff in sorted(glob.glob(os.path.join(a.outdir, 'm*.diff'))):
        k = re.search(r'm(\w+)\.diff$', diff).group(1)
        tag = (a.name or os.path.basename(a.outdir.rstrip('/')).replace('-out', '')) + '-m' + k
        demo = os.path.join(a.outdir, 'demo_m%s.py' % k)
        meta = os.path.join(a.outdir, 'meta_m%s.json' % k)
        wt = '/var/tmp/rc/ev-%s-%s' % (a.pid, tag)
        sh('git -C /repo worktree remove --force %s' % wt)
        rc, out = sh('git -C /repo worktree add --detach %s HEAD' % wt)
        res = {'mutant': tag, 'property': a.pid}
        try:
            rc, out = sh('git apply %s' % diff, cwd=wt)
            if rc: res['error'] = 'patch does not apply: ' + out[-300:]; results.append(res); continue
            env = dict(os.environ, PYTHONDONTWRITEBYTECODE='1'); env.pop('PYTHONPATH', None)
            shutil.copy(demo, os.path.join(wt, '_demo.py'))
            rc_m, out_m = sh('/venv/bin/python _demo.py', cwd=wt, env=env, timeout=600)
            os.remove(os.path.join(wt, '_demo.py'))
            clean = '/var/tmp/rc/ev-clean-%s' % a.pid
            sh('git -C /repo worktree remove --force %s' % clean); sh('git -C /repo worktree add --detach %s HEAD' % clean)
            shutil.copy(demo, os.path.join(clean, '_demo.py'))
            rc_c, out_c = sh('/venv/bin/python _demo.py', cwd=clean, env=env, timeout=600)
            sh('git -C /repo worktree remove --force %s' % clean)
            counts, failed = suite(wt)
            res.update(demo_fails_on_mutant=(rc_m != 0), demo_passes_on_clean=(rc_c == 0), suite_counts=counts,
                       suite_same_as_baseline=(counts == base_counts and failed == base_failed), demo_output=out_m[-400:])
            checks = (a.checks or a.pid).split(',')
            res['checks'] = {}
            for pid in checks:
                t0 = time.time()
                rc, out = sh('./check %s %s' % (pid, a.tier), cwd=verif, env=dict(os.environ, VERIF_REPO=wt), timeout=7200)
                viol = [l for l in out.splitlines() if l.startswith('VIOLATION')]
                res['checks'][pid] = {'exit': rc, 'violation_lines': viol, 'wall_s': round(time.time() - t0, 1),
                                      'tail': out[-1500:]}
                # copy the replay files so they can be inspected
            res['caught'] = any(c['exit'] != 0 and c['violation_lines'] for c in res['checks'].values())
            res['caught_with_input'] = any(c['exit'] != 0 and any('no-failing-input-found' not in v for v in c['violation_lines']) for c in res['checks'].values())
        finally:
            sh('git -C /repo worktree remove --force %s' % wt)
        d = os.path.join('/verif/seeded', a.pid, tag)
        os.makedirs(d, exist_ok=True)
        shutil.copy(diff, os.path.join(d, 'patch.diff')); shutil.copy(demo, os.path.join(d, 'demo.py'))
        m = json.load(open(meta)) if os.path.exists(meta) else {}
        prev = {}
        try: prev = json.load(open(os.path.join(d, 'meta.json'))).get('evaluation', {}).get('checks', {})
        except Exception: pass
        m['evaluation'] = {k2: v for k2, v in res.items() if k2 != 'checks'}
        m['evaluation']['checks'] = dict(prev, **{p: {k2: v for k2, v in c.items() if k2 != 'tail'} for p, c in res.get('checks', {}).items()})
        allc = m['evaluation']['checks']
        m['evaluation']['caught'] = any(c.get('exit') and c.get('violation_lines') for c in allc.values())
        m['evaluation']['caught_with_input'] = any(c.get('exit') and any('no-failing-input-found' not in v for v in c.get('violation_lines', [])) for c in allc.values())
        m['ran'] = 'tools/mut/eval.py %s %s (scratch worktree of /repo, VERIF_REPO=<scratch> ./check %s %s)' % (a.pid, a.outdir, a.pid, a.tier)
        json.dump(m, open(os.path.join(d, 'meta.json'), 'w'), indent=1)
        open(os.path.join(d, 'check_output_tail.txt'), 'w').write('\n\n'.join('== %s\n%s' % (p, c['tail']) for p, c in res.get('checks', {}).items()))
        results.append(res)
        print(json.dumps({k2: v for k2, v in res.items() if k2 not in ('checks', 'demo_output')}), flush=True)
        for p, c in res.get('checks', {}).items(): print('   ', p, c['exit'], c['violation_lines'], c['wall_s'])
    # put the eval worktree's Gen back to /repo's
    return 0

if __name__ == '__main__':
    sys.exit(main())
