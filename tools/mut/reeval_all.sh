#!/bin/bash
# tools/mut/reeval_all.sh <verif-worktree> <pid> [<pid> ...] : re-run every stored mutant of the given properties against the
# checks as committed now (the given worktree of /verif must be at the commit to test and set up)
verif=$1; shift
for pid in "$@"; do
  for d in /verif/seeded/$pid/*/; do
    tag=$(basename $d); k=${tag##*-m}; name=${tag%-m*}
    tmp=/var/tmp/reeval/$tag; rm -rf $tmp; mkdir -p $tmp
    cp $d/patch.diff $tmp/m$k.diff; cp $d/demo.py $tmp/demo_m$k.py
    python3 - "$d/meta.json" "$tmp/meta_m$k.json" <<'PY'
import json,sys
m=json.load(open(sys.argv[1])); m.pop('evaluation',None); m.pop('ran',None); json.dump(m,open(sys.argv[2],'w'))
PY
    python3 /verif/tools/mut/eval.py $pid $tmp --name $name --verif $verif 2>&1 | grep -E '^\{' | cut -c1-60,140-260
    rm -rf $tmp
  done
done
