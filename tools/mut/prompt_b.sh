#!/bin/bash
# tools/mut/prompt_b.sh Cnn : round-b prompt (different mutants than round a), fresh worktree at /repo HEAD
id=$1
prev=$(python3 - "$id" <<'PY'
import json,glob,sys
out=[]
for f in sorted(glob.glob('/tmp/mut/%sa-out/meta_m*.json' % sys.argv[1])):
    try:
        m=json.load(open(f)); out.append('- %s: %s' % (m.get('site','?'), (m.get('summary','') or '')[:160].replace('\n',' ')))
    except Exception: pass
print('\n'.join(out))
PY
)
extra="An earlier round already produced the mutants listed below; yours must be DIFFERENT in site and mechanism, and harder to expose: prefer (i) two cooperating edits at different sites that each look harmless alone, (ii) defects that need a multi-step sequence / particular interleaving / state carried between calls, (iii) edits in helper code the property depends on indirectly (shared helpers, module-level tables, default arguments, exception handling paths), (iv) boundary arithmetic (off-by-one on a length/offset/limit, wrong rounding, sign), (v) behaviour that differs only for unusual but legal inputs (non-ASCII, empty, very large, repeated). Earlier mutants (do not repeat): 
$prev"
git -C /repo worktree remove --force /tmp/mut/${id}b 2>/dev/null
git -C /repo worktree add -q --detach /tmp/mut/${id}b HEAD && mkdir -p /tmp/mut/${id}b-out
python3 /verif/tools/mut/prompt.py $id b "$extra" > /tmp/mut/${id}b.prompt
wc -c /tmp/mut/${id}b.prompt
