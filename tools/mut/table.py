#!/usr/bin/env python3
"""regenerates seeded/README.md from seeded/*/*/meta.json"""
import json, glob, os
rows = []
for f in sorted(glob.glob('/verif/seeded/*/*/meta.json')):
    m = json.load(open(f)); e = m.get('evaluation', {})
    chk = e.get('checks', {})
    how = []
    for p, c in chk.items():
        v = c.get('violation_lines', [])
        if c.get('exit') and v:
            kinds = sorted({os.path.basename(x.split('replay=')[1].split()[0]).split('-')[1] for x in v})
            how.append('%s: %s%s' % (p, '+'.join(kinds), ' (no input)' if all('no-failing-input-found' in x for x in v) else ''))
        else:
            how.append('%s: MISSED' % p)
    rows.append((m.get('property', '?'), os.path.basename(os.path.dirname(f)), m.get('site', ''), (m.get('summary', '') or '')[:110].replace('|', '/'),
                 'yes' if e.get('demo_fails_on_mutant') and e.get('demo_passes_on_clean') and e.get('suite_same_as_baseline') else 'NO', '; '.join(how)))
out = ['# Seeded changes and what catches them', '',
       'Each row: an independently authored change to /repo (never committed there) that breaks the property, passes the pinned suite,',
       'and was re-confirmed by `tools/mut/eval.py`.  "caught by" names the stage of `./check` that raised the VIOLATION',
       '(`oracle` = model-free property oracle on generated cases, `search` = search after a broken proof/correspondence,',
       '`unproved` = proof obligation or correspondence broke and no failing input was found, `regression` = a fixed finding is back).', '',
       '| property | mutant | site | what it breaks | confirmed | caught by |', '|---|---|---|---|---|---|']
for r in rows: out.append('| ' + ' | '.join(r) + ' |')
n = len(rows); c = sum(1 for r in rows if any('MISSED' not in part for part in r[5].split('; ')))
out += ['', '%d mutants, %d caught.' % (n, c)]
open('/verif/seeded/README.md', 'w').write('\n'.join(out) + '\n')
print('\n'.join(out[-6:]))
