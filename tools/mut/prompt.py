#!/usr/bin/env python3
"""prints the prompt for a mutant-author agent: property text only + scratch worktree"""
import json, sys
pid, k = sys.argv[1], (sys.argv[2] if len(sys.argv) > 2 else 'a')
extra = sys.argv[3] if len(sys.argv) > 3 else ''
p = [json.loads(l) for l in open('/verif/properties.jsonl') if json.loads(l)['id'] == pid][0]
wt = '/tmp/mut/%s%s' % (pid, k)
print(f"""You are testing how well a verification harness (which you cannot see) detects realistic regressions in the Python library openstack/oslo.utils. You get one semantic property of the library and your own scratch git worktree of the repository at {wt} (already created; work ONLY there and under {wt}-out/; never touch /repo or /verif, and do not read anything under /verif). Python: /venv/bin/python (run things with cwd={wt} so that `import oslo_utils` picks up your worktree — verify with `python -c "import oslo_utils; print(oslo_utils.__file__)"`). No network.

THE PROPERTY ({pid}: {p['title']}):
{p['statement']}
It is meant to hold {p['quantifier']['text']}.
Code it is anchored in: {', '.join(p['anchors']['files'])}.

YOUR TASK: produce THREE independent source changes (mutants) to the library code, each of which
 (1) BREAKS the property above on some input / sequence / schedule,
 (2) still imports/compiles and still passes the repository's existing test suite: `cd {wt} && /venv/bin/python -m pytest -q -p no:cacheprovider --timeout=900 --continue-on-collection-errors 2>&1 | tail -12` must show exactly the same outcome as on the unmodified tree (on the unmodified tree it ends with `7 failed, 472 passed, 17 skipped` — 7 tests fail for environmental reasons; record that baseline list of failing test names first; your change must leave the same 472 passing and the same 7 failing),
 (3) is REALISTIC — the kind of slip a maintainer could make in a refactor, optimisation, "simplification" or bug fix (off-by-one, flipped/loosened comparison, wrong operator precedence, dropped branch or table entry, reordered statements, stale cached value, early return, wrong default, regex class edit, missing re-check after state change) — not sabotage, and
 (4) is SUBTLE: it needs something specific to manifest (an unusual input, a boundary value, a particular chunking/interleaving or multi-step sequence of operations, a fault at a particular point, or two cooperating edits that each look fine alone); ordinary use and the existing tests must not expose it at once. Prefer three mutants of different kinds at different code sites. {extra}
For each mutant k in 1..3 write into {wt}-out/ (create it): `m<k>.diff` (output of `git diff` in the worktree against HEAD — source changes only, no test files), `demo_m<k>.py` (a small stand-alone program run as `cd <tree> && /venv/bin/python demo_m<k>.py` that exits 0 on the unmodified tree and exits non-zero, printing what went wrong, on the mutated tree — it demonstrates the property violation through the library's public behaviour), and `meta_m<k>.json` ({{"property": "{pid}", "summary": "...", "site": "file:function", "kind": "...", "needs_to_manifest": "...", "why_tests_miss_it": "..."}}). After writing each diff, `git checkout -- .` to return to a clean tree before the next mutant. Verify all of (1)–(2) yourself for each mutant by applying its diff to the clean tree (`git apply`), running the demo (must fail) and the suite (must match baseline), reverting, and running the demo again (must pass).
Finish with a ≤ 15-line summary: for each mutant one line (site, what it breaks, what it needs to manifest) and confirmation of the checks you ran. Leave the worktree clean (git checkout -- .).""")
