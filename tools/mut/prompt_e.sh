#!/bin/bash
# tools/mut/prompt_c.sh Cnn : round-e prompt (cross-file / cooperating / environment-dependent), fresh worktree at /repo HEAD
id=$1
prev=$(python3 - "$id" <<'PY'
import json,glob,sys
out=[]
for r in "abcd":
    for f in sorted(glob.glob('/tmp/mut/%s%s-out/meta_m*.json' % (sys.argv[1], r))):
        try:
            m=json.load(open(f)); out.append('- %s: %s' % (m.get('site','?'), (m.get('summary','') or '')[:140].replace('\n',' ')))
        except Exception: pass
print('\n'.join(out))
PY
)
extra="Four earlier rounds already produced the mutants listed below; yours must be DIFFERENT in site and mechanism. This round, aim for changes OUTSIDE the obvious function bodies: (i) an edit in ANOTHER module or helper the anchored code depends on (shared helpers, module-level constants/tables/regexes, base classes, imported utility functions, default arguments, __init__ wiring, the units/i18n/encodeutils helpers) whose effect on this property is indirect; (ii) two cooperating edits in different files/classes that each look harmless alone; (iii) behaviour that depends on process state or environment (module import order, a global mutated elsewhere, locale/encoding defaults, recursion depth, hash ordering, object reuse, re-entrancy, generator/iterator exhaustion); (iv) a performance-motivated rewrite (precomputed table, memoisation, early exit, slicing by a precomputed length, bytes vs memoryview) that is wrong only on a boundary; (v) an exception-path change (wrong exception class caught, finally/else moved, cleanup skipped on an error path, error swallowed and a default returned). Earlier mutants (do not repeat): 
$prev"
git -C /repo worktree remove --force /tmp/mut/${id}e 2>/dev/null
git -C /repo worktree add -q --detach /tmp/mut/${id}e HEAD && mkdir -p /tmp/mut/${id}e-out
python3 /verif/tools/mut/prompt.py $id e "$extra" > /tmp/mut/${id}e.prompt
wc -c /tmp/mut/${id}e.prompt
