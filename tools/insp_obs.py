"""Observation protocol for the format inspectors (the implementation side of coq/Extract/Insp_x.v).

observe(fmt, data, sizes, late=None) -> str
  cut `data` into chunks of the given sizes (the rest, if any, is one more chunk), feed them to a fresh
  ALL_FORMATS[fmt]() until the first exception (that is what InspectWrapper does), finish(), optionally
  feed `late` after finish.  After every eat_chunk and after finish one record
      exn;format_match;complete;virtual_size;safety;position;name:offset:length:len(data),...
  records joined by '|', then '|#' and per region name=len.sum.weightedsum of the retained bytes.
"""
import logging, os, sys

def fi():
    from oslo_utils.imageutils import format_inspector
    logging.getLogger(format_inspector.__name__).disabled = True
    return format_inspector

def split_sizes(data, sizes):
    out = []; pos = 0
    for n in sizes:
        out.append(data[pos:pos + n]); pos = min(len(data), pos + n)
    if pos < len(data): out.append(data[pos:])
    return out

def cls_name(e):
    return type(e).__name__

def q(f):
    try:
        v = f()
    except Exception as e:
        return 'EXN:' + cls_name(e)
    return str(v)

def safety(insp, m):
    try:
        insp.safety_check()
        return 'pass'
    except m.SafetyCheckFailed as e:
        return 'fail:' + ','.join(e.failures.keys())
    except m.ImageFormatError:
        return 'refused'
    except Exception as e:
        return 'crash:' + cls_name(e)

def record(insp, exn, m):
    regs = ','.join('%s:%d:%d:%d' % (n, r.offset, r.length, len(r.data)) for n, r in insp._capture_regions.items())
    return ';'.join([exn, q(lambda: insp.format_match), q(lambda: insp.complete), q(lambda: insp.virtual_size),
                     safety(insp, m), str(insp._total_count), regs])

def sums(b):
    s1 = sum(b)
    s2 = sum((i + 1) * x for i, x in enumerate(b))
    return '%d.%d.%d' % (len(b), s1, s2)

def observe(fmt, data, sizes, late=None, queries=True, inspector=None, between=None):
    """queries=False: do not touch any property between chunks (records only after finish)"""
    m = fi()
    insp = inspector if inspector is not None else m.ALL_FORMATS[fmt]()
    recs = []
    for k, chunk in enumerate(split_sizes(data, sizes)):
        if between is not None: between(k)       # what else happens in the process between two chunks
        try:
            insp.eat_chunk(chunk); e = '-'
        except Exception as ex:
            e = cls_name(ex)
        if queries or e != '-': recs.append(record(insp, e, m))
        if e != '-': break
    insp.finish()
    recs.append(record(insp, '-', m))
    if late is not None:
        try:
            insp.eat_chunk(late); e = '-'
        except Exception as ex:
            e = cls_name(ex)
        recs.append(record(insp, e, m))
    return '|'.join(recs) + '|#' + ','.join('%s=%s' % (n, sums(r.data)) for n, r in insp._capture_regions.items())

def final_record(obs):
    """the record after finish (the verdict) and the retained-bytes part"""
    body, _, tail = obs.partition('|#')
    return body.split('|'), tail
