"""Observation protocol for the format inspectors (the implementation side of coq/Extract/Insp_x.v).

observe(fmt, data, sizes, late=None) -> str
  cut `data` into chunks of the given sizes (the rest, if any, is one more chunk), feed them to a fresh
  ALL_FORMATS[fmt]() until the first exception (that is what InspectWrapper does), finish(), optionally
  feed `late` after finish.  After every eat_chunk and after finish one record
      exn;format_match;complete;virtual_size;safety;position;name:offset:length:len(data),...
  records joined by '|', then '|#' and per region name=len.sum.weightedsum of the retained bytes.
"""
import logging, os, sys

def fi():
    from oslo_utils.imageutils import format_inspector
    logging.getLogger(format_inspector.__name__).disabled = True
    return format_inspector

def split_sizes(data, sizes):
    out = []; pos = 0
    for n in sizes:
        out.append(data[pos:pos + n]); pos = min(len(data), pos + n)
    if pos < len(data): out.append(data[pos:])
    return out

def cls_name(e):
    return type(e).__name__

def q(f):
    try:
        v = f()
    except Exception as e:
        return 'EXN:' + cls_name(e)
    return str(v)

def safety(insp, m):
    try:
        insp.safety_check()
        return 'pass'
    except m.SafetyCheckFailed as e:
        return 'fail:' + ','.join(e.failures.keys())
    except m.ImageFormatError:
        return 'refused'
    except Exception as e:
        return 'crash:' + cls_name(e)

def record(insp, exn, m):
    regs = ','.join('%s:%d:%d:%d' % (n, r.offset, r.length, len(r.data)) for n, r in insp._capture_regions.items())
    return ';'.join([exn, q(lambda: insp.format_match), q(lambda: insp.complete), q(lambda: insp.virtual_size),
                     safety(insp, m), str(insp._total_count), regs])

def sums(b):
    s1 = sum(b)
    s2 = sum((i + 1) * x for i, x in enumerate(b))
    return '%d.%d.%d' % (len(b), s1, s2)

# ---------------------------------------------------------------------------------------------------------------
# Chunk CONTAINERS.  The inspectors are handed whatever the caller's read loop produces: bytes, a fresh bytearray, one
# bytearray that is re-used (refilled / overwritten) for every read, a memoryview over such a buffer (the zero-copy
# `readinto` loop), a read-only memoryview.  The code copies what it keeps, so the observation depends on the CONTENT only;
# every observation varies the container deterministically per case unless the caller fixes it.
KINDS = ['bytes', 'bytearray', 'reused', 'view', 'roview']
SCRIBBLE = bytes([0xA5, 0x5A, 0xC3, 0x3C, 0x00, 0xFF, 0x4B, 0x44])        # what the buffer holds once the call has returned

def container_kind(data, sizes):
    """the default container of a case: a function of the case alone"""
    return KINDS[(len(data) * 31 + sum(sizes) * 7 + len(sizes) * 3 + (data[len(data) // 2] if data else 0)) % len(KINDS)]

class Feeder:
    def __init__(self, kind):
        if kind not in KINDS: raise KeyError(kind)
        self.kind = kind; self.buf = bytearray(); self.n = 0; self.cap = bytearray(1 << 16)
    def wrap(self, chunk):
        """the object the caller's loop would hand over for this chunk"""
        chunk = bytes(chunk); k = self.kind; self.n = len(chunk)
        if k == 'bytes': return chunk
        if k == 'bytearray': return bytearray(chunk)
        if k == 'roview': return memoryview(chunk)
        if k == 'reused':
            try: self.buf[:] = chunk                 # the same object, refilled
            except BufferError: self.buf = bytearray(chunk)      # someone holds an export of our buffer: a new one
            return self.buf
        # 'view': a slice of one big re-used buffer
        if len(self.cap) < len(chunk):
            try: self.cap.extend(bytes(len(chunk) - len(self.cap)))
            except BufferError: self.cap = bytearray(len(chunk))
        self.cap[:len(chunk)] = chunk
        return memoryview(self.cap)[:len(chunk)]
    def after(self):
        """the call has returned: the loop re-uses its buffer"""
        pat = (SCRIBBLE * (self.n // len(SCRIBBLE) + 1))[:self.n]
        if self.kind == 'reused' and len(self.buf) == self.n: self.buf[:] = pat
        elif self.kind == 'reused': self.buf = bytearray(pat)     # the callee resized the caller's object
        elif self.kind == 'view': self.cap[:self.n] = pat

def eat(insp, chunk, feeder):
    """insp.eat_chunk(<chunk in the feeder's container>), then the caller re-uses its buffer (also when eat_chunk raised)"""
    try:
        insp.eat_chunk(feeder.wrap(chunk))
    finally:
        feeder.after()

def observe(fmt, data, sizes, late=None, queries=True, inspector=None, between=None, container=None):
    """queries=False: do not touch any property between chunks (records only after finish);
    container: one of KINDS, default container_kind(data, sizes)"""
    m = fi()
    insp = inspector if inspector is not None else m.ALL_FORMATS[fmt]()
    feeder = Feeder(container or container_kind(data, sizes))
    recs = []
    for k, chunk in enumerate(split_sizes(data, sizes)):
        if between is not None: between(k)       # what else happens in the process between two chunks
        try:
            eat(insp, chunk, feeder); e = '-'
        except Exception as ex:
            e = cls_name(ex)
        if queries or e != '-': recs.append(record(insp, e, m))
        if e != '-': break
    insp.finish()
    recs.append(record(insp, '-', m))
    if late is not None:
        try:
            eat(insp, late, feeder); e = '-'
        except Exception as ex:
            e = cls_name(ex)
        recs.append(record(insp, e, m))
    return '|'.join(recs) + '|#' + ','.join('%s=%s' % (n, sums(r.data)) for n, r in insp._capture_regions.items())

def final_record(obs):
    """the record after finish (the verdict) and the retained-bytes part"""
    body, _, tail = obs.partition('|#')
    return body.split('|'), tail


# ---------------------------------------------------------------------------------------------------------------
# InspectWrapper: reads through the wrapper from a source that hands out the chunk containers above, may answer a read
# with an empty result although the stream goes on (size 0 reads, transient empty reads of a non-blocking source).
class Source:
    def __init__(self, data, feeder, empties=()):
        self.data = data; self.pos = 0; self.k = 0; self.feeder = feeder; self.empties = set(empties)
    def read(self, size):
        k = self.k; self.k += 1
        if k in self.empties: return self.feeder.wrap(b'')
        chunk = self.data[self.pos:self.pos + size]; self.pos += len(chunk)
        return self.feeder.wrap(chunk)

def observe_wrapper(data, reads, empties=(), container=None, expected_format=None, allowed_formats=None, before=None):
    """read `reads` sizes (0 allowed) through InspectWrapper, then the rest, close(); -> 'format:virtual_size|formats|flags'
    flags: READ-BAD the bytes the reader got at read time are not the source's; KEPT-BAD the chunk objects the reader
    received (fresh containers only) no longer hold the source's bytes after the run."""
    m = fi()
    feeder = Feeder(container or container_kind(data, reads))
    src = Source(data, feeder, empties)
    w = m.InspectWrapper(src, expected_format=expected_format, allowed_formats=allowed_formats)
    copies = []; kept = []; out = []
    def rd(n):
        if before is not None: before(len(copies))
        c = w.read(n)
        copies.append(bytes(c))
        if feeder.kind in ('bytes', 'bytearray', 'roview'): kept.append(c)
        feeder.after()
        return c
    try:
        for n in reads: rd(n)
        guard = 0
        while src.pos < len(data) and guard < 64:
            rd(max(1, len(data) - src.pos)); guard += 1
        w.close()
        f = w.format
        out.append('%s:%s' % (f, q(lambda: f.virtual_size)))
        out.append(','.join(sorted(str(x) for x in w.formats)))
    except Exception as e:
        out.append('EXN:' + cls_name(e))
    flags = []
    got = b''.join(copies)                 # what the reader was given (a read that raised delivered nothing)
    if got != data[:len(got)]: flags.append('READ-BAD')
    if kept and b''.join(bytes(x) for x in kept) != got: flags.append('KEPT-BAD')
    out.append(','.join(flags))
    return '|'.join(out)
