#!/venv/bin/python
"""Generic check runner.  ./check Cnn quick|thorough   |   ./check Cnn --replay file

Per property plugin (tools/props/Cnn.py) interface — all optional except ID:

  ID                      'C17'
  GEN                     [('Gen/X.v', callable returning the file text), ...]   (translator items)
  THEOREM_FILES           ['Properties/C17.v']            (default)
  EQUIV_FILES             [...]  .v files whose lemmas named *_equiv are translator-equivalence obligations
  EXTRACT                 'Extract/C17_x.v' or None       (model driver for the correspondence)
  gen_cases(rng, tier)    -> iterable of case dicts (JSON-serialisable); case['op'] selects the operation
  encode(case)            -> list of driver arguments (str | bytes | int | list[int])
  impl(case)              -> canonical result string from the real implementation
  decode(case, out_str)   -> canonical result string from the model output (default identity)
  oracle(case, impl_out)  -> None, or a message when the PROPERTY is violated on this case (model-free)
  zone(case)              -> None, or the id of the known finding whose zone contains the case
  classify(case, out)     -> short category string for the distribution table
  search(rng, budget)     -> iterable of extra cases tried (through oracle) when a proof or the
                             correspondence is broken
  extra_checks(rng, tier) -> iterable of (name, case, message_or_None): further model-free checks
  TRUSTED                 list of strings appended to the trusted base in the evidence
  RULE                    text for coverage.rule
"""
import sys, os, json, time, random, subprocess, hashlib, importlib, re, fcntl, glob, shutil, traceback, resource

ROOT = os.path.dirname(os.path.dirname(os.path.abspath(__file__)))
REPO = os.environ.get('VERIF_REPO', '/repo')
COQ = os.path.join(ROOT, 'coq')
BUILD = os.path.join(ROOT, 'build')
sys.path.insert(0, os.path.join(ROOT, 'tools'))
sys.path.insert(0, os.path.join(ROOT, 'tools', 'gen'))
sys.path.insert(0, REPO)
sys.dont_write_bytecode = True

FORBIDDEN = re.compile(r'\b(Admitted|admit|Axiom|Axioms|Parameter|Parameters|Conjecture|Conjectures|Unset\s+Guard|bypass_check|Admit\s+Obligations|Unset\s+Positivity|Unset\s+Universe)\b|type-in-type|impredicative-set')
ALLOWED_AXIOMS = {
    # axioms declared by the standard library itself (named in DESIGN §8)
    'ClassicalDedekindReals.sig_forall_dec', 'ClassicalDedekindReals.sig_not_dec',
    'FunctionalExtensionality.functional_extensionality_dep',
    'Classical_Prop.classic', 'Eqdep.Eq_rect_eq.eq_rect_eq', 'JMeq.JMeq_eq',
    'ProofIrrelevance.proof_irrelevance',
}
# the same axioms as coqchk names them (module path spelled out)
ALLOWED_AXIOMS_CHK = {
    'Coq.Reals.ClassicalDedekindReals.sig_forall_dec', 'Coq.Reals.ClassicalDedekindReals.sig_not_dec',
    'Coq.Logic.FunctionalExtensionality.functional_extensionality_dep', 'Coq.Logic.Classical_Prop.classic',
    'Coq.Logic.Eqdep.Eq_rect_eq.eq_rect_eq', 'Coq.Logic.JMeq.JMeq_eq', 'Coq.Logic.ProofIrrelevance.proof_irrelevance',
}
COMMON_GEN = [('Gen/Unicode.v', 'unicode_tables')]

def log(*a):
    print(*a, flush=True)

class Lock:
    def __init__(self, name):
        os.makedirs(BUILD, exist_ok=True)
        self.path = os.path.join(BUILD, name)
    def __enter__(self):
        self.f = open(self.path, 'w'); fcntl.flock(self.f, fcntl.LOCK_EX); return self
    def __exit__(self, *a):
        fcntl.flock(self.f, fcntl.LOCK_UN); self.f.close()

def sh(cmd, cwd=None, timeout=1800):
    p = subprocess.run(cmd, cwd=cwd, shell=isinstance(cmd, str), stdout=subprocess.PIPE, stderr=subprocess.STDOUT,
                       timeout=timeout, text=True, errors='replace')
    return p.returncode, p.stdout

# ---------------------------------------------------------------- Gen

def write_if_changed(path, text):
    try:
        if open(path).read() == text: return False
    except FileNotFoundError:
        pass
    os.makedirs(os.path.dirname(path), exist_ok=True)
    tmp = path + '.tmp%d' % os.getpid()
    open(tmp, 'w').write(text); os.replace(tmp, path)
    return True

def regenerate(items):
    """items: [(relpath, callable|modulename)].  Returns (changed, fallbacks)."""
    changed, fallbacks = [], []
    for rel, fn in items:
        dst = os.path.join(COQ, rel)
        try:
            if isinstance(fn, str):
                fn = importlib.import_module(fn).generate
            text = fn()
        except Exception as e:
            base = os.path.join(COQ, rel.replace('Gen/', 'GenBaseline/'))
            fallbacks.append({'item': rel, 'reason': '%s: %s' % (type(e).__name__, str(e)[:300])})
            log('translator: cannot regenerate %s (%s: %s); using the committed baseline copy' % (rel, type(e).__name__, str(e)[:200]))
            if os.path.exists(base):
                text = open(base).read()
            else:
                continue
        if write_if_changed(dst, text): changed.append(rel)
    return changed, fallbacks

# ---------------------------------------------------------------- Coq build

def coq_files():
    out = []
    for d in ('Base', 'Gen', 'Model', 'Proofs', 'Properties'):
        out += sorted(glob.glob(os.path.join(COQ, d, '*.v')))
    return [os.path.relpath(f, COQ) for f in out]

def ensure_makefile():
    files = coq_files()
    proj = '-Q . OV\n' + '\n'.join(files) + '\n'
    if write_if_changed(os.path.join(COQ, '_CoqProject'), proj) or not os.path.exists(os.path.join(COQ, 'Makefile')):
        rc, out = sh('coq_makefile -f _CoqProject -o Makefile', cwd=COQ)
        if rc: raise RuntimeError('coq_makefile failed: ' + out)
        # dependencies must be recomputed
        for f in glob.glob(os.path.join(COQ, '.Makefile.d')): os.remove(f)

def nearest_statement(vfile, line):
    name = None
    try:
        for i, l in enumerate(open(vfile), 1):
            m = re.match(r'\s*(?:Local\s+|Global\s+)?(Theorem|Lemma|Corollary|Example|Definition|Fixpoint|Fact|Remark|Proposition)\s+([\w\']+)', l)
            if m: cand = m.group(2)
            else: cand = None
            if i > line: break
            if cand: name = cand
    except Exception:
        pass
    return name

def parse_coq_error(out):
    broken = []
    for m in re.finditer(r'File "([^"]+)", line (\d+), characters [\d-]+:\s*\n((?:Error|Warning)[^\n]*(?:\n(?!File ).*){0,6})', out):
        f, line, msg = m.group(1), int(m.group(2)), m.group(3)
        if not msg.startswith('Error'): continue
        vf = os.path.normpath(os.path.join(COQ, f))
        broken.append({'file': os.path.relpath(vf, COQ), 'line': line, 'statement': nearest_statement(vf, line), 'error': msg.strip()[:400]})
    return broken

def theorems_in(vfile):
    names = []
    for l in open(vfile):
        m = re.match(r'\s*(Theorem|Corollary|Lemma)\s+([\w\']+)', l)
        if m: names.append(m.group(2))
    return names

def parse_assumptions(out):
    """returns list of assumption sets in order of the Print Assumptions commands"""
    res = []; cur = None
    for l in out.splitlines():
        if l.startswith('Closed under the global context'):
            if cur is not None: res.append(cur); cur = None
            res.append([])
        elif l.startswith('Axioms:'):
            if cur is not None: res.append(cur)
            cur = []
        elif cur is not None:
            m = re.match(r'^([A-Za-z_][\w\.\']*)\s*(:|$)', l)
            if m and not l.startswith(' '): cur.append(m.group(1))
            elif not l.startswith(' ') and l.strip() and not m:
                res.append(cur); cur = None
    if cur is not None: res.append(cur)
    return res

def strip_coq_comments(txt):
    out = []; depth = 0; i = 0; n = len(txt)
    while i < n:
        if txt.startswith('(*', i): depth += 1; i += 2; continue
        if depth and txt.startswith('*)', i): depth -= 1; i += 2; continue
        if depth == 0: out.append(txt[i])
        i += 1
    return ''.join(out)

def grep_gate():
    """forbidden vernacular anywhere under coq/ (comments excluded), and Variable/Hypothesis/Context declared
    outside a Section (which would be a global axiom-like declaration)"""
    bad = []
    for f in glob.glob(os.path.join(COQ, '**', '*.v'), recursive=True):
        txt = open(f, errors='replace').read()
        stripped = strip_coq_comments(txt)
        for m in FORBIDDEN.finditer(stripped):
            bad.append('%s: %s' % (os.path.relpath(f, COQ), m.group(0)))
        stack = []      # ('S'|'M', name)
        for sent in re.split(r'\.(?:\s+|$)', stripped):      # vernacular sentences (several may share a line)
            m = re.match(r'\s*(?:(?:Local|Global|Polymorphic|#\[[^\]]*\])\s+)*(Section|Module\s+Type|Module|End|Variables?|Hypothes[ie]s|Context)\b\s*([\w\']*)', sent)
            if not m: continue
            k, name = m.group(1), m.group(2)
            if k == 'Section': stack.append(('S', name))
            elif k.startswith('Module'):
                # `Module X := Y.` does not open a scope
                if ':=' not in sent: stack.append(('M', name))
            elif k == 'End':
                for j in range(len(stack) - 1, -1, -1):
                    if stack[j][1] == name: del stack[j:]; break
            else:
                if not any(t == 'S' for t, _ in stack):
                    bad.append('%s: %s %s outside a Section' % (os.path.relpath(f, COQ), k, name))
    return bad

def build_coq(plugin, timeout):
    """returns dict(ok, obligations, discharged, broken, assumptions, log)"""
    thm_files = getattr(plugin, 'THEOREM_FILES', ['Properties/%s.v' % plugin.ID])
    equiv_files = getattr(plugin, 'EQUIV_FILES', [])
    res = {'ok': True, 'broken': [], 'assumptions': [], 'theorems': [], 'log': ''}
    ensure_makefile()
    names = []
    for tf in thm_files:
        p = os.path.join(COQ, tf)
        if os.path.exists(p): names += theorems_in(p)
    equiv = []
    for ef in equiv_files:
        p = os.path.join(COQ, ef)
        if os.path.exists(p): equiv += [n for n in theorems_in(p) if n.endswith('_equiv')]
    res['theorems'] = names; res['equiv'] = equiv
    targets = [tf[:-2] + '.vo' for tf in thm_files]
    for t in targets:   # force the property files to be rechecked so that Print Assumptions output is fresh
        for ext in ('.vo', '.vos', '.vok', '.glob'):
            try: os.remove(os.path.join(COQ, t[:-3] + ext))
            except FileNotFoundError: pass
    rc, out = sh('timeout %d make -j%d %s 2>&1' % (timeout, int(os.environ.get('VERIF_JOBS', '8')), ' '.join(targets)), cwd=COQ, timeout=timeout + 30)
    res['log'] = out[-20000:]
    if rc != 0:
        res['ok'] = False
        res['broken'] = parse_coq_error(out) or [{'file': '?', 'line': 0, 'statement': None, 'error': out[-600:]}]
        # which theorems are still discharged?  Those whose Print Assumptions output exists: none if the
        # property file itself did not build.
        res['discharged'] = 0
    else:
        ass = parse_assumptions(out)
        res['assumptions'] = ass
        res['discharged'] = min(len(ass), len(names)) + len(equiv)
        foreign = sorted({a for s in ass for a in s if a not in ALLOWED_AXIOMS})
        if foreign:
            res['ok'] = False
            res['broken'].append({'file': thm_files[0], 'line': 0, 'statement': None, 'error': 'assumptions outside the allow-list: ' + ', '.join(foreign)})
        if len(ass) < len(names):
            res['ok'] = False
            res['broken'].append({'file': thm_files[0], 'line': 0, 'statement': None, 'error': 'Print Assumptions output missing for %d theorem(s)' % (len(names) - len(ass))})
    res['obligations'] = len(names) + len(equiv)
    return res

# ---------------------------------------------------------------- extraction + driver

def build_driver(plugin, timeout=600):
    x = getattr(plugin, 'EXTRACT', None)
    if not x: return None, None
    d = os.path.join(BUILD, 'ocaml', plugin.ID)
    os.makedirs(d, exist_ok=True)
    src = open(os.path.join(COQ, x)).read()
    # the model files the extraction needs
    deps = ' '.join(sorted(set(m.replace('.', '/') + '.vo' for m in re.findall(r'\bOV\.(\w+(?:\.\w+)*)', src))))
    rc, out = sh('timeout %d make -j8 %s 2>&1' % (timeout, deps), cwd=COQ, timeout=timeout + 30)
    if rc != 0:
        return None, 'model does not build: ' + (parse_coq_error(out) and json.dumps(parse_coq_error(out)[0]) or out[-400:])
    write_if_changed(os.path.join(d, 'x.v'), src)
    rc, out = sh('timeout %d coqc -Q %s OV x.v 2>&1' % (timeout, COQ), cwd=d, timeout=timeout + 30)
    if rc != 0:
        return None, 'extraction failed: ' + out[-400:]
    ml = open(os.path.join(d, 'model.ml')).read()
    h = hashlib.sha1((ml + open(os.path.join(ROOT, 'ocaml', 'driver.ml')).read()).encode()).hexdigest()
    stamp = os.path.join(d, 'driver.sha1')
    exe = os.path.join(d, 'driver')
    if not (os.path.exists(exe) and os.path.exists(stamp) and open(stamp).read() == h):
        shutil.copy(os.path.join(ROOT, 'ocaml', 'driver.ml'), os.path.join(d, 'driver.ml'))
        rc, out = sh('ocamlfind ocamlopt -O3 -w -a model.mli model.ml driver.ml -o driver 2>&1', cwd=d, timeout=600)
        if rc != 0:
            return None, 'ocaml build failed: ' + out[-400:]
        open(stamp, 'w').write(h)
    return exe, None

def enc_arg(a):
    if isinstance(a, bool): a = 'True' if a else 'False'
    if isinstance(a, int): a = str(a)
    if isinstance(a, (bytes, bytearray)):
        return 'x' + bytes(a).hex() if a else '-'
    if isinstance(a, str):
        return 'u' + ','.join(str(ord(c)) for c in a) if a else '-'
    if isinstance(a, (list, tuple)):
        return 'u' + ','.join(str(int(c)) for c in a) if a else '-'
    raise TypeError('cannot encode %r' % (a,))

def dec_out(s):
    s = s.strip()
    if s == '-' or s == '': return ''
    return ''.join(chr(int(x)) for x in s[1:].split(','))

def _unlimit_stack():
    try: resource.setrlimit(resource.RLIMIT_STACK, (resource.RLIM_INFINITY, resource.RLIM_INFINITY))
    except Exception: pass

def run_model(exe, lines, timeout=3600, shards=None):
    """lines: list of encoded argument lines; returns list of decoded outputs"""
    if not lines: return []
    shards = shards or min(int(os.environ.get('VERIF_JOBS', '8')), max(1, len(lines) // 50))
    chunks = [lines[i::shards] for i in range(shards)]
    procs = []
    for ch in chunks:
        p = subprocess.Popen([exe], stdin=subprocess.PIPE, stdout=subprocess.PIPE, stderr=subprocess.PIPE,
                             preexec_fn=_unlimit_stack, text=True)
        procs.append(p)
    import threading
    outs = [None] * shards
    def work(i):
        o, e = procs[i].communicate('\n'.join(chunks[i]) + '\n', timeout=timeout)
        outs[i] = (o, e, procs[i].returncode)
    ths = [threading.Thread(target=work, args=(i,)) for i in range(shards)]
    [t.start() for t in ths]; [t.join() for t in ths]
    res = [None] * len(lines)
    for i in range(shards):
        o, e, rc = outs[i]
        ol = o.split('\n')
        if ol and ol[-1] == '': ol.pop()
        for j, idx in enumerate(range(i, len(lines), shards)):
            res[idx] = dec_out(ol[j]) if j < len(ol) else 'MODEL-CRASH(%s)' % (e.strip()[-120:] if e else rc)
    return res

# ---------------------------------------------------------------- known findings

def load_known(pid):
    known, fixed = [], []
    p = os.path.join(ROOT, 'known_findings.txt')
    if not os.path.exists(p): return known, fixed
    for l in open(p):
        l = l.strip()
        if not l or l.startswith('#'): continue
        m = re.match(r'(known|fixed):\s+property=(\S+)\s+id=(\S+)\s+(.*)$', l)
        if not m: continue
        kind, prop, fid, rest = m.groups()
        if prop != pid: continue
        (known if kind == 'known' else fixed).append({'id': fid, 'text': rest})
    return known, fixed

def finding_cases(pid, fid):
    p = os.path.join(ROOT, 'findings', '%s-%s.json' % (pid, fid))
    if not os.path.exists(p): return []
    d = json.load(open(p))
    return d.get('cases', [])

# ---------------------------------------------------------------- per-case timeout
import signal
class CaseTimeout(Exception):
    pass
def _alarm(signum, frame):
    raise CaseTimeout()
def call_with_timeout(fn, arg, seconds):
    """run fn(arg) in the main thread under SIGALRM: a change that makes the implementation loop forever
    must end in a report, not in a hanging check"""
    old = signal.signal(signal.SIGALRM, _alarm)
    signal.alarm(max(1, int(seconds)))
    try:
        return fn(arg)
    finally:
        signal.alarm(0); signal.signal(signal.SIGALRM, old)

# ---------------------------------------------------------------- main

def jsonable(x):
    try:
        json.dumps(x); return x
    except Exception:
        return repr(x)[:500]

def write_replay(pid, kind, payload):
    os.makedirs(os.path.join(ROOT, 'replays'), exist_ok=True)
    h = hashlib.sha1(json.dumps(payload, sort_keys=True, default=repr).encode()).hexdigest()[:10]
    path = os.path.join(ROOT, 'replays', '%s-%s-%s.json' % (pid, kind, h))
    json.dump({'property': pid, 'kind': kind, **payload}, open(path, 'w'), indent=1, default=repr)
    return path

def short(case, n=300):
    s = json.dumps(case, default=repr)
    return s if len(s) <= n else s[:n] + '...'

def run_check(pid, tier, seed):
    t0 = time.time()
    plugin = importlib.import_module('props.' + pid)
    rng = random.Random(seed)
    violations = []        # (replay_path, suffix)
    notes = []
    ev = {'property_id': pid, 'tier': tier, 'seed': seed, 'level': 'proof', 'coverage': {}, 'assumptions': [], 'wall_s': 0.0, 'violations': 0}
    cov = ev['coverage']

    # 1-3. translator, build, gate
    with Lock('coq.lock'):
        changed, fallbacks = regenerate(COMMON_GEN + list(getattr(plugin, 'GEN', [])))
        b = build_coq(plugin, timeout=int(os.environ.get('VERIF_COQ_TIMEOUT', '2400')))
        gate = grep_gate()
        exe, exerr = build_driver(plugin)
        if tier == 'thorough' and b['ok'] and not gate and not os.environ.get('VERIF_NO_COQCHK'):
            mods = ' '.join('OV.' + t[:-2].replace('/', '.') for t in getattr(plugin, 'THEOREM_FILES', ['Properties/%s.v' % pid]))
            rc_chk, out_chk = sh('timeout 3000 coqchk -o -silent -Q . OV %s 2>&1' % mods, cwd=COQ, timeout=3100)
            m_ax = re.search(r'\* Axioms:(.*?)\n\s*\n\* Constants', out_chk, re.S)
            chk_axioms = [a.strip() for a in (m_ax.group(1) if m_ax else '?').split('\n') if a.strip()]
            cov['coqchk'] = {'cmd': 'coqchk -o -silent -Q . OV ' + mods, 'exit': rc_chk, 'axioms': chk_axioms,
                             'type_in_type': 'type-in-type: <none>' in out_chk, 'summary_tail': out_chk[-600:]}
            bad_ax = [a for a in chk_axioms if a not in ('<none>',) and a.split(' ')[0] not in ALLOWED_AXIOMS_CHK]
            if rc_chk != 0 or bad_ax:
                b['ok'] = False
                b['broken'].append({'file': 'coqchk', 'line': 0, 'statement': None, 'error': 'coqchk exit %d, axioms %s' % (rc_chk, bad_ax)})
    if changed: log('translator: regenerated', ', '.join(changed))
    cov['translator_regenerated'] = [r for r, _ in COMMON_GEN + list(getattr(plugin, 'GEN', []))]
    cov['translator_fallback'] = fallbacks
    cov['obligations'] = b['obligations']
    cov['discharged'] = b['discharged'] if not gate else 0
    cov['theorems'] = b['theorems']; cov['equivalence_lemmas'] = b.get('equiv', [])
    cov['checker_cmd'] = 'cd %s && make %s  (coqc 8.16.1 kernel; vm_compute; no native_compute)' % (COQ, ' '.join(t[:-2] + '.vo' for t in getattr(plugin, 'THEOREM_FILES', ['Properties/%s.v' % pid])))
    cov['print_assumptions'] = [('Closed under the global context' if not a else a) for a in b['assumptions']]
    proof_broken = (not b['ok']) or bool(gate)
    if gate:
        b['broken'].append({'file': 'coq/', 'line': 0, 'statement': None, 'error': 'forbidden vernacular: ' + '; '.join(gate[:5])})
    if proof_broken:
        for br in b['broken']:
            log('proof obligation no longer checks: %s:%s %s — %s' % (br['file'], br['line'], br['statement'], br['error'].replace('\n', ' ')[:300]))
    if exerr: log('model driver:', exerr)

    # 4. correspondence + oracle on generated cases
    cases = []
    corpus_dir = os.path.join(ROOT, 'corpus', pid)
    for f in sorted(glob.glob(os.path.join(corpus_dir, '*.json'))):
        try: cases.append(dict(json.load(open(f)), _corpus=os.path.basename(f)))
        except Exception: pass
    n_corpus = len(cases)
    if hasattr(plugin, 'gen_cases'):
        cases += list(plugin.gen_cases(rng, tier))
    impl_out = []
    case_timeout = int(getattr(plugin, 'CASE_TIMEOUT', os.environ.get('VERIF_CASE_TIMEOUT', '120')))
    timeouts = []
    for ci, c in enumerate(cases):
        try: impl_out.append(call_with_timeout(plugin.impl, c, case_timeout))
        except CaseTimeout:
            impl_out.append('TIMEOUT'); timeouts.append(ci)
            if len(timeouts) >= 3:      # do not sit through thousands of hanging cases
                impl_out += ['NOT-RUN'] * (len(cases) - len(impl_out)); break
        except Exception as e:
            impl_out.append('HARNESS-ERROR:%s:%s' % (type(e).__name__, str(e)[:200]))
    model_out = None
    n_modelled = 0
    if exe and cases and hasattr(plugin, 'encode'):
        encs = [plugin.encode(c) for c in cases]
        idx = [i for i, e in enumerate(encs) if e is not None]
        n_modelled = len(idx)
        outs = run_model(exe, [' '.join(enc_arg(a) for a in encs[i]) for i in idx])
        model_out = [None] * len(cases)
        for i, o in zip(idx, outs):
            model_out[i] = plugin.decode(cases[i], o) if hasattr(plugin, 'decode') else o
    diffs = []
    cats = {}
    distinct = set()
    known_hits = {}
    oracle_viol = []
    for i, c in enumerate(cases):
        io = impl_out[i]
        if io == 'NOT-RUN': continue
        if io == 'TIMEOUT':
            oracle_viol.append((i, 'the implementation did not return within %d s on this case' % case_timeout)); continue
        cat = plugin.classify(c, io) if hasattr(plugin, 'classify') else c.get('op', '?')
        cats[cat] = cats.get(cat, 0) + 1
        key = hashlib.sha1(json.dumps(c, sort_keys=True, default=repr).encode()).hexdigest()
        trivial = hasattr(plugin, 'trivial') and plugin.trivial(c, io)
        if not trivial: distinct.add(key)
        if model_out is not None and model_out[i] is not None:
            expect = plugin.project(c, io) if hasattr(plugin, 'project') else io
            if model_out[i] != expect:
                diffs.append(i)
        msg = plugin.oracle(c, io) if hasattr(plugin, 'oracle') else None
        if msg:
            z = plugin.zone(c) if hasattr(plugin, 'zone') else None
            if z: known_hits[z] = known_hits.get(z, 0) + 1
            else: oracle_viol.append((i, msg))
    extra_n = 0
    if hasattr(plugin, 'extra_checks'):
        for name, c, msg in plugin.extra_checks(rng, tier):
            extra_n += 1
            cats['extra:' + name] = cats.get('extra:' + name, 0) + 1
            if msg:
                z = plugin.zone(c) if hasattr(plugin, 'zone') else None
                if z: known_hits[z] = known_hits.get(z, 0) + 1
                else:
                    cases.append(c); impl_out.append('(extra check %s)' % name)
                    oracle_viol.append((len(cases) - 1, msg))
    extra_corr_n = 0; extra_corr_bad = []
    if hasattr(plugin, 'extra_corr'):
        # further model-vs-implementation comparisons run by the plugin itself: (number compared, [disagreements])
        try:
            extra_corr_n, extra_corr_bad = plugin.extra_corr(rng, tier)
        except Exception as e:
            extra_corr_n, extra_corr_bad = 0, [{'error': 'extra_corr crashed: %r' % e}]
        for d in extra_corr_bad[:5]:
            log('correspondence (extra): model and implementation differ: %s' % short(d))
    cov['extra_correspondence_compared'] = extra_corr_n
    cov['extra_correspondence_disagreements'] = len(extra_corr_bad)
    cov['evaluations'] = len(cases) + extra_n + extra_corr_n
    cov['distinct_nontrivial'] = len(distinct)
    cov['corpus_cases'] = n_corpus
    cov['rule'] = getattr(plugin, 'RULE', 'cases generated by tools/props/%s.py from one PRNG state (VERIF_SEED); distinct = distinct case JSON; non-trivial per plugin.trivial' % pid)
    cov['distribution'] = dict(sorted(cats.items()))
    cov['traces_validated_against_impl'] = ((n_modelled - len(diffs)) if model_out is not None else 0) + max(0, extra_corr_n - len(extra_corr_bad))
    cov['correspondence_disagreements'] = len(diffs)
    cov['samples'] = [{'case': jsonable(cases[i]), 'impl': impl_out[i], 'model': (model_out[i] if model_out is not None else None)}
                      for i in sorted(rng.sample(range(len(cases)), min(5, len(cases))))] if cases else []
    cov['samples'] += [{'obligation': t} for t in b['theorems'][:3]]
    cov['known_finding_zone_hits'] = known_hits

    for i, msg in oracle_viol[:5]:
        path = write_replay(pid, 'oracle', {'case': jsonable(cases[i]), 'impl': impl_out[i], 'message': msg})
        log('property violated on the implementation: %s  case=%s' % (msg, short(cases[i])))
        violations.append((path, ''))

    corr_broken = bool(diffs) or bool(extra_corr_bad) or (exe is None and getattr(plugin, 'EXTRACT', None) is not None)
    if exe is not None and cases and n_modelled == 0:
        # a driver exists but no case went through it: the correspondence did not run (plugin lost its encode?)
        corr_broken = True
        exerr = 'no generated case was run through the model driver (encode missing or returning None for every case)'
        log('correspondence:', exerr)
    if diffs:
        for i in diffs[:5]:
            log('correspondence: model and implementation differ: case=%s impl=%r model=%r' % (short(cases[i]), impl_out[i][:200], (model_out[i] or '')[:200]))

    # 5. known findings / fixed findings replay
    known, fixed = load_known(pid)
    reproduced = []
    for k in known:
        ok = False
        for c in finding_cases(pid, k['id']):
            try:
                msg = plugin.oracle(c, plugin.impl(c))
            except Exception as e:
                msg = 'harness error %r' % e
            if msg: ok = True; break
        if ok or known_hits.get(k['id']):
            log('KNOWN-FINDING: property=%s %s' % (pid, k['text']))
            reproduced.append(k['id'])
        else:
            notes.append('known finding %s no longer reproduces on its recorded replay' % k['id'])
            log('note: known finding %s did not reproduce (recorded replay passes now)' % k['id'])
    for k in fixed:
        for c in finding_cases(pid, k['id']):
            try:
                msg = plugin.oracle(c, plugin.impl(c))
            except Exception as e:
                msg = 'harness error %r' % e
            if msg:
                path = write_replay(pid, 'regression', {'case': jsonable(c), 'message': msg, 'fixed_entry': k})
                log('fixed finding %s is back: %s' % (k['id'], msg))
                violations.append((path, ''))
                break
    cov['known_findings_reproduced'] = reproduced
    cov['fixed_findings_replayed'] = [k['id'] for k in fixed]

    # 6. a broken proof / correspondence: search the implementation for a failing input
    if (proof_broken or corr_broken) and not violations:
        found = None
        if os.environ.get('VERIF_NO_SEARCH'): plugin = type('P', (), {'oracle': staticmethod(lambda c, o: None), 'impl': staticmethod(lambda c: '')})
        tried = 0
        cand = [cases[i] for i in diffs]
        if hasattr(plugin, 'search'):
            budget = int(os.environ.get('VERIF_SEARCH_BUDGET', '20000' if tier == 'quick' else '200000'))
            def gen():
                for c in cand: yield c
                for c in plugin.search(rng, budget): yield c
        else:
            def gen():
                for c in cand: yield c
        t_s = time.time()
        for c in gen():
            tried += 1
            try:
                msg = plugin.oracle(c, call_with_timeout(plugin.impl, c, case_timeout)) if hasattr(plugin, 'oracle') else None
            except CaseTimeout:
                msg = 'the implementation did not return within %d s on this case' % case_timeout
            except Exception as e:
                msg = None
            if msg and not (hasattr(plugin, 'zone') and plugin.zone(c)):
                found = (c, msg); break
            if time.time() - t_s > (120 if tier == 'quick' else 900): break
        cov['search_cases_tried'] = tried
        what = {'obligations_broken': b['broken'], 'gate': gate,
                'correspondence_broken': ([{'case': jsonable(cases[i]), 'impl': impl_out[i], 'model': model_out[i]} for i in diffs[:5]] if diffs else ([exerr] if exerr else []))
                                         + [jsonable(d) for d in extra_corr_bad[:5]]}
        if found:
            path = write_replay(pid, 'search', {'case': jsonable(found[0]), 'message': found[1], **what})
            log('search found a failing input: %s case=%s' % (found[1], short(found[0])))
            violations.append((path, ''))
        else:
            path = write_replay(pid, 'unproved', what)
            violations.append((path, ' no-failing-input-found'))

    ev['violations'] = len(violations)
    cov['trusted_base'] = [
        'Coq 8.16.1 kernel (coqc), vm_compute; native_compute not used',
        'axioms: none declared; Print Assumptions output per theorem in coverage.print_assumptions',
        'translator tools/gen/*.py (CPython ast, re._parser, unicodedata) with baseline fallback',
        'extraction: ExtrOcamlBasic only, no Extract Constant/Inductive of our own; ocaml/driver.ml; ocamlfind ocamlopt',
        'correspondence harness tools/runner.py + tools/props/%s.py (generators, canonicalisation)' % pid,
    ] + list(getattr(plugin, 'TRUSTED', []))
    ev['assumptions'] = list(getattr(plugin, 'ASSUMPTIONS', [])) + notes
    ev['wall_s'] = round(time.time() - t0, 2)
    os.makedirs(os.path.join(ROOT, 'evidence'), exist_ok=True)
    json.dump(ev, open(os.path.join(ROOT, 'evidence', pid + '.json'), 'w'), indent=1, default=repr)
    seen_v = set()
    for path, suffix in violations:
        if path in seen_v: continue
        seen_v.add(path)
        print('VIOLATION property=%s replay=%s%s' % (pid, path, suffix), flush=True)
    log('%s %s: obligations %d/%d, cases %d (model agreed on %d), known findings %s, %.1fs' % (
        pid, tier, cov['discharged'], cov['obligations'], cov['evaluations'], cov['traces_validated_against_impl'], reproduced, ev['wall_s']))
    return 1 if violations else 0

def replay(pid, path):
    plugin = importlib.import_module('props.' + pid)
    d = json.load(open(path))
    if 'case' not in d:
        log('replay file names broken obligations / correspondence, no concrete input:')
        log(json.dumps({k: d[k] for k in d if k in ('obligations_broken', 'correspondence_broken', 'gate')}, indent=1)[:4000])
        return 1
    c = d['case']
    out = plugin.impl(c)
    msg = plugin.oracle(c, out) if hasattr(plugin, 'oracle') else None
    log('case: %s\nimplementation: %s\noracle: %s' % (short(c, 2000), out[:2000], msg))
    return 1 if msg else 0

def main():
    if len(sys.argv) < 3:
        print(__doc__); return 2
    pid = sys.argv[1]
    if sys.argv[2] == '--replay':
        return replay(pid, sys.argv[3])
    tier = os.environ.get('VERIF_TIER') or sys.argv[2]
    if tier not in ('quick', 'thorough'): tier = sys.argv[2]
    seed = int(os.environ.get('VERIF_SEED', '20260926'))
    try:
        return run_check(pid, tier, seed)
    except Exception:
        traceback.print_exc()
        # an internal failure of the machinery is not evidence of anything: report it as a broken check
        path = write_replay(pid, 'harness', {'error': traceback.format_exc()[-3000:]})
        print('VIOLATION property=%s replay=%s no-failing-input-found' % (pid, path), flush=True)
        return 1

if __name__ == '__main__':
    sys.exit(main())
