#!/venv/bin/python
# Self-test of tools/imgbuild.py against the REAL inspectors in $VERIF_REPO (default /repo).
#   PYTHONPATH=/repo /venv/bin/python tools/imgbuild_selftest.py [seed]
# Exit status 0 = every check passed.  Prints a distribution table.
import sys, os, time, random, hashlib, collections

HERE = os.path.dirname(os.path.abspath(__file__))
sys.path.insert(0, HERE)
sys.path.insert(0, os.environ.get('VERIF_REPO', '/repo'))
import imgbuild as ib

SEED = int(sys.argv[1]) if len(sys.argv) > 1 else 20260928
T0 = time.time()
FAIL = []
NOTE = []
TAB = collections.OrderedDict()


def fail(section, msg):
    FAIL.append((section, msg))
    if len(FAIL) <= 40:
        print('FAIL [%s] %s' % (section, msg))


def row(section, key, **counts):
    d = TAB.setdefault((section, key), collections.Counter())
    for k, v in counts.items():
        d[k] += v


def some_chunkings(img, rng, k, max_chunks=None):
    n = len(img.data)
    if max_chunks is None:
        max_chunks = 4096 if n <= 8192 else 256
    allc = list(ib.chunkings(n, img.boundaries, rng, 'quick', max_chunks=max_chunks))
    for ch in allc:
        assert sum(ch) == n, (sum(ch), n)
    if len(allc) <= k:
        return allc
    return [allc[0]] + rng.sample(allc[1:], k - 1)


def vsize(insp):
    try:
        return insp.virtual_size
    except Exception as e:      # noqa
        return 'EXN:' + type(e).__name__


def verdict(fmt, data, ch):
    insp = ib.run_inspector(fmt, data, ch)
    err = type(insp.imgbuild_error).__name__ if insp.imgbuild_error is not None else None
    return (err, bool(insp.format_match), bool(insp.complete), vsize(insp), ib.safety_outcome(insp)), insp


# ---------------------------------------------------------------------------
# A. well-formed images: match, complete, safety, declared size; one chunk and several chunkings
# ---------------------------------------------------------------------------
def section_wellformed():
    rng = random.Random(SEED)
    N = {'vhdx': 14, 'vmdk': 30}
    for fmt in ib.FORMATS:
        for i in range(N.get(fmt, 25)):
            img = ib.random_wellformed(fmt, rng)
            if not img.wellformed or ib.zones_for(fmt, img.traits['zones']):
                fail('A', '%s #%d builder says not well-formed / in zone: %r %r' % (fmt, i, img.traits['defects'], img.traits['zones']))
                continue
            exp_safety = 'fail:banned' if fmt == 'qed' else 'pass'
            if img.expect_accept is not (fmt != 'qed'):
                fail('A', '%s #%d expect_accept=%r' % (fmt, i, img.expect_accept))
            want = img.declared_size if fmt != 'qed' else len(img.data)
            for ch in some_chunkings(img, rng, 10 if fmt != 'vhdx' else 8):
                v, _insp = verdict(fmt, img.data, ch)
                row('A wellformed', fmt, runs=1)
                if v != (None, True, True, want, exp_safety):
                    fail('A', '%s #%d chunks=%s.. got %r want size %r params=%r' % (
                        fmt, i, ch[:6], v, want, {k: (x if not isinstance(x, (bytes, list)) else '...') for k, x in img.params.items()}))
                    row('A wellformed', fmt, bad=1)
                    break
            row('A wellformed', fmt, images=1)
            # the wrapper (all ten inspectors) must name exactly this format: the builders create no accidental polyglot
            fi = ib._fi()
            import io
            w = fi.InspectWrapper(io.BytesIO(img.data))
            rs = rng.choice([512, 4096, 65536, 1 << 20])
            while w.read(rs):
                pass
            w.close()
            try:
                got = str(w.format)
            except Exception as e:      # noqa
                got = 'EXN:%s:%s' % (type(e).__name__, e)
            if got != fmt:
                fail('A', '%s #%d InspectWrapper.format=%s (read size %d)' % (fmt, i, got, rs))


# ---------------------------------------------------------------------------
# B. trait images against expect_accept
# ---------------------------------------------------------------------------
def section_traits():
    rng = random.Random(SEED + 1)
    for fmt in ib.FORMATS:
        for img in ib.trait_images(fmt, rng, 'quick'):
            exp = img.expect_accept
            zones = ib.zones_for(fmt, img.traits['zones'])
            chs = [[len(img.data)]] + some_chunkings(img, rng, 3)[1:]
            outs = set()
            for ch in chs:
                v, _ = verdict(fmt, img.data, ch)
                outs.add(v[0] is None and v[4] == 'pass')
            key = 'zone' if zones else ('None' if exp is None else str(exp))
            row('B traits', fmt, **{'exp_' + key: 1})
            if zones:
                continue
            if len(outs) != 1:
                fail('B', '%s accept varies with chunking outside zones: params=%r' % (fmt, img.params))
                continue
            got = outs.pop()
            if exp is None:
                row('B traits', fmt, **{'None_accepted' if got else 'None_rejected': 1})
                if got:
                    for u in img.traits['unspecified']:
                        row('B unspecified-but-accepted', u, n=1)
            elif got != exp:
                row('B traits', fmt, DISAGREE=1)
                fail('B', '%s expect_accept=%r but accepted=%r reject=%r unspecified=%r params=%r' % (
                    fmt, exp, got, img.traits['reject'], img.traits['unspecified'],
                    {k: v for k, v in img.params.items() if k not in ('ptes',)} if fmt != 'gpt' else
                    [(e['boot'], e['type'], e['chs_start'], e['lba']) for e in img.traits['ptes']]))


# ---------------------------------------------------------------------------
# C. overlays / unstructured: matching set
# ---------------------------------------------------------------------------
def matching(data, ch):
    out = {}
    for f, insp in ib.run_all(data, ch).items():
        try:
            out[f] = bool(insp.format_match)
        except Exception as e:      # noqa
            out[f] = 'EXN:' + type(e).__name__
    return out


def section_overlays():
    rng = random.Random(SEED + 2)
    imgs = list(ib.overlays(rng, 'quick'))
    imgs += [ib.unstructured(rng) for _ in range(60)]
    for img in imgs:
        n = len(img.data)
        em = img.traits['expected_matches']
        chs = [[n]]
        if n:
            chs.append(rng.choice(some_chunkings(img, rng, 6, max_chunks=600)))
        for ch in chs:
            got = matching(img.data, ch)
            row('C overlays', img.fmt, runs=1)
            for f, want in em.items():
                if want is None:
                    row('C overlays', img.fmt, undecided=1)
                    continue
                if got[f] != want:
                    fail('C', 'sigs=%r bg=%s len=%d chunks=%s.. %s: got %r want %r' % (
                        img.params.get('sigs'), img.params.get('background', img.params.get('kind')), n, ch[:5], f, got[f], want))
            if got['raw'] is not True:
                fail('C', 'raw does not match')
        row('C overlays', img.fmt, images=1, **{'nmatch_%d' % len(img.traits['expected_set']): 1})


# ---------------------------------------------------------------------------
# D. truncations / extensions keep their ground truth
# ---------------------------------------------------------------------------
def section_truncations():
    rng = random.Random(SEED + 3)
    for fmt in ib.FORMATS:
        for rep in range(2):
            img = ib.random_wellformed(fmt, rng)
            if fmt == 'vhdx':
                img = ib.build('vhdx', rng, meta_offset=256 * 1024 + 777, item_offset=65536 + 24, tail=33)
            for t in ib.truncations(img):
                if ib.zones_for(fmt, t.traits['zones']):
                    row('D truncations', fmt, zone=1)
                    continue
                v, _ = verdict(fmt, t.data, None)
                acc = v[0] is None and v[4] == 'pass'
                row('D truncations', fmt, cuts=1)
                if t.expect_accept is not None and acc != t.expect_accept:
                    fail('D', '%s cut %d/%d expect_accept=%r got %r' % (fmt, len(t.data), len(img.data), t.expect_accept, v))
                if t.wellformed and t.declared_size is not None and fmt != 'qed' and v[3] != t.declared_size:
                    fail('D', '%s cut %d/%d declared %r got %r' % (fmt, len(t.data), len(img.data), t.declared_size, v))
                if fmt in ('qcow2', 'vhd', 'vhdx', 'vmdk', 'vdi', 'iso') and v[3] != 0 \
                        and len(t.data) < img.traits['size_known_at']:
                    fail('D', '%s cut %d/%d: size %r reported before the structure is complete' % (fmt, len(t.data), len(img.data), v[3]))
            e = ib.extend(img, rng.choice([1, 512, 5000]), rng)
            v, _ = verdict(fmt, e.data, None)
            if e.wellformed and e.declared_size is not None and fmt != 'qed' and v[3] != e.declared_size:
                fail('D', '%s extended: declared %r got %r' % (fmt, e.declared_size, v))
            if e.expect_accept is not None and (v[0] is None and v[4] == 'pass') != e.expect_accept:
                fail('D', '%s extended: expect_accept %r got %r' % (fmt, e.expect_accept, v))
            row('D truncations', fmt, extended=1)


# ---------------------------------------------------------------------------
# E. mutations + hostile images: smoke (no unexpected exception class), memory bound observed after every chunk
# ---------------------------------------------------------------------------
BOUND = {'vmdk': 1536 * 1024}


def feed_watch(fmt, data, ch):
    fi = ib._fi()
    insp = fi.ALL_FORMATS[fmt]()
    peak = 0
    for c in ib.split(data, ch):
        try:
            insp.eat_chunk(c)
        except fi.ImageFormatError:
            row('E exceptions', fmt, ImageFormatError=1)
            break
        except Exception as e:      # noqa
            row('E exceptions', fmt, **{type(e).__name__: 1})
            NOTE.append('eat_chunk raised %s on %s (%d bytes)' % (type(e).__name__, fmt, len(data)))
            break
        peak = max(peak, sum(insp.context_info.values()))
    return peak


def section_mutations_hostile():
    rng = random.Random(SEED + 4)
    for fmt in ib.FORMATS:
        base = [ib.random_wellformed(fmt, rng) for _ in range(3)]
        for i in range(40 if fmt not in ('vhdx',) else 16):
            img = ib.mutate_fields(rng.choice(base), rng)
            if len(img.data) != len(base[0].data) and False:
                fail('E', 'mutate changed length')
            for ch in some_chunkings(img, rng, 3):
                v, insp = verdict(fmt, img.data, ch)
                row('E mutations', fmt, runs=1, **({'err_' + v[0]: 1} if v[0] else {}))
                if v[0] not in (None, 'ImageFormatError'):
                    NOTE.append('%s mutated %r: eat_chunk raised %s' % (fmt, img.traits['history'][-1], v[0]))
                if isinstance(v[3], str):
                    row('E mutations', fmt, **{'vsize_' + v[3]: 1})
                if v[4].startswith('crash'):
                    fail('E', '%s safety_check crashed %s on %r' % (fmt, v[4], img.traits['history']))
    n_img = 0
    for img in ib.hostile_images(rng, 'quick'):
        n_img += 1
        n = len(img.data)
        targets = {img.fmt if img.fmt in ib.FORMATS else 'raw', 'vmdk', 'vhdx'}
        for fmt in sorted(targets):
            for ch in ([n], [65536] * (n // 65536) + ([n % 65536] if n % 65536 else [])):
                peak = feed_watch(fmt, img.data, ch)
                row('E hostile', fmt, runs=1)
                d = TAB[('E hostile', fmt)]
                d['peak_bytes'] = max(d['peak_bytes'], peak)
                if peak > BOUND.get(fmt, 512 * 1024):
                    fail('E', '%s retains %d bytes on hostile image %r' % (fmt, peak, img.params))
    row('E hostile', 'images', n=n_img)


# ---------------------------------------------------------------------------
# F. chunkings invariants, determinism
# ---------------------------------------------------------------------------
def section_chunkings():
    rng = random.Random(SEED + 5)
    for n, bounds in ((0, [0]), (1, [0, 1]), (5, [0, 2, 5]), (600, [0, 4, 64, 512, 592, 600]),
                      (40000, [0, 512, 32768, 34816, 40000]), (400000, [0, 8, 32, 196608, 262144, 300000, 400000])):
        for tier in ('quick', 'thorough'):
            allc = list(ib.chunkings(n, bounds, rng, tier))
            assert all(sum(c) == n for c in allc), n
            assert len({tuple(c) for c in allc}) == len(allc)
            if n:
                assert [n] in allc
                assert any(0 in c for c in allc)
                if n <= 4096:
                    assert [1] * n in allc
                else:
                    assert all(len(c) <= 4096 + 64 for c in allc)
                for b in bounds:
                    for d in (-1, 0, 1):
                        if 0 < b + d < n:
                            assert [b + d, n - b - d] in allc, (n, b, d)
            row('F chunkings', 'n=%d %s' % (n, tier), lists=len(allc))

    def digest(seed):
        r = random.Random(seed)
        h = hashlib.sha1()
        for f in ib.FORMATS:
            h.update(ib.random_wellformed(f, r).data)
            for k, img in enumerate(ib.trait_images(f, r, 'quick')):
                if k % 7 == 0:
                    h.update(img.data)
        for k, img in enumerate(ib.overlays(r, 'quick')):
            if k % 50 == 0:
                h.update(img.data)
        h.update(repr([list(c) for c in ib.chunkings(1000, [0, 512, 1000], r, 'quick')]).encode())
        return h.hexdigest()
    if digest(5) != digest(5):
        fail('F', 'generators are not deterministic')
    row('F chunkings', 'determinism', ok=1)


def main():
    for sec in (section_wellformed, section_traits, section_overlays, section_truncations,
                section_mutations_hostile, section_chunkings):
        t = time.time()
        sec()
        print('-- %s: %.1f s' % (sec.__name__, time.time() - t))
    print()
    print('%-28s %-34s %s' % ('section', 'key', 'counts'))
    for (sec, key), c in TAB.items():
        print('%-28s %-34s %s' % (sec, key, ' '.join('%s=%d' % kv for kv in sorted(c.items()))))
    if NOTE:
        print()
        print('notes (not failures): %d' % len(NOTE))
        for k, v in collections.Counter(NOTE).most_common(12):
            print('  %3d x %s' % (v, k))
    print()
    print('imgbuild self-test: %d failure(s), %.1f s, seed %d' % (len(FAIL), time.time() - T0, SEED))
    return 1 if FAIL else 0


if __name__ == '__main__':
    sys.exit(main())
