"""C01 / VMDK: ties the whole-buffer SPECIFICATION `vmdk_spec` (coq/Model/C01_Vmdk.v) and the two Coq
zone predicates to the implementation.  Meant to be wired into tools/props/C01.py:

    from props import C01_vmdk_spec
    def extra_checks(rng, tier): yield from C01_vmdk_spec.extra_checks(rng, tier)

For every generated VMDK case (the plugin's own generators + targeted boundary cases below):
  * the Coq zone predicates must say exactly what the plugin's Python `zone` says
    (zone_vmdk_text <-> 'F1', zone_vmdk_shortfoot <-> 'F3');
  * outside both zones the final verdict of the REAL VMDKInspector run with the case's chunking
    (exception of the chunk that raised, format_match, complete, virtual_size, safety) must equal
    `vmdk_spec data` as computed by the extracted Coq function.
A failing case carries fmt='vmdk', so the plugin's zone() classifies it when it lies in F1/F3.

NOTE for the integrator: a `vmdk_spec` message says "the code no longer computes vmdk_spec" -- that is the tie between the
Coq SPEC and the code (a correspondence-type statement), which is MORE than C01's text (chunking independence) demands: an
edit that changes the verdict function consistently for all chunkings is reported here although C01 still holds for it.
Wire `extra_checks` if such a disagreement should count as a violation with its input; use `spec_disagreements` (same
triples, only the failing ones) if it should be treated like a correspondence disagreement instead.
The two Coq witnesses of C01_refuted_vmdk_text / C01_refuted_vmdk_shortfoot are replayed on the implementation by
`witness_checks` (never a violation: when a finding gets fixed the witness simply stops reproducing).
"""
import os, sys, struct

ID = 'C01_Vmdk'
EXTRACT = 'Extract/C01_Vmdk_x.v'

def _c01():
    try:
        from props import C01
    except ImportError:
        import C01
    return C01

def _runner():
    m = sys.modules.get('__main__')
    if m is not None and hasattr(m, 'build_driver') and hasattr(m, 'run_model'): return m
    import runner
    return runner

_exe = None
def driver():
    global _exe
    if _exe is None:
        r = _runner()
        class P: pass
        p = P(); p.ID = ID; p.EXTRACT = EXTRACT
        with r.Lock('coq.lock'):
            exe, err = r.build_driver(p)
        if exe is None: raise RuntimeError('C01_Vmdk spec driver: %s' % err)
        _exe = exe
    return _exe

def spec_many(datas):
    """[bytes] -> [(verdict_tuple, zone_text, zone_shortfoot)] from the extracted vmdk_spec"""
    r = _runner()
    lines = ['%s %s' % (r.enc_arg('vspec'), r.enc_arg(d)) for d in datas]
    outs = r.run_model(driver(), lines)
    res = []
    for o in outs:
        f = o.split(';')
        if len(f) != 7: res.append((('MODEL', o), None, None)); continue
        res.append((tuple(f[0:5]), f[5] == 'True', f[6] == 'True'))
    return res

def impl_verdict(data, sizes):
    """(exn, format_match, complete, virtual_size, safety) of the real inspector: exn = class of the exception that
    stopped the feeding ('-' if none); the rest from the record after finish()"""
    import insp_obs
    obs = insp_obs.observe('vmdk', data, sizes, queries=False)
    recs, _ = insp_obs.final_record(obs)
    exn = '-'
    for r in recs[:-1]:
        e = r.split(';')[0]
        if e != '-': exn = e
    f = recs[-1].split(';')
    return (exn,) + tuple(f[1:5])

# ------------------------------------------------------------------ targeted cases (beyond the plugin's generators)
def targeted(rng, tier):
    C01 = _c01()
    out = []
    def add(n, p, sizes, k, bg='z'):
        out.append({'op': 'insp', 'fmt': 'vmdk', 'n': n, 'bg': bg, 'p': p, 'sizes': sizes, 'k': 'spec:' + k})
    P = C01.P
    H = C01.sparse_header
    d = C01.descriptor(rng)
    ds = C01.descriptor(rng, 'streamOptimized')
    # lengths around every boundary of the spec, valid header, with / without footer flag
    for n in [0, 3, 4, 5, 43, 44, 63, 64, 65, 511, 512, 513, 512 + len(d) - 1, 512 + len(d), 1023, 1024, 1025, 1535, 1536, 1537, 1598, 1599, 1600, 2048, 3071, 3072, 3073]:
        for gd in (21, C01.GD_AT_END):
            for dn in (0, 1, 2):
                for sizes in ([n], [1] * min(n, 70), [63, 1], [64], [3, 1, 60, 448], [511, 1, 1]):
                    add(n, [P(0, H(1, 2048, 1, dn, gd)), P(512, d)], sizes, 'len')
    # full stream-optimized image with footer; footer variations; all chunk cuts near the end
    n0 = 2048
    for fgd, fver, fsec, mark, eos in [(21, 1, 1, 3, 0), (C01.GD_AT_END, 1, 1, 3, 0), (21, 2, 1, 3, 0), (21, 1, 2, 3, 0), (21, 1, 1, 2, 0), (21, 1, 1, 3, 1)]:
        p = [P(0, H(1, 4096, 1, 1, C01.GD_AT_END)), P(512, ds), P(n0, struct.pack('<QII', 1, 0, mark)),
             P(n0 + 512, H(fver, 4096, fsec, 1, fgd)), P(n0 + 1024, struct.pack('<QII', 0, 0, eos))]
        for sizes in ([n0 + 1536], [512] * 7, [n0, 512, 512, 512], [63, n0 + 1473], [n0 + 1535, 1], [1000, 0, 1000]):
            add(n0 + 1536, p, sizes, 'footer')
    # header variations
    for ver in (0, 1, 2, 3, 4, 256 + 1, 2**32 - 1):
        for sec in (0, 1, 2, 2**55 + 1):
            for sig in (b'KDMV', b'KDMW', b'kdmv'):
                add(1024, [P(0, H(ver, 2048, sec, 1, rng.choice([21, C01.GD_AT_END]), sig)), P(512, d)], rng.choice([[1024], [64, 960], [10, 54, 960]]), 'hdr')
    # descriptor contents: NUL placement, non-ASCII, createType forms, sizes
    for desc in [d, d.upper(), d.replace(b'createType', b'CREATETYPE'), d + b'\x00' + b'createType="vmfs"\n', b'\x00' + d, d.replace(b'\n', b'\r\n'),
                 d + b'caf\xe9\n', b'createType="monolithicSparse', b'createType="monolithicSparse"', b'createType="' + b'x' * 63 + b'"', b'createType="' + b'x' * 64 + b'"',
                 b'createType="streamOptimized"\nRW 1 SPARSE "a/b"\n', b'createType="streamOptimized"\nRW 1 SPARSE "a"\n', b'createType="streamOptimized"\n', b'', b'\n',
                 b'createType="monolithicsparse"\nRDONLY 1 FLAT "x" 0\nNOACCESS 2 ZERO\nddb.a = "b"\n#c\n  \nfoo=bar\n', b'createType="monolithicsparse"\nrw 1\nRWX 1\n',
                 b'createType="monolithicsparse"\nRW 1\na b=c\n']:
        for dn in (1, 2, 3):
            n = 512 + 512 * dn
            add(n, [P(0, H(1, rng.choice([1, 2048, 2**40]), 1, dn, 21)), P(512, desc)], rng.choice([[n], [100, n - 100], [512, 512, 512, 512], [600, 1000]]), 'desc')
    # huge desc_num: size capped at DESC_MAX_SIZE
    if tier == 'thorough':
        big = 512 + (1 << 20) - 1
        for n in (big - 1, big, big + 1):
            for dn in (2047, 2048, 2**40):
                add(n, [P(0, H(1, 2048, 1, dn, 21)), P(512, d)], rng.choice([[n], [65536] * 17, [63, 1, 600000]]), 'cap')
    return out

def extra_checks(rng, tier):
    """-> iterable of (name, case, message_or_None)"""
    C01 = _c01()
    cases = [c for c in C01.gen_cases(rng, tier) if c.get('op') == 'insp' and c.get('fmt') == 'vmdk' and 'late' not in c]
    cases += targeted(rng, tier)
    yield from witness_checks()
    datas = [C01.data_of(c) for c in cases]
    specs = spec_many(datas)
    for c, data, (sv, zt, zs) in zip(cases, datas, specs):
        if zt is None:
            yield ('vmdk_spec', c, 'spec driver failed: %r' % (sv,)); continue
        z = C01.zone(c)
        if zt != (z == 'F1') or zs != (z == 'F3'):
            yield ('vmdk_zone', dict(c, fmt='vmdk-zone'), 'Coq zones (text=%s, shortfoot=%s) disagree with the plugin zone %r' % (zt, zs, z)); continue
        if zt or zs:
            yield ('vmdk_spec_inzone', c, None); continue
        iv = impl_verdict(data, c['sizes'])
        msg = None
        if tuple(iv) != tuple(sv):
            msg = 'VMDK verdict (exn, match, complete, virtual_size, safety) of the implementation %r under sizes %r differs from vmdk_spec %r' % (iv, c['sizes'][:12], sv)
        yield ('vmdk_spec', c, msg)

def spec_disagreements(rng, tier):
    """only the failing triples of extra_checks (for correspondence-style wiring)"""
    return [(n, c, m) for n, c, m in extra_checks(rng, tier) if m]

def witness_checks():
    """replays the Coq witnesses (coq/Proofs/C01_Vmdk_Witness.v: w_text, w_short) on the real inspector"""
    C01 = _c01()
    w_text = b'createtype="monolithicsparse"\x80'
    w_short = C01.sparse_header(1, 2048, 1, 1, C01.GD_AT_END).ljust(1598, b'\0')
    out = []
    for name, data, cut in (('F1', w_text, 29), ('F3', w_short, 63)):
        a = impl_verdict(data, [cut]); b = impl_verdict(data, [len(data)])
        c = {'op': 'insp', 'fmt': 'vmdk', 'n': len(data), 'bg': 'z', 'p': [C01.P(0, data)], 'sizes': [cut], 'k': 'witness:' + name}
        out.append(('vmdk_witness_%s_%s' % (name, 'reproduced' if a != b else 'not_reproduced'), c, None))
    return out

if __name__ == '__main__':
    # standalone: PYTHONPATH=/repo python tools/props/C01_vmdk_spec.py [quick|thorough]
    import random
    here = os.path.dirname(os.path.abspath(__file__))
    sys.path[:0] = [os.path.dirname(here), os.path.join(os.path.dirname(here), 'gen'), here, os.environ.get('VERIF_REPO', '/repo')]
    tier = sys.argv[1] if len(sys.argv) > 1 else 'quick'
    n = bad = inz = 0
    for name, c, msg in extra_checks(random.Random(1), tier):
        n += 1
        if name == 'vmdk_spec_inzone': inz += 1
        if msg:
            bad += 1
            if bad <= 15: print(name, msg, {k: c[k] for k in ('n', 'bg', 'p', 'sizes', 'k')})
    print('checked %d cases (%d in a zone), %d failures' % (n, inz, bad))
    sys.exit(1 if bad else 0)
