"""C10 — string_to_bytes computes the exact byte quantity or raises ValueError
(oslo_utils/strutils.py: UNIT_PREFIX_EXPONENT, UNIT_SYSTEM_INFO, string_to_bytes;
 oslo_utils/imageutils/qemu.py: QemuImgInfo.SIZE_RE / _extract_bytes)"""
import sys, os, re, math, warnings
from fractions import Fraction
import gen_C10
from props import C10_pfcases as PF

ID = 'C10'
GEN = [('Gen/C10_Units.v', gen_C10.generate), ('Gen/C10_Code.v', gen_C10.generate_code), ('Gen/C10_QemuCode.v', gen_C10.generate_qemu)]
EQUIV_FILES = ['Proofs/C10_Equiv.v']
EXTRACT = 'Extract/C10_x.v'

# ------------------------------------------------------------------ the specification the oracle reads
# (written from the docstring / property text, NOT from the repo's tables or regexes)
LETTERS = 'KMGTPEZYRQ'
EXP = {c: i + 1 for i, c in enumerate(LETTERS)}
EXP['k'] = 1
SPEC_PREFIXES = {
    'IEC': [c + s for c in LETTERS for s in ('', 'i')],
    'SI': ['k'] + list(LETTERS[1:]),
    'mixed': [c + s for c in 'k' + LETTERS for s in ('', 'i')],
}
ALL22 = [c + s for c in 'k' + LETTERS for s in ('', 'i')]
def spec_base(system, prefix):
    if system == 'IEC': return 1024
    if system == 'SI': return 1000
    return 1024 if prefix.endswith('i') else 1000

def _digit(ch):
    # a Unicode decimal digit (category Nd), the characters float()/int() and \d accept
    import unicodedata
    return unicodedata.category(ch) == 'Nd'

def spec_parse(text, system):
    """None if text is not [sign]number[prefix]unit of the system; else (Fraction magnitude, prefix, unit).
    number = digits, digits.digits or .digits (Unicode decimal digits); nothing may follow the unit (a trailing
    newline included: repair fc24f32)."""
    if system not in SPEC_PREFIXES: return None
    t = text
    unit = None
    for u in ('bit', 'b', 'B'):
        if t.endswith(u): unit = u; t = t[:-len(u)]; break
    if unit is None: return None
    prefix = ''
    for p in sorted(SPEC_PREFIXES[system], key=len, reverse=True):
        if t.endswith(p): prefix = p; t = t[:-len(p)]; break
    sign = 1
    if t[:1] in ('+', '-'):
        sign = -1 if t[0] == '-' else 1; t = t[1:]
    if t.count('.') > 1 or not t or not _digit(t[-1]): return None
    ip, _, fp = t.partition('.') if '.' in t else (t, '', '')
    if not all(_digit(c) for c in ip + fp): return None
    import unicodedata
    digs = ''.join(str(unicodedata.decimal(c)) for c in ip + fp)
    mag = Fraction(int(digs), 10 ** len(fp)) * sign
    return mag, sign, prefix, unit

MAXF = Fraction(2) ** 1024 - Fraction(2) ** 970          # values >= this round to infinity
def representable(fr):
    """fr (Fraction) is exactly a finite binary64"""
    if fr == 0: return True
    n, d = abs(fr.numerator), fr.denominator
    if d & (d - 1): return False
    e = -(d.bit_length() - 1)
    while n % 2 == 0: n //= 2; e += 1
    return n.bit_length() <= 53 and e >= -1074 and n.bit_length() + e <= 1024
def ulp_at(fr):
    """unit in the last place of binary64 at magnitude |fr| (Fraction)"""
    a = abs(fr)
    if a == 0: return Fraction(1, 2 ** 1074)
    n, d = a.numerator, a.denominator
    e = n.bit_length() - d.bit_length()
    if Fraction(2) ** e > a: e -= 1
    return Fraction(2) ** max(e - 52, -1074)

def spec_value(text, system):
    """(exact Fraction, tolerance, exact_rule: bool, sign, largest intermediate magnitude) of an admitted text, or None"""
    p = spec_parse(text, system)
    if p is None: return None
    mag, sign, prefix, unit = p
    div = 8 if unit in ('b', 'bit') else 1
    factor = Fraction(spec_base(system, prefix)) ** EXP[prefix[0]] if prefix else Fraction(1)
    exact = mag / div * factor
    # every operand and the result exactly representable -> equality is demanded; otherwise the result
    # must lie within the accumulated rounding bound of the evaluation (float(number) [/ 8] * float(base**e))
    exact_rule = representable(mag) and representable(mag / div) and representable(factor) and representable(exact)
    d1 = ulp_at(mag) / 2
    d2 = ulp_at(mag / div) / 2 if div == 8 else 0
    df = 0 if representable(factor) else ulp_at(factor) / 2
    tol = ((d1 / div + d2) * factor + abs(mag / div) * df) * Fraction(101, 100) + 2 * ulp_at(exact)
    return exact, tol, exact_rule, (sign < 0), max(abs(mag), abs(exact))

def in_overflow_zone(text, system):
    """the magnitude or the quantity of the admitted text does not fit binary64 (with the rounding slack)"""
    v = spec_value(text, system)
    if v is None: return False
    exact, tol, _, _, big = v
    return big + tol >= MAXF

# ------------------------------------------------------------------ generators
SYSTEMS = ['IEC', 'SI', 'mixed']
BAD_SYSTEMS = ['', 'iec', 'si', 'Mixed', 'MIXED', 'IEC ', ' SI', 'binary', 'decimal', 'IEC\n', 'mixe', 'I', 'SI\x00', 'ＩＥＣ']
UNITS = ['b', 'bit', 'B']
BAD_UNITS = ['', 'Bit', 'bits', 'byte', 'BIT', 'bB', 'Bb', 'bi', 'it', 'BB', 'bb', ' B', 'B ', 'o', 'ｂ']
FOREIGN = ['m', 'g', 't', 'p', 'e', 'z', 'y', 'r', 'q', 'ki', 'KI', 'kI', 'Kii', 'i', 'ii', 'D', 'da', 'h', 'μ', 'u', 'n', 'c', 'd', 'K', 'Ki', 'Kı', 'Kİ',
           'mi', 'gi', 'KK', 'kk', 'MM', 'MiM', 'Mi i', 'k ', ' k', 'Κ', 'М', 'Ｋ', 'Ki\n', 'X', 'Xi', 'B', 'b', 'Bi']
SIGNS = ['', '+', '-']
MAGS = ['0', '1', '8', '7', '1.5', '.5', '0.5', '1023', '1024', '00012', '0.125', '3.14159', '1e3', '1.', '.', '', '1..5', '1.5.2', '1,5', '1_000', ' 1', '1 ',
        '٣', '١٢.٥', '１２', '1٠', '-1', '+1', '--1', '0x10', 'inf', 'nan', '1e', 'e1', '²', '½', '9007199254740992', '9007199254740993', '4503599627370496.5',
        '0.1', '0.3', '1.1', '2.675', '123456789012345678901234567890', '0.000000000000000000000000000001', '1' + '0' * 307, '1' + '0' * 308, '9' * 320, '1' + '0' * 400,
        '0.' + '0' * 330 + '1', '17976931348623157' + '0' * 292, '17976931348623158' + '0' * 292 + '9', '4.9e-324', '0.' + '0' * 322 + '2', '0.' + '0' * 323 + '3']

def rand_mag(rng):
    r = rng.random()
    if r < 0.3: return str(rng.choice([rng.randint(0, 20), rng.randint(0, 5000), rng.randint(0, 10 ** 18), 2 ** rng.randint(0, 60), 8 * rng.randint(0, 10 ** 6)]))
    if r < 0.55:
        a = str(rng.randint(0, 10 ** rng.randint(0, 8))) if rng.random() < 0.8 else ''
        return a + '.' + ''.join(rng.choice('0123456789') for _ in range(rng.randint(1, rng.choice([1, 2, 3, 6, 17, 30]))))
    if r < 0.65: return str(rng.randint(0, 4095)) + rng.choice(['.5', '.25', '.125', '.75', '.0', '.0625', '.00', '.375'])
    if r < 0.72: return ''.join(rng.choice('0123456789') for _ in range(rng.randint(18, 60)))
    if r < 0.78: return str(rng.randint(1, 9)) + ''.join(rng.choice('0123456789') for _ in range(rng.randint(270, 320)))
    if r < 0.84:
        base = rng.choice([0x660, 0x6f0, 0x966, 0xff10, 0x1d7ce])
        s = str(rng.randint(0, 10 ** 6))
        return ''.join(chr(base + int(c)) if rng.random() < 0.8 else c for c in s) + rng.choice(['', '.' + chr(base + 5)])
    return rng.choice(MAGS)

def s2b_boundary():
    # every sign x the 22 prefixes (+ none) x unit x system x return_int on a few magnitudes
    for mag in ['1', '8', '1.5', '.5', '1023']:
        for pre in [''] + ALL22:
            for unit in UNITS:
                for sysn in SYSTEMS:
                    for ri in (False, True):
                        sign = SIGNS[(len(mag) + len(pre) + len(unit)) % 3]
                        yield {'op': 's2b', 'text': sign + mag + pre + unit, 'u': sysn, 'ri': ri}
    for pre in FOREIGN:
        for sysn in SYSTEMS:
            yield {'op': 's2b', 'text': '1' + pre + 'B', 'u': sysn, 'ri': False}
            yield {'op': 's2b', 'text': '2' + pre + 'bit', 'u': sysn, 'ri': True}
    for mag in MAGS:
        for sysn in SYSTEMS:
            yield {'op': 's2b', 'text': mag + 'B', 'u': sysn, 'ri': False}
            yield {'op': 's2b', 'text': mag + 'Kb', 'u': sysn, 'ri': True}
            yield {'op': 's2b', 'text': '-' + mag + 'Qbit', 'u': sysn, 'ri': False}
    for unit in BAD_UNITS:
        for pre in ['', 'K', 'Mi', 'k']:
            yield {'op': 's2b', 'text': '1' + pre + unit, 'u': 'mixed', 'ri': False}
            yield {'op': 's2b', 'text': '1' + pre + unit, 'u': 'IEC', 'ri': True}
    for u in BAD_SYSTEMS:
        yield {'op': 's2b', 'text': '1KB', 'u': u, 'ri': False}
        yield {'op': 's2b', 'text': 'junk', 'u': u, 'ri': True}
    for t in ['', 'B', 'b', 'bit', 'KB', 'KiB', '1', '1K', '1KB\n', '1KB\n\n', '\n1KB', '1KB ', ' 1KB', '1 KB', '1K B', '1KB\r', '1KB\r\n', '1KB\x0b', '1KB\x00', '1KiB\n',
              '1bit\n', '1bit', '1bi', '1bitB', '1bB', '1Bb', '1BB', '1bb', 'x1KB', '1KBx', '+-1KB', '+ 1KB', '1+KB', '1-KB', '.KB', '1.KB', '.1KB', '1e3KB', '1E3B', '0x1KB',
              '1KiKiB', '1iB', '1KIB', '1kiB', '1KiB', '1kib', '1kB', '1Kb', '1kb', '1Kib', '1KBit', '1Kbit', '1Eb', '1EB', '1Eib', '1e1B', '1E1B', '١KB', '1KB', '1KiB']:
        for sysn in SYSTEMS:
            for ri in (False, True):
                yield {'op': 's2b', 'text': t, 'u': sysn, 'ri': ri}

def rand_s2b(rng):
    r = rng.random()
    sysn = rng.choice(SYSTEMS) if rng.random() < 0.93 else rng.choice(BAD_SYSTEMS)
    ri = rng.random() < 0.5
    if r < 0.72:      # well-formed for SOME system (often for this one)
        pre = rng.choice([''] + ALL22) if rng.random() < 0.9 else rng.choice(FOREIGN)
        text = rng.choice(SIGNS) + rand_mag(rng) + pre + rng.choice(UNITS)
        if rng.random() < 0.05: text += rng.choice(['\n', '\n\n', ' ', '\r', '\t'])
        if rng.random() < 0.03: text = rng.choice([' ', '\n', '\t', 'x']) + text
    elif r < 0.87:    # one component malformed
        text = rng.choice(SIGNS + ['+-', ' ', '−']) + rand_mag(rng) + rng.choice([''] + ALL22 + FOREIGN) + rng.choice(UNITS + BAD_UNITS)
    else:             # junk
        text = ''.join(rng.choice('0123456789.+-kKMGTibBt \nei٣') for _ in range(rng.randint(0, 9)))
    return {'op': 's2b', 'text': text, 'u': sysn, 'ri': ri}

QUNITS = ['', 'B', 'K', 'M', 'G', 'T', 'P', 'E', 'KB', 'MB', 'GB', 'TB', 'KiB', 'MiB', 'GiB', 'TiB', 'k', 'kB', 'b', 'bit', 'Kb', 'bytes', 'Z', 'Y', 'R', 'Q', 'QiB', 'i', 'iB', 'X', 'KK', 'e5', '_', 'ſ']
def rand_qemu(rng):
    """a qemu-img 'virtual size'/'disk size' style field; returns the case with what the generator knows"""
    r = rng.random()
    if r < 0.25: mag = str(rng.randint(0, 10 ** rng.randint(0, 12)))
    elif r < 0.5: mag = '%d.%d' % (rng.randint(0, 999), rng.randint(0, 99))
    elif r < 0.6: mag = '%d%s%s%d' % (rng.randint(0, 99), rng.choice('eE'), rng.choice('+-'), rng.randint(0, rng.choice([3, 25, 330])))
    elif r < 0.7: mag = '%d.%d%s%s%d' % (rng.randint(0, 99), rng.randint(0, 99), rng.choice('eE'), rng.choice('+-'), rng.randint(0, 12))
    elif r < 0.76: mag = rng.choice(['.5', '.25', '.125', '.%d' % rng.randint(0, 999), '0.5', '0.%d' % rng.randint(0, 99), '5.', '%d.' % rng.randint(0, 99), '1..5', '1.5.2',
                                     '-.5', '+.5', '-1', '+1', '-0.5', '+%d' % rng.randint(0, 99), '٠.٥', '.٥'])
    elif r < 0.8: mag = rng.choice(['.5', '1.', '', '١٢', '1e5', '1e', '0', '00', '9' * 330, '1e+400', '5e-1', '15e-1', '25e-1', '1e+22', '1e+23', '1.5.2', '-1', '+1'])
    else: mag = str(8 * rng.randint(0, 10 ** 6))
    unit = rng.choice(QUNITS)
    sep = rng.choice(['', ' ', ' ', '  ', '\t'])
    d = mag + sep + unit
    c = {'op': 'xb', 'mag': mag, 'unit': unit}
    q = rng.random()
    if q < 0.45:
        n = rng.choice([str(rng.randint(0, 10 ** 13)), str(rng.randint(0, 10 ** 13)), '0', '007', '٣٤', str(rng.randint(0, 10 ** 40))]) if rng.random() < 0.995 else rng.choice(['1' * 4300, '1' * 4301])
        d += rng.choice([' ', '', '  ']) + '(' + rng.choice(['', ' ']) + n + rng.choice([' ', '  ', '\t']) + rng.choice(['bytes', 'bytes', 'BYTES', 'Bytes', 'byteſ']) + rng.choice(['', ' ']) + ')'
        c['figure'] = n
    elif q < 0.55:
        d += rng.choice([' (123 byte)', ' (bytes)', ' (12 bytes', ' 12 bytes)', ' (1.5 bytes)', ' (-3 bytes)', ' (3bytes)', '(3 bytes )x', ' [3 bytes]', ' (3  bytes) (4 bytes)'])
    if rng.random() < 0.1: d = rng.choice(['', ' ', 'about ', 'x', '\n', 'size: ']) + d
    if rng.random() < 0.1: d += rng.choice([' ', ', sparse', '\n', ' bytes'])
    c['d'] = d
    return c

QEMU_BOUNDARY = ['', ' ', 'None', 'unavailable', 'abc', '0', '1', '12345', '1.5', '.5', '1K', '1.5K', '1B', '1 B', '1b', '1bit', '1KB', '1KiB', '1 GiB', '64M (67108864 bytes)', '64M(67108864 bytes)',
                 '1.0G (1073741824 bytes)', '20 GiB (21474836480 bytes)', '196K', '1.1G', '0 B (0 bytes)', '1e+3', '1E+3', '1e+3K', '1.5e+3', '1.5e+3K', '15e-1K', '5e-1', '25e-1', '1e-5', '1e+400',
                 '1e+400K', '1e5', '1 e+5', '9' * 400 + 'G', '9' * 400, '1 (5 bytes)', '(5 bytes)', '1 K (5 bytes)', '1 (5 byteſ)', '1 (5 BYTES)', '1K ( 5  bytes )', '1 (bytes)', '1 ( bytes)', '1 (5bytes)',
                 'x 10 (7 bytes)', '10 x (7 bytes)', '10 (7 bytes) (8 bytes)', '1_0', '1_', '_1', '1 _', '1٣', '٣', '٣K', '1 ٣', '1 K٣', '1.', '1.K', '1..5K', '1 (٣ bytes)', '12 Kb', '12 kB', '12 k', '12 i', '12 QiB',
                 '12 Q', '8 b', '8 bit', '7 bit', '12 Ki', '12 KiBB', '12\nK', '12 K', '12 KiB', '12 K\n', '1 (' + '9' * 4301 + ' bytes)', '9' * 4301, '0' * 4301]

SIZE_ATTR = {'virtual size': 'virtual_size', 'disk size': 'disk_size', 'cluster_size': 'cluster_size', 'Virtual-Size': 'virtual_size',
             'DISK SIZE': 'disk_size', ' cluster size ': 'cluster_size', 'virtual_size': 'virtual_size', 'Disk-size': 'disk_size',
             'cluster-Size': 'cluster_size', 'virtual\tsize': None, 'virtual  size': None, 'virtualsize': None, 'size': None, 'image': None,
             'file format': None, 'backing file': None, 'Virtual_Size ': 'virtual_size', 'disk size ': 'disk_size', 'DİSK SIZE': None}
MALFORMED_SIZES = ['n/a', 'unknown', '-', '?', 'none', 'NONE', 'Unavailable', 'unavailable.', 'None None', '(5 bytes)', 'bytes', 'GiB', '', ' ', 'x', '--', '1.', '1.5',
                   '1e5', '1 e+5', '12 i', '12 X', '12 KK', '1.5.2K', '1,5G', '1 Gigabyte', '5 QQ', 'inf', 'nan', '9' * 330 + 'G', '1e+400G', '0x10', '1_0 K',
                   'None', 'unavailable', ' None ', '0', '0 B', '0.0K', '0 (0 bytes)', '12 (bytes)', 'K', '1 K (x bytes)', '٣', '٣K', '1.5 ٣']
def rand_qf(rng):
    """one line of `qemu-img info` (human format) naming a field, mostly a byte-size field"""
    name = rng.choice(list(SIZE_ATTR))
    r = rng.random()
    if r < 0.45:
        c = rand_qemu(rng); d = c['d']
    elif r < 0.85:
        c = {}; d = rng.choice(MALFORMED_SIZES)
    else:
        c = {}; d = rng.choice(['None', 'unavailable', ' None', 'unavailable  ', 'None\t'])
    sep = rng.choice([':', ': ', ':  ', ' :', ':\t'])
    line = name + sep + d
    out = {'op': 'qf', 'line': line, 'field': SIZE_ATTR[name] if not sep.startswith(' ') or SIZE_ATTR[name] is None else SIZE_ATTR[name], 'd': d}
    for k in ('mag', 'unit', 'figure'):
        if k in c: out[k] = c[k]
    return out

_BREAKS = '\n\r\x0b\x0c\x1c\x1d\x1e\x85\u2028\u2029'

QEMU_SHAPES = [(m, sep, u) for m in ['.5', '0.5', '5.', '1..5', '-.5', '+1', '1', '1.5', '.125', '-1', '+.5', '00.50', '.0']
               for sep in ['', ' '] for u in ['G', 'GiB', 'K', 'B', 'MB', '']]
def qemu_shape_cases():
    """leading-dot, trailing-dot, multi-dot, signed and space-separated magnitudes, with and without the bytes figure,
    directly and through a QemuImgInfo size field"""
    for m, sep, u in QEMU_SHAPES:
        for fig in (None, '7', '536870912'):
            d = m + sep + u + ('' if fig is None else ' (%s bytes)' % fig)
            c = {'op': 'xb', 'mag': m, 'unit': u, 'd': d}
            if fig is not None: c['figure'] = fig
            yield c
            q = {'op': 'qf', 'line': 'virtual size: ' + d, 'field': 'virtual_size', 'd': d, 'mag': m, 'unit': u}
            if fig is not None: q['figure'] = fig
            yield q

def gen_cases(rng, tier):
    quick = tier == 'quick'
    yield from s2b_boundary()
    for _ in range(6000 if quick else 250000):
        yield rand_s2b(rng)
    for d in QEMU_BOUNDARY:
        yield {'op': 'xb', 'd': d}
    yield from qemu_shape_cases()
    for _ in range(2500 if quick else 80000):
        yield rand_qemu(rng)
    # the regex engine on the generated patterns (intermediate values: match end and group spans)
    for _ in range(1500 if quick else 40000):
        c = rand_s2b(rng)
        if c['u'] in SYSTEMS: yield {'op': 'rx', 'text': c['text'], 'u': c['u']}
        yield {'op': 'rxs', 'd': rand_qemu(rng)['d']}
    for d in QEMU_BOUNDARY:
        yield {'op': 'rxs', 'd': d}
    # QemuImgInfo end to end: one line naming a (size) field, with well-formed, zero-word and malformed details
    for name in SIZE_ATTR:
        for d in MALFORMED_SIZES:
            yield {'op': 'qf', 'line': name + ': ' + d, 'field': SIZE_ATTR[name], 'd': d}
    for _ in range(1500 if quick else 40000):
        yield rand_qf(rng)
    # the float model (Base/PyFloat.v) against CPython
    yield from PF.gen_pf_cases(rng, 'quick' if quick else 'thorough', scale=0.4 if quick else 0.5)

# ------------------------------------------------------------------ implementation side
def _su():
    from oslo_utils import strutils
    return strutils
def _q():
    from oslo_utils.imageutils import QemuImgInfo
    return QemuImgInfo

def _num(x):
    if isinstance(x, bool): return 'OTHER:bool'
    if isinstance(x, int): return 'i:%d' % x
    if isinstance(x, float): return 'f:' + x.hex()
    return 'OTHER:' + type(x).__name__

def _span(m, i):
    a, b = m.span(i)
    return 'None' if a < 0 else '%d-%d' % (a, b)

def impl(c):
    op = c['op']
    if op.startswith('pf_'): return PF.pf_impl(c)
    try:
        if op == 's2b':
            return _num(_su().string_to_bytes(c['text'], unit_system=c['u'], return_int=c['ri']))
        if op == 'xb':
            q = _q()()
            r = q._extract_bytes(c['d'])
            return str(r) if isinstance(r, int) and not isinstance(r, bool) else 'OTHER:' + type(r).__name__
        if op == 'qf':
            warnings.simplefilter('ignore')
            info = _q()(c['line'])
            got = [(a, getattr(info, a)) for a in ('virtual_size', 'disk_size', 'cluster_size') if getattr(info, a) is not None]
            if not got: return 'OTHER'
            return ';'.join('%s %s' % (a, v if isinstance(v, int) and not isinstance(v, bool) else 'OTHER:' + type(v).__name__) for a, v in got)
        if op == 'rx':
            m = _su().UNIT_SYSTEM_INFO[c['u']][1].match(c['text'])
            return 'None' if m is None else '%d %s %s %s' % (m.end(), _span(m, 1), _span(m, 2), _span(m, 3))
        if op == 'rxs':
            m = _q().SIZE_RE.search(c['d'])
            return 'None' if m is None else '%d-%d %s %s %s %s' % (m.start(), m.end(), _span(m, 1), _span(m, 2), _span(m, 3), _span(m, 4))
    except Exception as e:
        return 'EXN:' + type(e).__name__
    raise KeyError(op)

def encode(c):
    op = c['op']
    if op.startswith('pf_'): return PF.pf_encode(c)
    if op == 's2b': return ['s2b', c['text'], c['u'], '1' if c['ri'] else '0']
    if op == 'xb': return ['xb', c['d']]
    if op == 'rx': return ['rx', c['text'], c['u']]
    if op == 'rxs': return ['rxs', c['d']]
    if op == 'qf': return None if any(ch in c['line'] for ch in _BREAKS) else ['qf', c['line']]
    return None

def decode(c, out):
    # the model names the field it found also when the value is an exception; the constructor just raises
    if c['op'] == 'qf' and ' EXN:' in out: return out[out.index(' EXN:') + 1:]
    return out

# ------------------------------------------------------------------ oracle: the property, read without the model
def _check_value(what, out, exact, tol, exact_rule, ri, neg=False):
    """out: 'f:hex' / 'i:n'; exact: Fraction"""
    if out.startswith('EXN:') or out.startswith('OTHER:'):
        return '%s: admitted text gives %s' % (what, out)
    if ri:
        if not out.startswith('i:'): return '%s: return_int result is not an int: %s' % (what, out)
        n = int(out[2:])
        if exact_rule:
            if n != math.ceil(exact): return '%s = %d, the exact quantity is %s (ceiling %d)' % (what, n, exact, math.ceil(exact))
        elif not (math.ceil(exact - tol) <= n <= math.ceil(exact + tol)):
            return '%s = %d, not the ceiling of a float within rounding of %s' % (what, n, exact)
        return None
    if not out.startswith('f:'): return '%s: result is not a float: %s' % (what, out)
    v = float.fromhex(out[2:])
    if v != v or v in (float('inf'), float('-inf')): return '%s = %r for the finite quantity %s' % (what, v, exact)
    fv = Fraction(v)
    if exact_rule:
        if fv != exact: return '%s = %r, the exactly representable quantity is %s' % (what, v, exact)
    elif abs(fv - exact) > tol:
        return '%s = %r, further than floating-point rounding from %s' % (what, v, exact)
    return None

def oracle(c, out):
    op = c['op']
    if op == 's2b':
        text, u, ri = c['text'], c['u'], c['ri']
        what = 'string_to_bytes(%r, %r, return_int=%r)' % (text if len(text) < 60 else text[:57] + '...', u, ri)
        sv = spec_value(text, u)
        if sv is None:
            return None if out == 'EXN:ValueError' else '%s: not [sign]number[prefix]unit of a known unit system, yet gives %s' % (what, out)
        exact, tol, exact_rule, neg, big = sv
        if big + tol >= MAXF and not exact_rule:
            # the magnitude or the quantity does not fit binary64: without return_int inf is the IEEE evaluation
            # (no alarm), with return_int the answer is ValueError (repair a183222; OverflowError was finding K14);
            # a finite answer (close to the limit) must still be within rounding
            if out in ('f:inf', 'f:-inf') and not ri: return None
            if out == 'EXN:ValueError' and ri: return None
            if out.startswith('EXN:') or 'inf' in out or 'nan' in out:
                return '%s: quantity beyond binary64 gives %s' % (what, out)
        msg = _check_value(what, out, exact, tol, exact_rule, ri, neg)
        if msg: return msg
        if ri:   # the int is the ceiling of the float the same call returns without return_int
            f = impl({'op': 's2b', 'text': text, 'u': u, 'ri': False})
            if f.startswith('f:'):
                v = float.fromhex(f[2:])
                if v == v and abs(v) != float('inf') and out != 'i:%d' % math.ceil(v):
                    return '%s = %s but the float result is %r (ceiling %d)' % (what, out, v, math.ceil(v))
        return None
    if op == 'qf':
        what = 'QemuImgInfo(%r)' % (c['line'] if len(c['line']) < 70 else c['line'][:67] + '...')
        f, d = c.get('field'), c['d'].strip()
        if out.startswith('EXN:') and out != 'EXN:ValueError': return '%s raises %s' % (what, out[4:])
        if f is None or any(ch in c['line'] for ch in _BREAKS): return None
        if out == 'OTHER': return '%s: the %s field was dropped' % (what, f)
        if out.startswith('EXN:'):
            val = out
        else:
            if not out.startswith(f + ' ') or ';' in out: return '%s stored %s, expected field %s' % (what, out, f)
            val = out[len(f) + 1:]
        if d in ('None', 'unavailable'):
            return None if val == '0' else '%s: %r must be stored as 0, got %s' % (what, d, val)
        import unicodedata
        if not any(unicodedata.category(ch) == 'Nd' for ch in d):
            # no digit at all: there is no size to read — ValueError, never a silent number
            return None if val == 'EXN:ValueError' else '%s: unreadable size %r stored as %s' % (what, d, val)
        sub = {'op': 'xb', 'd': d}
        for k in ('mag', 'unit', 'figure'):
            if k in c and c['d'] == d: sub[k] = c[k]
        msg = oracle(sub, val)
        return msg and msg.replace('_extract_bytes', 'QemuImgInfo size field -> _extract_bytes')
    if op == 'xb':
        d = c['d']
        what = '_extract_bytes(%r)' % (d if len(d) < 60 else d[:57] + '...')
        if out.startswith('OTHER:'): return '%s returns %s' % (what, out)
        if out.startswith('EXN:') and out != 'EXN:ValueError': return '%s raises %s' % (what, out[4:])
        if 'mag' not in c: return None
        mag, unit = c['mag'], c['unit']
        # the unsigned number grammar of string_to_bytes: digits, digits.digits or .digits (a leading dot is a number: '.5G' is
        # half a GiB); trailing dot, several dots and signs are not what qemu-img prints: only the exception class is judged there
        plain = re.fullmatch(r'[0-9]*\.?[0-9]+', mag) is not None
        if not plain or d != d.strip() or not d.startswith(mag): return None     # only qemu-img style fields are specified
        if 'figure' in c:
            n = c['figure']
            if not re.fullmatch(r'[0-9]+', n) or len(n) > 4300 or not d.endswith(')'): return None
            if unit and not re.fullmatch(r'\w+', unit): return None
            return None if out == str(int(n)) else '%s = %s, the explicit figure is %s bytes' % (what, out, n)
        if d != mag + d[len(mag):len(d) - len(unit)] + unit or d[len(mag):len(d) - len(unit)].strip() != '': return None
        if unit == '':
            if '.' in mag or len(mag) > 4300: return None
            return None if out == str(int(mag)) else '%s = %s, expected %d' % (what, out, int(mag))
        u2 = unit + 'B' if len(unit) == 1 and unit != 'B' else unit
        sv = spec_value(mag + u2, 'IEC')
        if sv is None:
            return None if out == 'EXN:ValueError' else '%s: unit %r is not an IEC unit, yet gives %s' % (what, unit, out)
        exact, tol, exact_rule, neg, big = sv
        if big + tol >= MAXF: return None
        return _check_value(what, 'i:' + out if not out.startswith('EXN') else out, exact, tol, exact_rule, True)
    return None

def zone(c):
    return None      # no known finding is open for C10 (D5, K14 and NL are repaired: `fixed:` lines)

def extra_checks(rng, tier):
    """QemuImgInfo end to end: the three size fields go through _extract_bytes (same value / same exception class)"""
    Q = _q()
    warnings.simplefilter('ignore')
    for i in range(300 if tier == 'quick' else 5000):
        c = rand_qemu(rng) if i >= len(QEMU_BOUNDARY) else {'op': 'xb', 'd': QEMU_BOUNDARY[i]}
        d = c['d']
        if d != d.strip() or any(ch in d for ch in '\n\r\x0b\x0c\x1c\x1d\x1e\x85  ') or d in ('None', 'unavailable', ''):
            continue
        direct = impl(c)
        field = rng.choice(['virtual size', 'disk size', 'cluster_size', 'Virtual-Size'])
        try:
            info = Q('image: x\n%s: %s\nfile format: raw\n' % (field, d))
            got = str(getattr(info, {'virtual size': 'virtual_size', 'disk size': 'disk_size', 'cluster_size': 'cluster_size', 'Virtual-Size': 'virtual_size'}[field]))
        except Exception as e:
            got = 'EXN:' + type(e).__name__
        msg = None if got == direct else 'QemuImgInfo(%r: %r).%s = %s but _extract_bytes gives %s' % (field, d, field, got, direct)
        yield ('qemu_field', dict(c, field=field), msg)

def classify(c, out):
    op = c['op']
    if op == 's2b':
        k = 'exn' if out.startswith('EXN') else ('int' if out.startswith('i:') else ('inf' if 'inf' in out else 'float'))
        return 's2b:%s:%s' % (c['u'] if c['u'] in SYSTEMS else 'unknown-system', k)
    if op == 'xb':
        return 'xb:' + ('exn' if out.startswith('EXN') else ('figure' if 'figure' in c else 'value'))
    if op == 'qf':
        return 'qf:' + ('exn' if out.startswith('EXN') else ('other' if out == 'OTHER' else 'stored'))
    return op.split('_')[0] if op.startswith('pf_') else op

def search(rng, budget):
    # every prefix the three regexes can capture, in every system, both return types — first
    for pre in ALL22 + FOREIGN:
        for sysn in SYSTEMS:
            for unit in UNITS:
                for ri in (False, True):
                    yield {'op': 's2b', 'text': '1' + pre + unit, 'u': sysn, 'ri': ri}
                    yield {'op': 's2b', 'text': '-2.5' + pre + unit, 'u': sysn, 'ri': ri}
    yield from s2b_boundary()
    for d in QEMU_BOUNDARY:
        yield {'op': 'xb', 'd': d}
    yield from qemu_shape_cases()
    for name in SIZE_ATTR:
        for d in MALFORMED_SIZES:
            yield {'op': 'qf', 'line': name + ': ' + d, 'field': SIZE_ATTR[name], 'd': d}
    for _ in range(budget):
        yield rand_s2b(rng)
        yield rand_qemu(rng)
        yield rand_qf(rng)

TRUSTED = ['CPython float()/int()/float arithmetic/math.ceil/format(.0f)/re modelled in Base/PyFloat.v, Base/PyInt.v, Base/Regex.v; the float model is '
           're-validated bit-exactly against the running interpreter on every run (ops pf_*), the regex engine on the generated patterns (ops rx, rxs)',
           'int() digit limit: CPython default 4300 (sys.get_int_max_str_digits) is a constant of the model']
ASSUMPTIONS = ['text and unit_system are str (non-str arguments are outside the statement)',
               'an admitted text whose magnitude or quantity exceeds binary64 evaluates to inf without return_int (the IEEE evaluation, not judged '
               'against the exact quantity) and to ValueError with return_int']
RULE = ('boundary grid first: 3 signs x 5 magnitudes x (22 prefixes + none) x {b,bit,B} x {IEC,SI,mixed} x return_int; 46 foreign prefixes; 56 magnitude shapes '
        '(integers, decimals, leading/trailing dot, Unicode digits, 17+ digits, >308 digits, subnormal range, malformed); malformed units; 14 unknown unit systems; '
        'trailing-newline and whitespace variants; then random structured cases (72% well-formed for some system, 15% one malformed component, 13% junk); '
        'qemu-img style fields (magnitude, optional unit, optional "(N bytes)" figure, e-notation, decorations); QemuImgInfo(line) for 19 field-name '
        'spellings x 46 size texts (well-formed, None/unavailable, malformed) + random; regex-engine cases; float-model cases; '
        'distinct = distinct case JSON; trivial = none')
LEVEL_TEXT = ('Unbounded theorems (all texts, all unit-system strings): the unit systems are exactly IEC/SI/mixed; a regex of a system matches a text '
              'iff it is [sign]number[prefix of the system]unit and nothing else (the patterns end in \\Z, translated as an end-of-subject flag); every prefix a regex can capture is in the exponent table with the SI/IEC '
              'exponent and the specified base (1024 IEC, 1000 SI, mixed by trailing i); not-admitted text or unknown system => ValueError; no other '
              'exception (the OverflowError of math.ceil(inf) is turned into ValueError by the source and by the translated code; inf without return_int '
              'is the IEEE evaluation); an admitted text evaluates to float(number)[/8][*float(base^exp)] and return_int is the ceiling of that float; when the '
              'magnitude is an integer, base^exp has <= 53 significant bits and the quantity is an integer < 2^53 the result is exactly that '
              'integer (proved on SpecFloat, no axioms); _extract_bytes returns the "(N bytes)" figure whenever SIZE_RE finds one, otherwise uses '
              'string_to_bytes(IEC, return_int). Tables and the four regexes are regenerated from the source on every run and enter the theorems '
              'through computed checkers; the body of string_to_bytes is translated statement by statement and proved equal to the model. '
              'QemuImgInfo: _canonicalize, _extract_bytes and the size branch of _extract_details are translated statement by statement and proved '
              'equal to the model; the size fields are exactly virtual/cluster/disk size, 0 only for None/unavailable, every ValueError of '
              '_extract_bytes propagates (never a silent 0), _extract_bytes raises nothing else; units.py constants agree with base^exponent. '
              'Partial: non-representable products are only "the IEEE evaluation" (the oracle bounds the distance to the exact rational); '
              '_parse is modelled for one line and tied by correspondence (op qf).')
LEVEL_NOTE = ('Trusted: Coq kernel/vm_compute; translators (CPython re._parser via regex_tr, ast via gen_C10); models of CPython float()/int()/re/float '
              'arithmetic/math.ceil/format(.0f) in Base/ (PyFloat.v on the stdlib SpecFloat operations), each re-validated bit-exactly against the '
              'running interpreter on every run; int() digit limit 4300 as a constant. All Print Assumptions: Closed under the global context.')
