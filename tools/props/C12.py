"""C12 — time normalisation, overridden-clock comparison and marshalling (oslo_utils/timeutils.py)

A case is a world (override slot of utcnow, reading of the OS clock) and a list of commands;
the real functions and the extracted model run the same commands and print every result and
the final override slot.  Property-shaped cases (kind = norm / iso / marsh / leap / clock / cmp)
additionally go through a model-free oracle that recomputes the right-hand side of the property
with plain datetime arithmetic in UTC.
"""
import sys, os, json, math, random, types, datetime as _dtm, zoneinfo as _zi, re as _re

ID = 'C12'
import gen_C12
GEN = [('Gen/C12_Timeutils.v', gen_C12.generate), ('Gen/C12_Iso8601.v', gen_C12.generate_iso)]
EQUIV_FILES = ['Proofs/C12_Equiv.v']
EXTRACT = 'Extract/C12_x.v'

D = _dtm.datetime
TD = _dtm.timedelta
US = TD(microseconds=1)
DMIN, DMAX = D.min, D.max
MAX_US = (DMAX - DMIN) // US
UTC = _dtm.timezone.utc

def _tu():
    from oslo_utils import timeutils
    return timeutils

# ---------------------------------------------------------------- datetime specs (JSON) <-> Python objects
def mkdt(spec):
    """{'w': wall microseconds, 'tz': None | ['utc'] | ['fixed', off_us] | ['fixedn', off_us, name] | ['zone', key], 'fold': 0|1}"""
    d = DMIN + TD(microseconds=spec['w'])
    tz = spec.get('tz')
    if tz is None: return d
    if tz[0] == 'utc': t = UTC
    elif tz[0] == 'fixed': t = _dtm.timezone(TD(microseconds=tz[1]))
    elif tz[0] == 'fixedn': t = _dtm.timezone(TD(microseconds=tz[1]), tz[2])
    elif tz[0] == 'zone': t = _zi.ZoneInfo(tz[1])
    else: raise KeyError(tz[0])
    return d.replace(tzinfo=t, fold=spec.get('fold', 0))

def wall_us(d):
    return (d.replace(tzinfo=None) - DMIN) // US

def enc_dt(d):
    """three driver arguments: wall, offset|N, tzname(None) as N|S<text>"""
    off = d.utcoffset()
    if off is None: return [str(wall_us(d)), 'N', 'N']
    nm = d.tzinfo.tzname(None)
    return [str(wall_us(d)), str(off // US), 'N' if nm is None else 'S' + nm]

def show_dt(d):
    return ','.join(enc_dt(d))

def exn_name(e):
    for c in (OverflowError, ValueError, TypeError, KeyError, AttributeError, OSError):
        if isinstance(e, c): return c.__name__
    return 'OtherError'

def show_exn(e):
    return 'EXN:' + exn_name(e)

def secs_value(s):
    """seconds in a case: int, or {'f': float.hex()}"""
    return float.fromhex(s['f']) if isinstance(s, dict) else s

def secs_us(s):
    """microseconds of timedelta(seconds=s), or None when CPython refuses the value"""
    try: return TD(seconds=secs_value(s)) // US
    except (OverflowError, ValueError): return None

def enc_num(s):
    """driver arguments of a Python number: i <int> | f <mantissa> <exponent> (x = mantissa * 2**exponent exactly) | finf | f-inf | fnan"""
    x = secs_value(s)
    if isinstance(x, int): return ['i', str(x)]
    if math.isnan(x): return ['fnan']
    if math.isinf(x): return ['finf' if x > 0 else 'f-inf']
    if x == 0: return ['f', '-0' if math.copysign(1, x) < 0 else '0', '0']
    m, e = math.frexp(x)
    return ['f', str(int(m * 2**53)), str(e - 53)]

def mkov(o):
    if o is None or o['k'] == 'no': return None
    if o['k'] == 'one': return mkdt(o['d'])
    return [mkdt(x) for x in o['l']]

def show_ov(v):
    if v is None: return 'no'
    if isinstance(v, list): return 'many:' + '/'.join(show_dt(x) for x in v)
    return 'one:' + show_dt(v)

def show_num(x):
    return ('i%d' % x) if isinstance(x, int) else 'f' + float(x).hex()

# ---------------------------------------------------------------- ISO text the Coq model of iso8601 covers
ISO_MODELLED = _re.compile(r'[0-9]{4}-[0-9]{2}-[0-9]{2}[T ][0-9]{2}:[0-9]{2}:[0-9]{2}([.,][0-9]{1,9})?(Z|[+-][0-9]{2}:[0-9]{2}(:[0-9]{2}(\.[0-9]{6})?)?)?\Z', _re.A)

def lib_parse(s):
    import iso8601
    try: return iso8601.parse_date(s)
    except Exception as e: return e

def zone_result(key, wall_dt):
    """driver arguments describing zoneinfo.ZoneInfo(key) at a wall reading"""
    try:
        z = _zi.ZoneInfo(key)
        off = wall_dt.replace(tzinfo=z).utcoffset() // US if wall_dt is not None else 0
        nm = z.tzname(None)
        return ['O', str(off), 'N' if nm is None else 'S' + nm]
    except Exception as e:
        return ['E', exn_name(e)]

def capped_fields_dt(f):
    try: return D(f['year'], f['month'], f['day'], f['hour'], f['minute'], min(f['second'], 59), f['microsecond'])
    except Exception: return None

# ---------------------------------------------------------------- running a case on the real code
class _Clock:
    real = DMIN

class _FakeDT(D):
    """datetime.datetime whose now() reads the case's OS clock (everything else is CPython's)"""
    @classmethod
    def now(cls, tz=None):
        r = _Clock.real
        return r if tz is None else r.replace(tzinfo=tz)

_FAKE = types.SimpleNamespace(datetime=_FakeDT, timedelta=_dtm.timedelta, timezone=_dtm.timezone, date=_dtm.date, time=_dtm.time, tzinfo=_dtm.tzinfo)

def plain(d):
    """strip the _FakeDT subclass"""
    return D(d.year, d.month, d.day, d.hour, d.minute, d.second, d.microsecond, tzinfo=d.tzinfo, fold=d.fold)

def targ_value(t):
    return t['s'] if 's' in t else mkdt(t['d'])

def run_cmd(tu, c):
    k = c[0]
    if k == 'now': return show_dt(tu.utcnow(with_timezone=c[1]))
    if k == 'ts':
        real = tu.utcnow.override_time is None
        v = tu.utcnow_ts(microsecond=c[1])
        if real: return 'T' if isinstance(v, float) else 'tT'
        return show_num(v)
    if k == 'set':
        v = mkov(c[1])
        if c[1] is None or c[1]['k'] == 'no': tu.set_time_override()
        else: tu.set_time_override(v)
        return 'None'
    if k == 'clear': tu.clear_time_override(); return 'None'
    if k.startswith('fx_'): return run_fixture_cmd(tu, c)
    if k == 'adv': tu.advance_time_delta(TD(microseconds=c[1])); return 'None'
    if k == 'advs': tu.advance_time_seconds(secs_value(c[1])); return 'None'
    if k in ('older', 'newer', 'soon'):
        f = {'older': tu.is_older_than, 'newer': tu.is_newer_than, 'soon': tu.is_soon}[k]
        return str(f(targ_value(c[1]), secs_value(c[2])))
    if k in ('parse', 'rparse'): return show_dt(tu.parse_isotime(c[1]))
    if k == 'marsh':
        m = tu.marshall_now() if c[1] is None else tu.marshall_now(mkdt(c[1]))
        return show_mrec(m)
    if k == 'unm': return show_dt(tu.unmarshall_time(dict(c[1])))
    if k == 'rt': return show_dt(tu.unmarshall_time(tu.marshall_now(mkdt(c[1]))))
    if k == 'norm': return show_dt(tu.normalize_time(mkdt(c[1])))
    if k == 'dsec': return show_num(tu.delta_seconds(mkdt(c[1]), mkdt(c[2])))
    if k == 'td': return str(TD(seconds=secs_value(c[1])) // US)
    if k == 'fields':
        d = DMIN + TD(microseconds=c[1])
        return '%d,%d,%d,%d,%d,%d,%d' % (d.year, d.month, d.day, d.hour, d.minute, d.second, d.microsecond)
    if k == 'mk': return show_dt(D(*c[1]))
    if k == 'isofmt': return mkdt(c[1]).isoformat()
    raise KeyError(k)

_FX = {'f': None}
def run_fixture_cmd(tu, c):
    """the same clock operations through oslo_utils.fixture.TimeFixture"""
    from oslo_utils import fixture
    k = c[0]
    if k == 'fx_set':
        if _FX['f'] is not None: _FX['f'].cleanUp()
        v = mkov(c[1])
        f = fixture.TimeFixture() if (c[1] is None or c[1]['k'] == 'no') else fixture.TimeFixture(v)
        f.setUp(); _FX['f'] = f
        return 'None'
    f = _FX['f']
    if k == 'fx_cleanup':
        if f is not None: f.cleanUp(); _FX['f'] = None
        else: tu.clear_time_override()
        return 'None'
    if f is None: f = fixture.TimeFixture()       # the advance methods do not need setUp
    if k == 'fx_adv': f.advance_time_delta(TD(microseconds=c[1])); return 'None'
    if k == 'fx_advs': f.advance_time_seconds(secs_value(c[1])); return 'None'
    raise KeyError(k)

def show_mrec(m):
    keys = ['year', 'month', 'day', 'hour', 'minute', 'second', 'microsecond']
    extra = sorted(set(m) - set(keys) - {'tzname'})
    if extra or any(k not in m for k in keys): return 'BADDICT:' + ','.join(sorted(m))
    tz = 'A' if 'tzname' not in m else ('N' if m['tzname'] is None else 'S' + str(m['tzname']))
    return ','.join(str(m[k]) for k in keys) + ',' + tz

# the PROCESS time zone each case runs under (TZ + time.tzset()): nothing in the property depends on it — the overridden
# clock is UTC — so code that slips local time in (time.mktime, datetime.timestamp of a naive value, fromtimestamp) shows up
PTZS = ['UTC', 'Asia/Tokyo', 'America/New_York', 'Pacific/Chatham', 'Europe/Lisbon', 'XYZ-3:30', 'Australia/Lord_Howe', 'ABC+9:45DEF,M3.2.0,M11.1.0']

class process_tz:
    def __init__(self, tz): self.tz = tz
    def __enter__(self):
        import time as _t
        self.saved = os.environ.get('TZ')
        if self.tz is not None:
            os.environ['TZ'] = self.tz; _t.tzset()
    def __exit__(self, *a):
        import time as _t
        if self.tz is not None:
            if self.saved is None: os.environ.pop('TZ', None)
            else: os.environ['TZ'] = self.saved
            _t.tzset()

def impl(case):
    with process_tz(case.get('ptz')):
        return _impl(case)

def _impl(case):
    tu = _tu()
    saved_mod = tu.datetime
    outs = []
    try:
        _Clock.real = DMIN + TD(microseconds=case['real'])
        tu.datetime = _FAKE
        tu.utcnow.override_time = mkov(case.get('ov'))
        for c in case['cmds']:
            try: outs.append(run_cmd(tu, c))
            except Exception as e: outs.append(show_exn(e))
        outs.append(show_ov(tu.utcnow.override_time))
    finally:
        tu.datetime = saved_mod
        _FX['f'] = None
        tu.utcnow.override_time = None
    return ';'.join(outs)

# ---------------------------------------------------------------- encoding for the model driver
class NotModelled(Exception):
    pass

def enc_spec(spec, allow_zone=True):
    if not allow_zone and spec.get('tz') and spec['tz'][0] == 'zone' and spec['tz'][1] not in FIXED_ZONES:
        raise NotModelled('override in a zone with a varying offset')
    return enc_dt(mkdt(spec))

def enc_ov(o):
    if o is None or o['k'] == 'no': return ['no']
    if o['k'] == 'one': return ['one'] + enc_spec(o['d'], False)
    out = ['many', str(len(o['l']))]
    for x in o['l']: out += enc_spec(x, False)
    return out

def enc_targ(t):
    if 'd' in t: return ['D'] + enc_spec(t['d'])
    return ['I', t['s']]

def enc_cmd(c):
    k = c[0]
    if k == 'fx_set': return ['fx_set'] + enc_ov(c[1])
    if k == 'fx_cleanup': return ['fx_cleanup']
    if k == 'fx_adv': return ['fx_adv'] + enc_cmd(['adv', c[1]])[1:]
    if k == 'fx_advs': return ['fx_advs'] + enc_num(c[1])
    if k == 'td': return ['td'] + enc_num(c[1])
    if k in ('now', 'ts'): return [k, 'True' if c[1] else 'False']
    if k == 'set': return ['set'] + enc_ov(c[1])
    if k == 'clear': return ['clear']
    if k == 'adv':
        if abs(c[1]) > 86399999999999999999: raise NotModelled('timedelta range')
        return ['adv', str(c[1])]
    if k == 'advs': return ['advs'] + enc_num(c[1])
    if k in ('older', 'newer', 'soon'): return [k] + enc_targ(c[1]) + enc_num(c[2])
    if k == 'parse': return ['parse'] + enc_targ({'s': c[1]})
    if k == 'rparse': return ['rparse', c[1]]
    if k == 'marsh': return ['marsh', 'N'] if c[1] is None else ['marsh', 'D'] + enc_spec(c[1])
    if k == 'unm':
        f = c[1]
        keys = ['year', 'month', 'day', 'hour', 'minute', 'second', 'microsecond']
        tn = 'A' if 'tzname' not in f else ('N' if f['tzname'] is None else 'S' + f['tzname'])
        wd = capped_fields_dt(f)
        key = f.get('tzname') or ''
        return ['unm'] + [str(f[k]) for k in keys] + [tn] + zone_result(key, wd) + zone_result('UTC', wd)
    if k == 'rt':
        d = mkdt(c[1])
        key = (d.tzinfo.tzname(None) if d.tzinfo is not None else None) or ''
        wd = d.replace(tzinfo=None)
        return ['rt'] + enc_dt(d) + zone_result(key, wd) + zone_result('UTC', wd)
    if k == 'norm': return ['norm'] + enc_spec(c[1])
    if k == 'dsec':
        a, b = mkdt(c[1]), mkdt(c[2])
        if a.tzinfo is not None and a.tzinfo is b.tzinfo and a.utcoffset() != b.utcoffset():
            raise NotModelled('same tzinfo object, different offsets: CPython subtracts the wall readings')
        return ['dsec'] + enc_dt(a) + enc_dt(b)
    if k == 'fields': return ['fields', str(c[1])]
    if k == 'mk': return ['mk'] + [str(x) for x in c[1]]
    if k == 'isofmt': return ['isofmt'] + enc_spec(c[1])
    raise KeyError(k)

def encode(case):
    try:
        out = enc_ov(case.get('ov')) + [str(case['real'])]
        for c in case['cmds']: out += enc_cmd(c)
        return out
    except NotModelled:
        return None

def _eval_fexp(s):
    """value of the model's number expression with CPython arithmetic"""
    pos = 0
    def parse():
        nonlocal pos
        ch = s[pos]
        if ch == 'I':
            m = _re.compile(r'-?\d+').match(s, pos + 1); pos = m.end(); return int(m.group(0))
        if ch == 'T': pos += 1; return 'T'
        if ch in 'tda':
            pos += 2
            a = parse()
            if ch == 't':
                pos += 1
                return 'tT' if a == 'T' else int(a)
            pos += 1
            b = parse(); pos += 1
            return a / b if ch == 'd' else a + b
        raise ValueError(s)
    v = parse()
    return v if isinstance(v, str) else show_num(v)

def decode(case, out):
    parts = out.split(';')
    for i, c in enumerate(case['cmds']):
        if i < len(parts) and c[0] in ('ts', 'dsec') and not parts[i].startswith('EXN'):
            try: parts[i] = _eval_fexp(parts[i])
            except Exception: parts[i] = 'BADFEXP:' + parts[i]
    return ';'.join(parts)

# ---------------------------------------------------------------- generators
ZONES = ['UTC', 'Etc/UTC', 'Zulu', 'Europe/Paris', 'America/New_York', 'Asia/Kolkata', 'Asia/Kathmandu', 'Australia/Lord_Howe',
         'Pacific/Kiritimati', 'Pacific/Apia', 'America/St_Johns', 'Africa/Monrovia', 'Europe/Amsterdam', 'Asia/Tehran',
         'Etc/GMT+12', 'Etc/GMT-14', 'Europe/Dublin', 'America/Caracas']
FIXED_ZONES = {'UTC', 'Etc/UTC', 'Zulu', 'Etc/GMT+12', 'Etc/GMT-14'}
_avail = None
def zones():
    global _avail
    if _avail is None:
        try: a = _zi.available_timezones()
        except Exception: a = set()
        _avail = [z for z in ZONES if z in a]
    return _avail

def us_of(*a):
    return (D(*a) - DMIN) // US

DAY = 86400 * 10**6
def anchor_walls():
    out = [0, 1, MAX_US, MAX_US - 1, DAY - 1, DAY, MAX_US - DAY, MAX_US - DAY + 1]
    for a in [(2000, 2, 29), (2000, 3, 1), (1900, 2, 28), (1900, 3, 1), (2024, 2, 29), (2100, 2, 28), (2100, 3, 1), (4, 2, 29), (9996, 2, 29),
              (1970, 1, 1), (1969, 12, 31), (2038, 1, 19), (1, 12, 31), (2, 1, 1), (9999, 1, 1), (400, 12, 31), (401, 1, 1), (2023, 12, 31),
              (1582, 10, 15), (1999, 12, 31), (2016, 12, 31), (2021, 3, 28), (2021, 10, 31), (2011, 12, 30), (1972, 6, 30)]:
        b = us_of(*a)
        out += [b, b - 1, b + DAY - 1, b + DAY]
    return [w for w in out if 0 <= w <= MAX_US]
ANCH = anchor_walls()

def rand_wall(rng):
    r = rng.random()
    if r < 0.3: return rng.choice(ANCH)
    if r < 0.4: return min(MAX_US, max(0, rng.choice(ANCH) + rng.choice([-1, 1]) * rng.choice([1, 2, 10**6, 60 * 10**6, 3600 * 10**6, rng.randrange(DAY)])))
    if r < 0.5: return rng.randrange(0, 2 * DAY) if rng.random() < 0.5 else MAX_US - rng.randrange(0, 2 * DAY)
    if r < 0.7: return us_of(rng.randint(1900, 2100), 1, 1) + rng.randrange(365 * DAY)
    if r < 0.8: return rng.randrange(MAX_US + 1) // 10**6 * 10**6
    return rng.randrange(MAX_US + 1)

MIN = 60 * 10**6
OFFS = [-1439, -1438, -1380, -720, -570, -60, -1, 0, 1, 60, 330, 345, 525, 720, 765, 840, 1380, 1438, 1439]
def rand_tz(rng, submin=False):
    r = rng.random()
    if r < 0.15: return ['utc']
    if r < 0.55: return ['fixed', rng.choice(OFFS) * MIN]
    if r < 0.7: return ['fixed', rng.randint(-1439, 1439) * MIN]
    if r < 0.8:
        m = rng.choice(OFFS + [rng.randint(-1439, 1439)])
        return ['fixedn', m * MIN, '%s%02d:%02d' % ('-' if m < 0 else '+', abs(m) // 60, abs(m) % 60)]
    if submin and r < 0.85: return ['fixed', rng.choice([1, -1]) * rng.choice([1, 561 * 10**6, 86399999999, 30 * 10**6, 1234567])]
    z = zones()
    if z: return ['zone', rng.choice(z)]
    return ['fixed', rng.choice(OFFS) * MIN]

def rand_dt(rng, aware=None, submin=False):
    if aware is None: aware = rng.random() < 0.6
    spec = {'w': rand_wall(rng), 'tz': rand_tz(rng, submin) if aware else None}
    if spec['tz'] and spec['tz'][0] == 'zone' and rng.random() < 0.3: spec['fold'] = 1
    return spec

SECS = [0, 1, -1, 2, 59, 60, 61, 3600, 86400, -86400, 10**6, 31536000,
        {'f': (1e-6).hex()}, {'f': (-1e-6).hex()}, {'f': (0.5).hex()}, {'f': (-0.5).hex()}, {'f': (0.1).hex()}, {'f': (0.3).hex()},
        {'f': (1.5).hex()}, {'f': (-0.75).hex()}, {'f': (0.000001).hex()}, {'f': (2.5e-6).hex()}, {'f': (1e-7).hex()}, {'f': (0.0).hex()},
        {'f': (-0.0).hex()}, {'f': (86399.999999).hex()}, {'f': (1234.567891).hex()}]
def tricky_secs(rng):
    """a float n/10**6 whose product with 1e6 is NOT the integer n in binary64 (just below or above it): truncating
    instead of rounding, or skipping the integer/fraction split, is off by 1 us exactly on these"""
    best = None
    for _ in range(400):
        n = rng.choice([rng.randint(1, 10**4), rng.randint(1, 10**7), rng.randint(1, 10**10), rng.randint(1, 4 * 10**12)]) * rng.choice([1, 1, -1])
        x = n / 10**6
        if int(x * 1000000) != n: return {'f': x.hex()}
        if x * 1000000 != n: best = {'f': x.hex()}
    return best or {'f': (1.001).hex()}

SECS += [{'f': (1.001).hex()}, {'f': (0.000249).hex()}, {'f': (-1.001).hex()}, {'f': (4.35).hex()}, {'f': (1.1).hex()}, {'f': (2.675).hex()},
         {'f': (0.0000005).hex()}, {'f': (0.0000015).hex()}, {'f': (-0.0000025).hex()}, {'f': (1.0000005).hex()}, {'f': (16777216.000001).hex()}]

EXTREME = [{'f': 'inf'}, {'f': '-inf'}, {'f': 'nan'}, {'f': (1e300).hex()}, 10**30, 86400 * 10**9, 86400 * 10**9 - 1, -86400 * 999999999, -86400 * 999999999 - 1,
           {'f': (8.64e13).hex()}, {'f': (86399999999999.98).hex()}, {'f': (-86399999913600.0).hex()}, {'f': (-86399999913600.02).hex()}, {'f': (5e-324).hex()},
           {'f': (2.0**52 + 0.5).hex()}, {'f': (2.0**53).hex()}, {'f': (4503599627.370496).hex()}]
def gen_td(rng):
    """timedelta(seconds=x) itself (CPython) against the Coq model of it, bit-exact"""
    r = rng.random()
    if r < 0.4: x = tricky_secs(rng)
    elif r < 0.5: x = rng.choice(EXTREME)
    elif r < 0.6: x = {'f': ((rng.randint(-10**7, 10**7) + 0.5) / 10**6).hex()}            # near ties
    elif r < 0.7: x = {'f': (rng.randint(-10**12, 10**12) / 2**rng.randint(0, 40)).hex()}     # dyadic: exact ties
    elif r < 0.8: x = {'f': math.ldexp(rng.random(), rng.randint(-60, 50)).hex()}
    else: x = rand_secs(rng)
    return case('td', [['td', x]])

def rand_secs(rng):
    r = rng.random()
    if r < 0.02: return rng.choice(EXTREME)
    if r < 0.45: return rng.choice(SECS)
    if r < 0.6: return tricky_secs(rng)
    if r < 0.75: return rng.randint(-10**5, 10**5)
    if r < 0.9: return {'f': (rng.randint(-10**9, 10**9) / 10**6).hex()}
    if r < 0.95: return {'f': (rng.uniform(-100, 100)).hex()}
    return rng.choice([10**9, -10**9, 3 * 10**11, {'f': (1e12).hex()}])

def in_rng(w): return 0 <= w <= MAX_US

def as_targ(rng, instant_us):
    """a naive / aware / ISO-string rendering of the UTC instant (None when not representable)"""
    r = rng.random()
    if r < 0.3: return {'d': {'w': instant_us, 'tz': None}}
    for _ in range(4):
        tz = rand_tz(rng)
        if tz[0] == 'zone':
            try: d = (DMIN + TD(microseconds=instant_us)).replace(tzinfo=UTC).astimezone(_zi.ZoneInfo(tz[1]))
            except OverflowError: continue
            spec = {'w': wall_us(d), 'tz': tz, 'fold': d.fold}
            off = d.utcoffset() // US
        else:
            off = 0 if tz[0] == 'utc' else tz[1]
            spec = {'w': instant_us + off, 'tz': tz}
        if not in_rng(spec['w']): continue
        if r < 0.65: return {'d': spec}
        if off % MIN: continue            # isoformat() of a sub-minute offset is not ISO 8601 (see finding iso-submin)
        s = mkdt(spec).isoformat()
        q = rng.random()
        if q < 0.15: s = s.replace('T', ' ')
        elif q < 0.25 and s.endswith('+00:00'): s = s[:-6] + 'Z'
        elif q < 0.3 and s.endswith('+00:00'): s = s[:-6]
        elif q < 0.35: s = s.replace('.', ',')
        elif q < 0.4: s = s.replace('-', '', 2).replace(':', '') if spec['w'] % 10**6 == 0 and off == 0 else s
        elif q < 0.5 and off % (60 * MIN) == 0 and len(s) > 6 and s[-6] in '+-': s = s[:-3]                     # +hh
        elif q < 0.6 and len(s) > 6 and s[-6] in '+-': s = s[:-3] + s[-2:]                                          # +hhmm
        elif q < 0.65 and spec['w'] % 10**6: s = s.replace('.%06d' % (spec['w'] % 10**6), ('.%06d' % (spec['w'] % 10**6)).rstrip('0'))
        elif q < 0.7 and spec['w'] % DAY == 0 and off == 0: s = s[:10]                                               # date only
        return {'s': s}
    return {'d': {'w': instant_us, 'tz': None}}

_FOLD_WALLS = None
def fold_walls():
    """[(zone key, wall us)] of wall readings whose utcoffset differs between fold=0 and fold=1 (repeated hour of a
    fall-back transition, skipped hour of a spring-forward one), found by scanning the offsets of the DST zones"""
    global _FOLD_WALLS
    if _FOLD_WALLS is not None: return _FOLD_WALLS
    out = []
    for key in zones():
        if key in FIXED_ZONES: continue
        z = _zi.ZoneInfo(key)
        for year in (1975, 1996, 2011, 2021, 2024):
            day = D(year, 1, 1, 12)
            prev = day.replace(tzinfo=z).utcoffset()
            for _ in range(366):
                nxt = day + TD(days=1)
                cur = nxt.replace(tzinfo=z).utcoffset()
                if cur != prev:                      # a transition between the two noons: scan it at 15 min steps
                    t = day
                    while t <= nxt:
                        if t.replace(tzinfo=z, fold=0).utcoffset() != t.replace(tzinfo=z, fold=1).utcoffset():
                            out.append((key, wall_us(t)))
                        t += TD(minutes=15)
                prev = cur; day = nxt
    _FOLD_WALLS = out
    return out

def gen_fold(rng):
    """both folds of one ambiguous / non-existent wall reading (and its neighbours) in ONE sequence, for normalize_time
    and the three comparisons, each call repeated later in the sequence"""
    fw = fold_walls()
    if not fw: return gen_norm(rng)
    key, w = rng.choice(fw)
    w += rng.choice([0, 0, 1, 999999, 60 * 10**6, 14 * 60 * 10**6 + 59999999])
    first = rng.choice([0, 1])
    specs = [{'w': w, 'tz': ['zone', key], 'fold': f} for f in (first, 1 - first, first)]
    # same instant seen from another zone / fixed offset (equal datetimes with a different utcoffset)
    d0 = mkdt(specs[0]); inst = utc_instant(d0)
    others = []
    if inst is not None:
        iw = wall_us(inst)
        off = rng.choice(OFFS) * MIN
        if in_rng(iw + off): others.append({'w': iw + off, 'tz': ['fixed', off]})
        others.append({'w': iw, 'tz': ['utc']})
        others.append({'w': w + rng.choice([-3600, 3600, -1800, 7200]) * 10**6, 'tz': ['zone', key], 'fold': rng.choice([0, 1])})
    seq = specs[:2] + others + specs[2:]
    if rng.random() < 0.4:
        return case('fold', [['norm', sp] for sp in seq])
    which = rng.choice(['older', 'newer', 'soon'])
    now = rand_wall(rng) if rng.random() < 0.2 else min(MAX_US, max(0, (wall_us(inst) if inst is not None else w) + rng.choice([0, 1, -1, 1800 * 10**6, -1800 * 10**6, 3600 * 10**6, -3600 * 10**6, rng.randint(-7200, 7200) * 10**6])))
    # a margin that separates the two folds: between the two distances to the clock
    ds = []
    for sp in specs[:2]:
        i = utc_instant(mkdt(sp))
        if i is not None: ds.append((now - wall_us(i)) if which == 'older' else (wall_us(i) - now))
    s_us = (sum(ds) // len(ds) if ds and rng.random() < 0.7 else rng.choice(ds + [0]) + rng.choice([0, 1, -1]))
    s = s_us // 10**6 if s_us % 10**6 == 0 else {'f': (s_us / 10**6).hex()}
    cmds = []
    for sp in seq:
        cmds.append([which, {'d': sp}, s])
        if rng.random() < 0.3: cmds.append(['norm', sp])
    return case('fold', cmds, ov={'k': 'one', 'd': {'w': now, 'tz': None}})

def case(kind, cmds, ov=None, real=None):
    return {'op': kind, 'kind': kind, 'ov': ov, 'real': REAL_DEFAULT if real is None else real, 'cmds': cmds}
REAL_DEFAULT = us_of(2024, 2, 29, 12, 34, 56, 789012)

def gen_norm(rng):
    return case('norm', [['norm', rand_dt(rng, submin=True)]])

def gen_iso(rng):
    spec = rand_dt(rng, submin=rng.random() < 0.1)
    if rng.random() < 0.3: spec['w'] = spec['w'] // 10**6 * 10**6
    return case('iso', [['isofmt', spec], ['parse', mkdt(spec).isoformat()]])

def gen_marsh(rng):
    r = rng.random()
    if r < 0.4: spec = {'w': rand_wall(rng), 'tz': None}
    elif r < 0.8:
        spec = {'w': rand_wall(rng), 'tz': rng.choice([['utc'], ['fixed', 0], ['zone', 'UTC'], ['zone', 'Etc/UTC'], ['zone', 'Zulu'], ['fixedn', 0, 'UTC+00:00'], ['fixedn', 0, 'UTC']])}
        if spec['tz'][0] == 'zone' and spec['tz'][1] not in zones(): spec['tz'] = ['utc']
    else: spec = rand_dt(rng, aware=True)
    return case('marsh', [['marsh', spec], ['rt', spec]])

def gen_leap(rng):
    d = DMIN + TD(microseconds=rand_wall(rng))
    f = {'year': d.year, 'month': d.month, 'day': d.day, 'hour': d.hour, 'minute': d.minute, 'microsecond': d.microsecond,
         'second': rng.choice([d.second, 59, 60, 60, 61, 62, 99, 0, 58])}
    r = rng.random()
    if r < 0.3: f['tzname'] = rng.choice(['UTC', 'UTC+00:00'])
    elif r < 0.35: f['tzname'] = None
    return case('leap', [['unm', f]])

def gen_unm(rng):
    """arbitrary marshalled dicts (mostly valid, some out of range, various tznames)"""
    d = DMIN + TD(microseconds=rand_wall(rng))
    f = {'year': d.year, 'month': d.month, 'day': d.day, 'hour': d.hour, 'minute': d.minute, 'second': d.second, 'microsecond': d.microsecond}
    if rng.random() < 0.35:
        k = rng.choice(list(f))
        f[k] = rng.choice([0, -1, 1, 12, 13, 24, 28, 29, 30, 31, 32, 59, 60, 61, 999999, 10**6, 9999, 10000, f[k] + 1, f[k] - 1])
    r = rng.random()
    if r < 0.5: f['tzname'] = rng.choice(['UTC', 'UTC+00:00', 'UTC+01:00', '', None, 'Z', '+01:00', 'utc', 'Europe', 'NoSuch/Zone', 'UTC+00:00 ', 'GMT', 'EST'] + zones())
    return case('unm', [['unm', f]])

def gen_clock(rng):
    t0 = rand_wall(rng)
    cmds = [['now', False], ['ts', False], ['ts', True], ['now', True]]
    for _ in range(rng.randint(1, 6)):
        if rng.random() < 0.5:
            cmds.append(['adv', rng.choice([0, 1, -1, 10**6, -10**6, DAY, -DAY, 365 * DAY, rng.randint(-10**12, 10**12), -t0, MAX_US - t0, MAX_US - t0 + 1, -t0 - 1])])
        else:
            cmds.append(['advs', rand_secs(rng)])
        cmds.append(['now', False])
        if rng.random() < 0.4: cmds.append(['ts', rng.random() < 0.5])
    if rng.random() < 0.3: cmds.append(['marsh', None])
    return case('clock', cmds, ov={'k': 'one', 'd': {'w': t0, 'tz': None}})

def gen_cmp(rng):
    now = rand_wall(rng)
    s = rand_secs(rng)
    su = secs_us(s)
    which = rng.choice(['older', 'newer', 'soon'])
    if su is None or rng.random() < 0.15:
        t = rand_wall(rng)
    else:
        t = (now - su if which == 'older' else now + su) + rng.choice([0, 0, 0, 1, -1, 1, -1, 2, -2, 10**6, -10**6, rng.randint(-10**7, 10**7)])
    if not in_rng(t): t = min(MAX_US, max(0, t))
    targ = as_targ(rng, t)
    return case('cmp', [[which, targ, s]], ov={'k': 'one', 'd': {'w': now, 'tz': None}})

def gen_fixture(rng):
    """the clock clause through TimeFixture, module-level and fixture calls interleaved (kind fixture: clock oracle)"""
    t0 = rand_wall(rng)
    cmds = [['fx_set', {'k': 'one', 'd': {'w': t0, 'tz': None}}], ['now', False], ['ts', True]]
    for _ in range(rng.randint(2, 6)):
        d = rng.choice([0, 1, -1, 10**6, DAY, rng.randint(-10**12, 10**12), rng.randint(-10**7, 10**7), MAX_US - t0, -t0, -t0 - 1])
        cmds.append(rng.choice([['fx_adv', d], ['adv', d], ['fx_advs', rand_secs(rng)], ['advs', rand_secs(rng)]]))
        if rng.random() < 0.7: cmds.append(['now', False])
    cmds.append(['now', False])
    if rng.random() < 0.3:
        t1 = rand_wall(rng)
        cmds += [rng.choice([['set', {'k': 'one', 'd': {'w': t1, 'tz': None}}], ['fx_set', {'k': 'one', 'd': {'w': t1, 'tz': None}}]]),
                 rng.choice([['fx_adv', 5], ['adv', 7], ['fx_advs', 1]]), ['now', False], ['fx_adv', -3], ['now', False]]
    if rng.random() < 0.5: cmds += [['fx_cleanup'], ['now', False]]
    return case('fixture', cmds, ov={'k': 'no'})

def gen_dst(rng):
    """a window [now, now + w] that spans a UTC-offset change of t's zone, with t placed at the boundary now + w (is_soon)
    resp. now -/+ s (older / newer): adding the window in wall-clock arithmetic of t's zone is off by the offset change"""
    fw = fold_walls()
    if not fw: return gen_cmp(rng)
    key, w = rng.choice(fw)
    z = _zi.ZoneInfo(key)
    trans = utc_instant(mkdt({'w': w, 'tz': ['zone', key], 'fold': 0}))
    if trans is None: return gen_cmp(rng)
    tr = wall_us(trans)
    which = rng.choice(['soon', 'soon', 'older', 'newer'])
    before = rng.choice([1, 60, 3600, 7200, 86400, 10 * 86400, rng.randint(1, 40 * 86400)]) * 10**6
    after = rng.choice([1, 60, 3600, 7200, 86400, 10 * 86400, rng.randint(1, 40 * 86400)]) * 10**6
    if which == 'older': t_inst, now = tr - before, tr + after
    else: now, t_inst = tr - before, tr + after
    span = abs(t_inst - now)
    eps = rng.choice([0, 0, 1, -1, 10**6, -10**6, 1800 * 10**6, -1800 * 10**6, 3599 * 10**6, -3599 * 10**6, 3600 * 10**6, -3600 * 10**6])
    s_us = span + eps
    s = s_us // 10**6 if s_us % 10**6 == 0 else {'f': (s_us / 10**6).hex()}
    if not (in_rng(now) and in_rng(t_inst)): return gen_cmp(rng)
    try: d = (DMIN + TD(microseconds=t_inst)).replace(tzinfo=UTC).astimezone(z)
    except OverflowError: return gen_cmp(rng)
    spec = {'w': wall_us(d), 'tz': ['zone', key], 'fold': d.fold}
    targ = {'d': spec}
    if rng.random() < 0.15 and (d.utcoffset() // US) % MIN == 0: targ = {'s': d.isoformat()}
    return case('cmp', [[which, targ, s]], ov={'k': 'one', 'd': {'w': now, 'tz': None}})

def rand_ov(rng):
    r = rng.random()
    if r < 0.15: return {'k': 'no'}
    if r < 0.6: return {'k': 'one', 'd': {'w': rand_wall(rng), 'tz': None}}
    if r < 0.7: return {'k': 'one', 'd': {'w': rand_wall(rng), 'tz': rng.choice([['utc'], ['fixed', rng.choice(OFFS) * MIN]])}}
    return {'k': 'many', 'l': [{'w': rand_wall(rng), 'tz': None} for _ in range(rng.randint(0, 4))]}

def gen_seq(rng):
    cmds = []
    for _ in range(rng.randint(1, 10)):
        r = rng.random()
        if r < 0.2: cmds.append(['now', rng.random() < 0.3])
        elif r < 0.3: cmds.append(['ts', rng.random() < 0.5])
        elif r < 0.4: cmds.append(['set', rand_ov(rng)])
        elif r < 0.45: cmds.append(['clear'])
        elif r < 0.55: cmds.append(['adv', rng.choice([0, 1, -1, 10**6, DAY, -DAY, rng.randint(-10**13, 10**13), MAX_US, -MAX_US])])
        elif r < 0.65: cmds.append(['advs', rand_secs(rng)])
        elif r < 0.85:
            t = {'d': rand_dt(rng)} if rng.random() < 0.75 else {'s': rng.choice(ISO_MISC) if rng.random() < 0.5 else mkdt(rand_dt(rng)).isoformat()}
            cmds.append([rng.choice(['older', 'newer', 'soon']), t, rand_secs(rng)])
        elif r < 0.9: cmds.append(['marsh', None if rng.random() < 0.6 else rand_dt(rng)])
        else: cmds.append(['dsec', rand_dt(rng, aware=(a := rng.random() < 0.5)), rand_dt(rng, aware=a if rng.random() < 0.9 else not a)])
    return case('seq', cmds, ov=rand_ov(rng), real=rand_wall(rng))

ISO_MISC = ['202001', '202001\n', '2020-123', '2020-1-123', '20200101T0000', '2020-01-01T0000+01', '2020-01-01T00:00:0', '2020-01-01T00:00:00.1+0530', '2020-01-01T00:00:00+', '2020-01-01T00Z',
            '2020-01-01T00:00:00.' + '9' * 29, '2020-01-01T00:00:00.999999' + '9' * 22 + '5', '2020-01-01T00:00:00.0000009999999999999999999999999999', '2020-01-01T00:00:00.1239999999999999999999999999999', '2020-01-01T23:59:59.9999995',
            '20200101', '2020-01-01T00:00:00-00:00', '2020-01-01T00:00:00+23:60', '2020-01-01T00:00:00+2360', '2020-01-01T00:00:00+99', '2020-01-01\n', '2020-01-01T00:00:00\n\n', '2020-01-01T12', '2020-01-01 12:30',
            '', 'x', '2020', '2020-01', '2020-1-1', '2020-01-01', '2020-01-01T00', '2020-01-01T00:00', '20200101T000000Z', '2020-01-01T00:00:00+0100',
            '2020-01-01T00:00:00+01', '2020-01-01T00:00:60', '2020-13-01T00:00:00', '2020-02-30T00:00:00', '0000-01-01T00:00:00', '2020-01-01T24:00:00',
            '2020-01-01T00:00:00+24:00', '2020-01-01T00:00:00-23:59', '2020-01-01T00:00:00+00:99', '2020-01-01T00:00:00.', '2020-01-01T00:00:00.1234567',
            '2020-01-01T00:00:00.123456789', '2020-01-01T00:00:00.9999999999', '2020-01-01T00:00:00,5+05:30', '2020-01-01 00:00:00Z', '2020-01-01T00:00:00z',
            '2020-01-01T00:00:00Z\n', ' 2020-01-01T00:00:00', '2020-01-01T00:00:00+01:00:30', '2020-01-01T00:00:00-00:09:21', '٢٠٢٠-01-01T00:00:00',
            '2020-01-01T00:00:00+1:00', '2020-01-01t00:00:00', '9999-12-31T23:59:59.999999-23:59', '0001-01-01T00:00:00+23:59', '2020-01-01T00:00:00.000001+00:00:00.000001']

def iso_variant(rng, d):
    """a rendering of the datetime d in one of the forms iso8601.parse_date accepts (not necessarily denoting d)"""
    date = rng.choice(['%04d-%02d-%02d', '%04d%02d%02d', '%04d-%d-%d', '%04d-%02d%02d', '%04d%02d-%02d']) % (d.year, d.month, d.day)
    r = rng.random()
    if r < 0.08: return rng.choice(['%04d' % d.year, '%04d-%02d' % (d.year, d.month), '%04d-%d' % (d.year, d.month), '%04d%02d' % (d.year, d.month), date])
    sep = rng.choice(['T', 'T', ' '])
    c = rng.choice([':', ':', ''])
    t = '%02d' % d.hour
    q = rng.random()
    if q > 0.1:
        t += c + '%02d' % d.minute
        if q > 0.2:
            t += c + (('%02d' % d.second) if rng.random() < 0.9 else ('%d' % d.second))
            if rng.random() < 0.6:
                fr = '%06d' % d.microsecond
                k = rng.random()
                if k < 0.3: fr = fr[:rng.randint(1, 6)]
                elif k < 0.5: fr += ''.join(rng.choice('0123456789') for _ in range(rng.randint(1, 40)))
                elif k < 0.6: fr = rng.choice(['9' * rng.randint(5, 40), '0' * rng.randint(1, 30) + '9' * rng.randint(20, 35), '1239999999999999999999999999999', '4999995' + '0' * 25, '123456' + '5' + '0' * 30])
                t += rng.choice(['.', '.', ',']) + fr
    off = d.utcoffset()
    z = ''
    if off is not None or rng.random() < 0.3:
        m = (off // TD(minutes=1)) if off is not None else rng.choice(OFFS)
        sg = '-' if m < 0 else '+'
        hh, mm = abs(m) // 60, abs(m) % 60
        z = rng.choice(['%s%02d:%02d' % (sg, hh, mm), '%s%02d%02d' % (sg, hh, mm), '%s%02d' % (sg, hh), 'Z', '%s%02d:' % (sg, hh), ''])
    return date + sep + t + z

def gen_parse(rng):
    r0 = rng.random()
    if r0 < 0.3: s = rng.choice(ISO_MISC)
    elif r0 < 0.75:
        s = iso_variant(rng, mkdt(rand_dt(rng)))
        if rng.random() < 0.25:
            i = rng.randrange(len(s) + 1)
            s = s[:i] + rng.choice(['', '0', '9', ':', '-', '+', 'Z', 'T', ' ', '.', ',', 'x', '\n']) + s[i + (rng.random() < 0.5):]
        return case('parse', [['parse', s], ['rparse', s]])
    else:
        s = mkdt(rand_dt(rng, submin=True)).isoformat()
        if rng.random() < 0.5:
            i = rng.randrange(len(s) + 1)
            s = s[:i] + rng.choice(['', '0', '9', ':', '-', '+', 'Z', 'T', ' ', '.', ',', 'x']) + s[i + (rng.random() < 0.5):]
    return case('parse', [['parse', s], ['rparse', s]])

def gen_cal(rng):
    if rng.random() < 0.5: return case('cal', [['fields', rand_wall(rng)]])
    d = DMIN + TD(microseconds=rand_wall(rng))
    f = [d.year, d.month, d.day, d.hour, d.minute, d.second, d.microsecond]
    if rng.random() < 0.5:
        i = rng.randrange(7)
        f[i] = rng.choice([0, -1, 1, 12, 13, 23, 24, 28, 29, 30, 31, 32, 59, 60, 999999, 10**6, 9999, 10000, f[i] + 1])
    return case('cal', [['mk', f]])

def gen_dsec(rng):
    a = rng.random() < 0.5
    x = rand_dt(rng, aware=a); y = rand_dt(rng, aware=a)
    if rng.random() < 0.5: y = dict(y, w=min(MAX_US, max(0, x['w'] + rng.choice([0, 1, -1, 10**6, -10**6, 123456789, -1])))) if y['tz'] is None or y['tz'][0] != 'zone' else y
    return case('dsec', [['dsec', x, y]])

FIXED_CASES = None
def fixed_cases():
    """boundary cases that always run"""
    out = []
    now = us_of(2020, 1, 1)
    for which in ('older', 'newer', 'soon'):
        for s in (0, 1, -1, {'f': (0.5).hex()}, {'f': (1e-6).hex()}):
            su = secs_us(s)
            for dlt in (-1, 0, 1):
                t = (now - su if which == 'older' else now + su) + dlt
                for targ in ({'d': {'w': t, 'tz': None}}, {'d': {'w': t + 1439 * MIN, 'tz': ['fixed', 1439 * MIN]}}, {'d': {'w': t - 1439 * MIN, 'tz': ['fixed', -1439 * MIN]}},
                             {'s': (DMIN + TD(microseconds=t)).isoformat()}, {'s': (DMIN + TD(microseconds=t + 330 * MIN)).replace(tzinfo=_dtm.timezone(TD(minutes=330))).isoformat()}):
                    out.append(case('cmp', [[which, targ, s]], ov={'k': 'one', 'd': {'w': now, 'tz': None}}))
    for w in (0, 1, MAX_US, MAX_US - 1, us_of(1970, 1, 1), us_of(1970, 1, 1) - 1, us_of(2024, 2, 29, 23, 59, 59, 999999)):
        out.append(case('clock', [['now', False], ['ts', False], ['ts', True], ['advs', 1], ['now', False], ['adv', -1], ['now', False], ['marsh', None]],
                        ov={'k': 'one', 'd': {'w': w, 'tz': None}}))
        out.append(case('marsh', [['marsh', {'w': w, 'tz': None}], ['rt', {'w': w, 'tz': None}]]))
        out.append(case('marsh', [['marsh', {'w': w, 'tz': ['utc']}], ['rt', {'w': w, 'tz': ['utc']}]]))
        out.append(case('iso', [['isofmt', {'w': w, 'tz': None}], ['parse', (DMIN + TD(microseconds=w)).isoformat()]]))
        for off in (-1439, 1439, 0, 330):
            out.append(case('norm', [['norm', {'w': w, 'tz': ['fixed', off * MIN]}]]))
            sp = {'w': w, 'tz': ['fixed', off * MIN]}
            out.append(case('iso', [['isofmt', sp], ['parse', mkdt(sp).isoformat()]]))
    for key, w in (('Europe/Paris', us_of(2021, 10, 31, 2, 30)), ('America/New_York', us_of(2021, 11, 7, 1, 30)), ('Australia/Lord_Howe', us_of(2021, 4, 4, 1, 45)),
                   ('Europe/Paris', us_of(2021, 3, 28, 2, 30))):
        if key not in zones(): continue
        a, b = ({'w': w, 'tz': ['zone', key], 'fold': f} for f in (0, 1))
        out.append(case('fold', [['norm', a], ['norm', b], ['norm', a]]))
        out.append(case('fold', [['norm', b], ['norm', a], ['norm', b]]))
        ia, ib = wall_us(utc_instant(mkdt(a))), wall_us(utc_instant(mkdt(b)))
        now = max(ia, ib) + 3600 * 10**6
        mid = (2 * now - ia - ib) // 2 // 10**6
        for which, sec in (('older', mid), ('newer', -mid), ('soon', -mid)):
            out.append(case('fold', [[which, {'d': a}, sec], [which, {'d': b}, sec], [which, {'d': a}, sec]], ov={'k': 'one', 'd': {'w': now, 'tz': None}}))
            out.append(case('fold', [[which, {'d': b}, sec], [which, {'d': a}, sec], [which, {'d': b}, sec]], ov={'k': 'one', 'd': {'w': now, 'tz': None}}))
    out.append(case('cmp', [['soon', {'s': '2020-01-01T00:00:00'}, 1]], ov={'k': 'one', 'd': {'w': now, 'tz': None}}))
    out.append(case('seq', [['set', {'k': 'no'}], ['now', False], ['advs', 5], ['now', False], ['ts', True], ['clear'], ['now', True], ['ts', False], ['ts', True], ['adv', 1]], ov={'k': 'no'}))
    out.append(case('seq', [['now', False], ['adv', 5], ['now', False], ['now', False], ['ts', False], ['set', {'k': 'many', 'l': []}], ['now', False]],
                    ov={'k': 'many', 'l': [{'w': 5, 'tz': None}, {'w': MAX_US, 'tz': None}]}))
    return out

GENS = [(gen_td, 8), (gen_fold, 12), (gen_dst, 8), (gen_fixture, 6), (gen_norm, 10), (gen_iso, 10), (gen_marsh, 10), (gen_leap, 5), (gen_unm, 8), (gen_clock, 12), (gen_cmp, 25), (gen_seq, 10), (gen_parse, 5), (gen_cal, 8), (gen_dsec, 4)]
def with_ptz(cases, rng):
    """every case of every family gets a process time zone: the fixed ones cycle through the list, the others draw one"""
    for i, c in enumerate(cases):
        c['ptz'] = PTZS[i % len(PTZS)] if rng is None else rng.choice(PTZS)
        yield c

def gen_cases(rng, tier):
    yield from with_ptz(fixed_cases(), None)
    n = 5000 if tier == 'quick' else 500000
    fs = [g for g, w in GENS for _ in range(w)]
    trng = random.Random(rng.random())
    for _ in range(n):
        yield from with_ptz([rng.choice(fs)(rng)], trng)

def search(rng, budget):
    fs = [gen_cmp] * 4 + [gen_fold] * 3 + [gen_dst] * 3 + [gen_fixture] * 2 + [gen_clock] * 2 + [gen_marsh, gen_leap, gen_norm, gen_iso, gen_unm]
    yield from with_ptz(fixed_cases(), None)
    trng = random.Random(rng.random())
    for _ in range(budget):
        yield from with_ptz([rng.choice(fs)(rng)], trng)

# ---------------------------------------------------------------- oracle: the property, recomputed with UTC arithmetic
def utc_instant(d):
    """naive UTC reading of the instant an aware datetime denotes: wall reading minus ITS OWN utcoffset() (which honours
    d.fold); None when not representable"""
    try: return d.replace(tzinfo=None) - d.utcoffset()
    except OverflowError: return None

def parse_dt_out(s):
    if s.startswith('EXN') or s.count(',') < 2: return None
    w, o, n = s.split(',', 2)
    return int(w), (None if o == 'N' else int(o)), n

def check_norm(cmd, out):
    d = mkdt(cmd[1])
    r = parse_dt_out(out)
    if d.tzinfo is None:
        if r != (wall_us(d), None, 'N'): return 'normalize_time changed the naive %s: %s' % (d.isoformat(), out)
        return None
    want = utc_instant(d)
    if want is None: return None           # the instant is outside datetime's range: nothing is promised
    if r != (wall_us(want), None, 'N'):
        return 'normalize_time(%s fold=%d) = %s, the UTC instant is %s' % (d.isoformat(), d.fold, out, want.isoformat())
    return None

def check_cmp(cmd, out, now):
    which, targ, s = cmd
    su = secs_us(s)
    if su is None: return None
    if 's' in targ:
        t = lib_parse(targ['s'])
        if isinstance(t, Exception): return None
    else:
        t = mkdt(targ['d'])
    tn = utc_instant(t) if t.tzinfo is not None else t
    if tn is None: return None
    delta = TD(microseconds=su)
    if which == 'older': want = now - tn > delta
    elif which == 'newer': want = tn - now > delta
    else:
        try: want = tn <= now + delta
        except OverflowError: return None
    if out != str(want):
        return '%s(%s%s, %r) with now=%s gives %s, expected %s' % ({'older': 'is_older_than', 'newer': 'is_newer_than', 'soon': 'is_soon'}[which],
            targ.get('s', t.isoformat()), '' if 's' in targ else ' fold=%d' % t.fold, secs_value(s), now.isoformat(), out, want)
    return None

def check_pure_cmds(c, outs):
    """norm / older / newer / soon commands of a case whose override is a fixed naive instant: each one against the
    property, and equal commands must give equal answers wherever they stand in the sequence (statelessness)"""
    now = DMIN + TD(microseconds=c['ov']['d']['w']) if c.get('ov') and c['ov']['k'] == 'one' else None
    seen = {}
    for cmd, o in zip(c['cmds'], outs):
        if cmd[0] == 'norm': msg = check_norm(cmd, o)
        elif cmd[0] in ('older', 'newer', 'soon') and now is not None: msg = check_cmp(cmd, o, now)
        else: continue
        if msg: return msg
        key = json.dumps(cmd, sort_keys=True)
        if seen.setdefault(key, o) != o: return 'the same call %s answered %s and then %s' % (key[:200], seen[key], o)
    return None

def oracle(c, io):
    kind = c.get('kind')
    outs = io.split(';')
    if any(o.startswith('HARNESS') for o in outs): return 'harness error: ' + io[:200]
    if kind in ('norm', 'cmp', 'fold'):
        return check_pure_cmds(c, outs)
    elif kind == 'iso':
        d = mkdt(c['cmds'][0][1])
        r = parse_dt_out(outs[1])
        off = d.utcoffset()
        want = (wall_us(d), 0 if off is None else off // US)
        if r is None or (r[0], r[1]) != want:
            return 'parse_isotime(%r) = %s, isoformat() was taken from wall=%d offset=%s' % (c['cmds'][1][1], outs[1], want[0], want[1])
    elif kind == 'marsh':
        spec = c['cmds'][0][1]
        d = mkdt(spec)
        off = d.utcoffset()
        if off is None or (off == TD(0) and d.tzinfo.tzname(None) in ('UTC', 'UTC+00:00')):
            r = parse_dt_out(outs[1])
            want = (wall_us(d), None if off is None else 0)
            if r is None or (r[0], r[1]) != want:
                return 'unmarshall_time(marshall_now(%s)) = %s' % (d.isoformat(), outs[1])
            f = outs[0].split(',')
            if f[:7] != [str(x) for x in (d.year, d.month, d.day, d.hour, d.minute, d.second, d.microsecond)]:
                return 'marshall_now(%s) fields = %s' % (d.isoformat(), outs[0])
    elif kind == 'leap':
        f = c['cmds'][0][1]
        if f['second'] >= 60:
            want = D(f['year'], f['month'], f['day'], f['hour'], f['minute'], 59, f['microsecond'])
            r = parse_dt_out(outs[0])
            if r is None or r[0] != wall_us(want): return 'unmarshall_time with second=%d gives %s, expected second 59' % (f['second'], outs[0])
    elif kind in ('clock', 'fixture'):
        cur = c['ov']['d']['w'] if kind == 'clock' else None
        for cmd, o in zip(c['cmds'], outs):
            k = cmd[0]
            if k.startswith('fx_'): k = {'fx_set': 'set', 'fx_cleanup': 'clear', 'fx_adv': 'adv', 'fx_advs': 'advs'}[k]
            if k == 'set': cur = cmd[1]['d']['w']; continue
            if k == 'clear': break
            if k == 'now':
                if parse_dt_out(o) != (cur, None, 'N'): return 'utcnow() under override = %s, the overridden instant is %d us' % (o, cur)
            elif k == 'ts':
                secs = cur // 10**6 - 62135596800
                want = show_num(secs + (cur % 10**6) / 1000000) if cmd[1] else show_num(secs)
                if o != want: return 'utcnow_ts(%s) under override = %s, expected %s' % (cmd[1], o, want)
            elif k in ('adv', 'advs'):
                dlt = cmd[1] if k == 'adv' else secs_us(cmd[1])
                if dlt is None:
                    if not o.startswith('EXN'): return 'advance by an amount timedelta refuses (%r) did not raise' % (secs_value(cmd[1]),)
                    continue
                if abs(dlt) > 10**20: return None
                if in_rng(cur + dlt):
                    if o != 'None': return 'advance by %d us raised %s' % (dlt, o)
                    cur += dlt
                else:
                    if not o.startswith('EXN'): return 'advance beyond datetime range did not raise'
            elif k == 'marsh':
                d = DMIN + TD(microseconds=cur)
                if o.split(',')[:7] != [str(x) for x in (d.year, d.month, d.day, d.hour, d.minute, d.second, d.microsecond)]:
                    return 'marshall_now() under override = %s' % o
    return None

def extra_checks(rng, tier):
    """without an override utcnow()/utcnow_ts() read the OS clock (bracketed by two direct readings)"""
    import time as _time
    tu = _tu()
    tu.clear_time_override()
    for i in range(20):
        a = D.now(UTC).replace(tzinfo=None); x = tu.utcnow(); y = tu.utcnow(with_timezone=True); b = D.now(UTC).replace(tzinfo=None)
        msg = None
        if not (a <= x <= b) or x.tzinfo is not None: msg = 'utcnow() without override = %r, OS clock in [%r, %r]' % (x, a, b)
        elif y.utcoffset() != TD(0) or not (a <= y.replace(tzinfo=None) <= b): msg = 'utcnow(with_timezone=True) without override = %r' % (y,)
        yield 'real-clock', {'op': 'real-clock', 'kind': 'real-clock', 'i': i}, msg
        t0 = _time.time(); u = tu.utcnow_ts(); v = tu.utcnow_ts(microsecond=True); t1 = _time.time()
        msg = None
        if not isinstance(u, int) or not (int(t0) <= u <= int(t1)): msg = 'utcnow_ts() without override = %r' % (u,)
        elif not isinstance(v, float) or not (t0 <= v <= t1): msg = 'utcnow_ts(True) without override = %r' % (v,)
        yield 'real-clock-ts', {'op': 'real-clock', 'kind': 'real-clock-ts', 'i': i}, msg

def zone(c):
    kind = c.get('kind')
    if kind == 'iso':
        off = mkdt(c['cmds'][0][1]).utcoffset()
        if off is not None and (off // US) % MIN: return 'iso-submin'
    return None

def classify(c, io):
    k = c.get('kind', c['op'])
    if k == 'cmp':
        cmd = c['cmds'][0]
        t = cmd[1]
        return 'cmp:%s:%s' % (cmd[0], 'str' if 's' in t else ('naive' if t['d']['tz'] is None else 'aware'))
    return k + (':exn' if 'EXN' in io else '')

def trivial(c, io):
    return False

LEVEL_TEXT = ('Unbounded theorems (Coq) about the statement-by-statement translation of timeutils.py (and the TimeFixture wrappers of fixture.py) '
              'regenerated on every run: normalize_time is the identity on naive datetimes and maps an aware one to the naive reading of wall - utcoffset '
              '(OverflowError exactly when that is outside datetime.min..max); the proleptic Gregorian calendar and time-of-day split used for the fields are '
              'bijections for every day number >= 0 / every valid date (arithmetic proof, no bound); unmarshall_time(marshall_now(d)) = d for naive d and gives '
              'the same wall reading with offset 0 for UTC d, a second >= 59 is read as 59, the seven fields carry the microseconds; under a scalar override '
              'utcnow returns it, utcnow_ts is (wall div 10^6) - 62135596800 resp. that plus microsecond/10^6 exactly, any interleaving of advance_time_delta/'
              'seconds through the module or the fixture moves the instant by the exact sum (induction), OverflowError moves nothing; a list override is popped '
              'in order and never moved by advance; an aware override makes the comparisons raise TypeError; is_older_than / is_newer_than / is_soon hold iff '
              'now - t > s, t - now > s, t <= now + w for naive, aware and parser-resolved string t, where s is the Python int or binary64 float argument and '
              'timedelta(seconds=s) is modelled on an axiom-free binary64 (exact for ints and integral floats; integer part + round-half-even of the binary64 '
              'product fraction*1e6 otherwise; the nearest/ties-to-even property of that rounding is proved). iso8601.parse_date is modelled by its own regular '
              'expression (regenerated, run by the verified-by-correspondence regex engine) and by a direct reader of isoformat() text on which parse o isoformat '
              '= id is proved for whole-minute offsets. One clause is refuted with a witness replayed on the implementation: isoformat() of sub-minute offsets.')
LEVEL_NOTE = ('Trusted: Coq kernel; tools/gen/gen_C12.py (typed AST translation; parse_isotime, utcnow, set_time_override, advance_time_delta and the TimeFixture '
              'methods recognised as whole-AST templates; failclosed guards); CPython datetime arithmetic as modelled in Model/C12_Prim.v and binary64 as in '
              'Base/PyFloat.v (both tied bit-exactly by the correspondence: fields, constructor validation, overflow, naive/aware TypeError, timedelta(seconds=float)); '
              'utcoffset()/tzname() of tzinfo objects and zoneinfo are computed by CPython in the harness and passed to the model (contracts appear as premises). '
              'Not proved: a bound on the binary64 multiplication error inside timedelta(seconds=float) (the model is CPython\'s algorithm, not its real-number meaning). '
              'All Print Assumptions: Closed under the global context.')
TRUSTED = ['timedelta(seconds=x) / timedelta(0, x) is modelled in Coq (td_of_seconds on Base/PyFloat.v) and compared bit-exactly with CPython on every second count and on the td cases',
           'tzinfo.utcoffset(dt) and tzinfo.tzname(None) (fixed offsets, zoneinfo zones incl. fold) are evaluated by CPython and passed as integers/strings',
           'zoneinfo.ZoneInfo(key) is an oracle of the world (lib_zone); theorem contract: the key UTC exists with offset 0 — tested on every marshalling case',
           'iso8601.parse_date is modelled in Coq (Model/C12_Iso.v: the library regex regenerated from the installed iso8601 minus its look-ahead, which the model re-imposes; Decimal fraction arithmetic re-implemented) for every string',
           'float results (utcnow_ts(True), delta_seconds) are returned by the model as exact expressions and evaluated with CPython float arithmetic by the harness',
           'the OS clock is replaced in the harness by a fake datetime.now (module attribute of timeutils patched during a case); real-clock behaviour is bracketed by extra checks']
ASSUMPTIONS = ['second counts are compared at microsecond resolution: s means timedelta(seconds=s) as CPython computes it (modelled), so a sub-microsecond fraction is not distinguished',
               'the overridden clock of the comparison theorems is naive UTC; an override in a zoneinfo zone with a varying offset is not modelled (cases are implementation-only)',
               'a list override is popped per call and is NOT moved by advance_time_* (theorems C12_utcnow_pops_in_order, C12_advance_list_noop state what the code does)',
               'parse_strtime / PERFECT_TIME_FORMAT (strptime) is library behaviour and not part of the property text: not modelled']
RULE = ('cases = world (override slot, fake OS clock) + command list, each run under a process time zone (TZ + tzset: UTC, Asia/Tokyo, America/New_York, Pacific/Chatham, Europe/Lisbon, Australia/Lord_Howe, two POSIX strings); kinds: td (timedelta(seconds=x): floats n/1e6 whose binary64 product with 1e6 is not n, ties, dyadic, subnormal, inf/nan/range edges), dst (windows spanning a UTC-offset change of t\'s zone, t at the boundary), norm (naive/aware x fixed offsets -23:59..+23:59, sub-minute offsets, %d zoneinfo zones incl. fold), '
        'iso (isoformat -> parse_isotime), marsh (marshall_now + round trip; naive/UTC variants/other zones), leap (second 58..99), unm (arbitrary dicts, tznames), '
        'clock / fixture (scalar override, utcnow, utcnow_ts, advances by delta or int/float seconds, module functions and TimeFixture methods interleaved, re-set mid-way), cmp (is_older/newer/soon with t placed at '
        'the boundary now -/+ s and +-1 us, +-2 us, +-1 s, rendered naive / aware / ISO text), seq (random command sequences incl. list overrides, aware overrides, clear), parse (every form iso8601 accepts: date only, basic, mixed, 1-digit fields, Z/+hh/+hhmm/+hh:mm, fractions of 1..46 digits incl. Decimal-rounding carries, comma, trailing newline; malformed and mutated text; each through the combined and the regex-only model), '
        'fold (both folds of every ambiguous / skipped wall reading of the DST zones in 5 sample years and their neighbours, plus equal instants in other zones, in one sequence with repeats, for normalize_time and the comparisons with a margin between the two folds), cal (field split / constructor validation), dsec; walls drawn from datetime.min/max neighbourhoods, leap days, epoch, month/year ends, uniform; seconds from ints, exact-boundary, negative, '
        'fractional, sub-microsecond; fixed boundary cases first; distinct = distinct case JSON; trivial = none') % len(ZONES)
