"""C06 — InspectWrapper is a transparent pipe that isolates inspector faults
(oslo_utils/imageutils/format_inspector.py: InspectWrapper, detect_file_format, _chunked_reader).

Correspondence: the REAL wrapper runs over the REAL inspectors whose eat_chunk is wrapped to raise
scheduled exceptions at (inspector, chunk index) pairs; per run every inspector's per-call outcome
(raised?, complete, format_match, the chunk it got) is recorded as a SCRIPT.  The extracted model is
the generic wrapper (coq/Model/Wrap.v, with the shape/tables regenerated from /repo) over scripted
inspectors replaying that script, so the wrapper logic alone is compared: per call the bytes
delivered / exception class, source position, per-inspector eat and finish counts, errored set,
formats and format.

Oracle (model-free, on the implementation run): every chunk returned is exactly what the source
handed out in that call (one source read per call); an exception raised inside an inspector other
than the expected format's never reaches the reader; such an inspector is never fed again; with an
expected format the call raises exactly when that inspector fails (that very exception) or is
complete without matching (ImageFormatError), every other call delivers its chunk.
"""
import sys, os, io, json, struct, random, hashlib
import gen_C06
import gen_C06_code
import gen_insp
import logging
logging.disable(logging.CRITICAL)   # the inspectors log parse problems; not part of the observations

ID = 'C06'
GEN = [('Gen/C06_Wrapper.v', gen_C06.generate), ('Gen/C06_Code.v', gen_C06_code.generate),
       ('Gen/Insp_Consts.v', gen_insp.generate)]     # constants of the concrete inspector models (reference for the abort chunk)
EQUIV_FILES = ['Proofs/C06_Equiv.v']
EXTRACT = 'Extract/C06_x.v'

EXN_NAMES = ['ImageFormatError', 'SafetyViolation', 'SafetyCheckFailed', 'error', 'KeyError', 'AttributeError', 'IndexError',
             'ValueError', 'TypeError', 'RuntimeError', 'UnicodeDecodeError', 'OverflowError', 'StopIteration', 'OSError', 'OtherError']

def _fi():
    from oslo_utils.imageutils import format_inspector
    return format_inspector

def canon(e):
    n = type(e).__name__
    return n if n in EXN_NAMES[:-1] else 'OtherError'

def ck(b):
    return sum(b) + 257 * sum(b[1::2])

class Boom(Exception):
    pass

def make_exc(cls, tag):
    fi = _fi()
    if cls == 'error': e = struct.error('injected')
    elif cls == 'ImageFormatError': e = fi.ImageFormatError('injected')
    elif cls == 'SafetyViolation': e = fi.SafetyViolation('injected')
    elif cls == 'UnicodeDecodeError': e = UnicodeDecodeError('ascii', b'\xff', 0, 1, 'injected')
    elif cls == 'Boom': e = Boom('injected')
    else: e = getattr(__import__('builtins'), cls)('injected')
    e._c06_src = tag
    e._c06_injected = True
    return e

FAULT_CLASSES = ['RuntimeError', 'ValueError', 'KeyError', 'error', 'ImageFormatError', 'TypeError', 'IndexError', 'AttributeError',
                 'OverflowError', 'OSError', 'StopIteration', 'Boom', 'UnicodeDecodeError', 'SafetyViolation']

# ---------------------------------------------------------------- data

def make_data(spec):
    t, n, seed = spec['t'], spec['n'], spec.get('seed', 0)
    r = random.Random(seed * 7919 + 13)
    if t == 'zeros': d = bytearray(n)
    elif t == 'rand': d = bytearray(r.getrandbits(8) for _ in range(n))
    elif t == 'text': d = bytearray((b'# Disk DescriptorFile\nversion=1\ncreateType="monolithicSparse"\n' * (n // 60 + 1))[:n])
    else:
        d = bytearray(n) if seed % 2 == 0 else bytearray(r.getrandbits(8) for _ in range(n))
        def put(off, b):
            if off + len(b) <= len(d): d[off:off + len(b)] = b
        for part in t.split('+'):
            if part == 'qcow2': put(0, b'QFI\xfb' + struct.pack('>IQIIQ', 3, 0, 0, 16, 1 << 30))
            elif part == 'qed': put(0, b'QED\x00')
            elif part == 'vhd': put(0, b'conectix')
            elif part == 'vhdx': put(0, b'vhdxfile')
            elif part == 'vhdxreg': put(0, b'vhdxfile'); put(192 * 1024, b'regi' + struct.pack('<III', 0, 0, 0))
            elif part == 'vmdk': put(0, struct.pack('<4sIIQQQQIQQ', b'KDMV', 1, 0, 100, 128, 1, 1, 512, 0, 21)); put(512, b'# Disk DescriptorFile\ncreateType="monolithicSparse"\n\x00')
            elif part == 'vmdkfooter': put(0, struct.pack('<4sIIQQQQIQQ', b'KDMV', 1, 0, 100, 128, 1, 1, 512, 0, 0xffffffffffffffff)); put(512, b'# Disk DescriptorFile\ncreateType="monolithicSparse"\n\x00')
            elif part == 'vmdkbadver': put(0, struct.pack('<4sIIQQQQIQQ', b'KDMV', 9, 0, 100, 128, 1, 1, 512, 0, 21))
            elif part == 'vmdkbadloc': put(0, struct.pack('<4sIIQQQQIQQ', b'KDMV', 1, 0, 100, 128, 7, 1, 512, 0, 21))
            elif part == 'vdi': put(0x40, struct.pack('<I', 0xbeda107f))
            elif part == 'gpt': put(510, b'\x55\xaa'); put(446 + 4, b'\xee')
            elif part == 'fat': put(510, b'\x55\xaa'); put(0x10, b'\x02'); put(0x15, b'\xf8')
            elif part == 'iso': put(32 * 1024 + 1, b'CD001')
            elif part == 'luks': put(0, b'LUKS\xba\xbe' + struct.pack('>h', 1))
    return bytes(d)

# ---------------------------------------------------------------- instrumented sources / inspectors

class Buf:
    """how a source hands its chunks out: 'bytes' | 'ba' (a fresh bytearray) | 'reuse' (ONE bytearray, refilled before
    every hand-out) | 'mv' (a memoryview over one re-used buffer).  The log keeps an immutable snapshot of every chunk."""
    buf = 'bytes'; shared = None
    def conv(self, c):
        k = self.buf
        if k == 'bytes': return c
        if k == 'ba': return bytearray(c)
        if k == 'reuse':
            if self.shared is None: self.shared = bytearray()
            self.shared[:] = c
            return self.shared
        if self.shared is None: self.shared = bytearray(1 << 19)
        if len(c) > len(self.shared): return memoryview(bytearray(c))
        self.shared[:len(c)] = c
        return memoryview(self.shared)[:len(c)]

SRC_FAULTS = ['OSError', 'ValueError', 'RuntimeError', 'KeyError', 'TypeError', 'IndexError', 'AttributeError', 'OverflowError', 'error', 'Boom']
def exn_code(cls):
    return EXN_NAMES.index(cls if cls in EXN_NAMES else 'OtherError') + 1

class FSrc(io.BytesIO, Buf):
    def __init__(self, data, buf='bytes', sfaults=()):
        super().__init__(data); self.log = []; self.pos = 0; self.pulls = 0; self.buf = buf; self.sfaults = list(sfaults)
    force_empty = False   # the next read returns b'' although data is left (a transient empty read)
    def read(self, size=-1):
        i = self.pulls; self.pulls += 1
        if i < len(self.sfaults) and self.sfaults[i]:
            raise make_exc(self.sfaults[i], '<source>')         # a transient failure of the source: nothing is consumed
        try:
            c = super().read(0 if self.force_empty else size)
        except Exception as e:
            e._c06_src = '<source>'; raise
        self.log.append(c); self.pos += len(c)
        return self.conv(c)

class LSrc(Buf):
    """an iterator without close()"""
    def __init__(self, chunks, buf='bytes'):
        self.it = iter(chunks); self.log = []; self.pulls = 0; self.buf = buf
    def __iter__(self): return self
    def __next__(self):
        self.pulls += 1
        try:
            c = next(self.it)
        except StopIteration as e:
            e._c06_src = '<source>'; raise
        self.log.append(c)
        return self.conv(c)

class GSrc(LSrc):
    """generator-like: close() exhausts it"""
    def close(self):
        self.it = iter(())

class RSrc(Buf):
    """a scripted iterator: 0 = the next chunk, 1000 = StopIteration now (the source resumes afterwards), k = exception
    class EXN_NAMES[k-1] raised once; after the script: StopIteration.  No close()."""
    def __init__(self, chunks, script, buf='bytes'):
        self.log = []; self.pulls = 0; self.buf = buf; self.items = []
        ch = list(chunks)
        for code in script:
            if code == 0:
                if ch: self.items.append(('c', ch.pop(0)))
            elif code == 1000: self.items.append(('s', None))
            else: self.items.append(('e', EXN_NAMES[code - 1]))
    def __iter__(self): return self
    def __next__(self):
        self.pulls += 1
        if not self.items: raise make_exc('StopIteration', '<source>')
        k, v = self.items.pop(0)
        if k == 's': raise make_exc('StopIteration', '<source>')
        if k == 'e': raise make_exc('Boom' if v == 'OtherError' else v, '<source>')
        self.log.append(v)
        return self.conv(v)

class OSet(set):
    """a set with a chosen iteration order.  CPython iterates the wrapper's set of inspector objects in an
    address-dependent order; every order is a possible behaviour, so the harness picks one from the case
    (deterministic runs, and all orders get exercised)."""
    def __iter__(self):
        return iter(self._order)

def reorder(fi, w, oseed):
    names = list(fi.ALL_FORMATS)
    insps = sorted(set.__iter__(w._inspectors), key=lambda i: names.index(i.NAME) if i.NAME in names else 99)
    random.Random(oseed).shuffle(insps)
    if isinstance(w._inspectors, (set, frozenset)):
        s = OSet(insps); s._order = insps
        w._inspectors = s

def instrument(w, faults, src, hfaults=()):
    """faults: {(name, chunk_index): (cls, when)}; hfaults: [[name, 'rc'|'pp', key, cls]] = a fault inside the inspector's
    region_complete (key: region name or call index) / post_process (key: call index) hook.  On the unchanged tree the hooks
    only run inside eat_chunk, so such a fault is the outcome of the enclosing eat_chunk call (that is what the script records).
    Returns (order, recs) ; recs[name] = dict(events, eats, fins, ...)"""
    order = list(w._inspectors)
    recs = {}
    for insp in order:
        name = insp.NAME
        mine = [h for h in hfaults if h[0] == name]
        if mine:
            def hook(orig, kind, mine=mine, name=name):
                cnt = {'n': 0}
                def f(*a):
                    k = cnt['n']; cnt['n'] += 1
                    for h in mine:
                        if h[1] == kind and (h[2] == k or (a and h[2] == a[0])):
                            raise make_exc(h[3], name)
                    return orig(*a)
                return f
            insp.region_complete = hook(insp.region_complete, 'rc')
            insp.post_process = hook(insp.post_process, 'pp')
        def q(insp=insp):
            try:
                return (1 if insp.complete else 0), (1 if insp.format_match else 0), False
            except Exception:
                return 0, 0, True
        c0, m0, bad = q()
        st = {'name': name, 'events': [c0, m0], 'eats': 0, 'fins': 0, 'unmodelled': bad, 'calls': []}
        recs[name] = st
        orig_eat, orig_fin = insp.eat_chunk, insp.finish
        def eat(chunk, st=st, orig_eat=orig_eat, q=q, name=name):
            idx = len(src.log) - 1
            st['eats'] += 1
            f = faults.get((name, idx))
            exc = None
            try:
                if f and f[1] == 'before': raise make_exc(f[0], name)
                orig_eat(chunk)
                if f and f[1] != 'before': raise make_exc(f[0], name)
            except Exception as e:
                if getattr(e, '_c06_src', None) is None:
                    try: e._c06_src = name
                    except Exception: pass
                exc = e
            c, m, bad = q()
            if bad: st['unmodelled'] = True
            st['events'] += [1, (EXN_NAMES.index(canon(exc)) + 1) if exc is not None else 0, c, m, len(chunk), ck(chunk)]
            st['calls'].append({'call': src.pulls, 'exc': exc, 'c': c, 'm': m})
            if exc is not None: raise exc
        def fin(st=st, orig_fin=orig_fin, q=q):
            st['fins'] += 1
            try:
                orig_fin()
            except Exception as e:
                if getattr(e, '_c06_src', None) is None:
                    try: e._c06_src = st['name']
                    except Exception: pass
                st['unmodelled'] = True          # the model's finish() cannot raise
                raise
            c, m, bad = q()
            if bad: st['unmodelled'] = True
            st['events'] += [2, 0, c, m, 0, 0]
        insp.eat_chunk = eat
        insp.finish = fin
    return order, recs

def state_str(fi, w, order, recs, by_key=False):
    names = list(fi.ALL_FORMATS)
    insps = sorted(order, key=lambda i: names.index(i.NAME)) if by_key else order
    def fmt_list(l):
        return '%d:%s' % (len(l), '+'.join(sorted({str(x) for x in l}, key=names.index)))
    try:
        fs = w.formats
        fs = 'None' if fs is None else fmt_list(fs)
    except Exception as e:
        fs = 'EXN:' + canon(e)
    try:
        f = w.format
        f = 'None' if f is None else str(f)
    except Exception as e:
        f = 'EXN:' + canon(e)
    return '%s|%s|%s|%s|%s' % (','.join(str(recs[i.NAME]['eats']) for i in insps), ','.join(str(recs[i.NAME]['fins']) for i in insps),
                               ','.join(str(i in w._errored_inspectors) for i in insps), fs, f)

_CACHE = {}
def _key(c):
    return json.dumps({k: v for k, v in c.items() if not k.startswith('_')}, sort_keys=True)

def split_lens(data, lens):
    out = []; p = 0
    for n in lens:
        out.append(data[p:p + n]); p += n
    return out

def run_session(c):
    fi = _fi()
    data = make_data(c['data'])
    kind = c['kind']
    faults = {(f[0], f[1]): (f[2], f[3]) for f in c.get('faults', [])}
    buf = c.get('buf', 'bytes')
    if kind == 'f': src = FSrc(data, buf, c.get('sfaults', ()))
    else:
        chunks = split_lens(data, c['lens'])
        src = RSrc(chunks, c['script'], buf) if kind == 'r' else (GSrc(chunks, buf) if kind == 'g' else LSrc(chunks, buf))
    expected = c.get('expected')
    w = fi.InspectWrapper(src, expected_format=expected, allowed_formats=c.get('allowed'))
    reorder(fi, w, c.get('oseed', 0))
    order, recs = instrument(w, faults, src, c.get('hfaults', ()))
    out = [state_str(fi, w, order, recs)]
    viol = []
    closed = False
    transient = set(c.get('transient', []))
    # reference for the expected format: a FRESH real inspector fed, alone and outside the wrapper, the chunks the
    # source hands out (finished only when the wrapper legitimately finishes: close() / StopIteration of the source)
    ref = None
    if expected in recs:
        try: ref = fi.ALL_FORMATS[expected]()
        except Exception: ref = None
    whole = data if kind == 'f' else b''.join(chunks)
    delivered = bytearray(); clean = True
    received = []; snaps = []        # the chunk OBJECTS the reader got, and what they contained when it got them
    first_exc = None
    last = {'exc': None}
    def calls():
        for k, op in enumerate(c['ops']):
            if op == 2:                      # for chunk in wrapper: ...   (until the first exception)
                it = iter(w)
                for _ in range(100000):
                    yield k, 0, (lambda: next(it))
                    if last['exc'] is not None: break
            else:
                yield k, op, None
    for k, op, fn in calls():
        pulls0, nlog0 = src.pulls, len(src.log)
        exc = None; chunk = None
        if kind == 'f': src.force_empty = k in transient
        try:
            if fn is not None: chunk = fn()
            elif op == 1: w.close(); closed = True
            elif op == 0: chunk = next(w)
            else: chunk = w.read(-1 if op == 9 else op - 10)
        except Exception as e:
            exc = e
        last['exc'] = exc
        if fn is not None and type(exc).__name__ == 'StopIteration' and getattr(exc, '_c06_src', None) is None:
            viol.append('op %d: the iteration over the wrapper ended although the source did not signal StopIteration' % k)
        if op == 1: res = 'N' if exc is None else 'E' + canon(exc)
        elif exc is not None: res = 'E' + canon(exc)
        else: res = 'B%d.%d' % (len(chunk), ck(chunk))
        if kind == 'f': pos = src.pos
        elif kind == 'r': pos = len(src.items)
        else: pos = 0 if (kind == 'g' and closed) else len(chunks) - len(src.log)
        out.append('%s@%d|%s' % (res, pos, state_str(fi, w, order, recs)))
        # ---------------- the property, on this call
        if op == 1:
            if exc is not None: viol.append('op %d: close() raised %s%s' % (k, canon(exc), (' (raised inside the %s inspector)' % exc._c06_src) if getattr(exc, '_c06_src', None) else ''))
            if ref is not None:
                try: ref.finish()
                except Exception: ref = None
            continue
        # after k reads without exception the reader holds exactly the first bytes of the source
        if exc is not None and first_exc is None: first_exc = (k, canon(exc))
        if exc is None:
            received.append(chunk); snaps.append(bytes(chunk))
            # a chunk handed to the reader stays what it was (unless the SOURCE re-uses its buffer: kinds reuse / mv)
            if buf == 'ba' and any(bytes(received[j]) != snaps[j] for j in range(len(received))):
                viol.append('op %d: a chunk already delivered to the reader was modified afterwards' % k)
        if exc is not None:
            if getattr(exc, '_c06_src', None) != '<source>': clean = False      # the source's own exceptions lose nothing
        elif clean:
            delivered += snaps[-1]
            if bytes(delivered) != whole[:len(delivered)]:
                viol.append('op %d: the bytes delivered so far are not the first %d bytes of the source' % (k, len(delivered)))
        if src.pulls - pulls0 != 1:
            viol.append('op %d: the wrapper read its source %d times in one call' % (k, src.pulls - pulls0))
        got = len(src.log) > nlog0
        exp_calls = [x for x in (recs[expected]['calls'] if expected in recs else []) if x['call'] == src.pulls]
        exp_fail = exp_calls[-1] if exp_calls and (exp_calls[-1]['exc'] is not None or (exp_calls[-1]['c'] and not exp_calls[-1]['m'])) else None
        if exc is None:
            if not got or chunk != src.log[-1]:
                viol.append('op %d: returned bytes differ from what the source handed out' % k)
            if exp_fail is not None:
                viol.append('op %d: expected-format inspector %s but the chunk was delivered' % (k, 'failed' if exp_fail['exc'] is not None else 'is complete without matching'))
        else:
            tag = getattr(exc, '_c06_src', None)
            if tag == '<source>':
                pass
            elif tag is not None:
                if tag != expected:
                    viol.append('op %d: %s raised inside the %s inspector (expected_format=%r) reached the reader' % (k, canon(exc), tag, expected))
                elif exp_fail is None or exp_fail['exc'] is not exc:
                    viol.append('op %d: exception of the expected inspector surfaced at another call' % k)
            elif exp_fail is not None and exp_fail['exc'] is not None:
                viol.append('op %d: the expected inspector failed with %s but the reader got another exception (%s)' % (k, canon(exp_fail['exc']), canon(exc)))
            elif not (type(exc).__name__ == 'ImageFormatError' and exp_fail is not None):
                viol.append('op %d: %s reached the reader without a failure / mismatch of the expected inspector' % (k, canon(exc)))
        # the expected inspector's failure / mismatch must be its OWN: the same as when it is fed these chunks alone
        if ref is not None:
            if got:
                r_exc = None; r_cm = False
                try: ref.eat_chunk(src.log[-1])
                except Exception as e: r_exc = e
                try: r_cm = bool(ref.complete and not ref.format_match)
                except Exception: ref = None
                w_call = exp_calls[-1] if exp_calls else None
                if w_call is not None and getattr(w_call['exc'], '_c06_injected', False):
                    ref = None          # an injected fault: the two inspectors are no longer in the same state
                elif ref is not None:
                    r_desc = ('raises %s' % canon(r_exc)) if r_exc is not None else ('is complete without matching' if r_cm else 'neither fails nor is complete without matching')
                    if w_call is None:
                        if (r_exc is not None or r_cm) and exc is None:
                            viol.append('op %d: a fresh %s inspector fed the same chunks alone %s, but the chunk was delivered' % (k, expected, r_desc))
                    else:
                        w_cls = canon(w_call['exc']) if w_call['exc'] is not None else None
                        r_cls = canon(r_exc) if r_exc is not None else None
                        w_cm = bool(w_call['c'] and not w_call['m']) if w_cls is None else False
                        if w_cls != r_cls or (w_cls is None and w_cm != r_cm):
                            w_desc = ('raised %s' % w_cls) if w_cls else ('was complete without matching' if w_cm else 'did not fail')
                            viol.append('op %d: inside the wrapper the expected %s inspector %s (the reader got %s), but a fresh %s inspector fed the same chunks alone %s'
                                        % (k, expected, w_desc, ('E' + canon(exc)) if exc is not None else 'the chunk', expected, r_desc))
            elif exc is not None and type(exc).__name__ == 'StopIteration' and getattr(exc, '_c06_src', None) == '<source>':
                try: ref.finish()
                except Exception: ref = None
    # the reader joins what it kept only now
    if buf in ('bytes', 'ba') and not any(o == 1 for o in c['ops']):
        got_all = b''.join(bytes(x) for x in received)
        if got_all != b''.join(snaps) or (clean and got_all != whole[:len(got_all)]):
            viol.append("b''.join(chunks received) differs from the source content")
    # fault-free run with an expected format: the stream is cut at the chunk the VERIFIED inspector model says
    # (coq/Model/Insp_*.v through the Insp_x driver; the real inspector may be the thing that is broken)
    ref_ = c.get('ref')
    if ref_ is not None:
        want = None if ref_['abort'] is None else (ref_['abort'], ref_['exn'])
        if first_exc != want:
            viol.append('expected_format=%r: the inspector model %s, but the reader %s' % (
                expected, 'never fails / mismatches on these chunks' if want is None else 'first fails (%s) at chunk %d' % (want[1], want[0]),
                'got every chunk' if first_exc is None else 'got %s at read %d' % (first_exc[1], first_exc[0])))
    # a failed (non-expected) inspector is never fed again
    for name, st in recs.items():
        if name == expected: continue
        for j, x in enumerate(st['calls']):
            if x['exc'] is not None and j != len(st['calls']) - 1:
                viol.append('%s inspector was fed again after its eat_chunk raised (call %d of %d)' % (name, j, len(st['calls'])))
                break
    unmod = any(st['unmodelled'] for st in recs.values())
    _CACHE[_key(c)] = ([i.NAME for i in order], [recs[i.NAME]['events'] for i in order], unmod)
    return ';'.join(out) + ' ## ' + ('OK' if not viol else 'VIOL:' + viol[0])

def run_detect(c):
    fi = _fi()
    data = make_data(c['data'])
    faults = {(f[0], f[1]): (f[2], f[3]) for f in c.get('faults', [])}
    src = FSrc(data)
    holder = {}
    orig = fi.InspectWrapper
    class IW(orig):
        def __init__(self, source, *a, **k):
            super().__init__(source, *a, **k)
            holder['w'] = self
            reorder(fi, self, c.get('oseed', 0))
            holder['order'], holder['recs'] = instrument(self, faults, src, c.get('hfaults', ()))
    fi.InspectWrapper = IW
    fi.open = lambda fn, mode='r': src
    viol = []
    try:
        try:
            r = fi.detect_file_format('/nonexistent/c06')
            res = 'None' if r is None else str(r)
        except Exception as e:
            res = 'EXN:' + canon(e)
            if getattr(e, '_c06_src', None) is not None:
                viol.append('detect_file_format: %s raised inside the %s inspector reached the caller' % (canon(e), e._c06_src))
    finally:
        fi.InspectWrapper = orig
        del fi.open
    w, order, recs = holder['w'], holder['order'], holder['recs']
    for name, st in recs.items():
        for j, x in enumerate(st['calls']):
            if x['exc'] is not None and j != len(st['calls']) - 1:
                viol.append('%s inspector was fed again after its eat_chunk raised' % name); break
    names = list(fi.ALL_FORMATS)
    o2 = sorted(order, key=lambda i: names.index(i.NAME))
    unmod = any(st['unmodelled'] for st in recs.values())
    _CACHE[_key(c)] = ([i.NAME for i in o2], [recs[i.NAME]['events'] for i in o2], unmod)
    return '%s@%d|%s|%s ## %s' % (res, src.pos, src.closed, state_str(fi, w, order, recs, by_key=True), 'OK' if not viol else 'VIOL:' + viol[0])

# ---------------------------------------------------------------- reference: the concrete inspector MODEL (C01/C03)
_INSP = {'tried': False, 'exe': None}
def insp_driver():
    if not _INSP['tried']:
        _INSP['tried'] = True
        try:
            import runner
            class P: ID = 'C06insp'; EXTRACT = 'Extract/Insp_x.v'
            with runner.Lock('coq.lock'):
                runner.ensure_makefile()
                exe, err = runner.build_driver(P)
            if err: print('C06: inspector-model driver not available (%s); decision-offset cases skipped' % err[:200], flush=True)
            _INSP['exe'] = exe
        except Exception as e:
            print('C06: inspector-model driver not available (%r); decision-offset cases skipped' % e, flush=True)
    return _INSP['exe']

def model_abort(cases):
    """for each (fmt, data, sizes): (index of the first chunk at which the model inspector raises / is complete without
    matching, exception class) or (None, None); None when the driver is missing"""
    exe = insp_driver()
    if exe is None: return None
    import runner
    outs = runner.run_model(exe, [' '.join(runner.enc_arg(a) for a in ['insp', f, d, list(sz)]) for f, d, sz in cases])
    res = []
    for o in outs:
        recs = o.split('|#')[0].split('|')[:-1]          # the last record is the one after finish()
        r = (None, None)
        for j, rec in enumerate(recs):
            f = rec.split(';')
            if len(f) < 3: r = 'bad'; break
            if f[0] != '-': r = (j, f[0] if f[0] in EXN_NAMES else 'OtherError'); break
            if f[2] == 'True' and f[1] == 'False': r = (j, 'ImageFormatError'); break
        res.append(r)
    return res

DECISION = {'vmdk': [64, 512], 'qcow2': [512], 'qed': [512], 'vhd': [512], 'vdi': [512], 'gpt': [512], 'luks': [592],
            'iso': [32 * 1024 + 2 * 1024], 'vhdx': [256 * 1024]}
def decision_cases(rng, tier):
    """fault-free reads with an expected format whose running totals land on the inspector's decision offsets and +-1"""
    out = []
    for fmt, offs in DECISION.items():
        for D in offs:
            tmpls = ['zeros', 'rand', fmt, 'qcow2' if fmt != 'qcow2' else 'vhd']
            if D >= 200000: tmpls = ['zeros', fmt] if tier == 'quick' else tmpls
            for t in tmpls:
                for delta in (-1, 0, 1):
                    for shape in range(3 if D < 200000 else 1):
                        first = D + delta
                        if shape == 0: sizes, n = [first], first                       # the stream ends exactly there
                        elif shape == 1: sizes, n = [first, 1, 64, 64], first + 129
                        else:
                            a = rng.randrange(1, first)
                            sizes, n = [a, first - a, 64], first + 64
                        spec = {'t': t, 'n': n, 'seed': 2 * rng.randrange(20) + (1 if t == 'rand' else 0)}
                        out.append({'op': 'sess', 'kind': 'f', 'data': spec, 'expected': fmt, 'allowed': None, 'faults': [], 'oseed': rng.randrange(1000),
                                    'lens': [], 'ops': [10 + x for x in sizes], 'buf': 'bytes', '_sizes': sizes})
    refs = model_abort([(c['expected'], make_data(c['data']), c['_sizes']) for c in out])
    if refs is None: return []
    res = []
    for c, r in zip(out, refs):
        del c['_sizes']
        if r == 'bad': continue
        c['ref'] = {'abort': r[0], 'exn': r[1]}
        res.append(c)
    return res

def impl(c):
    return run_detect(c) if c['op'] == 'detect' else run_session(c)

def encode(c):
    k = _key(c)
    if k not in _CACHE: impl(c)
    order, scripts, unmod = _CACHE[k]
    if unmod: return None
    data = make_data(c['data'])
    if c['op'] == 'detect':
        return ['detect', ''.join(',' + n for n in order), data] + [list(s) for s in scripts]
    exp = c.get('expected')
    al = c.get('allowed')
    return ['sess', c['kind'], 'N' if exp is None else 'S' + exp, 'N' if al is None else 'L' + ''.join(',' + n for n in al),
            ''.join(',' + n for n in order), data, list(c.get('lens') or []),
            [10 if (k in set(c.get('transient', [])) and op >= 9) else op for k, op in enumerate(c['ops'])],
            ([exn_code(x) if x else 0 for x in c.get('sfaults', [])] if c['kind'] == 'f' else list(c.get('script', [])))] + [list(s) for s in scripts]

def project(c, io_):
    return io_.split(' ## ')[0]

def oracle(c, io_):
    if ' ## ' not in io_: return None if not io_.startswith('HARNESS-ERROR') else io_
    f = io_.split(' ## ', 1)[1]
    return None if f == 'OK' else f[5:]

def classify(c, io_):
    body = io_.split(' ## ')[0]
    tags = [c['op'] + ':' + c.get('kind', 'f')]
    tags.append('faults%d' % min(len(c.get('faults', [])), 3))
    if c.get('hfaults'): tags.append('hook')
    if c.get('expected') is not None: tags.append('exp')
    if c.get('allowed'): tags.append('allow')
    if ';E' in body or body.startswith('EXN'): tags.append('raised')
    return ' '.join(tags)

def trivial(c, io_):
    return False

# ---------------------------------------------------------------- generators

NAMES = ['raw', 'qcow2', 'vhd', 'vhdx', 'vmdk', 'vdi', 'qed', 'iso', 'gpt', 'luks']
SMALL_T = ['zeros', 'rand', 'text', 'qcow2', 'qed', 'vhd', 'vhdx', 'vmdk', 'vmdkbadver', 'vmdkbadloc', 'vdi', 'gpt', 'fat', 'luks',
           'qcow2+gpt', 'vhd+vdi', 'luks+gpt']

def names_now():
    try: return list(_fi().ALL_FORMATS)
    except Exception: return NAMES

def stream(rng, big=None):
    """(data spec, chunk size): sizes such that decisions fall on chunks 0..8"""
    r = rng.random() if big is None else (0.999 if big else 0.0)
    if r < 0.93:
        return {'t': rng.choice(SMALL_T), 'n': rng.choice([0, 1, 100, 511, 512, 513, 600, 1024, 1500, 2048, 3000]), 'seed': rng.randrange(50)}, rng.choice([64, 100, 128, 150, 200, 256, 300, 512, 513, 700])
    if r < 0.99:
        return {'t': rng.choice(['iso', 'zeros', 'rand', 'iso+gpt', 'qcow2']), 'n': rng.choice([34 * 1024, 36 * 1024, 40000]), 'seed': rng.randrange(50)}, rng.choice([4096, 8192, 10000])
    return {'t': rng.choice(['vhdx', 'vhdxreg', 'zeros']), 'n': 300 * 1024, 'seed': rng.randrange(4) * 2}, 65536

def session(rng, spec, cs, kind, expected, allowed, faults):
    n = spec['n']
    nchunks = (n + cs - 1) // cs
    c = {'op': 'sess', 'kind': kind, 'data': spec, 'expected': expected, 'allowed': allowed, 'faults': faults, 'oseed': rng.randrange(1000),
         'buf': rng.choice(['bytes', 'bytes', 'bytes', 'ba', 'reuse', 'mv'])}
    style = rng.random()
    if kind == 'f':
        if style < 0.6:
            ops = [10 + cs] * (nchunks + rng.choice([0, 1, 2]))
        elif style < 0.8:
            ops = [10 + rng.choice([0, 1, cs, cs // 2 + 1, 2 * cs]) for _ in range(nchunks + 2)]
        elif style < 0.9:
            ops = [10 + cs] * min(nchunks, rng.randint(1, 4)) + [9, 10 + cs]
        else:
            ops = [10 + cs] * min(nchunks + 1, rng.randint(0, 6))
        q = rng.random()
        if q < 0.6: ops.append(1)
        elif q < 0.75: ops.insert(rng.randrange(len(ops) + 1), 1); ops.append(10 + cs)
        elif q < 0.8: ops += [1, 1]
        c['lens'] = []
    else:
        lens = []
        p = 0
        while p < n:
            l = cs if style < 0.6 else rng.choice([0, 1, cs, cs // 2 + 1, 2 * cs])
            lens.append(l); p += l
        if style >= 0.9 and lens: lens.insert(rng.randrange(len(lens)), 0)
        c['lens'] = lens
        ops = [0] * (len(lens) + rng.choice([0, 1, 1, 2]))
        q = rng.random()
        if q < 0.4: ops.append(1)
        elif q < 0.55: ops.insert(rng.randrange(len(ops) + 1), 1); ops.append(0)
    c['ops'] = ops or [1]
    return c

def rand_allowed(rng, names):
    r = rng.random()
    if r < 0.55: return None
    if r < 0.62: return []
    k = rng.randint(1, len(names))
    al = rng.sample(names, k)
    if rng.random() < 0.15: al.append('bogus')
    return al

def rand_fault(rng, names, maxidx=6):
    return [rng.choice(names), rng.randrange(maxidx), rng.choice(FAULT_CLASSES), rng.choice(['before', 'after'])]

def gen_cases(rng, tier):
    names = names_now()
    exps = names + [None]
    kinds = ['f', 'i', 'g']
    # boundary: empty source, no faults
    for kind in kinds:
        yield session(rng, {'t': 'zeros', 'n': 0, 'seed': 0}, 64, kind, None, None, [])
    # decision offsets, against the verified inspector models
    yield from decision_cases(rng, tier)
    # every way a source can hand its chunks out x a stream of the expected format / another one / no expectation
    for rep in range(1 if tier == 'quick' else 6):
        for buf in ('bytes', 'ba', 'reuse', 'mv'):
            for kind in kinds:
                for e, t in (('qcow2', 'qcow2'), ('qcow2', 'zeros'), (None, 'qcow2'), ('vmdk', 'vmdk'), ('luks', 'luks'), ('gpt', 'gpt'), ('vhd', 'rand')):
                    spec = {'t': t, 'n': rng.choice([1024, 1500, 2048]), 'seed': rng.randrange(50)}
                    c = session(rng, spec, rng.choice([100, 128, 200, 256]), kind, e, None, [])
                    c['buf'] = buf
                    yield c
    # SOURCE faults: the source's own read()/next() raises once (any position, the caller retries), an iterator that signals
    # StopIteration and later has more data, iterating the wrapper again after StopIteration
    for rep in range(1 if tier == 'quick' else 8):
        for e in exps:
            t = rng.choice(SMALL_T if e is None else [e if e in SMALL_T else 'zeros', 'zeros', 'rand', 'qcow2+gpt'])
            cs = rng.choice([128, 200, 256, 300]); nch = rng.choice([4, 5, 6])
            spec = {'t': t, 'n': cs * nch - rng.choice([0, 1, 17]), 'seed': rng.randrange(50)}
            base = {'op': 'sess', 'data': spec, 'expected': e, 'allowed': None, 'faults': [], 'lens': []}
            for p in range(nch + 1):
                cls = rng.choice(SRC_FAULTS)
                yield dict(base, kind='f', oseed=rng.randrange(1000), buf='bytes', sfaults=[None] * p + [cls], ops=[10 + cs] * (nch + 2) + [1])
                script = [0] * p + [exn_code(cls)] + [0] * (nch - p)
                yield dict(base, kind='r', oseed=rng.randrange(1000), buf='bytes', lens=[cs] * nch, script=script,
                           ops=rng.choice([[0] * (nch + 3), [2, 2], [2, 2, 1], [0, 2, 2]]))
            a = rng.randrange(1, nch)
            for ops in ([2, 2], [2, 2, 2], [0] * (nch + 3), [2, 0, 0, 2]):          # resumable: StopIteration after chunk a, then the rest
                yield dict(base, kind='r', oseed=rng.randrange(1000), buf=rng.choice(['bytes', 'ba']), lens=[cs] * nch,
                           script=[0] * a + [1000] + [0] * (nch - a), ops=ops)
            yield dict(base, kind='r', oseed=rng.randrange(1000), buf='bytes', lens=[cs] * nch, script=[0] * nch, ops=[2, 2, 1, 2])
            for kind in ('i', 'g'):                                                   # plain iterators, iterated twice
                yield dict(base, kind=kind, oseed=rng.randrange(1000), buf='bytes', lens=[cs] * nch, ops=[2, 2])
    # faults inside the region_complete / post_process hooks of an inspector (by call index / region name); contents with
    # regions that complete late or only at EOF (VMDK footer flag, VHDX region tables) among them
    HT = ['vmdkfooter', 'vmdk', 'qcow2', 'luks', 'gpt', 'zeros', 'rand', 'vmdkfooter+gpt']
    for rep in range(1 if tier == 'quick' else 8):
        for e in exps:
            for kind in kinds:
                for t in (HT if rep or kind != 'f' else HT[:4]):
                    big = rng.random() < 0.04
                    spec = {'t': 'vhdxreg', 'n': 300 * 1024, 'seed': 0} if big else {'t': t, 'n': rng.choice([1700, 2200, 3000]), 'seed': rng.randrange(50)}
                    victims = ['vhdx'] if big else (['vmdk'] if 'vmdk' in t and rng.random() < 0.7 else [rng.choice(names)])
                    hf = []
                    for v in victims:
                        r = rng.random()
                        if v == 'vmdk' and 'vmdkfooter' in t and r < 0.6: hf.append([v, 'rc', 'footer', rng.choice(FAULT_CLASSES)])
                        elif r < 0.4: hf.append([v, 'rc', rng.choice(['footer', 'header', 'descriptor', 'mbr', 'metadata', 0, 1]), rng.choice(FAULT_CLASSES)])
                        elif r < 0.5: hf += [[v, 'rc', 'footer', rng.choice(FAULT_CLASSES)], [v, 'pp', rng.randrange(8), rng.choice(FAULT_CLASSES)]]
                        else: hf.append([v, 'pp', rng.randrange(10), rng.choice(FAULT_CLASSES)])
                    c = session(rng, spec, 65536 if big else rng.choice([200, 256, 300, 512, 700]), kind, e, None, [])
                    c['hfaults'] = hf
                    if kind != 'f' and c['ops'][-1] != 1 and rng.random() < 0.5: c['ops'].append(1)
                    yield c
    # an empty read in the MIDDLE of the stream (read(0), a transient empty read of the source, an empty chunk of an
    # iterator) followed by more data: with every expectation, no faults (then with a fault elsewhere)
    for rep in range(2 if tier == 'quick' else 12):
        for e in exps:
            for kind in kinds:
                t = rng.choice(SMALL_T); cs = rng.choice([100, 128, 200, 256, 300])
                spec = {'t': t, 'n': rng.choice([1024, 1500, 2048]), 'seed': rng.randrange(50)}
                nch = (spec['n'] + cs - 1) // cs
                at = rng.randrange(1, max(2, min(nch, 4)))
                c = {'op': 'sess', 'kind': kind, 'data': spec, 'expected': e, 'allowed': None, 'oseed': rng.randrange(1000),
                     'faults': [] if rep % 2 == 0 else [rand_fault(rng, [n for n in names if n != e] or names)]}
                if kind == 'f':
                    ops = [10 + cs] * at + [10 + cs if rep % 3 == 1 else 10] + [10 + cs] * (nch - at + 1)
                    if rep % 3 == 1: c['transient'] = [at]
                    c['lens'] = []
                    if rng.random() < 0.5: ops.append(1)
                else:
                    lens = [cs] * at + [0] + [cs] * (nch - at)
                    c['lens'] = lens; ops = [0] * (len(lens) + 1)
                c['ops'] = ops
                yield c
    # fault-free runs: every template x every expectation
    reps = 1 if tier == 'quick' else 6
    for _ in range(reps):
        for t in SMALL_T:
            for e in exps:
                spec = {'t': t, 'n': rng.choice([600, 1024, 2048]), 'seed': rng.randrange(50)}
                yield session(rng, spec, rng.choice([100, 128, 200, 256, 300]), rng.choice(kinds), e, None, [])
    # single faults, exhaustively: inspector x chunk index 0..5 x expected_format
    k = 0
    for rep in range(1 if tier == 'quick' else 9):
        for n in names:
            for idx in range(6):
                for e in exps:
                    spec, cs = stream(rng, big=False)
                    if spec['n'] < (idx + 1) * cs: spec['n'] = (idx + 2) * cs + rng.choice([0, 1, 17])
                    kind = kinds[(k + rep) % 3]; k += 1
                    yield session(rng, spec, cs, kind, e, None, [[n, idx, FAULT_CLASSES[(k + rep) % len(FAULT_CLASSES)], ['before', 'after'][(k // 3) % 2]]])
    # multiple faults, allow-lists, larger streams
    for _ in range(700 if tier == 'quick' else 50000):
        spec, cs = stream(rng) if tier != 'quick' or rng.random() < 0.5 else stream(rng, big=False)
        if tier == 'quick' and spec['n'] > 100000 and rng.random() < 0.7: spec, cs = stream(rng, big=False)
        al = rand_allowed(rng, names)
        nf = rng.choice([0, 1, 2, 2, 3, 5, 10])
        faults = []
        seen = set()
        for _ in range(nf):
            f = rand_fault(rng, names)
            if (f[0], f[1]) not in seen: seen.add((f[0], f[1])); faults.append(f)
        e = rng.choice(exps + ['bogus', ''] if rng.random() < 0.1 else exps)
        yield session(rng, spec, cs, rng.choice(kinds), e, al, faults)
    # detect_file_format
    for _ in range(120 if tier == 'quick' else 3000):
        r = rng.random()
        if r < 0.7: spec = {'t': rng.choice(SMALL_T), 'n': rng.choice([0, 1, 512, 4095, 4096, 4097, 9000, 20000]), 'seed': rng.randrange(50)}
        elif r < 0.92: spec = {'t': rng.choice(['iso', 'iso+gpt', 'zeros', 'rand']), 'n': rng.choice([34816, 40000]), 'seed': rng.randrange(50)}
        else: spec = {'t': rng.choice(['vhdx', 'vhdxreg', 'zeros']), 'n': 270000, 'seed': rng.randrange(4) * 2}
        faults = []
        for _ in range(rng.choice([0, 0, 1, 2])):
            f = rand_fault(rng, names, 4)
            if (f[0], f[1]) not in {(x[0], x[1]) for x in faults}: faults.append(f)
        yield {'op': 'detect', 'data': spec, 'faults': faults, 'oseed': rng.randrange(1000)}

def search(rng, budget):
    n = 0
    while n < budget:
        for c in gen_cases(rng, 'quick'):
            n += 1
            yield c

RULE = ('sessions over the real InspectWrapper and the ten real inspectors: 17 content templates (zeros, random, text, one or two format '
        'signatures, malformed VMDK headers) x file-like / iterator / generator sources x read-size sequences (fixed, mixed, 0, -1, past EOF, '
        'close in the middle, double close) x expected_format in names + None (+ bogus) x allowed_formats subsets x injected eat_chunk '
        'exceptions: single faults exhaustively over inspector x chunk 0..5 x expectation, multi-fault sampled; detect_file_format runs; '
        'distinct = distinct case JSON')
TRUSTED = ['the instrumentation in tools/props/C06.py (instance-level wrappers around eat_chunk/finish, logging sources); the scripted '
           'inspectors of coq/Model/C06.v replay recorded outcomes, so the concrete inspectors are NOT part of this property (see C01/C03)',
           'tools/gen/gen_C06.py (AST shape of _process_chunk -> gen_shape, textual comparison) and tools/gen/gen_C06_code.py: statement-level '
           'translation of every InspectWrapper method and detect_file_format, proved equal to the model (Proofs/C06_Equiv.v)']
ASSUMPTIONS = ['inspector faults are Exception subclasses (a BaseException such as KeyboardInterrupt is not caught by the wrapper, by design)',
               'complete / format_match are total, effect-free queries (they are on the pinned tree after fix D2); a run in which one raises is '
               'not replayed by the model (counted as not modelled)',
               'file-like sources are used through read(size), iterators through next(); bytes objects are immutable so an inspector cannot '
               'alter the chunk the reader receives']
LEVEL_TEXT = ('Generic wrapper model over abstract inspectors (arbitrary eat: any fault, any number, any placement); theorems by induction over '
              'arbitrary call sequences: identity of delivered bytes, provenance of every surfaced exception, errored-never-fed-again, exact '
              'abort point with an expected format, finish on StopIteration/close; shape of _process_chunk and ALL_FORMATS regenerated from the source.')
LEVEL_NOTE = ('Trusted: Coq kernel; translator (AST shape checks); the harness instrumentation. Closed under the global context (no axioms).')
