"""C11 — address / port / ICMP validators (oslo_utils/netutils.py)

Correspondence: the same generated cases through the real functions and through the extracted model
(coq/Model/C11.v).  netaddr.valid_ipv4 in INET_ATON mode, socket.inet_aton and netaddr.IPNetwork are modelled in
Coq as well (no oracle argument is passed to the model any more); each library model is also compared with the
library call itself (ops aton, na_aton, net, net6, pton4, pton6), and the library contract
(returns | raises ValueError / TypeError / AddrFormatError) is still tested on every generated string.
Oracle: model-free — `ipaddress`, `socket.inet_pton` / `inet_aton`, and direct string tests written from the
property text."""
import sys, os, re, socket, ipaddress, string
import gen_C11

ID = 'C11'
GEN = [('Gen/C11_Netutils.v', gen_C11.generate), ('Gen/C11_Code.v', gen_C11.generate_code)]
EQUIV_FILES = ['Proofs/C11.v']
EXTRACT = 'Extract/C11_x.v'
LEVEL_TEXT = ('Unbounded theorems (all strings): strict IPv4 accepted <-> canonical dotted quad; IPv6 accepted <-> RFC 4291 text optionally followed by % and a scope of 1..15 characters '
              'without % or / (agrees with ipaddress); MAC <-> six hex pairs joined by colons (derived from the regenerated regex through a proved-sound-and-complete reading of the matcher); '
              'port / ICMP type / ICMP code <-> int() value in range (None for the code only) on the statement-level translations of the source; inet_aton and netaddr.IPNetwork(text) are '
              'modelled in Coq with declarative grammars and iff theorems, so is_valid_ip, non-strict is_valid_ipv4, is_valid_cidr and is_valid_ipv6_cidr are characterised for ALL strings '
              'and every validator is proved total (returns a bool for every str) without any oracle premise.')
LEVEL_NOTE = ('oslo logic + Coq models of every library function the validators reach: inet_pton(AF_INET/AF_INET6), inet_aton (glibc 2.36), '
              'CPython str->C string conversion, netaddr.valid_ipv4 (both modes) / valid_ipv6 / IPNetwork(text[, version=6]) (netaddr 1.3.0), int(), '
              'str.lower(), re; no oracle argument is left — the library models are tied by correspondence (ops pton4/pton6/aton/na_aton/net/net6)')
TRUSTED = ['glibc inet_pton / inet_aton (through the socket module), netaddr.valid_ipv4 / valid_ipv6 / IPNetwork are MODELLED in Coq (Model/C11.v) '
           'and tied by correspondence on every generated string: the ops pton4, pton6, aton, na_aton, net, net6 compare the model with the library '
           'call itself (outcome and exception class), independently of the validators built on them',
           'the logic layer is also proved against an arbitrary library outcome under an explicit contract (C11_ip_logic, C11_cidr_logic, '
           'C11_validators_total_oracles); the harness tests that contract on every generated string',
           'the value of an IPv6 netmask text is the one computed by the model function pton6_value (no declarative grammar for the VALUE of an '
           'IPv6 text, only for its acceptance)',
           'CPython int(), str.lower(), re modelled in Base/PyInt.v, Base/Str.v (generated Unicode tables), Base/Regex.v; the MAC regex AST is '
           'regenerated from the source pattern through CPython\'s own re parser']
ASSUMPTIONS = ['int() digit-count limit (4300) is not modelled: for longer digit strings CPython raises ValueError (-> False) and the model '
               'computes an out-of-range integer (-> False); same answer',
               'arguments other than str are in scope only for the port / ICMP validators (str, int, bool, None); float arguments are not '
               'modelled (int(float("inf")) raises OverflowError, which _is_int_in_range does not catch)',
               'str.lower() final-sigma rule is not modelled (sigma never lowers into the MAC alphabet)']
RULE = ('grammar generators of the quantifier text: dotted quads with 1..5 parts, octets -1..300, leading zeros, hex/octal spellings; IPv6 with '
        '1..9 groups, every "::" placement, embedded IPv4, scope ids of length 0..17; CIDRs with prefix -1..129, empty, doubled or extra slashes, '
        'netmask forms, lenient spellings; MACs with 5..7 groups and every separator, trailing newline; integers around each range end as str, '
        'int, bool, None; single-character mutations of valid values; printable / NUL / surrogate / non-ASCII strings; exhaustive short strings '
        'over small alphabets; every string also through the other validators; distinct = distinct case JSON')

STR_OPS = ['ipv4', 'ipv4_ns', 'ipv6', 'ip', 'cidr', 'cidr6', 'mac', 'pton4', 'pton6', 'aton', 'na_aton', 'net', 'net6']
LIB_OPS = ('pton4', 'pton6', 'aton', 'na_aton', 'net', 'net6')      # direct ties of the library models
INT_OPS = {'port': (0, 65535), 'icmp_type': (0, 255), 'icmp_code': (0, 255)}

def _nu():
    from oslo_utils import netutils
    return netutils

def _netaddr():
    import netaddr
    return netaddr

# ------------------------------------------------------------------ canonical outcomes

def _exn(e):
    na = _netaddr()
    if isinstance(e, ValueError): return 'EXN:ValueError'          # incl. UnicodeEncodeError
    if isinstance(e, na.AddrFormatError): return 'EXN:AddrFormatError'
    if isinstance(e, TypeError): return 'EXN:TypeError'
    if isinstance(e, OSError): return 'EXN:OSError'
    return 'EXN:' + type(e).__name__

def _truth(f, *a, **kw):
    try:
        return 'True' if f(*a, **kw) else 'False'
    except Exception as e:
        return _exn(e)

def lib_aton(s):
    na = _netaddr()
    return _truth(na.valid_ipv4, s, flags=na.core.INET_ATON)

def lib_net(s):
    na = _netaddr()
    return _truth(lambda: (na.IPNetwork(s), True)[1])

def lib_net6(s):
    na = _netaddr()
    return _truth(lambda: (na.IPNetwork(s, version=6).cidr, True)[1])

CONTRACT_ATON = {'True', 'False', 'EXN:ValueError', 'EXN:AddrFormatError'}            # aton_contract (Model/C11_Spec.v)
CONTRACT_NET = CONTRACT_ATON | {'EXN:TypeError'}                                     # net_contract

def _value(c):
    k = c['kind']
    if k == 'none': return None
    if k == 'bool': return bool(c['v'])
    if k == 'int': return int(c['v'])
    return c['v']

def impl(c):
    nu = _nu(); op = c['op']
    if op in INT_OPS:
        return _truth(getattr(nu, 'is_valid_' + op), _value(c))
    s = c['s']
    if op == 'ipv4': return _truth(nu.is_valid_ipv4, s)
    if op == 'ipv4_ns': return _truth(nu.is_valid_ipv4, s, False)
    if op == 'ipv6': return _truth(nu.is_valid_ipv6, s)
    if op == 'ip': return _truth(nu.is_valid_ip, s)
    if op == 'cidr': return _truth(nu.is_valid_cidr, s)
    if op == 'cidr6': return _truth(nu.is_valid_ipv6_cidr, s)
    if op == 'mac': return _truth(nu.is_valid_mac, s)
    if op == 'pton4': return _truth(lambda: (socket.inet_pton(socket.AF_INET, s), True)[1])
    if op == 'pton6': return _truth(lambda: (socket.inet_pton(socket.AF_INET6, s), True)[1])
    if op == 'aton': return _truth(lambda: (socket.inet_aton(s), True)[1])
    if op == 'na_aton': return lib_aton(s)
    if op == 'net': return lib_net(s)
    if op == 'net6': return lib_net6(s)
    raise KeyError(op)

def encode(c):
    op = c['op']
    if op in INT_OPS:
        k = c['kind']
        if k == 'none': return [op, 'none', '']
        if k == 'bool': return [op, 'bool', 'True' if c['v'] else 'False']
        if k == 'int': return [op, 'int', str(int(c['v']))]
        return [op, 'str', c['v']]
    s = c['s']
    # the former oracle arguments are now computed by the model itself (Model/C11.v sections 4, 5)
    if op in ('ipv4_ns', 'ip', 'cidr', 'cidr6'): return [op + '_m', s]
    return [op, s]

# ------------------------------------------------------------------ model-free references

def ref_ipv4(s):
    try: ipaddress.IPv4Address(s); return True
    except ValueError: return False

def ref_ipv6_noscope(s):
    if '%' in s: return False
    try: ipaddress.IPv6Address(s); return True
    except ValueError: return False

SCOPE_MAX = 15     # IFNAMSIZ - 1; "over-long or empty scope ids" are rejected
def ref_ipv6(s):
    try: a = ipaddress.IPv6Address(s)
    except ValueError: return False
    sc = a.scope_id
    return sc is None or 1 <= len(sc) <= SCOPE_MAX

def sock_ok(fam, s):
    """socket.inet_pton / inet_aton: True, False, or None when the call does not define an answer (argument conversion failed)"""
    try:
        if fam == 'aton': socket.inet_aton(s)
        else: socket.inet_pton(fam, s)
        return True
    except OSError: return False
    except ValueError: return None

HEX = set('0123456789abcdefABCDEF')
def ref_mac(s):
    return len(s) == 17 and all((ch == ':') if i % 3 == 2 else (ch in HEX) for i, ch in enumerate(s))

DEC = re.compile(r'[+-]?[0-9]+\Z', re.A)
def _any_digit(s):
    return any(ch.isdigit() or ch.isdecimal() for ch in s)

def _prefix_demand(P, width):
    """what the property says about a prefix text P after a valid address: True / False / None (no demand)"""
    if P == '': return False
    if re.fullmatch(r'[0-9]+', P, re.A): return int(P) <= width
    if re.fullmatch(r'-[0-9]+', P, re.A) and int(P) != 0: return False
    return None

def oracle(c, out):
    op = c['op']
    if out.startswith('EXN:') and op not in LIB_OPS:
        return '%s raised %s instead of answering' % (op, out[4:])
    if out.startswith('HARNESS'):
        return out
    got = (out == 'True')
    if op in INT_OPS:
        lo, hi = INT_OPS[op]; k = c['kind']; want = None
        if k == 'int': want = lo <= int(c['v']) <= hi
        elif k == 'none': want = (op == 'icmp_code')
        elif k == 'str':
            v = c['v']
            if DEC.match(v) and len(v) < 4000: want = lo <= int(v) <= hi
            elif not _any_digit(v): want = False
        if want is not None and want != got:
            return '%s(%r) = %s, the property demands %s' % (op, _value(c), got, want)
        return None
    s = c['s']
    def demand(want, why):
        if want is not None and want != got:
            return '%s(%r) = %s but %s' % (op, s, got, why)
    if op in ('ipv4', 'pton4'):
        m = demand(ref_ipv4(s), 'ipaddress.IPv4Address says %s' % ref_ipv4(s))
        if m: return m
        so = sock_ok(socket.AF_INET, s)
        return demand(bool(so), 'socket.inet_pton says %s' % so) if op == 'ipv4' else None
    if op == 'pton6':
        return demand(ref_ipv6_noscope(s), 'ipaddress.IPv6Address says otherwise')
    if op in ('aton', 'na_aton', 'net', 'net6'):
        return None            # library behaviour: tied to its Coq model by the correspondence only
    if op == 'ipv6':
        m = demand(ref_ipv6(s), 'ipaddress.IPv6Address (with a scope id of 1..%d characters) says %s' % (SCOPE_MAX, ref_ipv6(s)))
        if m: return m
        if '%' not in s:
            so = sock_ok(socket.AF_INET6, s)
            return demand(bool(so), 'socket.inet_pton says %s' % so)
        return None
    if op in ('ip', 'ipv4_ns'):
        la = lib_aton(s)
        if la not in CONTRACT_ATON: return 'library contract: netaddr.valid_ipv4(%r, INET_ATON) -> %s' % (s, la)
        if ref_ipv4(s) or (op == 'ip' and ref_ipv6(s)):
            return demand(True, 'it is a well-formed address (ipaddress)')
        if s == '' or (sock_ok('aton', s) is not True and not (op == 'ip' and ref_ipv6(s))):
            return demand(False, 'neither socket.inet_aton nor ipaddress accepts it')
        return None
    if op == 'cidr':
        ln = lib_net(s)
        if ln not in CONTRACT_NET: return 'library contract: netaddr.IPNetwork(%r) -> %s' % (s, ln)
        seg = s.split('/')
        if len(seg) == 1: return demand(False, 'the prefix is missing')
        if len(seg) > 2: return demand(False, 'it has more than one "/"')
        A, P = seg
        if P == '': return demand(False, 'the prefix is empty')
        v4, v6 = ref_ipv4(A), ref_ipv6_noscope(A)
        if not (v4 or v6):
            if '%' in A: return None
            return demand(False, 'the address part is not a well-formed address (ipaddress)')
        d = _prefix_demand(P, 32 if v4 else 128)
        if d is None:
            try: ipaddress.ip_network(s, strict=False); d = True     # netmask / hostmask forms the standard library accepts
            except ValueError: d = None
        return demand(d, 'the standard library reading of the prefix says %s' % d)
    if op == 'cidr6':
        ln = lib_net6(s)
        if ln not in CONTRACT_NET: return 'library contract: netaddr.IPNetwork(%r, version=6).cidr -> %s' % (s, ln)
        seg = s.split('/')
        if len(seg) > 2: return demand(False, 'it has more than one "/"')
        A = seg[0]
        if '%' in A: return None
        if not ref_ipv6_noscope(A): return demand(False, 'the address part is not a well-formed IPv6 address (ipaddress)')
        if len(seg) == 1: return None          # accepted without a prefix: documented by the repository's own unit test
        return demand(_prefix_demand(seg[1], 128), 'the prefix length is %r' % seg[1])
    if op == 'mac':
        return demand(ref_mac(s), 'six hex pairs separated by ":" is %s' % ref_mac(s))
    return None

def zone(c):
    # no open finding: O1 (trailing newline accepted by is_valid_mac) and K11a ('/' inside a scope id) are repaired in
    # /repo (c90b795, f40316e) and replayed from findings/C11-O1.json, findings/C11-K11a.json as `fixed:` entries
    return None

def classify(c, out):
    return '%s:%s' % (c['op'], out)

# ------------------------------------------------------------------ generators

OCT_EDGE = ['0', '1', '9', '10', '99', '100', '199', '200', '249', '250', '254', '255', '256', '260', '299', '300', '-1', '-0',
            '00', '01', '001', '000', '010', '0255', '0000', '1000', '0x1f', '0X1F', '0x0', '017', '0o17', '', ' 1', '1 ', '+1', '١',
            'a', '1e1', '1_0', '１', '25٥', '0b1']
def g_octet(rng):
    r = rng.random()
    if r < 0.6: return str(rng.randint(0, 255))
    if r < 0.7: return str(rng.randint(-1, 300))
    return rng.choice(OCT_EDGE)

def g_v4(rng, valid=False):
    if valid: return '.'.join(str(rng.choice([0, 1, 9, 10, 99, 100, 199, 200, 255, rng.randint(0, 255)])) for _ in range(4))
    n = 4 if rng.random() < 0.7 else rng.randint(1, 5)
    parts = [g_octet(rng) for _ in range(n)]
    sep = '.' if rng.random() < 0.92 else rng.choice(['..', ',', ':', ' .', '. ', '。', ''])
    return sep.join(parts)

ATON_VALS = [0, 1, 7, 8, 9, 10, 63, 64, 127, 254, 255, 256, 257, 65534, 65535, 65536, 16777214, 16777215, 16777216,
             4294967294, 4294967295, 4294967296, 2130706433, 2 ** 63, 2 ** 64 - 1, 2 ** 64, 2 ** 64 + 1, 10 ** 25]
ATON_BAD = ['', '08', '09', '0x', '0X', '0xg', '0x1g', '00x1', '1a', 'a', '-1', '+1', ' 1', '1e1', '١', '0b1', '0o7', '１', '1_0', 'x1', '0x 1', '1L']
def g_cnum(rng, small=False):
    r = rng.random()
    v = rng.choice([0, 1, 8, 10, 127, 255, 256, rng.randint(0, 255)]) if small or r < 0.5 else (rng.choice(ATON_VALS) if r < 0.9 else rng.randint(0, 2 ** 33))
    k = rng.random()
    if k < 0.5: return str(v)
    if k < 0.68: return rng.choice(['0x%x', '0X%X', '0x%X', '0x0%x', '0x000%x']) % v
    if k < 0.86: return rng.choice(['0%o', '00%o', '0000000000000000000000000%o']) % v
    if k < 0.92: return '0' * rng.randint(1, 3) + str(v)           # leading zero on a decimal spelling: octal or junk
    return rng.choice(ATON_BAD)

ATON_TRAIL = ['', '', '', '', ' ', '\t', '\n', '\x0b', '\x0c', '\r', ' x', ' 1.2.3.4', '\tjunk \u00e9', ' \x00', '\x1c', '\x1f', '\x85', '\u00a0', '\u2028', 'x', '.',
              ' .', '\n\n', ' :', ' /8', '\ud800', ' \ud800', ':', '%eth0', '/8']
def g_aton(rng):
    n = rng.choice([1, 2, 3, 4, 4, 4, rng.randint(1, 5)])
    parts = [g_cnum(rng, small=rng.random() < 0.8) for _ in range(n - 1)] + [g_cnum(rng, small=rng.random() < 0.3)]
    s = rng.choice(['.', '.', '.', '.', '.', '.', '.', '.', '..', ',']).join(parts)
    k = rng.random()
    if k < 0.08: s = rng.choice([' ', '\t', '\n', '0x', '.', '+', '-']) + s
    return s + rng.choice(ATON_TRAIL)

HEXD = '0123456789abcdefABCDEF'
LONG_GROUPS = [False]
def g_h16(rng, valid=False):
    r = rng.random()
    if valid or r < 0.8:
        k = 4 if LONG_GROUPS[0] else rng.choice([1, 1, 2, 3, 4, 4])
        return rng.choice(['0' * k, 'f' * k, 'F' * k, ''.join(rng.choice(HEXD) for _ in range(k))])
    return rng.choice(['', '00000', '12345', 'g', 'G1', '0x1', '-1', '+1', ' 1', '1 ', '١', 'fffff', '1.2', '%', 'ffff0', 'Ａ'])

def g_v6(rng, valid=False):
    """IPv6 text: n groups, '::' placement, embedded IPv4"""
    LONG_GROUPS[0] = rng.random() < 0.15          # every group with 4 digits: the longest spellings (39 / 45 characters, + scope)
    r = rng.random()
    emb = rng.random() < 0.3
    tail = [g_v4(rng, valid or rng.random() < 0.7)] if emb else []
    room = 6 if emb else 8
    if valid or r < 0.55:
        if rng.random() < 0.4:
            gs = [g_h16(rng, True) for _ in range(room)] + tail
            s = ':'.join(gs)
        else:
            tot = rng.randint(0, room - 1)
            nl = rng.randint(0, tot)
            l = [g_h16(rng, True) for _ in range(nl)]; rr = [g_h16(rng, True) for _ in range(tot - nl)] + tail
            s = ':'.join(l) + '::' + ':'.join(rr)
        return s
    # malformed / boundary: 1..9 groups, any placement, counts off by one
    n = rng.randint(1, 9)
    gs = [g_h16(rng, rng.random() < 0.85) for _ in range(n)]
    if emb:
        pos = len(gs) if rng.random() < 0.8 else rng.randint(0, len(gs))
        gs.insert(pos, tail[0])
    k = rng.random()
    if k < 0.35:
        s = ':'.join(gs)
    else:
        i = rng.randint(0, len(gs))
        s = ':'.join(gs[:i]) + '::' + ':'.join(gs[i:])
        if k > 0.8:
            j = rng.randint(0, len(s))
            s = s[:j] + rng.choice(['::', ':', ':::']) + s[j:]
    return s

SCOPE_CH = 'abcxyz019_-.eth'
def g_scope(rng):
    n = rng.choice([0, 1, 2, 14, 15, 16, 17, rng.randint(0, 17)])
    pool = SCOPE_CH if rng.random() < 0.8 else SCOPE_CH + '%/ \n\x00é\U0001f600:'
    return ''.join(rng.choice(pool) for _ in range(n))

def g_v6_scoped(rng):
    s = g_v6(rng, rng.random() < 0.75)
    r = rng.random()
    if r < 0.6: return s + '%' + g_scope(rng)
    if r < 0.7: return s + '%' + g_scope(rng) + '%' + g_scope(rng)
    if r < 0.75: return '%' + g_scope(rng)
    return s

PREFIXES = ['0', '1', '8', '16', '24', '30', '31', '32', '33', '34', '64', '96', '127', '128', '129', '130', '-1', '-0', '', '256', '1000']
LENIENT = [' 8', '08', '008', '+8', '8 ', '٨', '1_0', '0x8', '8.0', '8e0', ' ', '\t8', '8\n', '255.255.255.0', '255.0.0.0', '0.0.0.255',
           '255.0.255.0', '255.255.255.255', '0.0.0.0', 'ffff::', 'ffff:ffff::', '::', '::ffff', 'a', '3 2', '32x', '８']
INT_DECOR = ['%s', '%s', '+%s', '-%s', ' %s', '%s ', '\t%s\n', '0%s', '000%s', '%s_0', '_%s', '%s_', '\u00a0%s', '%s\u2003', '\x1c%s', '%s\x1f', '%s\x00', '+ %s',
             '%s.0', '0x%s', '%se0', '%s/', '/%s', '%s/%s']
UDIG = ['0123456789', '\u0660\u0661\u0662\u0663\u0664\u0665\u0666\u0667\u0668\u0669', '\uff10\uff11\uff12\uff13\uff14\uff15\uff16\uff17\uff18\uff19',
        '\U0001d7ce\U0001d7cf\U0001d7d0\U0001d7d1\U0001d7d2\U0001d7d3\U0001d7d4\U0001d7d5\U0001d7d6\U0001d7d7']
def g_mask(rng, fam=None):
    """netmask / hostmask / neither, IPv4 or IPv6 (mostly the family of the address), with spelling variants"""
    v4 = (rng.random() < 0.55) if fam is None or rng.random() < 0.12 else (fam == 4)
    if v4:
        k = rng.randint(0, 32); v = ((1 << 32) - (1 << (32 - k))) if rng.random() < 0.5 else ((1 << k) - 1)
        if rng.random() < 0.2: v ^= 1 << rng.randrange(32)
        q = [str((v >> sh) & 255) for sh in (24, 16, 8, 0)]
        if rng.random() < 0.1: q[rng.randrange(4)] = rng.choice(['00', '0255', '256', '', '0x0', ' 0'])
        return '.'.join(q)
    k = rng.randint(0, 128); v = ((1 << 128) - (1 << (128 - k))) if rng.random() < 0.5 else ((1 << k) - 1)
    if rng.random() < 0.2: v ^= 1 << rng.randrange(128)
    a = ipaddress.IPv6Address(v)
    return rng.choice([a.compressed, a.exploded, a.compressed.upper(), a.compressed + rng.choice(['%1', ' ', ':', '/'])])

def g_prefix(rng, fam=None):
    r = rng.random()
    if r < 0.35: return rng.choice(PREFIXES)
    if r < 0.55: return str(rng.randint(-1, 129))
    if r < 0.70: return rng.choice(LENIENT)
    if r < 0.85: return g_mask(rng, fam)
    n = str(rng.choice([0, 8, 24, 32, 33, 64, 128, 129, rng.randint(0, 130)]))
    if rng.random() < 0.4:
        d = rng.choice(UDIG); n = ''.join(d[int(ch)] if rng.random() < 0.8 else ch for ch in n)
    f = rng.choice(INT_DECOR)
    return f % ((n,) * f.count('%s'))

def g_cidr(rng):
    r = rng.random()
    a = g_v4(rng, rng.random() < 0.8) if r < 0.5 else (g_v6(rng, rng.random() < 0.8) if r < 0.95 else g_v6_scoped(rng))
    k = rng.random()
    if k < 0.62: return a + '/' + g_prefix(rng, 4 if r < 0.5 else 6)
    if k < 0.70: return a
    if k < 0.76: return a + '/'
    if k < 0.82: return a + '//' + g_prefix(rng)
    if k < 0.88: return a + '/' + g_prefix(rng) + '/' + g_prefix(rng)
    if k < 0.91: return a + '/' + g_prefix(rng) + '/'
    if k < 0.94: return '/' + g_prefix(rng)
    if k < 0.97: return a + '/' + g_prefix(rng) + rng.choice(['\x00', '\n', ' ', '\ud800'])
    return rng.choice(['/', '//', '///', 'a/b', '1/8', '10/8', '127.1/8', '1.2.3/24', '0x7f.0.0.1/8', '10.0.0.0/8/8', '::/0/0', '\x00/8', '/\x00'])

SEPS = [':', '-', '.', '', ' ', '::', ';', '：', '/', '_']
def g_pair(rng):
    r = rng.random()
    if r < 0.85: return rng.choice(HEXD) + rng.choice(HEXD)
    return rng.choice(['g0', '0g', 'G0', '0', '000', '', ' 0', '0 ', 'İİ', 'ＡＡ', '١٢', 'KK', '0\n', '\x000', 'ȧ'])

def g_mac(rng):
    r = rng.random()
    n = 6 if r < 0.7 else rng.choice([5, 7, 6, rng.randint(1, 8)])
    pairs = [g_pair(rng) for _ in range(n)]
    if rng.random() < 0.75: seps = [':'] * (n - 1)
    elif rng.random() < 0.6: seps = [rng.choice(SEPS)] * (n - 1)
    else: seps = [rng.choice(SEPS) for _ in range(n - 1)]
    s = pairs[0] + ''.join(sp + p for sp, p in zip(seps, pairs[1:]))
    k = rng.random()
    if k < 0.08: s += '\n'
    elif k < 0.16: s += rng.choice(['\r\n', '\n\n', ' ', '\x00', ':', '\r', '\x0b', '\x1c', ' ', '\x85', '\n '])
    elif k < 0.2: s = rng.choice(['\n', ' ', ':', '\x00']) + s
    return s

ALPHA = string.printable
SPECIAL = '0123456789abcdefABCDEF::::....//%%  \n\x00é١\ud800\U0001f600İ１'
def g_noise(rng):
    n = rng.choice([0, 1, 2, 3, rng.randint(0, 25), rng.randint(0, 25)])
    pool = ALPHA if rng.random() < 0.6 else SPECIAL
    return ''.join(rng.choice(pool) for _ in range(n))

def mutate(rng, s):
    if not s: return rng.choice(SPECIAL)
    i = rng.randrange(len(s)); k = rng.random()
    ch = rng.choice(SPECIAL)
    if k < 0.35: return s[:i] + s[i + 1:]
    if k < 0.7: return s[:i] + ch + s[i + 1:]
    if k < 0.9: return s[:i] + ch + s[i:]
    return s[:i] + s[i] + s[i:]

def wrap(rng, s):
    k = rng.random()
    if k < 0.86: return s
    if k < 0.90: return s + rng.choice(['\n', ' ', '\x00', '\t', '.', ':', '/', '%', '\ud800', '\r\n'])
    if k < 0.93: return rng.choice(['\n', ' ', '\x00', '.', ':', '0', '[']) + s
    if k < 0.97: return mutate(rng, s)
    return s.upper() if rng.random() < 0.5 else '[' + s + ']'

FAMILY_OPS = {'v4': ['ipv4', 'ipv4_ns', 'ip', 'pton4', 'aton', 'na_aton'], 'aton': ['ipv4', 'ipv4_ns', 'ip', 'aton', 'na_aton'], 'v6': ['ipv6', 'ip', 'pton6'],
              'cidr': ['cidr', 'cidr6', 'net', 'net6'], 'mac': ['mac'], 'noise': STR_OPS}

def g_string(rng):
    r = rng.random()
    if r < 0.14: return 'v4', wrap(rng, g_v4(rng))
    if r < 0.24: return 'aton', g_aton(rng)
    if r < 0.40: return 'v6', wrap(rng, g_v6(rng))
    if r < 0.50: return 'v6', wrap(rng, g_v6_scoped(rng))
    if r < 0.72: return 'cidr', wrap(rng, g_cidr(rng))
    if r < 0.88: return 'mac', wrap(rng, g_mac(rng))
    return 'noise', g_noise(rng)

def str_cases(rng, fam, s, cross=0.2):
    for op in STR_OPS:
        if op in FAMILY_OPS[fam] or rng.random() < cross:
            yield {'op': op, 's': s}

INT_TEXT = ['', ' ', '-', '+', '--1', '1-', 'abc', '0x50', '0o7', '0b1', '80.0', '8e1', '1e3', 'None', 'True', '\x00', '1\x000', '١٢', '٦٥٥٣٥', '٦٥٥٣٦',
            '1_0', '6_5535', '6_5536', '_1', '1_', '1__0', '８０', 'inf', 'nan', '0.0', '-0', '+0', '00', '1 0', '1,0', '²', '①', '௧']
def g_int_case(rng, op):
    lo, hi = INT_OPS[op]
    r = rng.random()
    n = rng.choice([lo - 2, lo - 1, lo, lo + 1, lo + 2, hi - 2, hi - 1, hi, hi + 1, hi + 2, 255, 256, 65535, 65536, -255, -65535,
                    rng.randint(lo, hi), rng.randint(-70000, 140000), 10 ** 20, -10 ** 20, 2 ** 64, 2 ** 31 - 1])
    if r < 0.22: return {'op': op, 'kind': 'int', 'v': n}
    if r < 0.50: return {'op': op, 'kind': 'str', 'v': str(n)}
    if r < 0.72:
        t = str(n)
        f = rng.choice(['+%s', ' %s', '%s ', '\t%s\n', '00%s', '%s\n', '%s.0', '%s_0', '%s\x00', '0x%s', '%sL', ' %s ', '　%s', '%s\x1f', '- %s', '%s0', '%s٠', '+%s ', '%se0'])
        return {'op': op, 'kind': 'str', 'v': (f % t) if not (f.startswith('+') and t.startswith('-')) else '+' + t}
    if r < 0.90: return {'op': op, 'kind': 'str', 'v': rng.choice(INT_TEXT)}
    if r < 0.93: return {'op': op, 'kind': 'none', 'v': None}
    if r < 0.96: return {'op': op, 'kind': 'bool', 'v': rng.random() < 0.5}
    if r < 0.98: return {'op': op, 'kind': 'str', 'v': g_noise(rng)}
    return {'op': op, 'kind': 'str', 'v': rng.choice(['9', '1']) * rng.choice([30, 400, 4299, 4300, 4301, 5000])}

BOUNDARY = [
    ('v4', ['0.0.0.0', '255.255.255.255', '256.0.0.0', '0.0.0.256', '1.2.3', '1.2.3.4.5', '1.2.3.4.', '.1.2.3.4', '1..2.3', '01.2.3.4', '1.2.3.04',
            '1.2.3.00', '0x7f.0.0.1', '0177.0.0.1', '127.1', '1', '2130706433', '1.2.3.4 ', ' 1.2.3.4', '1.2.3.4\n', '1.2.3.4\x00', '\x001.2.3.4',
            '1.2.3.4 x', '1.2.3.4\tx', '١.2.3.4', '1.2.3.4\ud800', '1.2.3.-1', '1.2.3.+4', '1.2.3.4:', ':1.2.3.4', '', ' ', '.', '...', '1.2.3.0004']),
    ('aton', ['1', '0', '4294967295', '4294967296', '1.2', '1.16777215', '1.16777216', '1.2.3', '1.2.65535', '1.2.65536', '1.2.3.4', '1.2.3.255', '1.2.3.256',
              '256.1', '255.1', '1.256.1', '1.2.3.4.5', '0x7f.1', '0x7f.0.0.1', '0X7F000001', '0x100000000', '017700000001', '0177.0.0.01', '08', '0.08', '1.2.3.08',
              '0x', '0x.1', '1.0x', '00', '00.00.00.00', '0x0.0x0.0x0.0x0', '1.2.3.4 ', '1.2.3.4\t', '1.2.3.4\n', '1.2.3.4\x0b', '1.2.3.4\x0c', '1.2.3.4\r', '1.2.3.4 x',
              '1.2.3.4 \x00', '1.2.3.4\x1c', '1.2.3.4\x85', '1.2.3.4\u00a0', '1.2.3.4x', '1.2.3.4.', '1.', '.1', '1..2', ' 1.2.3.4', '+1', '-1', '1.2.3.4 :', '1 2', '1\n2',
              '1.2.3.4 \ud800', '1.2.3.4 \u00e9', '99999999999999999999', '0x1.0x2.0x3.0x4', '1.2.0x10000', '1.2.0xffff', '0xffffffff', '0377.0377.0377.0377', '0400.1']),
    ('v6', ['::', '::1', '1::', ':', ':::', '1:2:3:4:5:6:7:8', '1:2:3:4:5:6:7', '1:2:3:4:5:6:7:8:9', '1:2:3:4:5:6:7::', '::2:3:4:5:6:7:8',
            '1::3:4:5:6:7:8', '1:2:3:4:5:6:7::8', '1:2:3:4:5:6:7:8::', '::1:2:3:4:5:6:7:8', ':1:2:3:4:5:6:7', '1:2:3:4:5:6:7:', '1:2:3:4:5:6:1.2.3.4',
            '::1.2.3.4', '1::1.2.3.4', '1:2:3:4:5::1.2.3.4', '1:2:3:4:5:6::1.2.3.4', '::1:2:3:4:5:1.2.3.4', '::1:2:3:4:5:6:1.2.3.4',
            '1:2:3:4:5:6:7:1.2.3.4', '1:2:3:4:5:1.2.3.4', '::01.2.3.4', '::1.2.3.4:', '1.2.3.4::', '::1.2.3.4:1', '1.2.3.4:1::', '12345::', '::g',
            '::ffff:1.2.3.4', '1:::2', '::1::', '1::2::3', '0:0:0:0:0:0:0:0', '00000::', '::00001', '::1.2.3', '::1.2.3.4.5', '::1.2.3.256',
            'ABCD::abcd', '::\x00', '::1 ', ' ::1', '::1\n', '[::1]', '::a.2.3.4', '::1234.2.3.4', '::255.2.3.4', 'fe80::1%eth0', 'fe80::1%',
            'fe80::1%' + 'a' * 15, 'fe80::1%' + 'a' * 16, 'fe80::1%a%b', 'fe80::1%%', '%eth0', '%', 'fe80::1%\x00', 'fe80::1%\n', 'fe80::1%/64',
            '::%1', '1:2:3:4:5:6:7:8%1', 'ffff:ffff:ffff:ffff:ffff:ffff:ffff:ffff%' + 'a' * 15, 'ffff:ffff:ffff:ffff:ffff:ffff:255.255.255.255%' + 'b' * 15,
            'ffff:ffff:ffff:ffff:ffff:ffff:255.255.255.255', '0000:0000:0000:0000:0000:0000:0000:0000%x', 'ABCD:ABCD:ABCD:ABCD:ABCD:ABCD:192.168.100.200%eth0', '::1.2.3.4%1', '١::', '::١', 'ffff:ffff:ffff:ffff:ffff:ffff:ffff:ffff', '1:2:3:4:5:6:7:8\ud800']),
    ('cidr', ['10.0.0.0/8', '10.0.0.0/0', '10.0.0.0/32', '10.0.0.0/33', '10.0.0.0/-1', '10.0.0.0', '10.0.0.0/', '10.0.0.0//', '10.0.0.0//8',
              '10.0.0.0/8/8', '10.0.0.0/8/', '/8', '/', '', '::/0', '::/128', '::/129', '::/-1', '::', '::/', '::/64/64', '::1/128', '1::/ffff::',
              '10.0.0.0/255.0.0.0', '10.0.0.0/0.0.0.255', '10.0.0.0/255.0.255.0', '10.0.0.0/ 8', '10.0.0.0/08', '10.0.0.0/+8', '10.0.0.0/8 ',
              '10.0.0.0/٨', '10.0.0.0/1_0', '10.0.0.0/8\x00', '\x00', '10.0.0.0\x00/8', '10/8', '1.2.3/24', '010.0.0.0/8', '0x10.0.0.0/8',
              '::ffff:1.2.3.4/96', '::ffff:1.2.3.4/129', '1.2.3.4/::', '::/1.2.3.4', 'fe80::1%eth0/64', '\ud800/8', '1.2.3.4/\ud800', '10.0.0.0/8\n',
              '10.0.0.0/32/', '10.0.0.0/-0', '::/-0', '10.0.0.0/0x8', '127.0.0.1', 'foo', '2600::/64', '2600::']),
    ('mac', ['aa:bb:cc:dd:ee:ff', 'AA:BB:CC:DD:EE:FF', 'aA:bB:cC:dD:eE:fF', '00:00:00:00:00:00', 'aa:bb:cc:dd:ee:ff\n', 'aa:bb:cc:dd:ee:ff\n\n',
             'aa:bb:cc:dd:ee:ff\r\n', 'aa:bb:cc:dd:ee:ff ', 'aa:bb:cc:dd:ee', 'aa:bb:cc:dd:ee:ff:00', 'aa-bb-cc-dd-ee-ff', 'aabb.ccdd.eeff', 'aabbccddeeff',
             'aa:bb:cc:dd:ee:fg', 'aa:bb:cc:dd:ee:f', 'aa:bb:cc:dd:ee:fff', 'a:bb:cc:dd:ee:ff', ':aa:bb:cc:dd:ee:ff', 'aa:bb:cc:dd:ee:ff:', 'aa::bb:cc:dd:ee:ff',
             '\naa:bb:cc:dd:ee:ff', ' aa:bb:cc:dd:ee:ff', 'aa:bb:cc:dd:ee:ff\x00', 'İa:bb:cc:dd:ee:ff', 'aa:bb:cc:dd:ee:ｆｆ', '', '\n', 'aa:bb:cc:dd:ee:ff\x0b',
             'aa:bb:cc:dd:ee:ff\x1c', 'aa:bb:cc:dd:ee:ff\x85', 'aa:bb:cc:dd:ee:ff ', 'aa:bb:cc\n:dd:ee:ff', 'ȧa:bb:cc:dd:ee:ff']),
]

def small_scope(alphabet, maxlen):
    level = ['']
    for _ in range(maxlen):
        level = [p + ch for p in level for ch in alphabet]
        for s in level: yield s

def gen_cases(rng, tier):
    thorough = tier != 'quick'
    # boundary values first
    for fam, lst in BOUNDARY:
        for s in lst:
            for op in STR_OPS:
                yield {'op': op, 's': s}
    for op, (lo, hi) in INT_OPS.items():
        for n in (lo - 1, lo, lo + 1, hi - 1, hi, hi + 1):
            yield {'op': op, 'kind': 'int', 'v': n}
            yield {'op': op, 'kind': 'str', 'v': str(n)}
        for t in INT_TEXT: yield {'op': op, 'kind': 'str', 'v': t}
        yield {'op': op, 'kind': 'none', 'v': None}
        yield {'op': op, 'kind': 'bool', 'v': True}
        yield {'op': op, 'kind': 'bool', 'v': False}
    # structured, mostly valid + malformed stream
    n = 9000 if not thorough else 260000
    for _ in range(n):
        fam, s = g_string(rng)
        yield from str_cases(rng, fam, s, 0.2 if not thorough else 0.3)
    # single-character mutations of valid values (the boundary of each language)
    for _ in range(1500 if not thorough else 40000):
        r = rng.random()
        if r < 0.3: fam, s = 'v4', mutate(rng, g_v4(rng, True))
        elif r < 0.65: fam, s = 'v6', mutate(rng, g_v6(rng, True) + ('' if rng.random() < 0.7 else '%' + g_scope(rng)))
        elif r < 0.85: fam, s = 'cidr', mutate(rng, (g_v4(rng, True) if rng.random() < 0.5 else g_v6(rng, True)) + '/' + str(rng.randint(0, 129)))
        else: fam, s = 'mac', mutate(rng, ':'.join(rng.choice(HEXD) + rng.choice(HEXD) for _ in range(6)))
        yield from str_cases(rng, fam, s, 0.1)
    for _ in range(2500 if not thorough else 60000):
        yield g_int_case(rng, rng.choice(list(INT_OPS)))
    # exhaustive short strings over small alphabets
    for alpha, ml, ops in (('01:.', 5 if not thorough else 8, ['pton4', 'pton6', 'ipv6']),
                           ('1f:', 6 if not thorough else 10, ['pton6']),
                           ('25.', 6 if not thorough else 10, ['pton4', 'ipv4']),
                           ('1:/%', 5 if not thorough else 8, ['cidr', 'cidr6', 'ipv6', 'ip'])):
        for s in small_scope(alpha, ml):
            for op in ops: yield {'op': op, 's': s}

def search(rng, budget):
    """extra cases when a proof or the correspondence is broken: boundary-heavy streams for every operation"""
    for fam, lst in BOUNDARY:
        for s in lst:
            for op in STR_OPS: yield {'op': op, 's': s}
            for _ in range(3):
                m = mutate(rng, s)
                for op in FAMILY_OPS[fam]: yield {'op': op, 's': m}
    # scope ids of every length 0..20, prefixes -2..131, every range end
    for n in range(0, 21):
        for a in ('fe80::1', '::', '1:2:3:4:5:6:7:8'):
            yield {'op': 'ipv6', 's': a + '%' + 'a' * n}
            yield {'op': 'ip', 's': a + '%' + 'a' * n}
    for p in range(-2, 132):
        for a in ('10.0.0.0', '::', '1.2.3.4', '1::'):
            yield {'op': 'cidr', 's': '%s/%d' % (a, p)}
            yield {'op': 'cidr6', 's': '%s/%d' % (a, p)}
    for op, (lo, hi) in INT_OPS.items():
        for n in list(range(lo - 3, lo + 4)) + list(range(hi - 3, hi + 4)):
            yield {'op': op, 'kind': 'int', 'v': n}
            yield {'op': op, 'kind': 'str', 'v': str(n)}
        yield {'op': op, 'kind': 'none', 'v': None}
    i = 0
    while i < budget:
        fam, s = g_string(rng)
        for c in str_cases(rng, fam, s, 0.3):
            i += 1; yield c
        i += 1; yield g_int_case(rng, rng.choice(list(INT_OPS)))
